package c12

import (
	"bytes"
	"context"
	"crypto/ed25519"
	"fmt"
	"io"
	"math"
	"reflect"
	"strings"
	"unicode/utf8"

	"github.com/libp2p/go-libp2p/core/crypto"
	"google.golang.org/protobuf/encoding/protowire"
	"google.golang.org/protobuf/proto"

	"verifharness/hx"

	"github.com/evstack/ev-node/block"
	storepkg "github.com/evstack/ev-node/pkg/store"
	"github.com/evstack/ev-node/types"
	pb "github.com/evstack/ev-node/types/pb/evnode/v1"
)

// ---- canonical rendering shared with lean/Drv/C12.lean ----

func showHeader(h *types.Header) string {
	return fmt.Sprintf("vb=%d va=%d h=%d t=%d lhh=%s lch=%s dh=%s ch=%s ah=%s lrh=%s pa=%s vh=%s cid=%s",
		h.Version.Block, h.Version.App, h.BaseHeader.Height, h.BaseHeader.Time, hx.Hex(h.LastHeaderHash), hx.Hex(h.LastCommitHash),
		hx.Hex(h.DataHash), hx.Hex(h.ConsensusHash), hx.Hex(h.AppHash), hx.Hex(h.LastResultsHash), hx.Hex(h.ProposerAddress),
		hx.Hex(h.ValidatorHash), hx.Hex([]byte(h.BaseHeader.ChainID)))
}
func showMeta(m *types.Metadata) string {
	return fmt.Sprintf("mcid=%s mh=%d mt=%d mldh=%s", hx.Hex([]byte(m.ChainID)), m.Height, m.Time, hx.Hex(m.LastDataHash))
}
func txBytes(txs types.Txs) [][]byte {
	out := make([][]byte, len(txs))
	for i := range txs {
		out[i] = txs[i]
	}
	return out
}
func showData(d *types.Data) string {
	s := "meta=0"
	if d.Metadata != nil {
		s = "meta=1 " + showMeta(d.Metadata)
	}
	return s + " txs=" + hx.HexList(txBytes(d.Txs))
}
func showSigner(s *types.Signer) string {
	var pk []byte
	if s.PubKey != nil {
		pk, _ = crypto.MarshalPublicKey(s.PubKey)
	}
	return fmt.Sprintf("sa=%s pk=%s", hx.Hex(s.Address), hx.Hex(pk))
}

func headerArgs(h *types.Header) string { return showHeader(h) }

// ---- nil vs empty: an op says which EMPTY slices of the Go value are non-nil (`ne=<field names>`; every other
// empty slice is nil) and which (empty) transactions are nil (`nt=<indices>`; every other empty transaction is
// `Tx{}`); `ne=txs` makes an empty transaction list `Txs{}` instead of nil. Lean: Drv.C12.goField / goTxs.

func neSet(o hx.Op) map[string]bool {
	m := map[string]bool{}
	for _, k := range strings.Split(o.Str("ne"), ",") {
		if k != "" && k != "-" {
			m[k] = true
		}
	}
	return m
}

// gb: the bytes of field k with the nil-ness the op asks for
func gb(o hx.Op, k string) []byte {
	b := o.Bytes(k)
	if len(b) == 0 {
		if neSet(o)[k] {
			return []byte{}
		}
		return nil
	}
	return b
}

// neOf lists the fields of a value that are empty but not nil (the `ne=` argument of its op)
func neOf(fields map[string][]byte, extra ...string) string {
	var out []string
	for k, b := range fields {
		if b != nil && len(b) == 0 {
			out = append(out, k)
		}
	}
	out = append(out, extra...)
	if len(out) == 0 {
		return ""
	}
	sortStrings(out)
	return " ne=" + strings.Join(out, ",")
}
func sortStrings(a []string) {
	for i := 1; i < len(a); i++ {
		for j := i; j > 0 && a[j] < a[j-1]; j-- {
			a[j], a[j-1] = a[j-1], a[j]
		}
	}
}
func headerSlices(h *types.Header) map[string][]byte {
	return map[string][]byte{"lhh": h.LastHeaderHash, "lch": h.LastCommitHash, "dh": h.DataHash, "ch": h.ConsensusHash,
		"ah": h.AppHash, "lrh": h.LastResultsHash, "pa": h.ProposerAddress, "vh": h.ValidatorHash}
}
func dataSlices(d *types.Data) (map[string][]byte, []string, string) {
	m := map[string][]byte{}
	if d.Metadata != nil {
		m["mldh"] = d.Metadata.LastDataHash
	}
	var extra []string
	if d.Txs != nil && len(d.Txs) == 0 {
		extra = append(extra, "txs")
	}
	var nt []string
	for i, t := range d.Txs {
		if t == nil {
			nt = append(nt, fmt.Sprint(i))
		}
	}
	nts := ""
	if len(nt) > 0 {
		nts = " nt=" + strings.Join(nt, ",")
	}
	return m, extra, nts
}
func merge(a map[string][]byte, b map[string][]byte) map[string][]byte {
	for k, v := range b {
		a[k] = v
	}
	return a
}
func b01(b bool) string {
	if b {
		return "1"
	}
	return "0"
}

func headerOfOp(o hx.Op) types.Header {
	return types.Header{
		Version:         types.Version{Block: u(o, "vb"), App: u(o, "va")},
		BaseHeader:      types.BaseHeader{Height: u(o, "h"), Time: u(o, "t"), ChainID: string(o.Bytes("cid"))},
		LastHeaderHash:  gb(o, "lhh"),
		LastCommitHash:  gb(o, "lch"),
		DataHash:        gb(o, "dh"),
		ConsensusHash:   gb(o, "ch"),
		AppHash:         gb(o, "ah"),
		LastResultsHash: gb(o, "lrh"),
		ProposerAddress: gb(o, "pa"),
		ValidatorHash:   gb(o, "vh"),
	}
}
func u(o hx.Op, k string) uint64 { n, _ := o.U64(k); return n }
func metaOfOp(o hx.Op) *types.Metadata {
	return &types.Metadata{ChainID: string(o.Bytes("mcid")), Height: u(o, "mh"), Time: u(o, "mt"), LastDataHash: gb(o, "mldh")}
}
func dataOfOp(o hx.Op) types.Data {
	d := types.Data{}
	if o.Bool("meta") {
		d.Metadata = metaOfOp(o)
	}
	nt := map[int]bool{}
	for _, k := range strings.Split(o.Str("nt"), ",") {
		var i int
		if _, err := fmt.Sscanf(k, "%d", &i); err == nil {
			nt[i] = true
		}
	}
	l := o.List("txs")
	if len(l) == 0 && neSet(o)["txs"] {
		d.Txs = types.Txs{}
	}
	for i, t := range l {
		if len(t) == 0 {
			if nt[i] {
				d.Txs = append(d.Txs, nil)
			} else {
				d.Txs = append(d.Txs, types.Tx{})
			}
			continue
		}
		d.Txs = append(d.Txs, types.Tx(t))
	}
	return d
}
func signerOfOp(o hx.Op) types.Signer {
	s := types.Signer{Address: gb(o, "sa")}
	if pk := o.Bytes("pk"); len(pk) > 0 {
		k, err := crypto.UnmarshalPublicKey(pk)
		if err == nil {
			s.PubKey = k
		}
	}
	return s
}

// deterministic ed25519 key from a seed byte
func detKey(seed byte) (crypto.PrivKey, crypto.PubKey) {
	sd := bytes.Repeat([]byte{seed}, ed25519.SeedSize)
	priv, pub, err := crypto.GenerateEd25519Key(bytes.NewReader(sd))
	if err != nil {
		panic(err)
	}
	return priv, pub
}

// keyOK: does libp2p accept the public key carried in field 3 (Signer) / 2 (pub_key) of this message?
// This is the oracle for the third-party key parser, which the Lean model takes as a parameter.
func keyOK(b []byte) bool {
	var sh pb.SignedHeader // SignedHeader and SignedData share the field layout for signer
	if err := proto.Unmarshal(b, &sh); err != nil {
		var sd pb.SignedData
		if err2 := proto.Unmarshal(b, &sd); err2 != nil || sd.Signer == nil {
			return false
		}
		_, err := crypto.UnmarshalPublicKey(sd.Signer.PubKey)
		return err == nil
	}
	if sh.Signer == nil || len(sh.Signer.PubKey) == 0 {
		// maybe it only parses as SignedData
		var sd pb.SignedData
		if err2 := proto.Unmarshal(b, &sd); err2 == nil && sd.Signer != nil && len(sd.Signer.PubKey) > 0 {
			_, err := crypto.UnmarshalPublicKey(sd.Signer.PubKey)
			return err == nil
		}
		return false
	}
	_, err := crypto.UnmarshalPublicKey(sh.Signer.PubKey)
	return err == nil
}

// ---- generator ----

// rbytes: a byte string of one of the given lengths; a zero-length one is nil three times out of four and an
// empty non-nil slice otherwise (the two are different Go values with the same encoding)
func rbytes(r *hx.Rng, choices ...int) []byte {
	n := choices[r.Intn(len(choices))]
	if n == 0 {
		if r.Intn(4) == 0 {
			return []byte{}
		}
		return nil
	}
	return r.Bytes(n)
}
func ru64(r *hx.Rng) uint64 {
	switch r.Intn(6) {
	case 0:
		return 0
	case 1:
		return math.MaxUint64
	case 2:
		return uint64(r.Intn(300))
	case 3:
		return 1 << uint(r.Intn(64))
	default:
		return r.U64()
	}
}

// badChains: Go strings that are not UTF-8 (a Go string may hold any bytes; protobuf-go refuses them on marshal)
var badChains = []string{"\xff", "chain-\xc3", "\xed\xa0\x80", "a\xf8\x88\x80\x80\x80", "\xc0\xaf"}

func rchain(r *hx.Rng) string {
	switch r.Intn(12) {
	case 0, 1:
		return ""
	case 2, 3:
		return "chain-é-世界"
	case 4:
		return badChains[r.Intn(len(badChains))]
	default:
		return fmt.Sprintf("chain-%d", r.Intn(1000))
	}
}
func rheader(r *hx.Rng) types.Header {
	return types.Header{
		Version:         types.Version{Block: ru64(r), App: ru64(r)},
		BaseHeader:      types.BaseHeader{Height: ru64(r), Time: ru64(r), ChainID: rchain(r)},
		LastHeaderHash:  rbytes(r, 0, 32, 32, 1),
		LastCommitHash:  rbytes(r, 0, 0, 32),
		DataHash:        rbytes(r, 0, 32, 32),
		ConsensusHash:   rbytes(r, 0, 32),
		AppHash:         rbytes(r, 0, 32, 12, 200),
		LastResultsHash: rbytes(r, 0, 0, 32),
		ProposerAddress: rbytes(r, 0, 32, 20),
		ValidatorHash:   rbytes(r, 0, 32),
	}
}
func rmeta(r *hx.Rng) *types.Metadata {
	return &types.Metadata{ChainID: rchain(r), Height: ru64(r), Time: ru64(r), LastDataHash: rbytes(r, 0, 32)}
}
func rdata(r *hx.Rng, maxTx int) types.Data {
	d := types.Data{}
	if r.Chance(60) {
		d.Metadata = rmeta(r)
	}
	n := 0
	switch r.Intn(5) {
	case 0:
		n = 0
	case 1:
		n = 1
	default:
		n = r.Intn(maxTx + 1)
	}
	if n == 0 && r.Bool() {
		d.Txs = types.Txs{} // empty but not nil
	}
	for i := 0; i < n; i++ {
		d.Txs = append(d.Txs, types.Tx(rbytes(r, 0, 1, 3, 40, 130, 300)))
	}
	return d
}

func dataArgs(d *types.Data) string { return showData(d) }

// the nil-ness arguments of the ops
func headerNe(h *types.Header) string { return neOf(headerSlices(h)) }
func metaNe(m *types.Metadata) string {
	return neOf(map[string][]byte{"mldh": m.LastDataHash})
}
func dataNe(d *types.Data) string {
	m, extra, nt := dataSlices(d)
	return neOf(m, extra...) + nt
}
func shNe(sh *types.SignedHeader) string {
	return neOf(merge(headerSlices(&sh.Header), map[string][]byte{"sig": sh.Signature, "sa": sh.Signer.Address}))
}
func sdNe(sd *types.SignedData) string {
	m, extra, nt := dataSlices(&sd.Data)
	return neOf(merge(m, map[string][]byte{"sig": sd.Signature, "sa": sd.Signer.Address}), extra...) + nt
}

func mutate(r *hx.Rng, b []byte) []byte {
	b = append([]byte(nil), b...)
	switch r.Intn(9) {
	case 0: // truncate
		if len(b) > 0 {
			b = b[:r.Intn(len(b))]
		}
	case 1: // flip one byte
		if len(b) > 0 {
			b[r.Intn(len(b))] ^= byte(1 << uint(r.Intn(8)))
		}
	case 2: // random byte
		if len(b) > 0 {
			b[r.Intn(len(b))] = byte(r.U64())
		}
	case 3: // append an unknown field
		num := protowire.Number(13 + r.Intn(2000))
		switch r.Intn(5) {
		case 0:
			b = protowire.AppendTag(b, num, protowire.VarintType)
			b = protowire.AppendVarint(b, r.U64())
		case 1:
			b = protowire.AppendTag(b, num, protowire.Fixed64Type)
			b = protowire.AppendFixed64(b, r.U64())
		case 2:
			b = protowire.AppendTag(b, num, protowire.BytesType)
			b = protowire.AppendBytes(b, r.Bytes(r.Intn(5)))
		case 3:
			b = protowire.AppendTag(b, num, protowire.Fixed32Type)
			b = protowire.AppendFixed32(b, uint32(r.U64()))
		case 4: // a group holding one varint
			b = protowire.AppendTag(b, num, protowire.StartGroupType)
			b = protowire.AppendTag(b, 1, protowire.VarintType)
			b = protowire.AppendVarint(b, 7)
			b = protowire.AppendTag(b, num, protowire.EndGroupType)
		}
	case 4: // absurd length field
		b = protowire.AppendTag(b, protowire.Number(1+r.Intn(12)), protowire.BytesType)
		b = protowire.AppendVarint(b, 1<<uint(20+r.Intn(43)))
	case 5: // known field number with another wire type
		b = protowire.AppendTag(b, protowire.Number(1+r.Intn(12)), protowire.VarintType)
		b = protowire.AppendVarint(b, r.U64())
	case 6: // duplicate the whole message (merge semantics)
		b = append(b, b...)
	case 7: // prepend a known scalar field again (last one wins)
		p := protowire.AppendTag(nil, protowire.Number(2+r.Intn(2)), protowire.VarintType)
		p = protowire.AppendVarint(p, r.U64())
		if r.Bool() {
			b = append(p, b...)
		} else {
			b = append(b, p...)
		}
	case 8: // insert random bytes
		pos := r.Intn(len(b) + 1)
		ins := r.Bytes(1 + r.Intn(4))
		b = append(b[:pos], append(ins, b[pos:]...)...)
	}
	return b
}

func minInt(a, b int) int {
	if a < b {
		return a
	}
	return b
}

func genC12(r *hx.Rng, tier string, w io.Writer) {
	n, cacheEvery := 400, 4
	if tier == "thorough" {
		n, cacheEvery = 5000, 8 // every cache save fsyncs four files
	}
	fmt.Fprintln(w, "reset")
	// fixed (golden) values first
	for _, g := range goldenOps() {
		fmt.Fprintln(w, g)
	}
	// two messages decoded into ONE receiver, a struct copy of the first result kept (reuse.go): fixed pairs
	reuseFixed(w)
	// the known finding C12/hash/data-hash-ignores-marshal-error, deliberately: a chain id that is not UTF-8
	{
		d := types.Data{Metadata: &types.Metadata{ChainID: "\xff", Height: 5, Time: 7, LastDataHash: []byte{9}}, Txs: types.Txs{types.Tx("a")}}
		fmt.Fprintln(w, "enc-data", dataArgs(&d)+dataNe(&d))
		h := types.Header{BaseHeader: types.BaseHeader{ChainID: "\xff", Height: 5}}
		fmt.Fprintln(w, "enc-header", headerArgs(&h)+headerNe(&h))
	}
	if tier == "thorough" {
		// one cache file beyond any plausible read buffer: 72 MiB of items (the thorough tier can afford it)
		fmt.Fprintln(w, "cache-big n=72 size=1048576")
	}
	// every scenario has its own genuine signer (even key seed) and a foreign key (odd seed): package-level state
	// of the code under test, if there is any, has not met the signer before
	var priv crypto.PrivKey
	var pub, foreign crypto.PubKey
	var addr []byte
	var prevSrcs map[string][]byte
	for i := 0; i < n; i++ {
		if i%50 == 0 {
			fmt.Fprintln(w, "recheck")
			fmt.Fprintln(w, "reset")
			scen := i / 50
			priv, pub = detKey(byte(10 + 2*(scen%100)))
			_, foreign = detKey(byte(11 + 2*(scen%100)))
			addr = types.KeyAddress(pub)
			if scen%2 == 0 { // junk naming the genuine signer's address with the foreign key BEFORE any genuine message
				junkLines(r, w, addr, foreign)
			}
		}
		if i%50 == 25 { // … and in the middle of the genuine ones
			junkLines(r, w, addr, foreign)
		}
		h := rheader(r)
		d := rdata(r, 12)
		if i%97 == 0 {
			d = rdata(r, 400) // many txs
		}
		var hb, mb, db, shb, sdb, stb []byte
		hb, _ = h.MarshalBinary()
		fmt.Fprintln(w, "enc-header", headerArgs(&h)+headerNe(&h))
		m := rmeta(r)
		mb, _ = m.MarshalBinary()
		fmt.Fprintln(w, "enc-meta", showMeta(m)+metaNe(m))
		db, _ = d.MarshalBinary()
		fmt.Fprintln(w, "enc-data", dataArgs(&d)+dataNe(&d))
		// signed header: genuine signature in most cases, signer variants
		sh := types.SignedHeader{Header: h}
		variant := r.Intn(5)
		switch variant {
		case 0: // no signer, no signature
			if r.Intn(4) == 0 {
				sh.Signature = types.Signature{} // empty, not nil
			}
		case 1: // address but no key (the code collapses this)
			sh.Signer = types.Signer{Address: addr}
			sh.Signature = r.Bytes(64)
		default:
			sh.Header.ProposerAddress = addr
			sh.Signer = types.Signer{PubKey: pub, Address: addr}
			pl, _ := sh.Header.MarshalBinary()
			sh.Signature, _ = priv.Sign(pl)
			if r.Intn(8) == 0 {
				sh.Signer.Address = rbytes(r, 0, 0, 3) // a key with an absent / empty / other address
			}
		}
		shb, _ = sh.MarshalBinary()
		shLine := fmt.Sprintf("%s sig=%s %s%s", headerArgs(&sh.Header), hx.Hex(sh.Signature), showSigner(&sh.Signer), shNe(&sh))
		fmt.Fprintln(w, "enc-sh", shLine)
		sd := types.SignedData{Data: d}
		if variant >= 2 {
			sd.Signer = types.Signer{PubKey: pub, Address: addr}
			pl, _ := d.MarshalBinary()
			sd.Signature, _ = priv.Sign(pl)
		} else if variant == 1 {
			sd.Signer = types.Signer{Address: addr}
		}
		sdb, _ = sd.MarshalBinary()
		sdLine := fmt.Sprintf("%s sig=%s %s%s", dataArgs(&d), hx.Hex(sd.Signature), showSigner(&sd.Signer), sdNe(&sd))
		fmt.Fprintln(w, "enc-sd", sdLine)
		// state (types.State <-> pb.State, the store's UpdateState / GetState)
		st, loc := rstate(r)
		if p, err := st.ToProto(); err == nil {
			stb, _ = proto.Marshal(p)
		}
		fmt.Fprintln(w, "enc-state", stateArgs(&st, loc))
		// cache files: the REAL pkg/cache SaveToDisk / LoadFromDisk (every 4th value; each save fsyncs four files)
		if i%cacheEvery == 1 {
			fmt.Fprintf(w, "cache-sh k=%d %s keyok=1\n", sh.Height(), shLine)
			fmt.Fprintf(w, "cache-data k=%d %s\n", ru64(r), dataArgs(&d)+dataNe(&d))
		}
		if i%4 == 3 {
			genCacheLoad(r, w, &sh, &d)
		}
		if i%100 == 7 {
			fmt.Fprintf(w, "cache-trunc kind=sh k=%d %s keyok=1\n", sh.Height(), shLine)
			fmt.Fprintf(w, "cache-trunc kind=data k=3 %s\n", dataArgs(&d)+dataNe(&d))
		}
		// wire forms the node's own encoder never produces: a signer with an address but no public key
		if i%4 == 0 {
			hp := sh.Header.ToProto()
			raw, _ := proto.Marshal(&pb.SignedHeader{Header: hp, Signature: r.Bytes(64), Signer: &pb.Signer{Address: addr}})
			fmt.Fprintf(w, "dec-sh b=%s keyok=0\n", hx.Hex(raw))
			raw2, _ := proto.Marshal(&pb.SignedData{Data: d.ToProto(), Signature: r.Bytes(64), Signer: &pb.Signer{Address: addr}})
			fmt.Fprintf(w, "dec-sd b=%s keyok=0\n", hx.Hex(raw2))
			// timestamps no encoder of the node produces: nanos negative, beyond 10^9, beyond int32; extreme seconds
			fmt.Fprintf(w, "dec-state b=%s\n", hx.Hex(weirdStateBytes(r)))
		}
		// batch-cursor list codec (block/manager.go convertBatchDataToBytes / bytesToBatchData)
		{
			var l [][]byte
			for k := 0; k < r.Intn(4); k++ {
				l = append(l, r.Bytes([]int{0, 1, 5, 40}[r.Intn(4)]))
			}
			fmt.Fprintf(w, "bd-enc list=%s\n", hx.HexList(l))
			enc := block.VerifBatchDataToBytes(l)
			switch r.Intn(5) {
			case 0:
			case 1:
				if len(enc) > 0 {
					enc = enc[:len(enc)-1-r.Intn(minInt(len(enc), 8))]
				}
			case 2:
				enc = mutate(r, enc)
			case 3:
				enc = r.Bytes(r.Intn(12))
			default:
				if len(enc) > 3 {
					enc[r.Intn(4)] ^= byte(1 << uint(r.Intn(8)))
				}
			}
			if len(enc) < 3000 {
				fmt.Fprintf(w, "bd-dec b=%s\n", hx.Hex(enc))
			}
		}
		// decoders: valid bytes, mutated bytes, wrong message type
		srcs := map[string][]byte{"header": hb, "meta": mb, "data": db, "sh": shb, "sd": sdb, "state": stb}
		ks := []string{"header", "meta", "data", "sh", "sd", "state"}
		// this value and the previous one of the scenario decoded into one receiver (no random draws: reuse.go)
		if i%50 == 12 && prevSrcs != nil {
			genReusePair(w, prevSrcs, srcs, i/50)
		}
		prevSrcs = srcs
		for _, dec := range ks {
			in := srcs[dec]
			switch r.Intn(6) {
			case 0:
				// unchanged
			case 1: // wrong message type
				in = srcs[ks[r.Intn(len(ks))]]
			case 2:
				in = mutate(r, mutate(r, in))
			case 3:
				if r.Chance(10) {
					in = nil
				} else if r.Chance(20) {
					in = r.Bytes(r.Intn(40))
				} else {
					in = mutate(r, in)
				}
			default:
				in = mutate(r, in)
			}
			if len(in) > 6000 {
				continue
			}
			extra := ""
			if dec == "sh" || dec == "sd" {
				if keyOK(in) {
					extra = " keyok=1"
				} else {
					extra = " keyok=0"
				}
			}
			fmt.Fprintf(w, "dec-%s b=%s%s\n", dec, hx.Hex(in), extra)
		}
	}
	fmt.Fprintln(w, "recheck")
}

// goldenOps: the fixed values whose exact bytes and hashes are pinned in /verif/golden/C12.lean (facts.go)
func goldenOps() []string {
	h, d, sh, sd := GoldenValues()
	e := types.Data{}
	h0 := types.Header{}
	hf := GoldenFullHeader()
	out := []string{
		"enc-header " + headerArgs(&h),
		"enc-header " + headerArgs(&h0),
		"enc-header " + headerArgs(&hf),
		"enc-data " + dataArgs(&d),
		"enc-data " + dataArgs(&e),
		"enc-meta " + showMeta(d.Metadata),
		fmt.Sprintf("enc-sh %s sig=%s %s", headerArgs(&sh.Header), hx.Hex(sh.Signature), showSigner(&sh.Signer)),
		fmt.Sprintf("enc-sd %s sig=%s %s", dataArgs(&sd.Data), hx.Hex(sd.Signature), showSigner(&sd.Signer)),
		fmt.Sprintf("cache-sh k=7 %s sig=%s %s keyok=1", headerArgs(&sh.Header), hx.Hex(sh.Signature), showSigner(&sh.Signer)),
		"cache-data k=7 " + dataArgs(&d),
	}
	for _, s := range GoldenStates() {
		s := s
		out = append(out, "enc-state "+stateArgs(&s, "utc"))
	}
	return out
}

// ---- executor + monitors ----

func guard(c *hx.Ctx, what string, f func() string) (out string) {
	defer func() {
		if r := recover(); r != nil {
			c.Report("C12/panic/"+what, fmt.Sprintf("%s panicked: %v", what, r))
			out = "panic"
		}
	}()
	return f()
}

// encErr: MarshalBinary refused a value. The only legitimate reason is a chain id that is not UTF-8 (protobuf-go
// checks proto3 strings on marshal); anything else is reported.
func encErr(c *hx.Ctx, what string, chainID string, err error) {
	if utf8.ValidString(chainID) {
		c.Report("C12/encode/"+what+"/unexpected-error", err.Error())
	}
	c.Hit("enc-refused-not-utf8/" + what)
}

func deqHit(c *hx.Ctx, what string, eq bool) string {
	if !eq {
		c.Hit("deep-equal-differs/" + what)
	}
	return b01(eq)
}

// runC12: one observation line per op. Every op that is a function of its own line (everything but the cache-file
// ops, which are kept out for their cost) is remembered with its observation; `recheck` runs them again in other
// histories (see recheck).
func runC12(c *hx.Ctx) {
	var rec []opObs
	for {
		o, ok := c.Next()
		if !ok {
			return
		}
		c.Hit(o.Verb)
		var out string
		switch {
		case o.Verb == "reset":
			rec = nil
			out = "ok"
		case o.Verb == "recheck":
			out = guard(c, "recheck", func() string { return recheck(c, rec) })
		default:
			out = execOp(c, o)
			if !strings.HasPrefix(o.Verb, "cache-") {
				rec = append(rec, opObs{o.Raw, o.Verb, out})
			}
		}
		c.Emit("%s", out)
	}
}

func execOp(c *hx.Ctx, o hx.Op) string {
	{
		switch o.Verb {
		case "reset":
			return "ok"
		case "enc-header":
			h := headerOfOp(o)
			return guard(c, "enc-header", func() string {
				b, err := h.MarshalBinary()
				if err != nil {
					encErr(c, "header", h.ChainID(), err)
					return "err:marshal hash=" + hx.Hex(h.Hash())
				}
				var h2 types.Header
				if err := h2.UnmarshalBinary(b); err != nil {
					c.Report("C12/roundtrip/header/decode-error", err.Error())
				} else if showHeader(&h2) != showHeader(&h) || !bytes.Equal(h2.Hash(), h.Hash()) {
					c.Report("C12/roundtrip/header/differs", showHeader(&h)+" -> "+showHeader(&h2))
				}
				return fmt.Sprintf("bytes=%s hash=%s deq=%s", hx.Hex(b), hx.Hex(h.Hash()), deqHit(c, "header", reflect.DeepEqual(h, h2)))
			})
		case "enc-meta":
			m := metaOfOp(o)
			return guard(c, "enc-meta", func() string {
				b, err := m.MarshalBinary()
				if err != nil {
					encErr(c, "metadata", m.ChainID, err)
					return "err:marshal"
				}
				var m2 types.Metadata
				if err := m2.UnmarshalBinary(b); err != nil || showMeta(&m2) != showMeta(m) {
					c.Report("C12/roundtrip/metadata/differs", showMeta(m))
				}
				return "bytes=" + hx.Hex(b) + " deq=" + deqHit(c, "metadata", reflect.DeepEqual(*m, m2))
			})
		case "enc-data":
			d := dataOfOp(o)
			return guard(c, "enc-data", func() string {
				b, err := d.MarshalBinary()
				if err != nil {
					dataEncErr(c, "data", &d, err)
					return fmt.Sprintf("err:marshal hash=%s dac=%s", hx.Hex(d.Hash()), hx.Hex(d.DACommitment()))
				}
				eq := checkDataRoundTrip(c, &d, b)
				return fmt.Sprintf("bytes=%s hash=%s dac=%s deq=%s", hx.Hex(b), hx.Hex(d.Hash()), hx.Hex(d.DACommitment()), deqHit(c, "data", eq))
			})
		case "enc-sh":
			sh := types.SignedHeader{Header: headerOfOp(o), Signature: gb(o, "sig"), Signer: signerOfOp(o)}
			return guard(c, "enc-sh", func() string {
				b, err := sh.MarshalBinary()
				if err != nil {
					encErr(c, "signedheader", sh.ChainID(), err)
					// the block store must refuse it as cleanly
					st := storepkg.New(hx.NewLogDS(nil))
					sig := sh.Signature
					if err := st.SaveBlockData(context.Background(), &sh, &types.Data{}, &sig); err == nil {
						c.Report("C12/encode/signedheader/store-accepted-unencodable", showHeader(&sh.Header))
					}
					return "err:marshal hash=" + hx.Hex(sh.Hash())
				}
				eq := checkSHRoundTrip(c, &sh, b)
				return fmt.Sprintf("bytes=%s hash=%s deq=%s", hx.Hex(b), hx.Hex(sh.Hash()), deqHit(c, "signedheader", eq))
			})
		case "enc-sd":
			sd := types.SignedData{Data: dataOfOp(o), Signature: gb(o, "sig"), Signer: signerOfOp(o)}
			return guard(c, "enc-sd", func() string {
				b, err := sd.MarshalBinary()
				if err != nil {
					dataEncErr(c, "signeddata", &sd.Data, err)
					return fmt.Sprintf("err:marshal hash=%s dac=%s", hx.Hex(sd.Data.Hash()), hx.Hex(sd.Data.DACommitment()))
				}
				var sd2 types.SignedData
				eq := false
				if err := sd2.UnmarshalBinary(b); err != nil {
					c.Report("C12/roundtrip/signeddata/decode-error", err.Error())
				} else {
					eq = reflect.DeepEqual(sd, sd2)
					exp := showData(&sd.Data) + " " + showSigner(&sd.Signer)
					got := showData(&sd2.Data) + " " + showSigner(&sd2.Signer)
					if sd.Signer.PubKey == nil && len(sd.Signer.Address) > 0 {
						// the recorded finding is exactly: the address (and nothing else) is lost. Everything else is
						// compared on this branch too, and any further difference is a different violation.
						rest := showData(&sd.Data) == showData(&sd2.Data) && bytes.Equal(sd.Signature, sd2.Signature) &&
							bytes.Equal(sd.Data.Hash(), sd2.Data.Hash()) && bytes.Equal(sd.Data.DACommitment(), sd2.Data.DACommitment()) && sd2.Signer.PubKey == nil
						switch {
						case !rest:
							c.Report("C12/roundtrip/signeddata/differs", "signer address without key, and more than the address differs: "+exp+" -> "+got)
						case len(sd2.Signer.Address) == 0:
							c.Report("C12/roundtrip/signer-address-without-key-dropped", "signeddata")
						case !bytes.Equal(sd.Signer.Address, sd2.Signer.Address):
							c.Report("C12/roundtrip/signeddata/signer-address-altered", exp+" -> "+got)
						}
					} else if got != exp || !bytes.Equal(sd.Signature, sd2.Signature) {
						c.Report("C12/roundtrip/signeddata/differs", exp+" -> "+got)
					}
					if sd.Signer.PubKey != nil {
						pl, _ := sd.Data.MarshalBinary()
						ok1, _ := sd.Signer.PubKey.Verify(pl, sd.Signature)
						pl2, _ := sd2.Data.MarshalBinary()
						ok2 := false
						if sd2.Signer.PubKey != nil {
							ok2, _ = sd2.Signer.PubKey.Verify(pl2, sd2.Signature)
						}
						if ok1 && !ok2 {
							c.Report("C12/roundtrip/signeddata/signature-invalidated", exp)
						}
					}
				}
				return fmt.Sprintf("bytes=%s hash=%s dac=%s deq=%s", hx.Hex(b), hx.Hex(sd.Data.Hash()), hx.Hex(sd.Data.DACommitment()), deqHit(c, "signeddata", eq))
			})
		case "dec-header":
			b := o.Bytes("b")
			return guard(c, "dec-header", func() string {
				var h types.Header
				if err := h.UnmarshalBinary(b); err != nil {
					return "err"
				}
				re, _ := h.MarshalBinary()
				var h2 types.Header
				if err := h2.UnmarshalBinary(re); err != nil || showHeader(&h2) != showHeader(&h) {
					c.Report("C12/decode-not-canonical/header", hx.Hex(b))
				}
				return fmt.Sprintf("ok %s re=%s hash=%s", showHeader(&h), hx.Hex(re), hx.Hex(h.Hash()))
			})
		case "dec-meta":
			b := o.Bytes("b")
			return guard(c, "dec-meta", func() string {
				var m types.Metadata
				if err := m.UnmarshalBinary(b); err != nil {
					return "err"
				}
				re, _ := m.MarshalBinary()
				var m2 types.Metadata
				if err := m2.UnmarshalBinary(re); err != nil || showMeta(&m2) != showMeta(&m) {
					c.Report("C12/decode-not-canonical/metadata", hx.Hex(b))
				}
				return fmt.Sprintf("ok %s re=%s", showMeta(&m), hx.Hex(re))
			})
		case "dec-data":
			b := o.Bytes("b")
			return guard(c, "dec-data", func() string {
				var d types.Data
				if err := d.UnmarshalBinary(b); err != nil {
					return "err"
				}
				re, _ := d.MarshalBinary()
				var d2 types.Data
				if err := d2.UnmarshalBinary(re); err != nil || showData(&d2) != showData(&d) {
					c.Report("C12/decode-not-canonical/data", hx.Hex(b))
				}
				return fmt.Sprintf("ok %s re=%s hash=%s dac=%s", showData(&d), hx.Hex(re), hx.Hex(d.Hash()), hx.Hex(d.DACommitment()))
			})
		case "dec-sh":
			b := o.Bytes("b")
			return guard(c, "dec-sh", func() string {
				var sh types.SignedHeader
				if err := sh.UnmarshalBinary(b); err != nil {
					return "err"
				}
				re, err := sh.MarshalBinary()
				if err != nil {
					return "err-re"
				}
				var sh2 types.SignedHeader
				if err := sh2.UnmarshalBinary(re); err != nil || showHeader(&sh2.Header) != showHeader(&sh.Header) || showSigner(&sh2.Signer) != showSigner(&sh.Signer) || !bytes.Equal(sh.Signature, sh2.Signature) {
					c.Report("C12/decode-not-canonical/signedheader", hx.Hex(b))
				}
				return fmt.Sprintf("ok %s sig=%s %s re=%s", showHeader(&sh.Header), hx.Hex(sh.Signature), showSigner(&sh.Signer), hx.Hex(re))
			})
		case "dec-sd":
			b := o.Bytes("b")
			return guard(c, "dec-sd", func() string {
				var sd types.SignedData
				if err := sd.UnmarshalBinary(b); err != nil {
					return "err"
				}
				re, err := sd.MarshalBinary()
				if err != nil {
					return "err-re"
				}
				var sd2 types.SignedData
				if err := sd2.UnmarshalBinary(re); err != nil || showData(&sd2.Data) != showData(&sd.Data) || showSigner(&sd2.Signer) != showSigner(&sd.Signer) || !bytes.Equal(sd.Signature, sd2.Signature) {
					c.Report("C12/decode-not-canonical/signeddata", hx.Hex(b))
				}
				return fmt.Sprintf("ok %s sig=%s %s re=%s dac=%s", showData(&sd.Data), hx.Hex(sd.Signature), showSigner(&sd.Signer), hx.Hex(re), hx.Hex(sd.Data.DACommitment()))
			})
		case "bd-enc":
			l := o.List("list")
			return guard(c, "bd-enc", func() string {
				b := block.VerifBatchDataToBytes(l)
				back, err := block.VerifBytesToBatchData(b)
				if err != nil || hx.HexList(back) != hx.HexList(l) {
					c.Report("C12/roundtrip/batch-data/differs", hx.HexList(l))
				}
				return "bytes=" + hx.Hex(b)
			})
		case "bd-dec":
			b := o.Bytes("b")
			return guard(c, "bd-dec", func() string {
				// the blob is a view into a larger buffer: reading past its end must not go unnoticed
				buf := append(append([]byte(nil), b...), 0xAA, 0xBB, 0xCC, 0xDD, 0xEE, 0xFF, 0x11, 0x22)[:len(b)]
				l, err := block.VerifBytesToBatchData(buf)
				if err != nil {
					return "err"
				}
				if re := block.VerifBatchDataToBytes(l); !bytes.Equal(re, b) {
					c.Report("C12/decode-not-canonical/batch-data", hx.Hex(b))
				}
				return "ok list=" + hx.HexList(l)
			})
		case "enc-state":
			return guard(c, "enc-state", func() string { return encState(c, o) })
		case "dec-state":
			b := o.Bytes("b")
			return guard(c, "dec-state", func() string { return decState(c, b) })
		case "reuse":
			return guard(c, "reuse", func() string { return reuseOp(c, o) })
		case "cache-sh", "cache-data":
			return guard(c, o.Verb, func() string { return cacheRoundTrip(c, o) })
		case "cache-load":
			return guard(c, "cache-load", func() string { return cacheLoad(c, o) })
		case "cache-big":
			return guard(c, "cache-big", func() string { return cacheBig(c, o) })
		case "cache-trunc":
			return guard(c, "cache-trunc", func() string { return cacheTrunc(c, o) })
		}
	}
	return "bad-op"
}

// dataEncErr: Data.MarshalBinary refused d (chain id of the metadata not UTF-8). Data.Hash has no error result: it
// must not hand out one hash for two different values.
func dataEncErr(c *hx.Ctx, what string, d *types.Data, err error) {
	cid := ""
	if d.Metadata != nil {
		cid = d.Metadata.ChainID
	}
	encErr(c, what, cid, err)
	other := types.Data{Metadata: d.Metadata, Txs: append(append(types.Txs(nil), d.Txs...), types.Tx("another-transaction"))}
	if h := d.Hash(); h != nil && bytes.Equal(h, other.Hash()) {
		c.Report("C12/hash/data-hash-ignores-marshal-error",
			fmt.Sprintf("Data.Hash() = %s for this value and for the same value with one more transaction: MarshalBinary fails (%v) and Hash hashes what proto.Marshal left in its buffer: %s",
				hx.Hex(h), err, showData(d)))
	}
}

func checkDataRoundTrip(c *hx.Ctx, d *types.Data, b []byte) (deepEqual bool) {
	var d2 types.Data
	if err := d2.UnmarshalBinary(b); err != nil {
		c.Report("C12/roundtrip/data/decode-error", err.Error())
		return false
	}
	deepEqual = reflect.DeepEqual(*d, d2)
	if showData(&d2) != showData(d) || !bytes.Equal(d2.Hash(), d.Hash()) || !bytes.Equal(d2.DACommitment(), d.DACommitment()) {
		c.Report("C12/roundtrip/data/differs", showData(d)+" -> "+showData(&d2))
	}
	// the commitment depends on the ordered transaction list only
	bare := types.Data{Txs: d.Txs}
	other := types.Data{Txs: d.Txs, Metadata: &types.Metadata{ChainID: "x", Height: 99, Time: 5, LastDataHash: []byte{1}}}
	if !bytes.Equal(bare.DACommitment(), d.DACommitment()) || !bytes.Equal(other.DACommitment(), d.DACommitment()) {
		c.Report("C12/commitment/depends-on-metadata", showData(d))
	}
	if len(d.Txs) >= 2 && !bytes.Equal(d.Txs[0], d.Txs[len(d.Txs)-1]) {
		rev := types.Data{Txs: append(types.Txs(nil), d.Txs...)}
		rev.Txs[0], rev.Txs[len(rev.Txs)-1] = rev.Txs[len(rev.Txs)-1], rev.Txs[0]
		if bytes.Equal(rev.DACommitment(), d.DACommitment()) {
			c.Report("C12/commitment/ignores-order", showData(d))
		}
	}
	return deepEqual
}

func checkSHRoundTrip(c *hx.Ctx, sh *types.SignedHeader, b []byte) (deepEqual bool) {
	var sh2 types.SignedHeader
	if err := sh2.UnmarshalBinary(b); err != nil {
		c.Report("C12/roundtrip/signedheader/decode-error", err.Error())
		return false
	}
	deepEqual = reflect.DeepEqual(*sh, sh2)
	exp := showHeader(&sh.Header) + " " + showSigner(&sh.Signer)
	got := showHeader(&sh2.Header) + " " + showSigner(&sh2.Signer)
	if sh.Signer.PubKey == nil && len(sh.Signer.Address) > 0 {
		// the recorded finding is exactly: the address (and nothing else) is lost. Header fields, signature and hash
		// are compared on this branch too, and any further difference is a different violation.
		rest := showHeader(&sh.Header) == showHeader(&sh2.Header) && bytes.Equal(sh.Signature, sh2.Signature) &&
			bytes.Equal(sh.Hash(), sh2.Hash()) && sh2.Signer.PubKey == nil
		switch {
		case !rest:
			c.Report("C12/roundtrip/signedheader/differs", "signer address without key, and more than the address differs: "+exp+" -> "+got)
		case len(sh2.Signer.Address) == 0:
			c.Report("C12/roundtrip/signer-address-without-key-dropped", "signedheader")
		case !bytes.Equal(sh.Signer.Address, sh2.Signer.Address):
			c.Report("C12/roundtrip/signedheader/signer-address-altered", exp+" -> "+got)
		}
	} else if got != exp || !bytes.Equal(sh.Signature, sh2.Signature) || !bytes.Equal(sh.Hash(), sh2.Hash()) {
		c.Report("C12/roundtrip/signedheader/differs", exp+" -> "+got)
	}
	if sh.ValidateBasic() == nil && sh2.ValidateBasic() != nil {
		c.Report("C12/roundtrip/signedheader/signature-invalidated", exp)
	}
	// block store path
	if sh.Signer.PubKey != nil {
		st := storepkg.New(hx.NewLogDS(nil))
		d := &types.Data{Txs: types.Txs{types.Tx("x")}}
		sig := sh.Signature
		if err := st.SaveBlockData(context.Background(), sh, d, &sig); err == nil {
			h3, _, err := st.GetBlockData(context.Background(), sh.Height())
			if err != nil || showHeader(&h3.Header)+" "+showSigner(&h3.Signer) != exp || !bytes.Equal(h3.Signature, sh.Signature) {
				c.Report("C12/roundtrip/signedheader/store-differs", exp)
			}
		}
	}
	return deepEqual
}

var _ = block.VerifEmptyDataHash
var _ = strings.Join

func init() { hx.Register("C12", hx.Stream{Gen: genC12, Run: runC12}) }
