package c12

import (
	"bytes"
	"fmt"
	"go/ast"
	"go/parser"
	"go/token"
	"io"
	"os"
	"os/exec"
	"reflect"
	"runtime/debug"
	"strings"

	"github.com/libp2p/go-libp2p/core/crypto"
	"google.golang.org/protobuf/proto"

	"verifharness/hx"

	"github.com/evstack/ev-node/pkg/cache"
	"github.com/evstack/ev-node/types"
	pb "github.com/evstack/ev-node/types/pb/evnode/v1"
)

// ---------------------------------------------------------------- decoding is a function of the bytes
//
// Every op of this stream is a function of its own line: the Lean driver's state is `Unit`
// (Spec.C12.decode_is_a_function_of_the_bytes, driver_is_history_free). The real code must agree: `recheck` runs
// the remembered ops of the scenario again
//   (a) in this process, in the same order (a memo that a later decode overwrites shows here), and
//   (b) in a FRESH process, in the opposite order (a write-once memo filled by whatever was decoded first shows
//       here: the op that came second in one history comes first in the other),
// and every observation must be the one the op gave the first time.

type opObs struct{ line, verb, obs string }

var typeOfVerb = map[string]string{"header": "header", "meta": "metadata", "data": "data", "sh": "signedheader", "sd": "signeddata",
	"state": "state"}

func historySignature(verb string) string {
	switch {
	case strings.HasPrefix(verb, "enc-"):
		return "C12/roundtrip/depends-on-earlier-decodes/" + typeOfVerb[strings.TrimPrefix(verb, "enc-")]
	case strings.HasPrefix(verb, "dec-"):
		return "C12/decode/depends-on-earlier-decodes/" + typeOfVerb[strings.TrimPrefix(verb, "dec-")]
	default:
		return "C12/roundtrip/depends-on-earlier-decodes/batch-data"
	}
}

func isChild() bool { return os.Getenv("VERIF_C12_CHILD") != "" }

func short(s string) string {
	if len(s) > 700 {
		return s[:700] + "…"
	}
	return s
}

func recheck(c *hx.Ctx, rec []opObs) string {
	if isChild() || len(rec) == 0 {
		return "checked"
	}
	lines := make([]string, len(rec))
	for i, r := range rec {
		lines[i] = r.line
	}
	compare := func(where string, order []int, got []string) {
		if len(got) != len(order) {
			c.Report("C12/panic/recheck", fmt.Sprintf("%s: %d observations for %d ops", where, len(got), len(order)))
			return
		}
		for k, i := range order {
			if got[k] != rec[i].obs {
				c.Report(historySignature(rec[i].verb), fmt.Sprintf("%s the op gives another observation than the first time: %s | first: %s | now: %s",
					where, short(rec[i].line), short(rec[i].obs), short(got[k])))
			}
		}
	}
	// (a) same process, same order
	same := make([]int, len(rec))
	for i := range same {
		same[i] = i
	}
	var buf bytes.Buffer
	scratch := hx.NewCtx(strings.NewReader("reset\n"+strings.Join(lines, "\n")+"\n"), &buf)
	runC12(scratch)
	scratch.Finish("")
	compare("run again in the same process", same, obsLines(buf.String()))
	// (b) fresh process, opposite order
	rev := make([]int, len(rec))
	revLines := make([]string, len(rec))
	for k := range rev {
		rev[k] = len(rec) - 1 - k
		revLines[k] = lines[rev[k]]
	}
	exe, err := os.Executable()
	if err != nil {
		exe = os.Args[0]
	}
	cmd := exec.Command(exe, "run")
	cmd.Env = append(os.Environ(), "VERIF_C12_CHILD=1")
	cmd.Stdin = strings.NewReader("reset\n" + strings.Join(revLines, "\n") + "\n")
	var stderr bytes.Buffer
	cmd.Stderr = &stderr
	out, err := cmd.Output()
	if err != nil {
		c.Report("C12/panic/recheck", fmt.Sprintf("the ops of the scenario, run in a fresh process in the opposite order, brought it down: %v %s", err, short(stderr.String())))
		return "checked"
	}
	compare("run in a fresh process, in the opposite order,", rev, obsLines(string(out)))
	return "checked"
}

// obsLines: the observations after the one of the leading `reset`
func obsLines(out string) []string {
	l := strings.Split(strings.TrimRight(out, "\n"), "\n")
	if len(l) == 0 {
		return nil
	}
	return l[1:]
}

// junkLines: syntactically valid signed messages that name a genuine signer's ADDRESS with a FOREIGN (valid) key.
// Anybody can put such bytes on the DA layer or gossip them; decoding them must not change what later (or earlier)
// genuine messages of that signer decode to.
func junkLines(r *hx.Rng, w io.Writer, addr []byte, foreign crypto.PubKey) {
	fpk, _ := crypto.MarshalPublicKey(foreign)
	h := rheader(r)
	h.BaseHeader.ChainID = "junk"
	h.ProposerAddress = addr
	raw, _ := proto.Marshal(&pb.SignedHeader{Header: h.ToProto(), Signature: r.Bytes(64), Signer: &pb.Signer{Address: addr, PubKey: fpk}})
	fmt.Fprintf(w, "dec-sh b=%s keyok=1\n", hx.Hex(raw))
	d := types.Data{Metadata: &types.Metadata{ChainID: "junk", Height: ru64(r)}, Txs: types.Txs{types.Tx(r.Bytes(5))}}
	raw2, _ := proto.Marshal(&pb.SignedData{Data: d.ToProto(), Signature: r.Bytes(64), Signer: &pb.Signer{Address: addr, PubKey: fpk}})
	fmt.Fprintf(w, "dec-sd b=%s keyok=1\n", hx.Hex(raw2))
}

// ---------------------------------------------------------------- a cache file larger than any plausible buffer

// cacheBig: n data items of `size` bytes each (4 transactions) in one real Cache[types.Data]: SaveToDisk, LoadFromDisk
// into a fresh cache, everything must be back. Thorough tier only (n=72 size=1 MiB: a 72 MiB items file).
func cacheBig(c *hx.Ctx, o hx.Op) string {
	n, ok1 := o.U64("n")
	size, ok2 := o.U64("size")
	if !ok1 || !ok2 || n == 0 || n > 4096 || size > 16<<20 || n*size > 1<<30 {
		return "bad-op"
	}
	dir, done := cacheDir()
	defer done()
	item := func(i uint64) *types.Data {
		d := &types.Data{Metadata: &types.Metadata{ChainID: "big", Height: i, Time: i * 7, LastDataHash: []byte{byte(i)}}}
		for t := uint64(0); t < 4; t++ {
			tx := make([]byte, size/4)
			for j := range tx {
				tx[j] = byte(uint64(j)*31 + i + t)
			}
			d.Txs = append(d.Txs, tx)
		}
		return d
	}
	c1 := cache.NewCache[types.Data]()
	for i := uint64(1); i <= n; i++ {
		d := item(i)
		c1.SetItem(i, d)
		c1.SetSeen(d.DACommitment().String())
		c1.SetDAIncluded(d.DACommitment().String(), i)
	}
	if err := c1.SaveToDisk(dir); err != nil {
		c.Report("C12/roundtrip/cache-file/save-error", err.Error())
		return "err:save"
	}
	var fileSize int64
	if fi, err := os.Stat(dir + "/items_by_height.gob"); err == nil {
		fileSize = fi.Size()
	}
	c1 = nil
	debug.FreeOSMemory() // the saved cache (n*size bytes) is garbage now: keep the peak near 3x the file, not 5x
	defer debug.FreeOSMemory()
	c2 := cache.NewCache[types.Data]()
	if err := c2.LoadFromDisk(dir); err != nil {
		c.Report("C12/roundtrip/cache-file/load-error",
			fmt.Sprintf("SaveToDisk wrote %d items of %d bytes (items_by_height.gob: %d bytes) and LoadFromDisk refuses them: %v", n, size, fileSize, err))
		return "err:load"
	}
	if hs := c2.VerifItemHeights(); uint64(len(hs)) != n {
		c.Report("C12/roundtrip/cache-file/item-lost", fmt.Sprintf("%d of %d items came back", len(hs), n))
		return "err:lost"
	}
	for i := uint64(1); i <= n; i++ {
		want, got := item(i), c2.GetItem(i)
		if got == nil || !reflect.DeepEqual(want, got) || !bytes.Equal(want.Hash(), got.Hash()) || !bytes.Equal(want.DACommitment(), got.DACommitment()) {
			c.Report("C12/roundtrip/data/cache-file-differs", fmt.Sprintf("item %d of %d (%d bytes each)", i, n, size))
			return "err:differs"
		}
		hash := want.DACommitment().String()
		if h, ok := c2.GetDAIncludedHeight(hash); !c2.IsSeen(hash) || !ok || h != i {
			c.Report("C12/roundtrip/cache-file/marks-lost", fmt.Sprintf("item %d", i))
			return "err:marks"
		}
	}
	return fmt.Sprintf("ok n=%d", n)
}

// cacheLoadUnbounded: asked of the SOURCE of pkg/cache (the file the binary was built from: hx.SourcePath honours an
// overlay): in loadMapGob the gob decoder reads the opened file itself — its argument is the variable os.Open
// returned — and nothing of package io / bufio (LimitReader, LimitedReader, ReadFull into a sized buffer, …) stands
// between the file and the decoder. A cap on what is read makes large caches saveable but not loadable; the quick
// tier cannot afford the 64 MiB that would show it on the running code (thorough: cache-big).
func cacheLoadUnbounded() (bool, error) {
	// every function of the package that builds a gob DECODER is a loader, whatever its name and whichever file of the
	// package it lives in (a rename or a move to another file is not a change of behaviour)
	loaders := 0
	for _, src := range hx.SourceFiles("/repo/pkg/cache") {
		fset := token.NewFileSet()
		f, err := parser.ParseFile(fset, src, nil, 0)
		if err != nil {
			return false, err
		}
		for _, d := range f.Decls {
			fn, ok := d.(*ast.FuncDecl)
			if !ok || fn.Body == nil {
				continue
			}
			opened := map[string]bool{} // variables assigned from os.Open
			decoders, direct, wrapped := 0, 0, false
			ast.Inspect(fn.Body, func(n ast.Node) bool {
				switch x := n.(type) {
				case *ast.AssignStmt:
					if len(x.Rhs) == 1 {
						if call, ok := x.Rhs[0].(*ast.CallExpr); ok && isSel(call.Fun, "os", "Open") && len(x.Lhs) > 0 {
							if id, ok := x.Lhs[0].(*ast.Ident); ok {
								opened[id.Name] = true
							}
						}
					}
				case *ast.SelectorExpr:
					if id, ok := x.X.(*ast.Ident); ok && (id.Name == "io" || id.Name == "bufio" || id.Name == "ioutil") {
						wrapped = true
					}
				case *ast.CallExpr:
					if isSel(x.Fun, "gob", "NewDecoder") {
						decoders++
						if len(x.Args) == 1 {
							if id, ok := x.Args[0].(*ast.Ident); ok && opened[id.Name] {
								direct++
							}
						}
					}
				}
				return true
			})
			if decoders == 0 {
				continue
			}
			loaders++
			if !(decoders == 1 && direct == 1 && !wrapped) {
				return false, nil
			}
		}
	}
	if loaders == 0 {
		return false, fmt.Errorf("no function of pkg/cache builds a gob decoder any more: re-derive this fact")
	}
	return true, nil
}

func isSel(e ast.Expr, pkg, name string) bool {
	s, ok := e.(*ast.SelectorExpr)
	if !ok || s.Sel.Name != name {
		return false
	}
	id, ok := s.X.(*ast.Ident)
	return ok && id.Name == pkg
}
