package c12

import (
	"bytes"
	"context"
	"crypto/ed25519"
	"fmt"
	"os"
	"path/filepath"
	"strings"

	"github.com/libp2p/go-libp2p/core/crypto"

	"verifharness/hx"

	"github.com/evstack/ev-node/block"
	"github.com/evstack/ev-node/pkg/cache"
	storepkg "github.com/evstack/ev-node/pkg/store"
	"github.com/evstack/ev-node/types"
)

// GoldenValues are the fixed values whose bytes/hashes are pinned (Spec/C12.lean holds the same
// values as Lean terms; /verif/golden/c12.txt holds what the pinned tree produced).
func GoldenValues() (h types.Header, d types.Data, sh types.SignedHeader, sd types.SignedData) {
	sdk := bytes.Repeat([]byte{9}, ed25519.SeedSize)
	_, pub, _ := crypto.GenerateEd25519Key(bytes.NewReader(sdk))
	addr := types.KeyAddress(pub)
	h = types.Header{
		Version:        types.Version{Block: 1, App: 2},
		BaseHeader:     types.BaseHeader{Height: 7, Time: 1700000000000000000, ChainID: "golden-chain"},
		LastHeaderHash: bytes.Repeat([]byte{0x11}, 32), DataHash: bytes.Repeat([]byte{0x22}, 32),
		ConsensusHash: make([]byte, 32), AppHash: []byte("app-hash"), ProposerAddress: addr, ValidatorHash: bytes.Repeat([]byte{0x33}, 32),
	}
	d = types.Data{Metadata: &types.Metadata{ChainID: "golden-chain", Height: 7, Time: 1700000000000000000, LastDataHash: bytes.Repeat([]byte{0x44}, 32)},
		Txs: types.Txs{types.Tx("tx-one"), types.Tx(""), types.Tx("tx-three")}}
	sh = types.SignedHeader{Header: h, Signature: bytes.Repeat([]byte{0x55}, 64), Signer: types.Signer{PubKey: pub, Address: addr}}
	sd = types.SignedData{Data: d, Signature: bytes.Repeat([]byte{0x66}, 64), Signer: types.Signer{PubKey: pub, Address: addr}}
	return
}

// GoldenFullHeader: a header with every field set (the first golden header leaves LastCommitHash and
// LastResultsHash empty), maximal integers in the version
func GoldenFullHeader() types.Header {
	h, _, _, _ := GoldenValues()
	h.Version = types.Version{Block: 1<<64 - 1, App: 300}
	h.LastCommitHash = bytes.Repeat([]byte{0x5c}, 32)
	h.LastResultsHash = bytes.Repeat([]byte{0x99}, 32)
	h.BaseHeader.ChainID = "golden-chain-é"
	return h
}

// goldenCacheFile: items_by_height.gob as the REAL pkg/cache SaveToDisk writes it for a cache holding one item
// (height 7). gob output is deterministic for a one-entry map; the type ids inside it are counters of the process
// (encoding/gob numbers types in the order it first meets them), so the fact generator always saves the header
// cache first and the data cache second, in a fresh process, like Manager.SaveCache does.
func goldenCacheFile[T any](item *T) ([]byte, error) {
	dir, err := os.MkdirTemp(os.Getenv("VERIF_WORK"), "c12facts-")
	if err != nil {
		return nil, err
	}
	defer os.RemoveAll(dir)
	cc := cache.NewCache[T]()
	cc.SetItem(7, item)
	if err := cc.SaveToDisk(dir); err != nil {
		return nil, err
	}
	return os.ReadFile(filepath.Join(dir, "items_by_height.gob"))
}

func init() {
	hx.RegisterFacts("C12", func() (string, error) {
		var b strings.Builder
		h, d, sh, sd := GoldenValues()
		pk, _ := crypto.MarshalPublicKey(sh.Signer.PubKey)
		def := func(name string, v []byte) { fmt.Fprintf(&b, "def %s : Bytes := %s\n", name, hx.LeanBytes(v)) }
		must := func(v []byte, err error) []byte {
			if err != nil {
				return nil
			}
			return v
		}
		def("goldenAddr", sh.Signer.Address)
		def("goldenPubKey", pk)
		def("headerBytes", must(h.MarshalBinary()))
		def("headerHash", h.Hash())
		def("dataBytes", must(d.MarshalBinary()))
		def("dataHash", d.Hash())
		def("dataCommitment", d.DACommitment())
		def("metaBytes", must(d.Metadata.MarshalBinary()))
		def("signedHeaderBytes", must(sh.MarshalBinary()))
		def("signedDataBytes", must(sd.MarshalBinary()))
		e := types.Data{}
		def("emptyDataBytes", must(e.MarshalBinary()))
		def("emptyDataCommitment", e.DACommitment())
		def("dataHashForEmptyTxs", block.VerifEmptyDataHash())
		h0 := types.Header{}
		def("zeroHeaderBytes", must(h0.MarshalBinary()))
		def("zeroHeaderHash", h0.Hash())
		def("batchDataBytes", block.VerifBatchDataToBytes([][]byte{[]byte("ab"), {}, []byte("cde")}))
		// ---- added with State / cache files / full header (everything above is unchanged)
		hf := GoldenFullHeader()
		def("fullHeaderBytes", must(hf.MarshalBinary()))
		def("fullHeaderHash", hf.Hash())
		for i, name := range []string{"stateBytes", "statePreEpochBytes", "stateZeroBytes"} {
			s := GoldenStates()[i]
			sb, err := marshalState(&s)
			if err != nil {
				return "", err
			}
			// the store writes exactly these bytes
			kv := hx.NewLogDS(nil)
			if err := storepkg.New(kv).UpdateState(context.Background(), s); err != nil || !bytes.Equal(kv.Image()[stateKey()], sb) {
				return "", fmt.Errorf("store.UpdateState does not write proto.Marshal(state.ToProto()) for %s", name)
			}
			def(name, sb)
		}
		cf, err := goldenCacheFile(&sh)
		if err != nil {
			return "", err
		}
		def("cacheHeaderItemsFile", cf)
		cf, err = goldenCacheFile(&d)
		if err != nil {
			return "", err
		}
		def("cacheDataItemsFile", cf)
		// ---- round 4
		unb, err := cacheLoadUnbounded()
		if err != nil {
			return "", err
		}
		fmt.Fprintf(&b, "def cacheLoadUnbounded : Bool := %s\n", hx.LeanBool(unb))
		return b.String(), nil
	})
}
