package c12

import (
	"bytes"
	"fmt"
	"io"
	"reflect"
	"strings"

	"google.golang.org/protobuf/proto"

	"verifharness/hx"

	"github.com/evstack/ev-node/types"
	pb "github.com/evstack/ev-node/types/pb/evnode/v1"
)

// ---------------------------------------------------------------- a decoded value is not changed by a later decode
//
//   reuse ty=<header|sh|data|sd|meta|state> path=<bin|proto> a=<hex> b=<hex> [ka=0|1 kb=0|1]
//
// Message A is decoded into a receiver r (path=bin: r.UnmarshalBinary; path=proto: proto.Unmarshal into a fresh pb
// message, then r.FromProto; State has the proto path only), a plain struct COPY c := r is kept (types.Header & co
// are copied by value all over the code base), then message B is decoded into the SAME r. A pure function has no
// aliasing: afterwards c is still decode(A) (same fields, same re-encoding, same hash), r is decode(B), and r is what
// decoding B into a fresh receiver gives. The observation line shows c and r AFTER the second decode (encoding and
// hash); the Lean driver prints decode(A) and decode(B) of the model, so the correspondence shows the difference too.

type reuseKind[T any] struct {
	ty   string // name used in signatures
	dec  func(r *T, path string, b []byte) error
	sum  func(v *T) (string, error) // re-encoding + hash(es)
	show func(v *T) string
	// explained: a change of the copy with a specific, recognisable cause -> the signature of that cause
	explained func(c, r *T, show0, show1 string) string
}

func viaProto[P proto.Message](b []byte, p P, from func(P) error) error {
	if err := proto.Unmarshal(b, p); err != nil {
		return err
	}
	return from(p)
}

var errBadPath = fmt.Errorf("bad path")

func txsPart(s string) string {
	if i := strings.LastIndex(s, " txs="); i >= 0 {
		return s[i:]
	}
	return s
}

// Until /repo bf7367f Data.FromProto filled the Metadata struct the receiver already pointed to: a struct copy of a
// Data shares that pointer, so its metadata (and hash) followed the next decode into the receiver. Repaired; the class
// stays as a violation class of its own (a decoder that overwrites the shared struct again gets this signature).
func dataExplained(c, r *types.Data, show0, show1 string) string {
	if c.Metadata != nil && c.Metadata == r.Metadata && txsPart(show0) == txsPart(show1) {
		return "C12/aliasing/data-metadata/struct-shared-with-copy-overwritten-by-later-decode"
	}
	return ""
}

func sumData(d *types.Data) (string, error) {
	b, err := d.MarshalBinary()
	return fmt.Sprintf("enc=%s hash=%s dac=%s", hx.Hex(b), hx.Hex(d.Hash()), hx.Hex(d.DACommitment())), err
}

var (
	reuseHeader = reuseKind[types.Header]{ty: "header",
		dec: func(r *types.Header, path string, b []byte) error {
			if path == "bin" {
				return r.UnmarshalBinary(b)
			}
			return viaProto(b, &pb.Header{}, r.FromProto)
		},
		sum: func(h *types.Header) (string, error) {
			b, err := h.MarshalBinary()
			return fmt.Sprintf("enc=%s hash=%s", hx.Hex(b), hx.Hex(h.Hash())), err
		},
		show: showHeader}
	reuseSH = reuseKind[types.SignedHeader]{ty: "signedheader",
		dec: func(r *types.SignedHeader, path string, b []byte) error {
			if path == "bin" {
				return r.UnmarshalBinary(b)
			}
			return viaProto(b, &pb.SignedHeader{}, r.FromProto)
		},
		sum: func(sh *types.SignedHeader) (string, error) {
			b, err := sh.MarshalBinary()
			return fmt.Sprintf("enc=%s hash=%s", hx.Hex(b), hx.Hex(sh.Hash())), err
		},
		show: func(sh *types.SignedHeader) string {
			return showHeader(&sh.Header) + " sig=" + hx.Hex(sh.Signature) + " " + showSigner(&sh.Signer)
		}}
	reuseMeta = reuseKind[types.Metadata]{ty: "metadata",
		dec: func(r *types.Metadata, path string, b []byte) error {
			if path == "bin" {
				return r.UnmarshalBinary(b)
			}
			return viaProto(b, &pb.Metadata{}, r.FromProto)
		},
		sum: func(m *types.Metadata) (string, error) {
			b, err := m.MarshalBinary()
			return "enc=" + hx.Hex(b), err
		},
		show: showMeta}
	reuseData = reuseKind[types.Data]{ty: "data",
		dec: func(r *types.Data, path string, b []byte) error {
			if path == "bin" {
				return r.UnmarshalBinary(b)
			}
			return viaProto(b, &pb.Data{}, r.FromProto)
		},
		sum: sumData, show: showData, explained: dataExplained}
	reuseSD = reuseKind[types.SignedData]{ty: "signeddata",
		dec: func(r *types.SignedData, path string, b []byte) error {
			if path == "bin" {
				return r.UnmarshalBinary(b)
			}
			return viaProto(b, &pb.SignedData{}, r.FromProto)
		},
		sum: func(sd *types.SignedData) (string, error) {
			b, err := sd.MarshalBinary()
			return fmt.Sprintf("enc=%s hash=%s dac=%s", hx.Hex(b), hx.Hex(sd.Data.Hash()), hx.Hex(sd.Data.DACommitment())), err
		},
		show: func(sd *types.SignedData) string {
			return showData(&sd.Data) + " sig=" + hx.Hex(sd.Signature) + " " + showSigner(&sd.Signer)
		},
		explained: func(c, r *types.SignedData, show0, show1 string) string {
			return dataExplained(&c.Data, &r.Data, show0, show1)
		}}
	reuseState = reuseKind[types.State]{ty: "state",
		dec: func(r *types.State, path string, b []byte) error {
			if path != "proto" {
				return errBadPath
			}
			return viaProto(b, &pb.State{}, r.FromProto)
		},
		sum: func(s *types.State) (string, error) {
			b, err := marshalState(s)
			return "enc=" + hx.Hex(b), err
		},
		show: showState}
)

func reuseOp(c *hx.Ctx, o hx.Op) string {
	path := o.Str("path")
	if path != "bin" && path != "proto" {
		return "bad-op"
	}
	a, b := o.Bytes("a"), o.Bytes("b")
	switch o.Str("ty") {
	case "header":
		return reuseRun(c, reuseHeader, path, a, b)
	case "sh":
		return reuseRun(c, reuseSH, path, a, b)
	case "meta":
		return reuseRun(c, reuseMeta, path, a, b)
	case "data":
		return reuseRun(c, reuseData, path, a, b)
	case "sd":
		return reuseRun(c, reuseSD, path, a, b)
	case "state":
		if path != "proto" {
			return "bad-op"
		}
		return reuseRun(c, reuseState, path, a, b)
	}
	return "bad-op"
}

func reuseRun[T any](c *hx.Ctx, k reuseKind[T], path string, a, b []byte) string {
	sig := "C12/aliasing/" + k.ty + "/"
	in := func() string { return fmt.Sprintf("path=%s a=%s b=%s", path, hx.Hex(a), hx.Hex(b)) }
	var r T
	if err := k.dec(&r, path, a); err != nil {
		return "err-a"
	}
	cp := r // the copy by value
	sum0, err := k.sum(&cp)
	if err != nil {
		return "err-re"
	}
	show0 := k.show(&cp)
	// what A decodes to in a receiver nothing else ever touches
	var fa T
	if err := k.dec(&fa, path, a); err != nil || !reflect.DeepEqual(fa, cp) {
		c.Report("C12/decode/depends-on-earlier-decodes/"+k.ty, "decoding the same bytes twice gives two values: "+in())
	}
	if err := k.dec(&r, path, b); err != nil {
		// the receiver may hold anything now; the copy must not have moved
		if s, _ := k.sum(&cp); s != sum0 || k.show(&cp) != show0 {
			c.Report(sig+"earlier-result-changed-by-later-decode", "a REFUSED second message changed the copy of the first result: "+in())
		}
		return "err-b"
	}
	sum1, err1 := k.sum(&cp)
	show1 := k.show(&cp)
	if sum1 != sum0 || show1 != show0 || err1 != nil || !reflect.DeepEqual(fa, cp) {
		full := ""
		if k.explained != nil {
			full = k.explained(&cp, &r, show0, show1)
		}
		if full == "" {
			full = sig + "earlier-result-changed-by-later-decode"
		}
		c.Report(full, fmt.Sprintf(k.ty+": a struct copy of decode(A), taken before B was decoded into the same receiver, was [%s] and is now [%s] (%s -> %s): %s",
			short(show0), short(show1), short(sum0), short(sum1), short(in())))
	}
	var f T
	if err := k.dec(&f, path, b); err != nil {
		c.Report(sig+"reused-receiver-differs-from-fresh", "a used receiver accepts bytes a fresh one refuses: "+in())
	} else if !reflect.DeepEqual(r, f) || k.show(&r) != k.show(&f) {
		c.Report(sig+"reused-receiver-differs-from-fresh", fmt.Sprintf("B decoded into the receiver that held A gives [%s], into a fresh one [%s]: %s",
			short(k.show(&r)), short(k.show(&f)), short(in())))
	}
	sumR, errR := k.sum(&r)
	if err1 != nil || errR != nil {
		return "err-re"
	}
	return fmt.Sprintf("ok c=[%s] r=[%s]", sum1, sumR)
}

// ---- generator

type wireSet struct{ b map[string][]byte }

var reuseTypes = []string{"header", "meta", "data", "sh", "sd", "state"}

func reuseLine(w io.Writer, ty, path string, a, b []byte) {
	if len(a)+len(b) > 12000 || bytes.Equal(a, b) {
		return
	}
	extra := ""
	if ty == "sh" || ty == "sd" {
		extra = " ka=" + b01(keyOK(a)) + " kb=" + b01(keyOK(b))
	}
	fmt.Fprintf(w, "reuse ty=%s path=%s a=%s b=%s%s\n", ty, path, hx.Hex(a), hx.Hex(b), extra)
}

// genReusePair: every wire type, A then B into one receiver (and B then A when `both`)
func genReusePair(w io.Writer, x, y map[string][]byte, flip int) {
	for i, ty := range reuseTypes {
		a, b := x[ty], y[ty]
		if a == nil || b == nil {
			continue
		}
		paths := []string{"bin", "proto"}
		if ty == "state" {
			paths = []string{"proto"}
		}
		for j, p := range paths {
			if (i+j+flip)%2 == 0 {
				reuseLine(w, ty, p, a, b)
			} else {
				reuseLine(w, ty, p, b, a)
			}
		}
	}
}

// reuseFixed: every byte field set, filled with one byte: equal lengths (the decoder could write in place), shorter,
// longer, empty second message — and the other way round
func reuseFixed(w io.Writer) {
	_, pub := detKey(200)
	addr := types.KeyAddress(pub)
	mk := func(height uint64, fill byte, n int, withMeta bool) map[string][]byte {
		f := func() []byte {
			if n == 0 {
				return nil
			}
			return bytes.Repeat([]byte{fill}, n)
		}
		h := types.Header{Version: types.Version{Block: 1, App: 2}, BaseHeader: types.BaseHeader{ChainID: "reuse", Height: height, Time: 1000 + height},
			LastHeaderHash: f(), LastCommitHash: f(), DataHash: f(), ConsensusHash: f(), AppHash: f(), LastResultsHash: f(), ProposerAddress: f(), ValidatorHash: f()}
		d := types.Data{Txs: types.Txs{f(), types.Tx{fill}}}
		if withMeta {
			d.Metadata = &types.Metadata{ChainID: "reuse", Height: height, Time: 7 * height, LastDataHash: f()}
		}
		m := types.Metadata{ChainID: "reuse-m", Height: height, Time: height, LastDataHash: f()}
		sh := types.SignedHeader{Header: h, Signature: f(), Signer: types.Signer{PubKey: pub, Address: addr}}
		sd := types.SignedData{Data: d, Signature: f(), Signer: types.Signer{PubKey: pub, Address: addr}}
		st := types.State{Version: types.Version{Block: 1, App: 2}, ChainID: "reuse", InitialHeight: 1, LastBlockHeight: height, DAHeight: height,
			LastResultsHash: f(), AppHash: f()}
		out := map[string][]byte{}
		out["header"], _ = h.MarshalBinary()
		out["meta"], _ = m.MarshalBinary()
		out["data"], _ = d.MarshalBinary()
		out["sh"], _ = sh.MarshalBinary()
		out["sd"], _ = sd.MarshalBinary()
		out["state"], _ = marshalState(&st)
		return out
	}
	first := mk(1, 0x11, 32, true)
	for k, second := range []map[string][]byte{mk(2, 0x22, 32, true), mk(3, 0x33, 16, true), mk(4, 0x44, 48, false), mk(5, 0x55, 0, true)} {
		genReusePair(w, first, second, 0)
		genReusePair(w, first, second, 1)
		_ = k
	}
}
