package c12

import (
	"bytes"
	"context"
	"fmt"
	"io"
	"math"
	"os"
	"path/filepath"
	"reflect"
	"sort"
	"strings"
	"time"

	"google.golang.org/protobuf/encoding/protowire"
	"google.golang.org/protobuf/proto"
	"google.golang.org/protobuf/types/known/timestamppb"

	"verifharness/hx"

	_ "github.com/evstack/ev-node/block" // registers the gob types of the caches, as a node does
	"github.com/evstack/ev-node/pkg/cache"
	storepkg "github.com/evstack/ev-node/pkg/store"
	"github.com/evstack/ev-node/types"
	pb "github.com/evstack/ev-node/types/pb/evnode/v1"
)

// ---------------------------------------------------------------- State (types.State <-> pb.State)

// showState: the instant is rendered as (Unix(), Nanosecond()) — location and monotonic reading are not part of
// the value the conversions carry (AsTime returns UTC); Lean: Drv.C12.showState.
func showState(s *types.State) string {
	return fmt.Sprintf("vb=%d va=%d cid=%s ih=%d lh=%d ts=%d tn=%d da=%d lrh=%s ah=%s",
		s.Version.Block, s.Version.App, hx.Hex([]byte(s.ChainID)), s.InitialHeight, s.LastBlockHeight,
		s.LastBlockTime.Unix(), s.LastBlockTime.Nanosecond(), s.DAHeight, hx.Hex(s.LastResultsHash), hx.Hex(s.AppHash))
}

// stateArgs: op arguments of a state; loc = "utc" | "local" (the location of LastBlockTime: a different Go value,
// the same instant)
func stateArgs(s *types.State, loc string) string {
	return showState(s) + " loc=" + loc + neOf(map[string][]byte{"lrh": s.LastResultsHash, "ah": s.AppHash})
}

func stateOfOp(o hx.Op) types.State {
	t := time.Unix(o.I64("ts"), o.I64("tn"))
	if o.Str("loc") != "local" {
		t = t.UTC()
	}
	return types.State{
		Version: types.Version{Block: u(o, "vb"), App: u(o, "va")}, ChainID: string(o.Bytes("cid")),
		InitialHeight: u(o, "ih"), LastBlockHeight: u(o, "lh"), LastBlockTime: t, DAHeight: u(o, "da"),
		LastResultsHash: gb(o, "lrh"), AppHash: gb(o, "ah"),
	}
}

func rtime(r *hx.Rng) time.Time {
	var sec int64
	switch r.Intn(10) {
	case 0:
		sec = -62135596800 // time.Time{}
	case 1:
		sec = 0
	case 2:
		sec = -1 - int64(r.Intn(100000)) // just before the epoch
	case 3:
		sec = math.MaxInt64 - int64(r.Intn(3)) // far outside timestamppb's range (year 9999); Go wraps
	case 4:
		sec = math.MinInt64 + int64(r.Intn(3))
	case 5:
		sec = 253402300799 + int64(r.Intn(3)) - 1 // around 9999-12-31T23:59:59Z
	case 6:
		sec = -62135596800 - int64(r.Intn(3)) // around 0001-01-01
	case 7:
		sec = int64(r.U64()) // any int64
	default:
		sec = 1600000000 + int64(r.Intn(400000000))
	}
	var ns int64
	switch r.Intn(4) {
	case 0:
		ns = 0
	case 1:
		ns = 999999999
	default:
		ns = int64(r.Intn(1000000000))
	}
	return time.Unix(sec, ns)
}

func rstate(r *hx.Rng) (types.State, string) {
	t := rtime(r)
	loc := "utc"
	if r.Intn(4) == 0 {
		loc = "local"
	} else {
		t = t.UTC()
	}
	return types.State{
		Version: types.Version{Block: ru64(r), App: ru64(r)}, ChainID: rchain(r), InitialHeight: ru64(r), LastBlockHeight: ru64(r),
		LastBlockTime: t, DAHeight: ru64(r), LastResultsHash: rbytes(r, 0, 0, 32), AppHash: rbytes(r, 0, 32, 32, 7),
	}, loc
}

// weirdStateBytes: encodings of pb.State whose timestamp no encoder of the node writes
func weirdStateBytes(r *hx.Rng) []byte {
	var sec int64
	switch r.Intn(5) {
	case 0:
		sec = math.MaxInt64
	case 1:
		sec = math.MinInt64
	case 2:
		sec = int64(r.U64())
	default:
		sec = int64(r.Intn(2000000000)) - 1000000000
	}
	var ts []byte
	ts = protowire.AppendTag(ts, 1, protowire.VarintType)
	ts = protowire.AppendVarint(ts, uint64(sec))
	ts = protowire.AppendTag(ts, 2, protowire.VarintType)
	switch r.Intn(6) {
	case 0:
		ts = protowire.AppendVarint(ts, uint64(int64(int32(-1-r.Intn(2000000000))))) // negative nanos
	case 1:
		ts = protowire.AppendVarint(ts, uint64(1000000000+r.Intn(1147483647))) // 10^9 … MaxInt32
	case 2:
		minI32 := int64(math.MinInt32)
		ts = protowire.AppendVarint(ts, uint64(minI32))
	case 3:
		ts = protowire.AppendVarint(ts, r.U64()) // beyond int32: protobuf-go truncates
	case 4:
		ts = protowire.AppendVarint(ts, uint64(math.MaxInt32))
	default:
		ts = protowire.AppendVarint(ts, uint64(r.Intn(1000000000)))
	}
	var b []byte
	if r.Bool() {
		b = protowire.AppendTag(b, 4, protowire.VarintType)
		b = protowire.AppendVarint(b, r.U64())
	}
	b = protowire.AppendTag(b, 5, protowire.BytesType)
	b = protowire.AppendBytes(b, ts)
	if r.Intn(4) == 0 { // a second timestamp occurrence: merged field by field
		var ts2 []byte
		ts2 = protowire.AppendTag(ts2, 2, protowire.VarintType)
		ts2 = protowire.AppendVarint(ts2, uint64(r.Intn(1000000000)))
		b = protowire.AppendTag(b, 5, protowire.BytesType)
		b = protowire.AppendBytes(b, ts2)
	}
	return b
}

// stateKey: the datastore key the store keeps the state under (asked of the store itself)
var stateKeyMemo string

func stateKey() string {
	if stateKeyMemo == "" {
		kv := hx.NewLogDS(nil)
		_ = storepkg.New(kv).UpdateState(context.Background(), types.State{})
		for k := range kv.Image() {
			stateKeyMemo = k
		}
	}
	return stateKeyMemo
}

// marshalState is what the store does (pkg/store UpdateState): ToProto, then proto.Marshal
func marshalState(s *types.State) ([]byte, error) {
	p, err := s.ToProto()
	if err != nil {
		return nil, err
	}
	return proto.Marshal(p)
}
func unmarshalState(b []byte) (types.State, error) {
	var p pb.State
	var s types.State
	if err := proto.Unmarshal(b, &p); err != nil {
		return s, err
	}
	err := s.FromProto(&p)
	return s, err
}

func encState(c *hx.Ctx, o hx.Op) string {
	s := stateOfOp(o)
	b, err := marshalState(&s)
	if err != nil {
		encErr(c, "state", s.ChainID, err)
		kv := hx.NewLogDS(nil)
		if err := storepkg.New(kv).UpdateState(context.Background(), s); err == nil || len(kv.Image()) != 0 {
			c.Report("C12/encode/state/store-accepted-unencodable", showState(&s))
		}
		return "err:marshal"
	}
	s2, err := unmarshalState(b)
	if err != nil {
		c.Report("C12/roundtrip/state/decode-error", err.Error())
	} else if showState(&s2) != showState(&s) || !s2.LastBlockTime.Equal(s.LastBlockTime) {
		c.Report("C12/roundtrip/state/differs", showState(&s)+" -> "+showState(&s2))
	}
	// store path: the real UpdateState / GetState; what is stored is exactly these bytes
	kv := hx.NewLogDS(nil)
	st := storepkg.New(kv)
	if err := st.UpdateState(context.Background(), s); err != nil {
		c.Report("C12/roundtrip/state/store-error", err.Error())
	} else {
		if img := kv.Image(); len(img) != 1 || !bytes.Equal(img[stateKey()], b) {
			c.Report("C12/roundtrip/state/store-bytes-differ", showState(&s))
		}
		s3, err := st.GetState(context.Background())
		if err != nil || showState(&s3) != showState(&s) || !reflect.DeepEqual(s3, s2) {
			c.Report("C12/roundtrip/state/store-differs", showState(&s)+" -> "+showState(&s3))
		}
	}
	return fmt.Sprintf("bytes=%s deq=%s", hx.Hex(b), deqHit(c, "state", reflect.DeepEqual(s, s2)))
}

func decState(c *hx.Ctx, b []byte) string {
	s, err := unmarshalState(b)
	// store path: the same bytes found in the datastore
	s3, err3 := storepkg.New(hx.NewLogDS(map[string][]byte{stateKey(): b})).GetState(context.Background())
	if (err == nil) != (err3 == nil) || (err == nil && !reflect.DeepEqual(s, s3)) {
		c.Report("C12/decode/state/store-path-differs", hx.Hex(b))
	}
	if err != nil {
		return "err"
	}
	re, err := marshalState(&s)
	if err != nil {
		c.Report("C12/decode-not-canonical/state", "re-encoding fails: "+err.Error()+" "+hx.Hex(b))
		return "err-re"
	}
	s2, err := unmarshalState(re)
	if err != nil || showState(&s2) != showState(&s) || !reflect.DeepEqual(s, s2) {
		c.Report("C12/decode-not-canonical/state", hx.Hex(b))
	}
	if ns := s.LastBlockTime.Nanosecond(); ns < 0 || ns >= 1000000000 {
		c.Report("C12/decode/state/time-not-normalised", hx.Hex(b))
	}
	return fmt.Sprintf("ok %s re=%s", showState(&s), hx.Hex(re))
}

// GoldenStates: fixed states whose bytes are pinned: every field set with non-zero nanoseconds; a time before the
// epoch (negative seconds, 10-byte varint); the zero State (time.Time{} = year 1).
func GoldenStates() []types.State {
	return []types.State{
		{Version: types.Version{Block: 11, App: 3}, ChainID: "golden-chain", InitialHeight: 1, LastBlockHeight: 42,
			LastBlockTime: time.Unix(1700000000, 123456789).UTC(), DAHeight: 17,
			LastResultsHash: bytes.Repeat([]byte{0x77}, 32), AppHash: []byte("app-hash")},
		{Version: types.Version{Block: 11}, ChainID: "golden-chain", InitialHeight: 5, LastBlockHeight: 4,
			LastBlockTime: time.Unix(-5, 999999999).UTC(), DAHeight: 1},
		{},
	}
}

// ---------------------------------------------------------------- cache files: the real pkg/cache

func cacheDir() (string, func()) {
	base := os.Getenv("VERIF_WORK")
	if base == "" {
		base = os.TempDir()
	}
	d, err := os.MkdirTemp(base, "c12cache-")
	if err != nil {
		panic(err)
	}
	return d, func() { os.RemoveAll(d) }
}

var cacheFileNames = []string{"items_by_height.gob", "items_by_hash.gob", "hashes.gob", "da_included.gob"}

// cacheRoundTrip: the value goes into the real Cache (by height, with a seen mark and a DA-included height under its
// hash), SaveToDisk, a fresh Cache LoadFromDisk. What comes back must be the value (same bytes when marshalled, same
// hash, still-valid signature) and the marks.
func cacheRoundTrip(c *hx.Ctx, o hx.Op) string {
	dir, done := cacheDir()
	defer done()
	k := u(o, "k")
	if o.Verb == "cache-sh" {
		sh := types.SignedHeader{Header: headerOfOp(o), Signature: gb(o, "sig"), Signer: signerOfOp(o)}
		want, mErr := sh.MarshalBinary()
		hash := sh.Hash().String()
		c1 := cache.NewCache[types.SignedHeader]()
		c1.SetItem(k, &sh)
		c1.SetSeen(hash)
		c1.SetDAIncluded(hash, k/2)
		if err := c1.SaveToDisk(dir); err != nil {
			if mErr == nil {
				c.Report("C12/roundtrip/cache-file/save-error", err.Error())
			}
			return "err:save"
		}
		c2 := cache.NewCache[types.SignedHeader]()
		if err := c2.LoadFromDisk(dir); err != nil {
			c.Report("C12/roundtrip/cache-file/load-error", err.Error())
			return "err:load"
		}
		got := c2.GetItem(k)
		if got == nil || !reflect.DeepEqual(c2.VerifItemHeights(), []uint64{k}) {
			c.Report("C12/roundtrip/cache-file/item-lost", showHeader(&sh.Header))
			return "err:lost"
		}
		gotB, _ := got.MarshalBinary()
		addrOnly := sh.Signer.PubKey == nil && len(sh.Signer.Address) > 0 // the known finding of enc-sh: reported there
		if !bytes.Equal(gotB, want) || !bytes.Equal(got.Hash(), sh.Hash()) || showHeader(&got.Header) != showHeader(&sh.Header) ||
			!bytes.Equal(got.Signature, sh.Signature) || (!addrOnly && showSigner(&got.Signer) != showSigner(&sh.Signer)) {
			c.Report("C12/roundtrip/signedheader/cache-file-differs", showHeader(&sh.Header)+" -> "+showHeader(&got.Header))
		}
		if sh.ValidateBasic() == nil && got.ValidateBasic() != nil {
			c.Report("C12/roundtrip/signedheader/cache-file-signature-invalidated", showHeader(&sh.Header))
		}
		if h, ok := c2.GetDAIncludedHeight(hash); !c2.IsSeen(hash) || !ok || h != k/2 {
			c.Report("C12/roundtrip/cache-file/marks-lost", showHeader(&sh.Header))
		}
		return fmt.Sprintf("ok %s sig=%s %s hash=%s", showHeader(&got.Header), hx.Hex(got.Signature), showSigner(&got.Signer), hx.Hex(got.Hash()))
	}
	d := dataOfOp(o)
	want, mErr := d.MarshalBinary()
	hash := d.DACommitment().String()
	c1 := cache.NewCache[types.Data]()
	c1.SetItem(k, &d)
	c1.SetSeen(hash)
	c1.SetDAIncluded(hash, k/2)
	if err := c1.SaveToDisk(dir); err != nil {
		if mErr == nil {
			c.Report("C12/roundtrip/cache-file/save-error", err.Error())
		}
		return "err:save"
	}
	c2 := cache.NewCache[types.Data]()
	if err := c2.LoadFromDisk(dir); err != nil {
		c.Report("C12/roundtrip/cache-file/load-error", err.Error())
		return "err:load"
	}
	got := c2.GetItem(k)
	if got == nil || !reflect.DeepEqual(c2.VerifItemHeights(), []uint64{k}) {
		c.Report("C12/roundtrip/cache-file/item-lost", showData(&d))
		return "err:lost"
	}
	gotB, _ := got.MarshalBinary()
	if !bytes.Equal(gotB, want) || !bytes.Equal(got.Hash(), d.Hash()) || !bytes.Equal(got.DACommitment(), d.DACommitment()) || showData(got) != showData(&d) {
		c.Report("C12/roundtrip/data/cache-file-differs", showData(&d)+" -> "+showData(got))
	}
	if h, ok := c2.GetDAIncludedHeight(hash); !c2.IsSeen(hash) || !ok || h != k/2 {
		c.Report("C12/roundtrip/cache-file/marks-lost", showData(&d))
	}
	return fmt.Sprintf("ok %s hash=%s dac=%s", showData(got), hx.Hex(got.Hash()), hx.Hex(got.DACommitment()))
}

type cacheDump struct {
	Heights []uint64
	Items   []string
	Seen    []string
	DA      map[string]uint64
}

// loadDump: LoadFromDisk of dir into a fresh real cache; what it holds, rendered
func loadDump(kind, dir string) (cacheDump, error) {
	var dmp cacheDump
	if kind == "sh" {
		cc := cache.NewCache[types.SignedHeader]()
		if err := cc.LoadFromDisk(dir); err != nil {
			return dmp, err
		}
		dmp = cacheDump{Heights: cc.VerifItemHeights(), Seen: cc.VerifSeen(), DA: cc.VerifDAIncluded()}
		for _, h := range dmp.Heights {
			it := cc.GetItem(h)
			b, err := it.MarshalBinary()
			dmp.Items = append(dmp.Items, fmt.Sprintf("%s sig=%s %s bytes=%x err=%v", showHeader(&it.Header), hx.Hex(it.Signature), showSigner(&it.Signer), b, err))
		}
		return dmp, nil
	}
	cc := cache.NewCache[types.Data]()
	if err := cc.LoadFromDisk(dir); err != nil {
		return dmp, err
	}
	dmp = cacheDump{Heights: cc.VerifItemHeights(), Seen: cc.VerifSeen(), DA: cc.VerifDAIncluded()}
	for _, h := range dmp.Heights {
		it := cc.GetItem(h)
		b, err := it.MarshalBinary()
		dmp.Items = append(dmp.Items, fmt.Sprintf("%s bytes=%x err=%v", showData(it), b, err))
	}
	return dmp, nil
}

// resave: load dir, save what was loaded into a second directory with the real SaveToDisk, load that
func resaveDump(kind, dir string) (cacheDump, error) {
	dir2, done := cacheDir()
	defer done()
	if kind == "sh" {
		cc := cache.NewCache[types.SignedHeader]()
		if err := cc.LoadFromDisk(dir); err != nil {
			return cacheDump{}, err
		}
		if err := cc.SaveToDisk(dir2); err != nil {
			return cacheDump{}, err
		}
	} else {
		cc := cache.NewCache[types.Data]()
		if err := cc.LoadFromDisk(dir); err != nil {
			return cacheDump{}, err
		}
		if err := cc.SaveToDisk(dir2); err != nil {
			return cacheDump{}, err
		}
	}
	return loadDump(kind, dir2)
}

// checkLoad: LoadFromDisk of a directory holding arbitrary bytes must return an error or a cache whose contents
// survive a save + load unchanged; a panic is caught by guard (C12/panic/…)
func checkLoad(c *hx.Ctx, kind, dir, what string) bool {
	d1, err := loadDump(kind, dir)
	if err != nil {
		c.Hit("cache-load-rejected")
		return false
	}
	c.Hit("cache-load-accepted")
	d2, err := resaveDump(kind, dir)
	if err != nil || !reflect.DeepEqual(d1, d2) {
		c.Report("C12/decode-not-canonical/cache-file", fmt.Sprintf("%s: loaded %v, after save+load %v (%v)", what, d1, d2, err))
	}
	return true
}

// cacheLoad: file=<0..3> of a cache directory holds the bytes b (the other files are absent = empty)
func cacheLoad(c *hx.Ctx, o hx.Op) string {
	kind := o.Str("kind")
	fi, ok := o.U64("file")
	if (kind != "sh" && kind != "data") || !ok || fi >= uint64(len(cacheFileNames)) {
		return "bad-op"
	}
	dir, done := cacheDir()
	defer done()
	if err := os.WriteFile(filepath.Join(dir, cacheFileNames[fi]), o.Bytes("b"), 0o644); err != nil {
		panic(err)
	}
	checkLoad(c, kind, dir, "cache-load "+cacheFileNames[fi]+" "+hx.Hex(o.Bytes("b")))
	return "checked"
}

// cacheFilesOf: what the real SaveToDisk writes for a cache holding one item
func cacheFilesOf(kind string, o hx.Op) (map[string][]byte, error) {
	dir, done := cacheDir()
	defer done()
	k := u(o, "k")
	var err error
	if kind == "sh" {
		sh := types.SignedHeader{Header: headerOfOp(o), Signature: gb(o, "sig"), Signer: signerOfOp(o)}
		cc := cache.NewCache[types.SignedHeader]()
		cc.SetItem(k, &sh)
		cc.SetSeen("seen-hash")
		cc.SetDAIncluded("da-hash", 9)
		err = cc.SaveToDisk(dir)
	} else {
		d := dataOfOp(o)
		cc := cache.NewCache[types.Data]()
		cc.SetItem(k, &d)
		cc.SetSeen("seen-hash")
		cc.SetDAIncluded("da-hash", 9)
		err = cc.SaveToDisk(dir)
	}
	if err != nil {
		return nil, err
	}
	out := map[string][]byte{}
	for _, n := range cacheFileNames {
		b, err := os.ReadFile(filepath.Join(dir, n))
		if err != nil {
			return nil, err
		}
		out[n] = b
	}
	return out, nil
}

// cacheTrunc: every proper prefix of every file the real SaveToDisk wrote for this value is offered to LoadFromDisk
// (beside the other, complete files)
func cacheTrunc(c *hx.Ctx, o hx.Op) string {
	kind := o.Str("kind")
	if kind != "sh" && kind != "data" {
		return "bad-op"
	}
	files, err := cacheFilesOf(kind, o)
	if err != nil {
		return "err:save"
	}
	dir, done := cacheDir()
	defer done()
	for n, b := range files {
		if err := os.WriteFile(filepath.Join(dir, n), b, 0o644); err != nil {
			panic(err)
		}
	}
	names := append([]string(nil), cacheFileNames...)
	sort.Strings(names)
	for _, n := range names {
		full := files[n]
		for l := 0; l < len(full); l++ {
			if err := os.WriteFile(filepath.Join(dir, n), full[:l], 0o644); err != nil {
				panic(err)
			}
			if checkLoad(c, kind, dir, fmt.Sprintf("%s cut to %d of %d bytes", n, l, len(full))) {
				c.Hit("cache-truncated-file-accepted")
			}
		}
		if err := os.WriteFile(filepath.Join(dir, n), full, 0o644); err != nil {
			panic(err)
		}
	}
	if !checkLoad(c, kind, dir, "complete files") {
		c.Report("C12/roundtrip/cache-file/load-error", "the complete files written by SaveToDisk are refused")
	}
	return "checked"
}

// genCacheLoad: mutated cache files. The generator runs the real SaveToDisk to obtain well-formed files.
func genCacheLoad(r *hx.Rng, w io.Writer, sh *types.SignedHeader, d *types.Data) {
	kind := "sh"
	args := fmt.Sprintf("k=%d %s sig=%s %s", sh.Height(), headerArgs(&sh.Header), hx.Hex(sh.Signature), showSigner(&sh.Signer))
	if r.Bool() {
		kind = "data"
		args = "k=5 " + dataArgs(d)
	}
	files, err := cacheFilesOf(kind, hx.ParseOp("x "+args))
	if err != nil {
		return
	}
	fi := []int{0, 0, 0, 2, 3, 1}[r.Intn(6)]
	b := append([]byte(nil), files[cacheFileNames[fi]]...)
	switch r.Intn(8) {
	case 0: // truncate
		if len(b) > 0 {
			b = b[:r.Intn(len(b))]
		}
	case 1, 2: // flip a bit
		if len(b) > 0 {
			b[r.Intn(len(b))] ^= byte(1 << uint(r.Intn(8)))
		}
	case 3: // a random byte
		if len(b) > 0 {
			b[r.Intn(len(b))] = byte(r.U64())
		}
	case 4: // insert bytes
		pos := r.Intn(len(b) + 1)
		b = append(b[:pos:pos], append(r.Bytes(1+r.Intn(4)), b[pos:]...)...)
	case 5: // the file of the other kind / another map type
		other := "data"
		if kind == "data" {
			other = "sh"
		}
		kind = other
	case 6: // garbage
		b = r.Bytes(r.Intn(64))
	case 7: // twice the file
		b = append(b, b...)
	}
	if len(b) > 8000 {
		return
	}
	fmt.Fprintf(w, "cache-load kind=%s file=%d b=%s\n", kind, fi, hx.Hex(b))
}

var _ = strings.Join
var _ = timestamppb.New
