package c16

import (
	"bytes"
	"context"
	"errors"
	"fmt"
	"io"
	"reflect"
	"strconv"
	"strings"
	"time"

	"github.com/filecoin-project/go-jsonrpc"

	"verifharness/hx"

	coreda "github.com/evstack/ev-node/core/da"
	proxy "github.com/evstack/ev-node/da/jsonrpc"
	"github.com/evstack/ev-node/types"
)

// ---------------------------------------------------------------- line protocol helpers

func natList(s string) []uint64 {
	if s == "-" || s == "" {
		return nil
	}
	var out []uint64
	for _, p := range strings.Split(s, ",") {
		if n, err := strconv.ParseUint(p, 10, 32); err == nil {
			out = append(out, n)
		}
	}
	return out
}
func showNats(ns []int) string {
	if len(ns) == 0 {
		return "-"
	}
	p := make([]string, len(ns))
	for i, n := range ns {
		p[i] = strconv.Itoa(n)
	}
	return strings.Join(p, ",")
}

// validAns: is this a well-formed answer of the given family?
func validAns(a string, extra ...string) bool {
	for _, e := range extra {
		if a == e {
			return true
		}
	}
	_, ok := scriptedErr(a)
	return ok
}
func validSubmitAns(a string) bool {
	// (`wait` is not an answer a line can name: only xsubmit scripts it, with the release it needs)
	if a == "ok" || a == "dummy" {
		return true
	}
	if rest, ok := strings.CutPrefix(a, "ok:"); ok {
		_, err := strconv.ParseUint(rest, 10, 32)
		return err == nil
	}
	return validAns(a)
}

// identities of an error as errors.Is sees them: sentinel indexes and "c" for context.Canceled
func isList(err error) string {
	if err == nil {
		return "ok"
	}
	var p []string
	for i, s := range Sentinels {
		if errors.Is(err, s.Err) {
			p = append(p, strconv.Itoa(i))
		}
	}
	if errors.Is(err, context.Canceled) {
		p = append(p, "c")
	}
	if len(p) == 0 {
		return "-"
	}
	return strings.Join(p, ",")
}
func typeName(err error) string {
	if err == nil {
		return "-"
	}
	return reflect.TypeOf(err).String()
}
func wireCode(err error) string {
	var je *jsonrpc.JSONRPCError
	if err != nil && reflect.TypeOf(err) == reflect.TypeOf(je) && errors.As(err, &je) {
		return strconv.Itoa(int(je.Code))
	}
	return "-"
}

// causeOf names what the backing DA was scripted to do, for finding signatures.
func causeOf(ans string, cancelled bool) string {
	if cancelled {
		return "cancelled-call"
	}
	kind, arg, _ := strings.Cut(ans, ":")
	switch kind {
	case "err", "wrap":
		if i, err := strconv.Atoi(arg); err == nil && i >= 0 && i < len(Sentinels) {
			return Sentinels[i].Name
		}
	case "ctx":
		return "context.Canceled"
	case "msg", "other":
		if err, ok := scriptedErr(ans); ok && strings.Contains(err.Error(), context.Canceled.Error()) {
			return "text-contains-context-canceled"
		}
	case "dummy":
		return "dummy-da"
	case "ok", "nil":
		return "no-error"
	}
	return "other-error"
}

// knownSubmitPair: the (in-process status, proxied status) pair each recorded finding is about (known-findings.json
// names the same pair).  A classification difference gets the recorded signature `…/submit/<cause>` ONLY for exactly
// that pair; the same cause with any other pair is a different violation and says so in its signature.
var knownSubmitPair = map[string][2]string{
	"ErrTxTimedOut":                  {"notincluded", "error"},
	"ErrTxAlreadyInMempool":          {"inmempool", "error"},
	"ErrBlobSizeOverLimit":           {"toobig", "error"},
	"ErrTxIncorrectAccountSequence":  {"badseq", "error"},
	"ErrContextDeadline":             {"deadline", "error"},
	"ErrContextCanceled":             {"error", "canceled"},
	"text-contains-context-canceled": {"error", "canceled"},
}

func submitDiffSignature(cause string, direct, proxied coreda.StatusCode) string {
	d, p := statusName(direct), statusName(proxied)
	if pair, ok := knownSubmitPair[cause]; ok && (pair[0] != d || pair[1] != p) {
		return "C16/classification-differs/submit/" + cause + "/unexpected-pair-" + d + "-" + p
	}
	return "C16/classification-differs/submit/" + cause
}

func eqBytesList(a, b [][]byte) bool {
	if len(a) != len(b) {
		return false
	}
	for i := range a {
		if !bytes.Equal(a[i], b[i]) {
			return false
		}
	}
	return true
}

// refFilter is the property's own statement of the size rule, written without looking at the
// client's loop: L = the longest prefix whose total size fits; if the blob that stops it can never
// be sent on its own the whole call is refused, otherwise exactly L is sent.
func refFilter(max uint64, blobs [][]byte) (sent [][]byte, refused bool) {
	var total uint64
	n := 0
	for n < len(blobs) && total+uint64(len(blobs[n])) <= max {
		total += uint64(len(blobs[n]))
		n++
	}
	if n < len(blobs) && uint64(len(blobs[n])) > max {
		return nil, true
	}
	return blobs[:n], false
}

// ---------------------------------------------------------------- executor

type runner struct {
	c       *hx.Ctx
	fx      *fixture
	grace   time.Duration // how long the proxied DA layer is given to learn of a cancellation
	raceOff int64         // how much of the race detector's log has been read
}

func (r *runner) ctxFor(cancelled bool) (context.Context, context.CancelFunc) {
	ctx, cancel := context.WithCancel(context.Background())
	if cancelled {
		cancel()
	}
	return ctx, cancel
}

func showSubmit(res coreda.ResultSubmit) string {
	return fmt.Sprintf("%s/%d/%d/%d", statusName(res.Code), res.SubmittedCount, len(res.IDs), res.Height)
}

// subCase is one caller's submission as the monitors see it: what it asked for, what the helper answered
// in-process and through the proxy, and what its request(s) carried when they reached the backing DA.
type subCase struct {
	who       string // "" (submit) or "A: " / "B: " (csubmit)
	blobs     [][]byte
	max, h    uint64
	ans       string
	cancelled bool
	dres      coreda.ResultSubmit
	pres      coreda.ResultSubmit
	dlast     error
	plast     error
	calls     [][][]byte
}

func (sc *subCase) script() script { return script{Sub: sc.ans, Max: sc.max, H: sc.h} }

func (sc *subCase) got() [][]byte {
	if len(sc.calls) > 0 {
		return sc.calls[0]
	}
	return nil
}

func sizesOf(bs [][]byte) string {
	szs := make([]int, len(bs))
	for i := range bs {
		szs[i] = len(bs[i])
	}
	return showNats(szs)
}

func (sc *subCase) line() string {
	sent := "none"
	if len(sc.calls) > 0 {
		sent = sizesOf(sc.calls[0])
	}
	return fmt.Sprintf("d=%s p=%s sent=%s dis=%s pis=%s dty=%s pty=%s wire=%s", showSubmit(sc.dres), showSubmit(sc.pres), sent,
		isList(sc.dlast), isList(sc.plast), typeName(sc.dlast), typeName(sc.plast), wireCode(sc.plast))
}

// prefixWhy classifies how what the server received differs from the longest fitting prefix.
func prefixWhy(ncalls int, got, expSent, blobs [][]byte) string {
	switch {
	case ncalls == 0:
		return "nothing-sent"
	case len(got) < len(expSent) && eqBytesList(got, blobs[:len(got)]):
		return "shorter-prefix"
	case len(got) > len(expSent) && len(got) <= len(blobs) && eqBytesList(got, blobs[:len(got)]):
		return "exceeds-limit"
	case len(got) <= len(blobs) && !eqBytesList(got, blobs[:len(got)]):
		return "not-a-prefix"
	}
	return "other"
}

// judge: the monitors of one submission (size rule, SubmittedCount, direct ≡ proxied).
func (r *runner) judge(sc *subCase) {
	c := r.c
	max, blobs, ans, cancelled, pres, dres, calls, got := sc.max, sc.blobs, sc.ans, sc.cancelled, sc.pres, sc.dres, sc.calls, sc.got()
	cause := causeOf(ans, cancelled)
	// ---- monitor: the size rule
	if len(calls) > 1 {
		c.Report("C16/size-filter/more-than-one-call", fmt.Sprintf("%sone SubmitWithOptions made %d calls to the server", sc.who, len(calls)))
	}
	expSent, refused := refFilter(max, blobs)
	switch {
	case refused:
		c.Hit("filter/refused")
		if len(calls) > 0 {
			c.Report("C16/size-filter/oversize-but-sent", fmt.Sprintf("%sa blob larger than the limit %d stops the prefix, yet %d blobs were sent to the server", sc.who, max, len(got)))
		}
		if pres.Code != coreda.StatusTooBig {
			c.Report("C16/size-filter/oversize-not-refused", fmt.Sprintf("%sa blob larger than the limit %d stops the prefix; status is %s, not toobig", sc.who, max, statusName(pres.Code)))
		}
	case len(blobs) == 0:
		c.Hit("filter/empty-input")
		if len(calls) > 0 || pres.Code != coreda.StatusSuccess || pres.SubmittedCount != 0 {
			c.Report("C16/size-filter/empty-input", fmt.Sprintf("%sempty input: calls=%d status=%s count=%d", sc.who, len(calls), statusName(pres.Code), pres.SubmittedCount))
		}
	case !cancelled:
		if len(expSent) < len(blobs) {
			c.Hit("filter/truncated")
		} else {
			c.Hit("filter/all-fit")
		}
		if !eqBytesList(got, expSent) {
			why := prefixWhy(len(calls), got, expSent, blobs)
			c.Report("C16/size-filter/not-longest-prefix/"+why, fmt.Sprintf("%slimit %d, %d blobs: the longest fitting prefix has %d blobs, the server received %d", sc.who, max, len(blobs), len(expSent), len(got)))
		}
	}
	// ---- monitor: SubmittedCount
	if pres.SubmittedCount != uint64(len(pres.IDs)) && pres.Code != coreda.StatusContextCanceled {
		c.Report("C16/submitted-count/not-number-of-ids", fmt.Sprintf("%sSubmittedCount=%d but %d ids", sc.who, pres.SubmittedCount, len(pres.IDs)))
	}
	if pres.SubmittedCount > uint64(len(got)) {
		c.Report("C16/submitted-count/unsent-blob-marked-submitted", fmt.Sprintf("%sSubmittedCount=%d but only %d blobs reached the DA layer", sc.who, pres.SubmittedCount, len(got)))
	}
	if pres.Code == coreda.StatusSuccess && pres.SubmittedCount > uint64(len(expSent)) {
		c.Report("C16/submitted-count/exceeds-fitting-prefix", fmt.Sprintf("%sSubmittedCount=%d, fitting prefix %d", sc.who, pres.SubmittedCount, len(expSent)))
	}
	// ---- monitor: direct ≡ proxied. The reference is the direct call on what the size rule lets through
	// (the whole input when everything fits, and always for a backing DA that enforces the same limit itself).
	ref := dres
	if ans != "dummy" && !refused && len(expSent) < len(blobs) {
		r.fx.back.reset(sc.script())
		ctx, cancel := r.ctxFor(cancelled)
		ref = types.SubmitWithHelpers(ctx, r.fx.back, r.fx.logger, expSent, 0, nil)
		cancel()
	}
	if refused && (ans != "dummy" || cancelled) {
		return // the client refuses locally before anything else; there is no in-process counterpart of that call
	}
	if len(blobs) == 0 && (cancelled || (ans != "ok" && ans != "dummy")) {
		return // nothing to submit: the client answers without a call, so a scripted failure / the cancelled context is never consulted
	}
	if ref.Code != pres.Code {
		c.Report(submitDiffSignature(cause, ref.Code, pres.Code), fmt.Sprintf("%ssubmit: in-process %s, through the proxy %s (backing DA answers %q)", sc.who, statusName(ref.Code), statusName(pres.Code), ans))
	}
	// (no early return: counts, ids and height are compared whatever the classification)
	if ref.SubmittedCount != pres.SubmittedCount || !eqBytesList(ref.IDs, pres.IDs) || ref.Height != pres.Height {
		c.Report("C16/result-differs/submit", fmt.Sprintf("%ssubmit: in-process count=%d ids=%d height=%d, proxied count=%d ids=%d height=%d", sc.who, ref.SubmittedCount, len(ref.IDs), ref.Height, pres.SubmittedCount, len(pres.IDs), pres.Height))
	}
}

func (r *runner) submit(o hx.Op) {
	c := r.c
	ans := o.Str("ans")
	if !validSubmitAns(ans) {
		c.Emit("bad-op")
		return
	}
	max, _ := o.U64("max")
	if max == 0 {
		max = r.fx.defMax
	}
	h, _ := o.U64("h")
	cancelled := o.Bool("cancel")
	sizes := natList(o.Str("sizes"))
	blobs := make([][]byte, len(sizes))
	for i, s := range sizes {
		blobs[i] = bytes.Repeat([]byte{byte(i%251 + 1)}, int(s))
	}
	sc := &subCase{blobs: blobs, max: max, h: h, ans: ans, cancelled: cancelled}
	c.Hit("submit/" + strings.SplitN(ans, ":", 2)[0])

	// direct: the node's helper straight on the backing DA
	r.fx.back.reset(sc.script())
	drec := &recDA{DA: r.fx.back}
	ctx, cancel := r.ctxFor(cancelled)
	sc.dres = types.SubmitWithHelpers(ctx, drec, r.fx.logger, blobs, 0, nil)
	cancel()
	sc.dlast = drec.last

	// proxied: helper -> client wrapper -> wire -> server -> the same backing DA
	r.fx.back.reset(sc.script())
	r.fx.cli.DA.MaxBlobSize = max
	prec := &recDA{DA: &r.fx.cli.DA}
	ctx, cancel = r.ctxFor(cancelled)
	sc.pres = types.SubmitWithHelpers(ctx, prec, r.fx.logger, blobs, 0, nil)
	cancel()
	sc.plast = prec.last
	sc.calls = r.fx.back.callsOf("")
	c.Emit("%s", sc.line())
	r.judge(sc)
}

// ---------------------------------------------------------------- csubmit: two callers, ONE client
//
// The node has one DA client; the header submission loop and the data submission loop call SubmitWithOptions on
// it from two goroutines.  `csubmit` submits two recognisable blob lists (A: bytes 0x01.., B: bytes 0x81..) through the
// same client, tagged by their options, so that the backing DA records what each REQUEST carried:
//
//	gate=stub  caller A is parked between the client wrapper (size filter, batch packed) and the generated
//	           JSON-RPC stub (request encoded) while B runs from start to end, then A goes on
//	gate=da    caller A is parked inside the backing DA (its request has been received and recorded) while B runs
//	gate=free  both start together, nothing orders them (several rounds; the race detector watches)
//
// Each caller is then judged exactly like a lone `submit` (reference: the in-process call), plus: a request must
// not carry a blob of the other caller.
const freeRounds = 6

func tagBlobs(sizes []uint64, base byte) [][]byte {
	blobs := make([][]byte, len(sizes))
	for i, s := range sizes {
		blobs[i] = bytes.Repeat([]byte{base + byte(i%100)}, int(s))
	}
	return blobs
}

func validGate(g string) bool { return g == "stub" || g == "da" || g == "free" }

func (r *runner) csubmit(o hx.Op) {
	c := r.c
	ans, gate := o.Str("ans"), o.Str("gate")
	if !validSubmitAns(ans) || !validGate(gate) || !o.Has("a") || !o.Has("b") {
		c.Emit("bad-op")
		return
	}
	max, _ := o.U64("max")
	if max == 0 {
		max = r.fx.defMax
	}
	h, _ := o.U64("h")
	A := &subCase{who: "caller A: ", blobs: tagBlobs(natList(o.Str("a")), 0x01), max: max, h: h, ans: ans}
	B := &subCase{who: "caller B: ", blobs: tagBlobs(natList(o.Str("b")), 0x81), max: max, h: h, ans: ans}
	c.Hit("csubmit/" + gate)

	// direct: one after the other on the backing DA (an in-process DA has no shared client state to begin with)
	r.fx.back.reset(A.script())
	for _, sc := range []*subCase{A, B} {
		drec := &recDA{DA: r.fx.back}
		sc.dres = types.SubmitWithHelpers(context.Background(), drec, r.fx.logger, sc.blobs, 0, nil)
		sc.dlast = drec.last
	}

	r.fx.cli.DA.MaxBlobSize = max
	rounds := 1
	if gate == "free" {
		rounds = freeRounds
	}
	for round := 0; round < rounds; round++ {
		r.fx.back.reset(A.script())
		entered, release := make(chan struct{}, 8), make(chan struct{})
		restore := func() {}
		switch gate {
		case "stub":
			orig := r.fx.cli.DA.Internal.SubmitWithOptions
			r.fx.cli.DA.Internal.SubmitWithOptions = func(ctx context.Context, blobs []coreda.Blob, gp float64, ns []byte, opts []byte) ([]coreda.ID, error) {
				if string(opts) == "A" {
					entered <- struct{}{}
					<-release
				}
				return orig(ctx, blobs, gp, ns, opts)
			}
			restore = func() { r.fx.cli.DA.Internal.SubmitWithOptions = orig }
		case "da":
			w := r.fx.back.arm("A")
			entered, release = w.entered, w.release
		}
		call := func(sc *subCase, tag string) {
			prec := &recDA{DA: &r.fx.cli.DA}
			sc.pres = types.SubmitWithHelpers(context.Background(), prec, r.fx.logger, sc.blobs, 0, []byte(tag))
			sc.plast = prec.last
		}
		doneA := make(chan struct{})
		if gate == "free" {
			start, doneB := make(chan struct{}), make(chan struct{})
			go func() { defer close(doneA); <-start; call(A, "A") }()
			go func() { defer close(doneB); <-start; call(B, "B") }()
			close(start)
			<-doneA
			<-doneB
		} else {
			go func() { defer close(doneA); call(A, "A") }()
			select {
			case <-entered: // A is parked: its batch is packed (stub) / its request has arrived (da)
				c.Hit("csubmit/overlapped")
			case <-doneA: // A needed no call (refused, empty)
			}
			call(B, "B")
			close(release)
			<-doneA
		}
		restore()
		A.calls, B.calls = r.fx.back.callsOf("A"), r.fx.back.callsOf("B")
		if strays := r.fx.back.callsOf(""); len(strays) > 0 {
			c.Report("C16/concurrent/request-lost-its-options", fmt.Sprintf("%d requests arrived without the options their caller passed", len(strays)))
		}
		for _, p := range [][2]*subCase{{A, B}, {B, A}} {
			me, other := p[0], p[1]
			for _, call := range me.calls {
				for i, b := range call {
					if len(b) == 0 || (i < len(me.blobs) && bytes.Equal(b, me.blobs[i])) {
						continue
					}
					for j, ob := range other.blobs {
						if bytes.Equal(b, ob) {
							c.Report("C16/concurrent/submission-carried-other-calls-blobs", fmt.Sprintf("%sblob %d of its request (as received by the DA layer) is blob %d of the OTHER caller's list (gate=%s, %d+%d blobs, limit %d): two SubmitWithOptions calls on the same client overlap and one batch ends up in the other's request; the caller marks its own blobs as submitted", me.who, i, j, gate, len(A.blobs), len(B.blobs), max))
							break
						}
					}
				}
			}
			r.judge(me)
		}
		r.scanRaces()
	}
	c.Emit("a[%s] b[%s]", A.line(), B.line())
}

// ---------------------------------------------------------------- xsubmit: the caller gives up in the middle of a call
//
// The backing DA answers `wait`: it takes the batch and waits for its inclusion; it honours its context (a cancelled
// submission is dropped, nothing is stored) and stores the batch when the op lets the DA "produce its block".
// `cancel=mid` cancels the caller's context while the DA waits; `cancel=none` lets the call complete.  Compared,
// direct vs proxied: what the caller was told, whether the DA layer learnt of the cancellation, what it holds afterwards.
type midRes struct {
	res      coreda.ResultSubmit
	last     error
	reached  bool
	got      [][]byte
	saw      bool
	stored   [][]byte
	didStore bool
	hung     string
}

func (r *runner) midCall(da coreda.DA, blobs [][]byte, h uint64, mid bool) midRes {
	var m midRes
	r.fx.back.reset(script{Sub: "wait", H: h})
	w := r.fx.back.arm("")
	ctx, cancel := context.WithCancel(context.Background())
	defer cancel()
	rec := &recDA{DA: da}
	done := make(chan struct{})
	go func() {
		defer close(done)
		m.res = types.SubmitWithHelpers(ctx, rec, r.fx.logger, blobs, 0, nil)
	}()
	long := 20 * time.Second
	select {
	case <-w.entered:
		m.reached = true
	case <-done:
	}
	if m.reached {
		if mid {
			cancel() // the node shuts down / abandons the attempt
			select {
			case <-done:
			case <-time.After(long):
				m.hung = "the call did not return after its context was cancelled"
			}
			// the DA layer must learn of it (in-process: at once; proxied: the server cancels the request context)
			select {
			case <-w.finished:
			case <-time.After(r.grace):
				r.grace = 300 * time.Millisecond // already a finding; do not wait that long again in this run
			}
		}
		close(w.release) // the DA layer produces its next block
		select {
		case <-w.finished:
		case <-time.After(long):
			m.hung = "the backing DA call did not end"
		}
		select {
		case <-done:
		case <-time.After(long):
			m.hung = "the call did not return"
		}
	}
	r.fx.back.mu.Lock()
	m.saw, m.stored, m.didStore = w.saw, w.stored, w.didStore
	r.fx.back.mu.Unlock()
	if cs := r.fx.back.callsOf(""); len(cs) > 0 {
		m.got = cs[0]
	}
	m.last = rec.last
	return m
}

func b2i(b bool) int {
	if b {
		return 1
	}
	return 0
}

func (r *runner) xsubmit(o hx.Op) {
	c := r.c
	how := o.Str("cancel")
	if (how != "mid" && how != "none") || !o.Has("sizes") {
		c.Emit("bad-op")
		return
	}
	mid := how == "mid"
	max, _ := o.U64("max")
	if max == 0 {
		max = r.fx.defMax
	}
	h, _ := o.U64("h")
	sizes := natList(o.Str("sizes"))
	blobs := make([][]byte, len(sizes))
	for i, s := range sizes {
		blobs[i] = bytes.Repeat([]byte{byte(i%251 + 1)}, int(s))
	}
	c.Hit("xsubmit/" + how)
	d := r.midCall(r.fx.back, blobs, h, mid)
	r.fx.cli.DA.MaxBlobSize = max
	p := r.midCall(&r.fx.cli.DA, blobs, h, mid)
	sent := "none"
	if p.reached {
		sent = sizesOf(p.got)
	}
	c.Emit("d=%s p=%s sent=%s dsaw=%d psaw=%d dstored=%s pstored=%s dis=%s pis=%s dty=%s pty=%s", showSubmit(d.res), showSubmit(p.res), sent,
		b2i(d.saw), b2i(p.saw), sizesOf(d.stored), sizesOf(p.stored), isList(d.last), isList(p.last), typeName(d.last), typeName(p.last))

	// ---- monitors
	cause := "no-error"
	if mid {
		cause = "cancelled-mid-call"
	}
	for _, m := range []midRes{d, p} {
		if m.hung != "" {
			c.Report("C16/cancel/call-did-not-return", m.hung)
		}
	}
	expSent, refused := refFilter(max, blobs)
	if refused || len(blobs) == 0 {
		if p.reached {
			c.Report("C16/size-filter/oversize-but-sent", fmt.Sprintf("limit %d: nothing may be sent (refused=%v, %d blobs), yet %d blobs reached the DA layer", max, refused, len(blobs), len(p.got)))
		}
		if refused && p.res.Code != coreda.StatusTooBig {
			c.Report("C16/size-filter/oversize-not-refused", fmt.Sprintf("a blob larger than the limit %d stops the prefix; status is %s, not toobig", max, statusName(p.res.Code)))
		}
		return
	}
	if !p.reached || !eqBytesList(p.got, expSent) {
		n := 0
		if p.reached {
			n = 1
		}
		c.Report("C16/size-filter/not-longest-prefix/"+prefixWhy(n, p.got, expSent, blobs), fmt.Sprintf("limit %d, %d blobs: the longest fitting prefix has %d blobs, the server received %d", max, len(blobs), len(expSent), len(p.got)))
	}
	ref := d
	if len(expSent) < len(blobs) {
		ref = r.midCall(r.fx.back, expSent, h, mid)
	}
	if ref.res.Code != p.res.Code {
		c.Report(submitDiffSignature(cause, ref.res.Code, p.res.Code), fmt.Sprintf("submit, %s: the caller is told %s in-process and %s through the proxy", cause, statusName(ref.res.Code), statusName(p.res.Code)))
	}
	if ref.res.SubmittedCount != p.res.SubmittedCount || !eqBytesList(ref.res.IDs, p.res.IDs) || ref.res.Height != p.res.Height {
		c.Report("C16/result-differs/submit", fmt.Sprintf("submit, %s: in-process count=%d ids=%d height=%d, proxied count=%d ids=%d height=%d", cause, ref.res.SubmittedCount, len(ref.res.IDs), ref.res.Height, p.res.SubmittedCount, len(p.res.IDs), p.res.Height))
	}
	if p.res.SubmittedCount > uint64(len(p.got)) {
		c.Report("C16/submitted-count/unsent-blob-marked-submitted", fmt.Sprintf("SubmittedCount=%d but only %d blobs reached the DA layer", p.res.SubmittedCount, len(p.got)))
	}
	switch {
	case ref.saw && !p.saw:
		c.Report("C16/cancel/backing-da-not-cancelled", fmt.Sprintf("the caller cancelled its context while the DA layer was working on the batch: in-process the DA layer sees the cancellation and drops the batch; behind the proxy the caller is told %s but the DA layer's context was not cancelled", statusName(p.res.Code)))
	case !ref.saw && p.saw:
		c.Report("C16/cancel/backing-da-cancelled-without-cause", "behind the proxy the DA layer's context was cancelled although the caller never cancelled")
	}
	if !eqBytesList(ref.stored, p.stored) || ref.didStore != p.didStore {
		sig := "C16/result-differs/contents-after-submit"
		if mid {
			sig = "C16/result-differs/contents-after-cancel"
		}
		c.Report(sig, fmt.Sprintf("%s: afterwards the DA layer holds %d blobs (sizes %s) when called in-process and %d blobs (sizes %s) behind the proxy; the caller was told %s / %s", cause, len(ref.stored), sizesOf(ref.stored), len(p.stored), sizesOf(p.stored), statusName(ref.res.Code), statusName(p.res.Code)))
	}
}

// ---------------------------------------------------------------- slowsubmit: a DA call that simply takes a while
//
// The backing DA answers `slow`: it works on the batch for `delay` ms (honouring its context), stores it and returns
// the ids.  Nobody cancels.  In-process the caller waits and gets the ids; behind the proxy it must be the same -
// same status, same ids, the DA layer holds the same blobs, and they can be read back through the proxy under the ids
// the caller was given.  (A deadline in the server that covers the handler run loses the response of a call the DA
// layer completed: regenerated facts serverWriteTimeout / serverReadTimeout, obligation server_no_handler_deadline.)
const maxSlowDelayMs = 20000

type slowRes struct {
	res    coreda.ResultSubmit
	last   error
	got    [][][]byte
	stored [][]byte
}

func (r *runner) slowCall(da coreda.DA, blobs [][]byte, h uint64, delay time.Duration) slowRes {
	r.fx.back.reset(script{Sub: "slow", H: h, Delay: delay, Get: "ok"})
	rec := &recDA{DA: da}
	var m slowRes
	m.res = types.SubmitWithHelpers(context.Background(), rec, r.fx.logger, blobs, 0, nil)
	m.last = rec.last
	m.got = r.fx.back.callsOf("")
	if len(m.got) > 0 && m.res.Code != coreda.StatusSuccess {
		// the caller was told something else than success: give the DA layer the time it needs to finish anyway
		time.Sleep(delay/4 + 50*time.Millisecond)
	}
	r.fx.back.mu.Lock()
	m.stored = r.fx.back.slowKept
	r.fx.back.mu.Unlock()
	return m
}

func (r *runner) slowsubmit(o hx.Op) {
	c := r.c
	ms, ok := o.U64("delay")
	if !ok || ms > maxSlowDelayMs || !o.Has("sizes") {
		c.Emit("bad-op")
		return
	}
	delay := time.Duration(ms) * time.Millisecond
	max, _ := o.U64("max")
	if max == 0 {
		max = r.fx.defMax
	}
	h, _ := o.U64("h")
	sizes := natList(o.Str("sizes"))
	blobs := make([][]byte, len(sizes))
	for i, s := range sizes {
		blobs[i] = bytes.Repeat([]byte{byte(i%251 + 1)}, int(s))
	}
	c.Hit("slowsubmit")
	d := r.slowCall(r.fx.back, blobs, h, delay)
	r.fx.cli.DA.MaxBlobSize = max
	p := r.slowCall(&r.fx.cli.DA, blobs, h, delay)
	// read back through the proxy what the ids the proxied caller was given resolve to
	back, backErr := [][]byte(nil), error(nil)
	if len(p.res.IDs) > 0 {
		back, backErr = r.fx.cli.DA.Get(context.Background(), p.res.IDs, nil)
	}
	sent, backS := "none", sizesOf(back)
	if len(p.got) > 0 {
		sent = sizesOf(p.got[0])
	}
	if backErr != nil {
		backS = "err"
	}
	c.Emit("d=%s p=%s sent=%s dstored=%s pstored=%s back=%s dis=%s pis=%s dty=%s pty=%s", showSubmit(d.res), showSubmit(p.res), sent,
		sizesOf(d.stored), sizesOf(p.stored), backS, isList(d.last), isList(p.last), typeName(d.last), typeName(p.last))

	// ---- monitors
	expSent, refused := refFilter(max, blobs)
	if refused || len(blobs) == 0 {
		if len(p.got) > 0 {
			c.Report("C16/size-filter/oversize-but-sent", fmt.Sprintf("limit %d: nothing may be sent (refused=%v, %d blobs), yet a request reached the DA layer", max, refused, len(blobs)))
		}
		if refused && p.res.Code != coreda.StatusTooBig {
			c.Report("C16/size-filter/oversize-not-refused", fmt.Sprintf("a blob larger than the limit %d stops the prefix; status is %s, not toobig", max, statusName(p.res.Code)))
		}
		return
	}
	if len(p.got) != 1 || !eqBytesList(p.got[0], expSent) {
		var g [][]byte
		if len(p.got) > 0 {
			g = p.got[0]
		}
		if len(p.got) > 1 {
			c.Report("C16/size-filter/more-than-one-call", fmt.Sprintf("one SubmitWithOptions made %d calls to the server", len(p.got)))
		}
		if !eqBytesList(g, expSent) {
			c.Report("C16/size-filter/not-longest-prefix/"+prefixWhy(len(p.got), g, expSent, blobs), fmt.Sprintf("limit %d, %d blobs: the longest fitting prefix has %d blobs, the server received %d", max, len(blobs), len(expSent), len(g)))
		}
	}
	ref := d
	if len(expSent) < len(blobs) {
		ref = r.slowCall(r.fx.back, expSent, h, delay)
	}
	same := ref.res.Code == p.res.Code && ref.res.SubmittedCount == p.res.SubmittedCount && eqBytesList(ref.res.IDs, p.res.IDs) && ref.res.Height == p.res.Height
	switch {
	case same:
	case ref.res.Code == coreda.StatusSuccess && eqBytesList(p.stored, expSent):
		c.Report("C16/result-differs/slow-successful-call-lost-behind-the-proxy", fmt.Sprintf("a DA call that takes %d ms and succeeds: in-process the caller gets %s with %d ids; behind the proxy the DA layer completed the same call (it holds the %d blobs) but the caller is told %s with %d ids (error: %v) - it will submit blobs again that the DA layer has accepted", ms, statusName(ref.res.Code), len(ref.res.IDs), len(p.stored), statusName(p.res.Code), len(p.res.IDs), p.last))
	case ref.res.Code != p.res.Code:
		c.Report(submitDiffSignature("slow-answer", ref.res.Code, p.res.Code), fmt.Sprintf("submit answered after %d ms: the caller is told %s in-process and %s through the proxy", ms, statusName(ref.res.Code), statusName(p.res.Code)))
	default:
		c.Report("C16/result-differs/submit", fmt.Sprintf("submit answered after %d ms: in-process count=%d ids=%d height=%d, proxied count=%d ids=%d height=%d", ms, ref.res.SubmittedCount, len(ref.res.IDs), ref.res.Height, p.res.SubmittedCount, len(p.res.IDs), p.res.Height))
	}
	if p.res.SubmittedCount > uint64(len(expSent)) {
		c.Report("C16/submitted-count/exceeds-fitting-prefix", fmt.Sprintf("SubmittedCount=%d, fitting prefix %d", p.res.SubmittedCount, len(expSent)))
	}
	if !eqBytesList(ref.stored, p.stored) {
		c.Report("C16/result-differs/contents-after-submit", fmt.Sprintf("slow answer: afterwards the DA layer holds sizes %s when called in-process and %s behind the proxy", sizesOf(ref.stored), sizesOf(p.stored)))
	}
	if p.res.Code == coreda.StatusSuccess && (backErr != nil || !eqBytesList(back, expSent[:min(len(expSent), len(p.res.IDs))])) {
		c.Report("C16/result-differs/retrieve-blobs", fmt.Sprintf("the ids returned for the slow submission do not read back, through the proxy, as the blobs submitted (err=%v, %d blobs)", backErr, len(back)))
	}
}

func futureFlag(res coreda.ResultRetrieve) int {
	if strings.Contains(res.Message, coreda.ErrHeightFromFuture.Error()) {
		return 1
	}
	return 0
}
func showRetrieve(res coreda.ResultRetrieve) string {
	return fmt.Sprintf("%s/%d/%d/%d", statusName(res.Code), len(res.IDs), len(res.Data), futureFlag(res))
}

func (r *runner) retrieve(o hx.Op) {
	c := r.c
	ids, get := o.Str("ids"), o.Str("get")
	if !validAns(ids, "ok", "nil") || !validAns(get, "ok") {
		c.Emit("bad-op")
		return
	}
	h, _ := o.U64("h")
	n := o.Int("n")
	if n > 2000 {
		n = 2000
	}
	cancelled := o.Bool("cancel")
	sc := script{IDs: ids, N: n, Get: get, GetAt: o.Int("at")}
	c.Hit("retrieve/ids-" + strings.SplitN(ids, ":", 2)[0] + "/get-" + strings.SplitN(get, ":", 2)[0])

	r.fx.back.reset(sc)
	drec := &recDA{DA: r.fx.back}
	ctx, cancel := r.ctxFor(cancelled)
	dres := types.RetrieveWithHelpers(ctx, drec, r.fx.logger, h, nil)
	cancel()
	dgets := append([]int(nil), r.fx.back.gets...)

	r.fx.back.reset(sc)
	prec := &recDA{DA: &r.fx.cli.DA}
	ctx, cancel = r.ctxFor(cancelled)
	pres := types.RetrieveWithHelpers(ctx, prec, r.fx.logger, h, nil)
	cancel()
	pgets := append([]int(nil), r.fx.back.gets...)

	c.Emit("d=%s p=%s gets=%s dis=%s pis=%s dty=%s pty=%s", showRetrieve(dres), showRetrieve(pres), showNats(pgets),
		isList(drec.last), isList(prec.last), typeName(drec.last), typeName(prec.last))

	// ---- monitor
	cause := causeOf(ids, cancelled)
	if cause == "no-error" && get != "ok" {
		cause = "get-" + causeOf(get, false)
	}
	if dres.Code != pres.Code {
		c.Report("C16/classification-differs/retrieve/"+cause+"/"+statusName(dres.Code)+"-"+statusName(pres.Code), fmt.Sprintf("retrieve: in-process %s, through the proxy %s (GetIDs answers %q, Get answers %q)", statusName(dres.Code), statusName(pres.Code), ids, get))
		// (no early return: the remaining comparisons run whatever the classification)
	}
	if futureFlag(dres) != futureFlag(pres) {
		// the recorded finding: both sides StatusError, the text present in-process and gone behind the proxy
		sig := "C16/classification-differs/retrieve-future-text/" + cause
		if !(futureFlag(dres) == 1 && futureFlag(pres) == 0 && dres.Code == coreda.StatusError && pres.Code == coreda.StatusError) {
			sig += fmt.Sprintf("/unexpected-%s:%d-%s:%d", statusName(dres.Code), futureFlag(dres), statusName(pres.Code), futureFlag(pres))
		}
		c.Report(sig, fmt.Sprintf("the 'given height is from the future' text that block/retriever.go matches on: in-process %s/present=%d, proxied %s/present=%d", statusName(dres.Code), futureFlag(dres), statusName(pres.Code), futureFlag(pres)))
	}
	if !cancelled && (ids == "nil" || (ids == "ok" && n == 0)) {
		c.Hit("retrieve/empty-ids")
		if prec.last == nil || !errors.Is(prec.last, coreda.ErrBlobNotFound) {
			c.Report("C16/not-found-mapping/dropped", "GetIDs succeeded with no ids but the client did not turn that into ErrBlobNotFound")
		}
		if pres.Code != coreda.StatusNotFound {
			c.Report("C16/not-found-mapping/not-classified", "no ids at this height, status "+statusName(pres.Code))
		}
	}
	if dres.Code == coreda.StatusSuccess {
		if !eqBytesList(dres.IDs, pres.IDs) {
			c.Report("C16/result-differs/retrieve-ids", fmt.Sprintf("ids differ: %d in-process, %d proxied", len(dres.IDs), len(pres.IDs)))
		}
		if !eqBytesList(dres.Data, pres.Data) {
			c.Report("C16/result-differs/retrieve-blobs", fmt.Sprintf("blobs differ: %d in-process, %d proxied", len(dres.Data), len(pres.Data)))
		}
		if !dres.Timestamp.Equal(pres.Timestamp) {
			c.Report("C16/result-differs/retrieve-timestamp", fmt.Sprintf("%v vs %v", dres.Timestamp, pres.Timestamp))
		}
		if len(pres.Data) != len(pres.IDs) {
			c.Report("C16/result-differs/blob-count", fmt.Sprintf("%d ids, %d blobs", len(pres.IDs), len(pres.Data)))
		}
	}
	if showNats(dgets) != showNats(pgets) {
		c.Report("C16/result-differs/get-calls", fmt.Sprintf("Get calls in-process %s, proxied %s", showNats(dgets), showNats(pgets)))
	}
}

func run(c *hx.Ctx) {
	fx, err := newFixture()
	if err != nil {
		c.St.Notes = append(c.St.Notes, "fixture: "+err.Error())
		// without a loopback proxy nothing can be compared: every op is answered `no-proxy`, which the diff shows
		for {
			if _, ok := c.Next(); !ok {
				return
			}
			c.Emit("no-proxy")
		}
	}
	defer fx.close()
	r := &runner{c: c, fx: fx, grace: 3 * time.Second}
	r.raceInit()
	defer r.scanRaces()
	for {
		o, ok := c.Next()
		if !ok {
			return
		}
		func() {
			defer func() {
				if p := recover(); p != nil {
					c.Report("C16/panic/"+o.Verb, fmt.Sprint(p))
					c.Emit("panic")
				}
			}()
			switch o.Verb {
			case "reset":
				c.Emit("ok")
			case "submit":
				r.submit(o)
			case "retrieve":
				r.retrieve(o)
			case "csubmit":
				r.csubmit(o)
			case "xsubmit":
				r.xsubmit(o)
			case "slowsubmit":
				r.slowsubmit(o)
			default:
				c.Emit("bad-op")
			}
		}()
	}
}

// ---------------------------------------------------------------- generator

func joinU(ns []uint64) string {
	if len(ns) == 0 {
		return "-"
	}
	p := make([]string, len(ns))
	for i, n := range ns {
		p[i] = strconv.FormatUint(n, 10)
	}
	return strings.Join(p, ",")
}

func randErrAns(r *hx.Rng) string {
	switch r.Intn(10) {
	case 0, 1, 2:
		return fmt.Sprintf("err:%d", r.Intn(len(Sentinels)))
	case 3, 4:
		return fmt.Sprintf("wrap:%d", r.Intn(len(Sentinels)))
	case 5:
		return "ctx"
	case 6:
		return "other"
	default:
		return "msg:" + hx.Hex(randMessage(r))
	}
}

// randMessage: error texts built from the fragments the classifiers look for
func randMessage(r *hx.Rng) []byte {
	frags := []string{"rpc failure", "context canceled", "context deadline exceeded", " ", ": ", "blob: not", " found", "given height is from the", " future", "tx already in mempool", "x"}
	for _, s := range Sentinels {
		frags = append(frags, s.Err.Error())
	}
	var b []byte
	for i, n := 0, r.Intn(4); i <= n; i++ {
		b = append(b, frags[r.Intn(len(frags))]...)
	}
	if len(b) == 0 {
		b = []byte("e")
	}
	return b
}

func randSizes(r *hx.Rng, max uint64) []uint64 {
	n := r.Intn(9)
	if r.Chance(10) {
		n = 10 + r.Intn(40)
	}
	out := make([]uint64, n)
	for i := range out {
		switch r.Intn(12) {
		case 0:
			out[i] = 0
		case 1:
			out[i] = max
		case 2:
			out[i] = max + 1
		case 3:
			if max > 0 {
				out[i] = max - 1
			}
		case 4, 5:
			out[i] = uint64(r.Intn(int(max) + 3))
		default:
			out[i] = uint64(r.Intn(int(max)/3 + 2))
		}
	}
	return out
}

func gen(r *hx.Rng, tier string, w io.Writer) {
	p := func(f string, a ...any) { fmt.Fprintf(w, f+"\n", a...) }
	nSubmit, nRetr, nMal := 260, 160, 12
	if tier == "thorough" {
		nSubmit, nRetr, nMal = 2600, 1200, 40
	}

	// 1. every sentinel the interface defines, bare and wrapped, on every path (the known findings live here)
	p("reset kind=sentinels")
	for i := range Sentinels {
		p("submit max=64 sizes=3,4 h=9 ans=err:%d", i)
		p("submit max=64 sizes=3,4 h=9 ans=wrap:%d", i)
		p("retrieve h=9 n=3 ids=err:%d get=ok", i)
		p("retrieve h=9 n=3 ids=wrap:%d get=ok", i)
		p("retrieve h=9 n=150 ids=ok get=err:%d at=1", i)
	}
	p("submit max=64 sizes=3,4 h=9 ans=ctx")
	p("submit max=64 sizes=3,4 h=9 ans=ok cancel=1")
	p("submit max=64 sizes=3,4 h=9 ans=other")
	p("submit max=64 sizes=3,4 h=9 ans=msg:%s", hx.Hex([]byte("upstream: context canceled while dialing")))
	p("retrieve h=9 n=3 ids=msg:%s get=ok", hx.Hex([]byte("upstream: context canceled while dialing")))
	p("retrieve h=9 n=3 ids=ok get=msg:%s at=0", hx.Hex([]byte("context canceled: "+coreda.ErrHeightFromFuture.Error())))
	p("retrieve h=9 n=3 ids=ctx get=ok")
	p("retrieve h=9 n=3 ids=ok get=ok cancel=1")
	p("retrieve h=9 n=3 ids=ok get=ctx at=0")
	p("retrieve h=9 n=0 ids=ok get=ok")
	p("retrieve h=9 n=0 ids=nil get=ok")

	// 2. the size rule at the boundary, small limits and the client's default limit
	p("reset kind=boundary")
	for _, s := range []string{"-", "0", "10", "11", "5,5", "5,6", "5,5,1", "10,0,0", "0,0,0", "11,1", "1,11", "1,11,1", "6,6,20", "6,20,3", "4,4,4", "9,1,1", "0,10,0,1"} {
		p("submit max=10 sizes=%s h=3 ans=ok", s)
		p("submit max=10 sizes=%s h=3 ans=dummy", s)
	}
	p("submit max=10 sizes=5,5,1 h=3 ans=ok:1")
	p("submit max=10 sizes=5,5,1 h=3 ans=ok:0")
	p("submit max=10 sizes=5,5,1 h=3 ans=ok:7")
	def := hxDefaultMax()
	p("submit max=0 sizes=%d h=4 ans=ok", def)
	p("submit max=0 sizes=%d h=4 ans=ok", def+1)
	p("submit max=0 sizes=%d,%d,1 h=4 ans=ok", def/2, def-def/2)
	p("submit max=0 sizes=7,%d h=4 ans=dummy", def)

	// 3. random submissions
	p("reset kind=submit")
	for i := 0; i < nSubmit; i++ {
		if i%40 == 39 {
			p("reset kind=submit")
		}
		max := uint64(1 + r.Intn(48))
		sizes := randSizes(r, max)
		ans := "ok"
		switch x := r.Intn(10); {
		case x < 3:
		case x < 5:
			ans = fmt.Sprintf("ok:%d", r.Intn(len(sizes)+2))
		case x < 7:
			ans = "dummy"
		default:
			ans = randErrAns(r)
		}
		cancel := ""
		if r.Chance(4) {
			cancel = " cancel=1"
		}
		p("submit max=%d sizes=%s h=%d ans=%s%s", max, joinU(sizes), 1+r.Intn(1000), ans, cancel)
	}

	// 4. random retrievals: chunk boundaries, every error on both calls
	p("reset kind=retrieve")
	counts := []int{0, 1, 2, 3, 99, 100, 101, 199, 200, 201, 250, 301}
	for i := 0; i < nRetr; i++ {
		if i%40 == 39 {
			p("reset kind=retrieve")
		}
		n := counts[r.Intn(len(counts))]
		if r.Chance(30) {
			n = r.Intn(12)
		}
		ids, get, at := "ok", "ok", 0
		switch x := r.Intn(10); {
		case x < 3:
		case x < 6:
			ids = randErrAns(r)
		case x < 7:
			ids = "nil"
		default:
			get = randErrAns(r)
			at = r.Intn(n/100 + 2)
		}
		cancel := ""
		if r.Chance(3) {
			cancel = " cancel=1"
		}
		p("retrieve h=%d n=%d ids=%s get=%s at=%d%s", 1+r.Intn(100000), n, ids, get, at, cancel)
	}

	// 5. malformed lines (both sides must answer bad-op)
	p("reset kind=malformed")
	bad := []string{"csubmit", "csubmit max=9 a=1 b=2 ans=ok", "csubmit max=9 a=1 b=2 ans=ok gate=x", "csubmit max=9 a=1 ans=ok gate=stub", "csubmit max=9 a=1 b=2 ans=wait gate=da",
		"slowsubmit", "slowsubmit max=9 sizes=1", "slowsubmit max=9 sizes=1 delay=20001", "slowsubmit max=9 delay=5", "slowsubmit max=9 sizes=1 delay=x", "submit max=5 sizes=1 ans=slow",
		"xsubmit", "xsubmit max=9 sizes=1", "xsubmit max=9 sizes=1 cancel=late", "xsubmit max=9 cancel=mid", "submit max=5 sizes=1 ans=wait",
		"submit", "submit max=3 sizes=1", "submit max=3 sizes=1 ans=err:99", "submit ans=ok:x sizes=1", "retrieve", "retrieve ids=ok", "retrieve ids=wrap:8 get=ok", "retrieve ids=msg:zz get=ok", "fetch h=1", "submit max=3 sizes=1,x,2 ans=ok", "retrieve ids=ok get=msg:0 n=1", "submit ans=msg:41 max=5 sizes=2"}
	for i := 0; i < nMal; i++ {
		p("%s", bad[r.Intn(len(bad))])
	}

	// 6. two callers on ONE client (the node's header and data submission loops share the DA client): A is held
	// between packing and encoding (gate=stub) or inside the DA layer (gate=da) while B runs from start to end, or
	// nothing orders them (gate=free, under the race detector).  Each request must carry its own caller's blobs.
	nConc, nCancel := 40, 24
	if tier == "thorough" {
		nConc, nCancel = 320, 200
	}
	p("reset kind=concurrent")
	for _, g := range []string{"stub", "da", "free"} {
		p("csubmit max=64 a=8,8,8 b=6,6 h=9 ans=ok gate=%s", g)
		p("csubmit max=64 a=7 b=5,5,5,5 h=9 ans=ok gate=%s", g)
		p("csubmit max=20 a=8,8,8 b=6,6,30 h=9 ans=ok gate=%s", g)
		p("csubmit max=20 a=- b=6 h=9 ans=dummy gate=%s", g)
		p("csubmit max=20 a=9,9 b=0,1 h=9 ans=ok:1 gate=%s", g)
		p("csubmit max=20 a=5,5 b=6 h=9 ans=other gate=%s", g)
	}
	p("csubmit max=0 a=%d,1 b=%d h=4 ans=ok gate=stub", def/2, def/2+1)
	for i := 0; i < nConc; i++ {
		if i%40 == 39 {
			p("reset kind=concurrent")
		}
		max := uint64(8 + r.Intn(56))
		mk := func() []uint64 {
			if r.Chance(12) {
				return randSizes(r, max) // anything: oversize, empty, long
			}
			out := make([]uint64, 1+r.Intn(6)) // mostly several small blobs: both batches are sent
			for j := range out {
				out[j] = uint64(r.Intn(int(max)/4 + 1))
			}
			return out
		}
		ans := "ok"
		switch x := r.Intn(12); {
		case x < 7:
		case x < 8:
			ans = fmt.Sprintf("ok:%d", r.Intn(4))
		case x < 10:
			ans = "dummy"
		default:
			ans = randErrAns(r)
		}
		p("csubmit max=%d a=%s b=%s h=%d ans=%s gate=%s", max, joinU(mk()), joinU(mk()), 1+r.Intn(1000), ans, []string{"stub", "stub", "da", "free"}[r.Intn(4)])
	}

	// 7. the caller gives up while the DA layer is working on the batch (and the same call left alone): what the
	// caller is told, whether the DA layer learns of it, what the DA layer holds afterwards
	p("reset kind=cancel-mid-call")
	for _, how := range []string{"mid", "none"} {
		p("xsubmit max=64 sizes=3,4 h=9 cancel=%s", how)
		p("xsubmit max=5 sizes=3,4 h=9 cancel=%s", how)
		p("xsubmit max=5 sizes=3,9 h=9 cancel=%s", how)
		p("xsubmit max=5 sizes=0 h=9 cancel=%s", how)
		p("xsubmit max=5 sizes=- h=9 cancel=%s", how)
	}
	p("xsubmit max=0 sizes=%d h=4 cancel=mid", def/4)
	// a DA call that simply takes a while and succeeds (nobody cancels): quick 300 ms; thorough once beyond 5 s, the
	// customary value of an http.Server write deadline (which covers the whole handler run)
	p("slowsubmit max=64 sizes=3,4,0 h=9 delay=300")
	p("slowsubmit max=5 sizes=3,4 h=9 delay=20")
	p("slowsubmit max=5 sizes=3,9 h=9 delay=20")
	p("slowsubmit max=5 sizes=- h=9 delay=20")
	if tier == "thorough" {
		p("reset kind=slow-call-beyond-5s") // a scenario of its own: the replay of a finding is this one op
		p("slowsubmit max=64 sizes=3,4,5 h=9 delay=5500")
		p("reset kind=cancel-mid-call")
	}
	for i := 0; i < nCancel; i++ {
		if i%40 == 39 {
			p("reset kind=cancel-mid-call")
		}
		max := uint64(1 + r.Intn(48))
		how := "mid"
		if r.Chance(30) {
			how = "none"
		}
		p("xsubmit max=%d sizes=%s h=%d cancel=%s", max, joinU(randSizes(r, max)), 1+r.Intn(1000), how)
	}
}

// hxDefaultMax: the limit a fresh client carries (asked from the compiled code, not copied)
func hxDefaultMax() uint64 { return proxy.VerifDefaultMaxBlobSize() }

func init() {
	hx.Register("C16", hx.Stream{Gen: gen, Run: run})
}
