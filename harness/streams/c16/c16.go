package c16

import (
	"bytes"
	"context"
	"errors"
	"fmt"
	"io"
	"reflect"
	"strconv"
	"strings"

	"github.com/filecoin-project/go-jsonrpc"

	"verifharness/hx"

	coreda "github.com/evstack/ev-node/core/da"
	proxy "github.com/evstack/ev-node/da/jsonrpc"
	"github.com/evstack/ev-node/types"
)

// ---------------------------------------------------------------- line protocol helpers

func natList(s string) []uint64 {
	if s == "-" || s == "" {
		return nil
	}
	var out []uint64
	for _, p := range strings.Split(s, ",") {
		if n, err := strconv.ParseUint(p, 10, 32); err == nil {
			out = append(out, n)
		}
	}
	return out
}
func showNats(ns []int) string {
	if len(ns) == 0 {
		return "-"
	}
	p := make([]string, len(ns))
	for i, n := range ns {
		p[i] = strconv.Itoa(n)
	}
	return strings.Join(p, ",")
}

// validAns: is this a well-formed answer of the given family?
func validAns(a string, extra ...string) bool {
	for _, e := range extra {
		if a == e {
			return true
		}
	}
	_, ok := scriptedErr(a)
	return ok
}
func validSubmitAns(a string) bool {
	if a == "ok" || a == "dummy" {
		return true
	}
	if rest, ok := strings.CutPrefix(a, "ok:"); ok {
		_, err := strconv.ParseUint(rest, 10, 32)
		return err == nil
	}
	return validAns(a)
}

// identities of an error as errors.Is sees them: sentinel indexes and "c" for context.Canceled
func isList(err error) string {
	if err == nil {
		return "ok"
	}
	var p []string
	for i, s := range Sentinels {
		if errors.Is(err, s.Err) {
			p = append(p, strconv.Itoa(i))
		}
	}
	if errors.Is(err, context.Canceled) {
		p = append(p, "c")
	}
	if len(p) == 0 {
		return "-"
	}
	return strings.Join(p, ",")
}
func typeName(err error) string {
	if err == nil {
		return "-"
	}
	return reflect.TypeOf(err).String()
}
func wireCode(err error) string {
	var je *jsonrpc.JSONRPCError
	if err != nil && reflect.TypeOf(err) == reflect.TypeOf(je) && errors.As(err, &je) {
		return strconv.Itoa(int(je.Code))
	}
	return "-"
}

// causeOf names what the backing DA was scripted to do, for finding signatures.
func causeOf(ans string, cancelled bool) string {
	if cancelled {
		return "cancelled-call"
	}
	kind, arg, _ := strings.Cut(ans, ":")
	switch kind {
	case "err", "wrap":
		if i, err := strconv.Atoi(arg); err == nil && i >= 0 && i < len(Sentinels) {
			return Sentinels[i].Name
		}
	case "ctx":
		return "context.Canceled"
	case "msg", "other":
		if err, ok := scriptedErr(ans); ok && strings.Contains(err.Error(), context.Canceled.Error()) {
			return "text-contains-context-canceled"
		}
	case "dummy":
		return "dummy-da"
	case "ok", "nil":
		return "no-error"
	}
	return "other-error"
}

func eqBytesList(a, b [][]byte) bool {
	if len(a) != len(b) {
		return false
	}
	for i := range a {
		if !bytes.Equal(a[i], b[i]) {
			return false
		}
	}
	return true
}

// refFilter is the property's own statement of the size rule, written without looking at the
// client's loop: L = the longest prefix whose total size fits; if the blob that stops it can never
// be sent on its own the whole call is refused, otherwise exactly L is sent.
func refFilter(max uint64, blobs [][]byte) (sent [][]byte, refused bool) {
	var total uint64
	n := 0
	for n < len(blobs) && total+uint64(len(blobs[n])) <= max {
		total += uint64(len(blobs[n]))
		n++
	}
	if n < len(blobs) && uint64(len(blobs[n])) > max {
		return nil, true
	}
	return blobs[:n], false
}

// ---------------------------------------------------------------- executor

type runner struct {
	c  *hx.Ctx
	fx *fixture
}

func (r *runner) ctxFor(cancelled bool) (context.Context, context.CancelFunc) {
	ctx, cancel := context.WithCancel(context.Background())
	if cancelled {
		cancel()
	}
	return ctx, cancel
}

func showSubmit(res coreda.ResultSubmit) string {
	return fmt.Sprintf("%s/%d/%d/%d", statusName(res.Code), res.SubmittedCount, len(res.IDs), res.Height)
}

func (r *runner) submit(o hx.Op) {
	c := r.c
	ans := o.Str("ans")
	if !validSubmitAns(ans) {
		c.Emit("bad-op")
		return
	}
	max, _ := o.U64("max")
	if max == 0 {
		max = r.fx.defMax
	}
	h, _ := o.U64("h")
	cancelled := o.Bool("cancel")
	sizes := natList(o.Str("sizes"))
	blobs := make([][]byte, len(sizes))
	for i, s := range sizes {
		blobs[i] = bytes.Repeat([]byte{byte(i%251 + 1)}, int(s))
	}
	sc := script{Sub: ans, Max: max, H: h}
	cause := causeOf(ans, cancelled)
	c.Hit("submit/" + strings.SplitN(ans, ":", 2)[0])

	// direct: the node's helper straight on the backing DA
	r.fx.back.reset(sc)
	drec := &recDA{DA: r.fx.back}
	ctx, cancel := r.ctxFor(cancelled)
	dres := types.SubmitWithHelpers(ctx, drec, r.fx.logger, blobs, 0, nil)
	cancel()

	// proxied: helper -> client wrapper -> wire -> server -> the same backing DA
	r.fx.back.reset(sc)
	r.fx.cli.DA.MaxBlobSize = max
	prec := &recDA{DA: &r.fx.cli.DA}
	ctx, cancel = r.ctxFor(cancelled)
	pres := types.SubmitWithHelpers(ctx, prec, r.fx.logger, blobs, 0, nil)
	cancel()
	calls := r.fx.back.submits
	var got [][]byte
	sent := "none"
	if len(calls) > 0 {
		got = calls[0]
		szs := make([]int, len(got))
		for i := range got {
			szs[i] = len(got[i])
		}
		sent = showNats(szs)
	}
	c.Emit("d=%s p=%s sent=%s dis=%s pis=%s dty=%s pty=%s wire=%s", showSubmit(dres), showSubmit(pres), sent,
		isList(drec.last), isList(prec.last), typeName(drec.last), typeName(prec.last), wireCode(prec.last))

	// ---- monitor: the size rule
	if len(calls) > 1 {
		c.Report("C16/size-filter/more-than-one-call", fmt.Sprintf("one SubmitWithOptions made %d calls to the server", len(calls)))
	}
	expSent, refused := refFilter(max, blobs)
	switch {
	case refused:
		c.Hit("filter/refused")
		if len(calls) > 0 {
			c.Report("C16/size-filter/oversize-but-sent", fmt.Sprintf("a blob larger than the limit %d stops the prefix, yet %d blobs were sent to the server", max, len(got)))
		}
		if pres.Code != coreda.StatusTooBig {
			c.Report("C16/size-filter/oversize-not-refused", fmt.Sprintf("a blob larger than the limit %d stops the prefix; status is %s, not toobig", max, statusName(pres.Code)))
		}
	case len(blobs) == 0:
		c.Hit("filter/empty-input")
		if len(calls) > 0 || pres.Code != coreda.StatusSuccess || pres.SubmittedCount != 0 {
			c.Report("C16/size-filter/empty-input", fmt.Sprintf("empty input: calls=%d status=%s count=%d", len(calls), statusName(pres.Code), pres.SubmittedCount))
		}
	case !cancelled:
		if len(expSent) < len(blobs) {
			c.Hit("filter/truncated")
		} else {
			c.Hit("filter/all-fit")
		}
		if !eqBytesList(got, expSent) {
			why := "other"
			switch {
			case len(calls) == 0:
				why = "nothing-sent"
			case len(got) < len(expSent) && eqBytesList(got, blobs[:len(got)]):
				why = "shorter-prefix"
			case len(got) > len(expSent) && len(got) <= len(blobs) && eqBytesList(got, blobs[:len(got)]):
				why = "exceeds-limit"
			case len(got) <= len(blobs) && !eqBytesList(got, blobs[:len(got)]):
				why = "not-a-prefix"
			}
			c.Report("C16/size-filter/not-longest-prefix/"+why, fmt.Sprintf("limit %d, %d blobs: the longest fitting prefix has %d blobs, the server received %d", max, len(blobs), len(expSent), len(got)))
		}
	}
	// ---- monitor: SubmittedCount
	if pres.SubmittedCount != uint64(len(pres.IDs)) && pres.Code != coreda.StatusContextCanceled {
		c.Report("C16/submitted-count/not-number-of-ids", fmt.Sprintf("SubmittedCount=%d but %d ids", pres.SubmittedCount, len(pres.IDs)))
	}
	if pres.SubmittedCount > uint64(len(got)) {
		c.Report("C16/submitted-count/unsent-blob-marked-submitted", fmt.Sprintf("SubmittedCount=%d but only %d blobs reached the DA layer", pres.SubmittedCount, len(got)))
	}
	if pres.Code == coreda.StatusSuccess && pres.SubmittedCount > uint64(len(expSent)) {
		c.Report("C16/submitted-count/exceeds-fitting-prefix", fmt.Sprintf("SubmittedCount=%d, fitting prefix %d", pres.SubmittedCount, len(expSent)))
	}
	// ---- monitor: direct ≡ proxied. The reference is the direct call on what the size rule lets through
	// (the whole input when everything fits, and always for a backing DA that enforces the same limit itself).
	ref := dres
	if ans != "dummy" && !refused && len(expSent) < len(blobs) {
		r.fx.back.reset(sc)
		ctx, cancel = r.ctxFor(cancelled)
		ref = types.SubmitWithHelpers(ctx, r.fx.back, r.fx.logger, expSent, 0, nil)
		cancel()
	}
	if refused && (ans != "dummy" || cancelled) {
		return // the client refuses locally before anything else; there is no in-process counterpart of that call
	}
	if len(blobs) == 0 && (cancelled || (ans != "ok" && ans != "dummy")) {
		return // nothing to submit: the client answers without a call, so a scripted failure / the cancelled context is never consulted
	}
	if ref.Code != pres.Code {
		c.Report("C16/classification-differs/submit/"+cause, fmt.Sprintf("submit: in-process %s, through the proxy %s (backing DA answers %q)", statusName(ref.Code), statusName(pres.Code), ans))
		return
	}
	if ref.SubmittedCount != pres.SubmittedCount || !eqBytesList(ref.IDs, pres.IDs) || ref.Height != pres.Height {
		c.Report("C16/result-differs/submit", fmt.Sprintf("submit: in-process count=%d ids=%d height=%d, proxied count=%d ids=%d height=%d", ref.SubmittedCount, len(ref.IDs), ref.Height, pres.SubmittedCount, len(pres.IDs), pres.Height))
	}
}

func futureFlag(res coreda.ResultRetrieve) int {
	if strings.Contains(res.Message, coreda.ErrHeightFromFuture.Error()) {
		return 1
	}
	return 0
}
func showRetrieve(res coreda.ResultRetrieve) string {
	return fmt.Sprintf("%s/%d/%d/%d", statusName(res.Code), len(res.IDs), len(res.Data), futureFlag(res))
}

func (r *runner) retrieve(o hx.Op) {
	c := r.c
	ids, get := o.Str("ids"), o.Str("get")
	if !validAns(ids, "ok", "nil") || !validAns(get, "ok") {
		c.Emit("bad-op")
		return
	}
	h, _ := o.U64("h")
	n := o.Int("n")
	if n > 2000 {
		n = 2000
	}
	cancelled := o.Bool("cancel")
	sc := script{IDs: ids, N: n, Get: get, GetAt: o.Int("at")}
	c.Hit("retrieve/ids-" + strings.SplitN(ids, ":", 2)[0] + "/get-" + strings.SplitN(get, ":", 2)[0])

	r.fx.back.reset(sc)
	drec := &recDA{DA: r.fx.back}
	ctx, cancel := r.ctxFor(cancelled)
	dres := types.RetrieveWithHelpers(ctx, drec, r.fx.logger, h, nil)
	cancel()
	dgets := append([]int(nil), r.fx.back.gets...)

	r.fx.back.reset(sc)
	prec := &recDA{DA: &r.fx.cli.DA}
	ctx, cancel = r.ctxFor(cancelled)
	pres := types.RetrieveWithHelpers(ctx, prec, r.fx.logger, h, nil)
	cancel()
	pgets := append([]int(nil), r.fx.back.gets...)

	c.Emit("d=%s p=%s gets=%s dis=%s pis=%s dty=%s pty=%s", showRetrieve(dres), showRetrieve(pres), showNats(pgets),
		isList(drec.last), isList(prec.last), typeName(drec.last), typeName(prec.last))

	// ---- monitor
	cause := causeOf(ids, cancelled)
	if cause == "no-error" && get != "ok" {
		cause = "get-" + causeOf(get, false)
	}
	if dres.Code != pres.Code {
		c.Report("C16/classification-differs/retrieve/"+cause, fmt.Sprintf("retrieve: in-process %s, through the proxy %s (GetIDs answers %q, Get answers %q)", statusName(dres.Code), statusName(pres.Code), ids, get))
		return
	}
	if futureFlag(dres) != futureFlag(pres) {
		c.Report("C16/classification-differs/retrieve-future-text/"+cause, "the 'given height is from the future' text that block/retriever.go matches on is present on one side only")
	}
	if !cancelled && (ids == "nil" || (ids == "ok" && n == 0)) {
		c.Hit("retrieve/empty-ids")
		if prec.last == nil || !errors.Is(prec.last, coreda.ErrBlobNotFound) {
			c.Report("C16/not-found-mapping/dropped", "GetIDs succeeded with no ids but the client did not turn that into ErrBlobNotFound")
		}
		if pres.Code != coreda.StatusNotFound {
			c.Report("C16/not-found-mapping/not-classified", "no ids at this height, status "+statusName(pres.Code))
		}
	}
	if dres.Code == coreda.StatusSuccess {
		if !eqBytesList(dres.IDs, pres.IDs) {
			c.Report("C16/result-differs/retrieve-ids", fmt.Sprintf("ids differ: %d in-process, %d proxied", len(dres.IDs), len(pres.IDs)))
		}
		if !eqBytesList(dres.Data, pres.Data) {
			c.Report("C16/result-differs/retrieve-blobs", fmt.Sprintf("blobs differ: %d in-process, %d proxied", len(dres.Data), len(pres.Data)))
		}
		if !dres.Timestamp.Equal(pres.Timestamp) {
			c.Report("C16/result-differs/retrieve-timestamp", fmt.Sprintf("%v vs %v", dres.Timestamp, pres.Timestamp))
		}
		if len(pres.Data) != len(pres.IDs) {
			c.Report("C16/result-differs/blob-count", fmt.Sprintf("%d ids, %d blobs", len(pres.IDs), len(pres.Data)))
		}
	}
	if showNats(dgets) != showNats(pgets) {
		c.Report("C16/result-differs/get-calls", fmt.Sprintf("Get calls in-process %s, proxied %s", showNats(dgets), showNats(pgets)))
	}
}

func run(c *hx.Ctx) {
	fx, err := newFixture()
	if err != nil {
		c.St.Notes = append(c.St.Notes, "fixture: "+err.Error())
		// without a loopback proxy nothing can be compared: every op is answered `no-proxy`, which the diff shows
		for {
			if _, ok := c.Next(); !ok {
				return
			}
			c.Emit("no-proxy")
		}
	}
	defer fx.close()
	r := &runner{c: c, fx: fx}
	for {
		o, ok := c.Next()
		if !ok {
			return
		}
		func() {
			defer func() {
				if p := recover(); p != nil {
					c.Report("C16/panic/"+o.Verb, fmt.Sprint(p))
					c.Emit("panic")
				}
			}()
			switch o.Verb {
			case "reset":
				c.Emit("ok")
			case "submit":
				r.submit(o)
			case "retrieve":
				r.retrieve(o)
			default:
				c.Emit("bad-op")
			}
		}()
	}
}

// ---------------------------------------------------------------- generator

func joinU(ns []uint64) string {
	if len(ns) == 0 {
		return "-"
	}
	p := make([]string, len(ns))
	for i, n := range ns {
		p[i] = strconv.FormatUint(n, 10)
	}
	return strings.Join(p, ",")
}

func randErrAns(r *hx.Rng) string {
	switch r.Intn(10) {
	case 0, 1, 2:
		return fmt.Sprintf("err:%d", r.Intn(len(Sentinels)))
	case 3, 4:
		return fmt.Sprintf("wrap:%d", r.Intn(len(Sentinels)))
	case 5:
		return "ctx"
	case 6:
		return "other"
	default:
		return "msg:" + hx.Hex(randMessage(r))
	}
}

// randMessage: error texts built from the fragments the classifiers look for
func randMessage(r *hx.Rng) []byte {
	frags := []string{"rpc failure", "context canceled", "context deadline exceeded", " ", ": ", "blob: not", " found", "given height is from the", " future", "tx already in mempool", "x"}
	for _, s := range Sentinels {
		frags = append(frags, s.Err.Error())
	}
	var b []byte
	for i, n := 0, r.Intn(4); i <= n; i++ {
		b = append(b, frags[r.Intn(len(frags))]...)
	}
	if len(b) == 0 {
		b = []byte("e")
	}
	return b
}

func randSizes(r *hx.Rng, max uint64) []uint64 {
	n := r.Intn(9)
	if r.Chance(10) {
		n = 10 + r.Intn(40)
	}
	out := make([]uint64, n)
	for i := range out {
		switch r.Intn(12) {
		case 0:
			out[i] = 0
		case 1:
			out[i] = max
		case 2:
			out[i] = max + 1
		case 3:
			if max > 0 {
				out[i] = max - 1
			}
		case 4, 5:
			out[i] = uint64(r.Intn(int(max) + 3))
		default:
			out[i] = uint64(r.Intn(int(max)/3 + 2))
		}
	}
	return out
}

func gen(r *hx.Rng, tier string, w io.Writer) {
	p := func(f string, a ...any) { fmt.Fprintf(w, f+"\n", a...) }
	nSubmit, nRetr, nMal := 260, 160, 12
	if tier == "thorough" {
		nSubmit, nRetr, nMal = 2600, 1200, 40
	}

	// 1. every sentinel the interface defines, bare and wrapped, on every path (the known findings live here)
	p("reset kind=sentinels")
	for i := range Sentinels {
		p("submit max=64 sizes=3,4 h=9 ans=err:%d", i)
		p("submit max=64 sizes=3,4 h=9 ans=wrap:%d", i)
		p("retrieve h=9 n=3 ids=err:%d get=ok", i)
		p("retrieve h=9 n=3 ids=wrap:%d get=ok", i)
		p("retrieve h=9 n=150 ids=ok get=err:%d at=1", i)
	}
	p("submit max=64 sizes=3,4 h=9 ans=ctx")
	p("submit max=64 sizes=3,4 h=9 ans=ok cancel=1")
	p("submit max=64 sizes=3,4 h=9 ans=other")
	p("submit max=64 sizes=3,4 h=9 ans=msg:%s", hx.Hex([]byte("upstream: context canceled while dialing")))
	p("retrieve h=9 n=3 ids=msg:%s get=ok", hx.Hex([]byte("upstream: context canceled while dialing")))
	p("retrieve h=9 n=3 ids=ok get=msg:%s at=0", hx.Hex([]byte("context canceled: "+coreda.ErrHeightFromFuture.Error())))
	p("retrieve h=9 n=3 ids=ctx get=ok")
	p("retrieve h=9 n=3 ids=ok get=ok cancel=1")
	p("retrieve h=9 n=3 ids=ok get=ctx at=0")
	p("retrieve h=9 n=0 ids=ok get=ok")
	p("retrieve h=9 n=0 ids=nil get=ok")

	// 2. the size rule at the boundary, small limits and the client's default limit
	p("reset kind=boundary")
	for _, s := range []string{"-", "0", "10", "11", "5,5", "5,6", "5,5,1", "10,0,0", "0,0,0", "11,1", "1,11", "1,11,1", "6,6,20", "6,20,3", "4,4,4", "9,1,1", "0,10,0,1"} {
		p("submit max=10 sizes=%s h=3 ans=ok", s)
		p("submit max=10 sizes=%s h=3 ans=dummy", s)
	}
	p("submit max=10 sizes=5,5,1 h=3 ans=ok:1")
	p("submit max=10 sizes=5,5,1 h=3 ans=ok:0")
	p("submit max=10 sizes=5,5,1 h=3 ans=ok:7")
	def := hxDefaultMax()
	p("submit max=0 sizes=%d h=4 ans=ok", def)
	p("submit max=0 sizes=%d h=4 ans=ok", def+1)
	p("submit max=0 sizes=%d,%d,1 h=4 ans=ok", def/2, def-def/2)
	p("submit max=0 sizes=7,%d h=4 ans=dummy", def)

	// 3. random submissions
	p("reset kind=submit")
	for i := 0; i < nSubmit; i++ {
		if i%40 == 39 {
			p("reset kind=submit")
		}
		max := uint64(1 + r.Intn(48))
		sizes := randSizes(r, max)
		ans := "ok"
		switch x := r.Intn(10); {
		case x < 3:
		case x < 5:
			ans = fmt.Sprintf("ok:%d", r.Intn(len(sizes)+2))
		case x < 7:
			ans = "dummy"
		default:
			ans = randErrAns(r)
		}
		cancel := ""
		if r.Chance(4) {
			cancel = " cancel=1"
		}
		p("submit max=%d sizes=%s h=%d ans=%s%s", max, joinU(sizes), 1+r.Intn(1000), ans, cancel)
	}

	// 4. random retrievals: chunk boundaries, every error on both calls
	p("reset kind=retrieve")
	counts := []int{0, 1, 2, 3, 99, 100, 101, 199, 200, 201, 250, 301}
	for i := 0; i < nRetr; i++ {
		if i%40 == 39 {
			p("reset kind=retrieve")
		}
		n := counts[r.Intn(len(counts))]
		if r.Chance(30) {
			n = r.Intn(12)
		}
		ids, get, at := "ok", "ok", 0
		switch x := r.Intn(10); {
		case x < 3:
		case x < 6:
			ids = randErrAns(r)
		case x < 7:
			ids = "nil"
		default:
			get = randErrAns(r)
			at = r.Intn(n/100 + 2)
		}
		cancel := ""
		if r.Chance(3) {
			cancel = " cancel=1"
		}
		p("retrieve h=%d n=%d ids=%s get=%s at=%d%s", 1+r.Intn(100000), n, ids, get, at, cancel)
	}

	// 5. malformed lines (both sides must answer bad-op)
	p("reset kind=malformed")
	bad := []string{"submit", "submit max=3 sizes=1", "submit max=3 sizes=1 ans=err:99", "submit ans=ok:x sizes=1", "retrieve", "retrieve ids=ok", "retrieve ids=wrap:8 get=ok", "retrieve ids=msg:zz get=ok", "fetch h=1", "submit max=3 sizes=1,x,2 ans=ok", "retrieve ids=ok get=msg:0 n=1", "submit ans=msg:41 max=5 sizes=2"}
	for i := 0; i < nMal; i++ {
		p("%s", bad[r.Intn(len(bad))])
	}
}

// hxDefaultMax: the limit a fresh client carries (asked from the compiled code, not copied)
func hxDefaultMax() uint64 { return proxy.VerifDefaultMaxBlobSize() }

func init() {
	hx.Register("C16", hx.Stream{Gen: gen, Run: run})
}
