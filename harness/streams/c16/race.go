package c16

import (
	"io"
	"os"
	"regexp"
	"sort"
	"strconv"
	"strings"
)

// The c16 binary is built with -race (props/C16.json go_build_flags; GORACE log_path=c16race in run_env): the
// client and the server are used from several goroutines by the node, and `csubmit gate=free` does the same here.
// A race between accesses made by code of the repository is a finding (C16/race/<the two functions>).

var frameRe = regexp.MustCompile(`^  (\S+)\(\)$`)

func raceLogPath() string {
	for _, f := range strings.Fields(os.Getenv("GORACE")) {
		if strings.HasPrefix(f, "log_path=") {
			p := strings.TrimPrefix(f, "log_path=")
			if p == "stderr" || p == "stdout" {
				return ""
			}
			return p + "." + strconv.Itoa(os.Getpid())
		}
	}
	return ""
}

func (r *runner) raceInit() {
	r.raceOff = 0
	if p := raceLogPath(); p != "" {
		if fi, err := os.Stat(p); err == nil {
			r.raceOff = fi.Size()
		}
	}
}

// scanRaces reads what the race detector wrote since the last call; a race counts when one of the first frames
// of either conflicting access is code of the repository.
func (r *runner) scanRaces() {
	p := raceLogPath()
	if p == "" {
		return
	}
	f, err := os.Open(p)
	if err != nil {
		return
	}
	defer f.Close()
	if _, err := f.Seek(r.raceOff, io.SeekStart); err != nil {
		return
	}
	b, _ := io.ReadAll(f)
	r.raceOff += int64(len(b))
	for _, blk := range strings.Split(string(b), "WARNING: DATA RACE")[1:] {
		paras := strings.Split(blk, "\n\n")
		var tops []string
		repo := false
		for i, para := range paras {
			if i >= 2 {
				break
			}
			k, first := 0, ""
			for _, l := range strings.Split(para, "\n") {
				if m := frameRe.FindStringSubmatch(l); m != nil {
					if k < 4 && strings.HasPrefix(m[1], "github.com/evstack/ev-node/") {
						repo = true
						if first == "" {
							first = strings.TrimPrefix(m[1], "github.com/evstack/ev-node/")
						}
					}
					k++
				}
			}
			if first == "" {
				first = "-"
			}
			tops = append(tops, first)
		}
		if !repo {
			continue
		}
		sort.Strings(tops)
		txt := blk
		if len(txt) > 1500 {
			txt = txt[:1500]
		}
		r.c.Hit("race-report")
		r.c.Report("C16/race/"+strings.Join(tops, "|"), "race detector: "+txt)
	}
}
