package c16

import (
	"context"
	"encoding/json"
	"errors"
	"fmt"
	"go/ast"
	"go/parser"
	"go/token"
	"net/http"
	"os"
	"path/filepath"
	"reflect"
	"sort"
	"strings"
	"time"
	"unsafe"

	"github.com/filecoin-project/go-jsonrpc"

	"verifharness/hx"

	coreda "github.com/evstack/ev-node/core/da"
	proxy "github.com/evstack/ev-node/da/jsonrpc"
	"github.com/evstack/ev-node/types"
)

// StatusTable lists the status codes in the order of lean/Model/DAProxy.lean's `Status`.
var StatusTable = []struct {
	Name string
	Code coreda.StatusCode
}{
	{"unknown", coreda.StatusUnknown}, {"success", coreda.StatusSuccess}, {"notfound", coreda.StatusNotFound},
	{"notincluded", coreda.StatusNotIncludedInBlock}, {"inmempool", coreda.StatusAlreadyInMempool},
	{"toobig", coreda.StatusTooBig}, {"deadline", coreda.StatusContextDeadline}, {"error", coreda.StatusError},
	{"badseq", coreda.StatusIncorrectAccountSequence}, {"canceled", coreda.StatusContextCanceled},
	{"future", coreda.StatusHeightFromFuture},
}

func statusName(c coreda.StatusCode) string {
	for _, s := range StatusTable {
		if s.Code == c {
			return s.Name
		}
	}
	return fmt.Sprintf("code%d", uint64(c))
}

// httpServerOf reads the unexported field `srv *http.Server` of the proxy server (reflection, like the registry).
func httpServerOf(srv *proxy.Server) (hs *http.Server, err error) {
	defer func() {
		if r := recover(); r != nil {
			err = fmt.Errorf("proxy.Server layout changed: %v", r)
		}
	}()
	v := reflect.ValueOf(srv).Elem()
	var found *http.Server
	for i := 0; i < v.NumField(); i++ {
		f := v.Field(i)
		if f.Type() == reflect.TypeOf((*http.Server)(nil)) {
			if found != nil {
				return nil, errors.New("proxy.Server has more than one *http.Server field")
			}
			found = *(**http.Server)(unsafe.Pointer(f.UnsafeAddr()))
		}
	}
	if found == nil {
		return nil, errors.New("proxy.Server has no *http.Server field")
	}
	return found, nil
}

func nonNeg(d time.Duration) int64 {
	if d < 0 {
		return 0 // net/http treats a negative timeout as none
	}
	return int64(d)
}

// registryDump reads go-jsonrpc's Errors (unexported maps) of the registry the proxy installs.
func registryDump() (byType map[reflect.Type]jsonrpc.ErrorCode, byCode map[jsonrpc.ErrorCode]reflect.Type, err error) {
	defer func() {
		if r := recover(); r != nil {
			err = fmt.Errorf("go-jsonrpc Errors layout changed: %v", r)
		}
	}()
	errs := proxy.VerifKnownErrors()
	v := reflect.ValueOf(&errs).Elem()
	ft := v.FieldByName("byType")
	fc := v.FieldByName("byCode")
	byType = *(*map[reflect.Type]jsonrpc.ErrorCode)(unsafe.Pointer(ft.UnsafeAddr()))
	byCode = *(*map[jsonrpc.ErrorCode]reflect.Type)(unsafe.Pointer(fc.UnsafeAddr()))
	if ft.Type() != reflect.TypeOf(byType) || fc.Type() != reflect.TypeOf(byCode) {
		return nil, nil, fmt.Errorf("go-jsonrpc Errors field types changed: %v %v", ft.Type(), fc.Type())
	}
	return byType, byCode, nil
}

// wireError performs one raw JSON-RPC request against the real server and returns the error object on the wire.
func wireError(url string) (code int64, msg string, err error) {
	body := `{"jsonrpc":"2.0","id":1,"method":"da.SubmitWithOptions","params":[["AQ=="],0,"",""]}`
	resp, err := http.Post(url, "application/json", strings.NewReader(body))
	if err != nil {
		return 0, "", err
	}
	defer resp.Body.Close()
	var r struct {
		Error *struct {
			Code    int64  `json:"code"`
			Message string `json:"message"`
		} `json:"error"`
	}
	if err := json.NewDecoder(resp.Body).Decode(&r); err != nil {
		return 0, "", err
	}
	if r.Error == nil {
		return 0, "", errors.New("no error object in the response")
	}
	return r.Error.Code, r.Error.Message, nil
}

// notAWireSentinel: Err* variables of package core/da that are not part of the DA error vocabulary crossing the wire.
// ErrHeightFromFutureStr is the in-process DummyDA's own value (dummy.go) with the TEXT of ErrHeightFromFuture; the
// node classifies it by that text, like the real sentinel.
var notAWireSentinel = map[string]bool{"ErrHeightFromFutureStr": true}

// sentinelNamesInSource lists the exported Err* package variables of package core/da, whichever file of the package
// declares them (completeness of Sentinels).
func sentinelNamesInSource() ([]string, error) {
	root := os.Getenv("VERIF_REPO")
	if root == "" {
		root = "/repo"
	}
	var out []string
	for _, src := range hx.SourceFiles(filepath.Join(root, "core/da")) {
		f, err := parser.ParseFile(token.NewFileSet(), src, nil, 0)
		if err != nil {
			return nil, err
		}
		for _, d := range f.Decls {
			g, ok := d.(*ast.GenDecl)
			if !ok || g.Tok != token.VAR {
				continue
			}
			for _, s := range g.Specs {
				for _, n := range s.(*ast.ValueSpec).Names {
					if strings.HasPrefix(n.Name, "Err") && !notAWireSentinel[n.Name] {
						out = append(out, n.Name)
					}
				}
			}
		}
	}
	sort.Strings(out)
	return out, nil
}

func init() {
	hx.RegisterFacts("C16", func() (string, error) {
		byType, byCode, err := registryDump()
		if err != nil {
			return "", err
		}
		fx, err := newFixture()
		if err != nil {
			return "", err
		}
		defer fx.close()

		// ---- reflect types: ids are positions in the sorted table of every type that matters
		errorIface := reflect.TypeOf((*error)(nil)).Elem()
		special := map[string]reflect.Type{
			"tyErrorIface":   errorIface,
			"tyJSONRPCError": reflect.TypeOf(&jsonrpc.JSONRPCError{}),
			"tyErrClient":    reflect.TypeOf(&jsonrpc.ErrClient{}),
			"tyWrapError":    reflect.TypeOf(fmt.Errorf("%w", errors.New("x"))),
			"tyCtxCanceled":  reflect.TypeOf(context.Canceled),
			"tyPlain":        reflect.TypeOf(errors.New("x")),
		}
		typeSet := map[reflect.Type]bool{}
		for _, t := range special {
			typeSet[t] = true
		}
		for t := range byType {
			typeSet[t] = true
		}
		for _, t := range byCode {
			typeSet[t] = true
		}
		for _, s := range Sentinels {
			typeSet[reflect.TypeOf(s.Err)] = true
		}
		var tys []reflect.Type
		for t := range typeSet {
			tys = append(tys, t)
		}
		sort.Slice(tys, func(i, j int) bool {
			a, b := tys[i].PkgPath()+"|"+tys[i].String(), tys[j].PkgPath()+"|"+tys[j].String()
			return a < b
		})
		tid := map[reflect.Type]int{}
		for i, t := range tys {
			tid[t] = i
		}
		kind := func(t reflect.Type) int {
			switch t.Kind() {
			case reflect.Interface:
				return 0
			case reflect.Ptr:
				return 1
			}
			return 2
		}

		var b strings.Builder
		names := make([]string, len(tys))
		for i, t := range tys {
			names[i] = hx.LeanString(t.String())
		}
		fmt.Fprintf(&b, "/-- reflect types that matter, id = position -/\ndef typeNames : List String := [%s]\n", strings.Join(names, ", "))
		for _, k := range hx.SortedKeys(special) {
			fmt.Fprintf(&b, "def %s : Nat := %d\n", k, tid[special[k]])
		}

		// ---- the registry both sides install (da/jsonrpc/errors.go through go-jsonrpc's Register)
		var bt []string
		for _, t := range tys {
			if c, ok := byType[t]; ok {
				bt = append(bt, fmt.Sprintf("(%d, %d)", tid[t], int64(c)))
			}
		}
		fmt.Fprintf(&b, "/-- Errors.byType: reflect type id ↦ code -/\ndef byType : List (Nat × Int) := [%s]\n", strings.Join(bt, ", "))
		var codes []int
		for c := range byCode {
			codes = append(codes, int(c))
		}
		sort.Ints(codes)
		var bc []string
		for _, c := range codes {
			t := byCode[jsonrpc.ErrorCode(c)]
			bc = append(bc, fmt.Sprintf("(%d, %d, %d)", c, tid[t], kind(t)))
		}
		fmt.Fprintf(&b, "/-- Errors.byCode: code ↦ (reflect type id, kind: 0 interface, 1 pointer, 2 other) -/\ndef byCode : List (Int × Nat × Nat) := [%s]\n", strings.Join(bc, ", "))

		// ---- the sentinels: message, dynamic type, in-process submit classification, code on the wire
		var sn, sm, st, sd, sw, swm []string
		ctx := context.Background()
		for i, s := range Sentinels {
			sn = append(sn, hx.LeanString(s.Name))
			sm = append(sm, hx.LeanBytes([]byte(s.Err.Error())))
			st = append(st, fmt.Sprint(tid[reflect.TypeOf(s.Err)]))
			fx.back.reset(script{Sub: fmt.Sprintf("err:%d", i), H: 1})
			res := types.SubmitWithHelpers(ctx, fx.back, fx.logger, [][]byte{{1}}, 0, nil)
			sd = append(sd, fmt.Sprint(uint64(res.Code)))
			code, msg, err := wireError(fx.url)
			if err != nil {
				return "", fmt.Errorf("raw request for %s: %w", s.Name, err)
			}
			sw = append(sw, fmt.Sprint(code))
			swm = append(swm, hx.LeanBool(msg == s.Err.Error()))
		}
		fmt.Fprintf(&b, "def sentinelNames : List String := [%s]\n", strings.Join(sn, ", "))
		fmt.Fprintf(&b, "def sentinelMsgs : List Bytes := [%s]\n", strings.Join(sm, ",\n  "))
		fmt.Fprintf(&b, "def sentinelTypes : List Nat := [%s]\n", strings.Join(st, ", "))
		fmt.Fprintf(&b, "/-- status code of types.SubmitWithHelpers when the in-process DA returns the sentinel -/\ndef sentinelDirectSubmit : List Nat := [%s]\n", strings.Join(sd, ", "))
		fmt.Fprintf(&b, "/-- error code the real server puts on the wire when the DA behind it returns the sentinel -/\ndef sentinelWireCode : List Int := [%s]\n", strings.Join(sw, ", "))
		fmt.Fprintf(&b, "/-- the message on the wire is the sentinel's Error() text -/\ndef sentinelWireMsgKept : List Bool := [%s]\n", strings.Join(swm, ", "))
		fmt.Fprintf(&b, "def ctxCanceledMsg : Bytes := %s\n", hx.LeanBytes([]byte(context.Canceled.Error())))

		// ---- completeness of the sentinel table against core/da/errors.go
		src, err := sentinelNamesInSource()
		if err != nil {
			return "", err
		}
		known := map[string]bool{}
		for _, s := range Sentinels {
			known[s.Name] = true
		}
		var unknown []string
		for _, n := range src {
			if !known[n] {
				unknown = append(unknown, hx.LeanString(n))
			}
		}
		fmt.Fprintf(&b, "/-- Err* variables of core/da/errors.go that the table above does not list -/\ndef unknownSentinels : List String := [%s]\n", strings.Join(unknown, ", "))
		fmt.Fprintf(&b, "def sentinelsInSource : Nat := %d\n", len(src))

		// ---- status code values, default limit, helper constants observed by behaviour
		var sv []string
		for _, s := range StatusTable {
			sv = append(sv, fmt.Sprint(uint64(s.Code)))
		}
		fmt.Fprintf(&b, "def statusValues : List Nat := [%s]\n", strings.Join(sv, ", "))
		fmt.Fprintf(&b, "/-- MaxBlobSize of a client fresh from NewClient -/\ndef defaultMaxBlobSize : Nat := %d\n", fx.defMax)
		fmt.Fprintf(&b, "def hookDefaultMaxBlobSize : Nat := %d\n", proxy.VerifDefaultMaxBlobSize())
		// ---- the deadlines of the http.Server NewServer builds (read from the real server value)
		hs, err := httpServerOf(fx.srv)
		if err != nil {
			return "", err
		}
		fmt.Fprintf(&b, "/-- timeouts (nanoseconds) of the *http.Server inside the server proxy.NewServer returns; 0 = none -/\ndef serverWriteTimeout : Nat := %d\n", nonNeg(hs.WriteTimeout))
		fmt.Fprintf(&b, "def serverReadTimeout : Nat := %d\n", nonNeg(hs.ReadTimeout))
		fmt.Fprintf(&b, "def serverIdleTimeout : Nat := %d\n", nonNeg(hs.IdleTimeout))
		fmt.Fprintf(&b, "def serverReadHeaderTimeout : Nat := %d\n", nonNeg(hs.ReadHeaderTimeout))
		fmt.Fprintf(&b, "/-- the handler is wrapped by http.TimeoutHandler (would answer 503 for a slow DA call) -/\ndef serverHandlerIsTimeoutHandler : Bool := %s\n", hx.LeanBool(hs.Handler != nil && strings.Contains(reflect.TypeOf(hs.Handler).String(), "timeoutHandler")))
		fx.back.reset(script{IDs: "ok", N: 250, Get: "ok"})
		rr := types.RetrieveWithHelpers(ctx, fx.back, fx.logger, 5, nil)
		var ch []string
		for _, n := range fx.back.gets {
			ch = append(ch, fmt.Sprint(n))
		}
		fmt.Fprintf(&b, "/-- sizes of the Get calls RetrieveWithHelpers makes for 250 ids -/\ndef getChunks250 : List Nat := [%s]\n", strings.Join(ch, ", "))
		fmt.Fprintf(&b, "def retrieve250Blobs : Nat := %d\n", len(rr.Data))
		fx.back.reset(script{IDs: "msg:-"})
		rr = types.RetrieveWithHelpers(ctx, fx.back, fx.logger, 5, nil)
		fmt.Fprintf(&b, "/-- ResultRetrieve.Message for a GetIDs error with an empty text -/\ndef getIDsErrPrefix : Bytes := %s\n", hx.LeanBytes([]byte(rr.Message)))
		fx.back.reset(script{IDs: "ok", N: 1, Get: "msg:-"})
		rr = types.RetrieveWithHelpers(ctx, fx.back, fx.logger, 5, nil)
		fmt.Fprintf(&b, "/-- ResultRetrieve.Message for a failing first Get of one id, empty error text -/\ndef getErrPrefix0 : Bytes := %s\n", hx.LeanBytes([]byte(rr.Message)))
		fx.back.reset(script{IDs: "ok", N: 1, Get: "msg:-"})
		rr = types.RetrieveWithHelpers(ctx, &fx.cli.DA, fx.logger, 5, nil)
		fmt.Fprintf(&b, "/-- the same through the proxy (the client wrapper adds its own prefix) -/\ndef getErrPrefix0Proxied : Bytes := %s\n", hx.LeanBytes([]byte(rr.Message)))
		return b.String(), nil
	})
}
