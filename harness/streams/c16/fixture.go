// Package c16: a DA layer behind the JSON-RPC proxy vs the same DA layer in-process (property C16).
package c16

import (
	"bytes"
	"context"
	"encoding/binary"
	"errors"
	"fmt"
	"net"
	"strconv"
	"strings"
	"sync"
	"time"

	logging "github.com/ipfs/go-log/v2"

	coreda "github.com/evstack/ev-node/core/da"
	proxy "github.com/evstack/ev-node/da/jsonrpc"
)

// Sentinels is the fixed table of the DA interface's sentinel errors (core/da/errors.go); the
// order is the order of lean/Model/DAProxy.lean's `Sentinel`.
var Sentinels = []struct {
	Name string
	Err  error
}{
	{"ErrBlobNotFound", coreda.ErrBlobNotFound},
	{"ErrBlobSizeOverLimit", coreda.ErrBlobSizeOverLimit},
	{"ErrTxTimedOut", coreda.ErrTxTimedOut},
	{"ErrTxAlreadyInMempool", coreda.ErrTxAlreadyInMempool},
	{"ErrTxIncorrectAccountSequence", coreda.ErrTxIncorrectAccountSequence},
	{"ErrContextDeadline", coreda.ErrContextDeadline},
	{"ErrHeightFromFuture", coreda.ErrHeightFromFuture},
	{"ErrContextCanceled", coreda.ErrContextCanceled},
}

const (
	wrapPre  = "da: "
	wrapPost = ": requested 7, current 3"
)

// scriptedErr builds the error a backing-DA answer names:
// err:<i> the sentinel itself, wrap:<i> fmt.Errorf around it, ctx context.Canceled, other, msg:<hex>.
func scriptedErr(ans string) (error, bool) {
	kind, arg, _ := strings.Cut(ans, ":")
	switch kind {
	case "err", "wrap":
		i, err := strconv.Atoi(arg)
		if err != nil || i < 0 || i >= len(Sentinels) {
			return nil, false
		}
		if kind == "err" {
			return Sentinels[i].Err, true
		}
		return fmt.Errorf(wrapPre+"%w"+wrapPost, Sentinels[i].Err), true
	case "ctx":
		return context.Canceled, arg == ""
	case "other":
		return errors.New("da unavailable"), arg == ""
	case "msg":
		b, err := hexBytes(arg)
		if err != nil {
			return nil, false
		}
		return errors.New(string(b)), true
	}
	return nil, false
}

// script is how the backing DA answers the calls of one op.
type script struct {
	Sub   string // submit: ok | ok:<k> | dummy | <scriptedErr>
	Max   uint64 // dummy: its maxBlobSize
	H     uint64 // DA height carried by the ids
	IDs   string // GetIDs: ok | nil | <scriptedErr>
	N     int    // number of ids at the height
	Get   string // Get: ok | <scriptedErr>   (applies to chunk GetAt)
	GetAt int
	Delay time.Duration // submit `slow`: how long the DA layer works on the batch before it stores it and answers
}

// backing is the scripted DA double behind both the direct and the proxied execution.
type backing struct {
	mu      sync.Mutex
	s       script
	submits [][][]byte // blobs received per SubmitWithOptions call
	tags    []string   // the options each of those calls carried (csubmit: "A" / "B" name the caller)
	gets    []int      // number of ids per Get call
	idsN    int        // GetIDs calls

	// answer `wait` (xsubmit) and the DA-side gate (csubmit gate=da): a call parks inside the DA layer
	w *waitState
	// answer `slow` (slowsubmit): what the DA layer stored, by id (Get serves these before the synthetic blobs)
	store    map[string][]byte
	slowKept [][]byte
}

// waitState is one armed wait: the call that parks announces itself on entered and goes on when its context
// ends (a DA layer that honours its context drops the batch then) or when release is closed (the DA layer
// "produced its block": the batch is stored).
type waitState struct {
	parkTag  string        // "" = every call parks (answer wait); else only the call whose options equal it
	entered  chan struct{} // a call is parked
	release  chan struct{} // closed by the op
	finished chan struct{} // the parked call has left the DA layer
	saw      bool          // the parked call ended because its context was cancelled
	stored   [][]byte      // what the DA layer holds afterwards
	didStore bool
}

func (b *backing) reset(s script) {
	b.mu.Lock()
	defer b.mu.Unlock()
	b.s, b.submits, b.tags, b.gets, b.idsN, b.w, b.store, b.slowKept = s, nil, nil, nil, 0, nil, nil, nil
}

// arm prepares one parked call (after reset).
func (b *backing) arm(parkTag string) *waitState {
	w := &waitState{parkTag: parkTag, entered: make(chan struct{}, 8), release: make(chan struct{}), finished: make(chan struct{})}
	b.mu.Lock()
	b.w = w
	b.mu.Unlock()
	return w
}

// callsOf returns what the calls tagged `tag` carried.
func (b *backing) callsOf(tag string) [][][]byte {
	b.mu.Lock()
	defer b.mu.Unlock()
	var out [][][]byte
	for i, t := range b.tags {
		if t == tag {
			out = append(out, b.submits[i])
		}
	}
	return out
}

func mkID(h uint64, i int) []byte {
	id := make([]byte, 16)
	binary.LittleEndian.PutUint64(id, h)
	binary.LittleEndian.PutUint64(id[8:], uint64(i)+1)
	return id
}

// blobOf is the content stored under an id: sizes cycle through 0..4 so that empty blobs cross the wire too.
func blobOf(i int) []byte { return bytes.Repeat([]byte{byte(i + 1)}, (i*7)%5) }

func (b *backing) SubmitWithOptions(ctx context.Context, blobs []coreda.Blob, gp float64, ns []byte, opts []byte) ([]coreda.ID, error) {
	b.mu.Lock()
	if err := ctx.Err(); err != nil {
		b.mu.Unlock()
		return nil, err
	}
	cp := make([][]byte, len(blobs))
	for i := range blobs {
		cp[i] = append([]byte{}, blobs[i]...)
	}
	b.submits = append(b.submits, cp)
	b.tags = append(b.tags, string(opts))
	w := b.w
	if w != nil && (w.parkTag == "" || w.parkTag == string(opts)) {
		// park without the lock: other calls go on meanwhile
		b.w = nil // one parked call per armed wait
		sub, h := b.s.Sub, b.s.H
		b.mu.Unlock()
		w.entered <- struct{}{}
		if sub == "wait" {
			defer close(w.finished)
			select {
			case <-ctx.Done():
				b.mu.Lock()
				w.saw = true
				b.mu.Unlock()
				return nil, ctx.Err()
			case <-w.release:
				b.mu.Lock()
				w.stored, w.didStore = cp, true
				b.mu.Unlock()
				ids := make([]coreda.ID, len(blobs))
				for i := range ids {
					ids[i] = mkID(h, i)
				}
				return ids, nil
			}
		}
		<-w.release // csubmit gate=da: the request has been received, the answer is held back
		b.mu.Lock()
	}
	if b.s.Sub == "slow" {
		// a DA layer that needs a while (inclusion in a DA block): it honours its context, then stores and answers
		delay, h := b.s.Delay, b.s.H
		b.mu.Unlock()
		select {
		case <-ctx.Done():
			return nil, ctx.Err()
		case <-time.After(delay):
		}
		b.mu.Lock()
		defer b.mu.Unlock()
		ids := make([]coreda.ID, len(cp))
		b.store = map[string][]byte{}
		for i := range cp {
			ids[i] = mkID(h, i)
			b.store[string(ids[i])] = cp[i]
		}
		b.slowKept = cp
		return ids, nil
	}
	defer b.mu.Unlock()
	if b.s.Sub == "wait" {
		return nil, errors.New("bad script") // not armed
	}
	kind, arg, _ := strings.Cut(b.s.Sub, ":")
	switch kind {
	case "ok":
		k := len(blobs)
		if arg != "" {
			if n, err := strconv.Atoi(arg); err == nil && n < k {
				k = n
			}
		}
		ids := make([]coreda.ID, k)
		for i := range ids {
			ids[i] = mkID(b.s.H, i)
		}
		return ids, nil
	case "dummy":
		// the repository's own in-process DA with the same limit (core/da/dummy.go)
		d := coreda.NewDummyDA(b.s.Max, 0, 0, time.Hour)
		return d.SubmitWithOptions(ctx, blobs, gp, ns, opts)
	}
	if err, ok := scriptedErr(b.s.Sub); ok {
		return nil, err
	}
	return nil, errors.New("bad script")
}
func (b *backing) Submit(ctx context.Context, blobs []coreda.Blob, gp float64, ns []byte) ([]coreda.ID, error) {
	return b.SubmitWithOptions(ctx, blobs, gp, ns, nil)
}
func (b *backing) GetIDs(ctx context.Context, height uint64, _ []byte) (*coreda.GetIDsResult, error) {
	b.mu.Lock()
	defer b.mu.Unlock()
	if err := ctx.Err(); err != nil {
		return nil, err
	}
	b.idsN++
	switch b.s.IDs {
	case "ok":
		ids := make([]coreda.ID, b.s.N)
		for i := range ids {
			ids[i] = mkID(height, i)
		}
		return &coreda.GetIDsResult{IDs: ids, Timestamp: time.Unix(int64(height%1_000_000_000), 0).UTC()}, nil
	case "nil":
		return nil, nil
	}
	if err, ok := scriptedErr(b.s.IDs); ok {
		return nil, err
	}
	return nil, errors.New("bad script")
}
func (b *backing) Get(ctx context.Context, ids []coreda.ID, _ []byte) ([]coreda.Blob, error) {
	b.mu.Lock()
	defer b.mu.Unlock()
	if err := ctx.Err(); err != nil {
		return nil, err
	}
	call := len(b.gets)
	b.gets = append(b.gets, len(ids))
	if b.s.Get != "ok" && call == b.s.GetAt {
		if err, ok := scriptedErr(b.s.Get); ok {
			return nil, err
		}
		return nil, errors.New("bad script")
	}
	out := make([]coreda.Blob, len(ids))
	for i, id := range ids {
		if len(id) != 16 {
			return nil, coreda.ErrBlobNotFound
		}
		if v, ok := b.store[string(id)]; ok {
			out[i] = v
			continue
		}
		out[i] = blobOf(int(binary.LittleEndian.Uint64(id[8:])) - 1)
	}
	return out, nil
}
func (b *backing) GetProofs(context.Context, []coreda.ID, []byte) ([]coreda.Proof, error) {
	return nil, nil
}
func (b *backing) Commit(context.Context, []coreda.Blob, []byte) ([]coreda.Commitment, error) {
	return nil, nil
}
func (b *backing) Validate(_ context.Context, ids []coreda.ID, _ []coreda.Proof, _ []byte) ([]bool, error) {
	return make([]bool, len(ids)), nil
}
func (b *backing) GasPrice(context.Context) (float64, error)      { return 0, nil }
func (b *backing) GasMultiplier(context.Context) (float64, error) { return 0, nil }

var _ coreda.DA = (*backing)(nil)

// recDA decorates a DA and remembers the last error it handed to the node's helper.
type recDA struct {
	coreda.DA
	last error
}

func (r *recDA) SubmitWithOptions(ctx context.Context, blobs []coreda.Blob, gp float64, ns []byte, opts []byte) ([]coreda.ID, error) {
	ids, err := r.DA.SubmitWithOptions(ctx, blobs, gp, ns, opts)
	if err != nil {
		r.last = err
	}
	return ids, err
}
func (r *recDA) GetIDs(ctx context.Context, h uint64, ns []byte) (*coreda.GetIDsResult, error) {
	res, err := r.DA.GetIDs(ctx, h, ns)
	if err != nil {
		r.last = err
	}
	return res, err
}
func (r *recDA) Get(ctx context.Context, ids []coreda.ID, ns []byte) ([]coreda.Blob, error) {
	res, err := r.DA.Get(ctx, ids, ns)
	if err != nil {
		r.last = err
	}
	return res, err
}

// fixture is one real JSON-RPC server + client on a loopback port over the backing double.
type fixture struct {
	back   *backing
	srv    *proxy.Server
	cli    *proxy.Client
	url    string
	defMax uint64
	logger logging.EventLogger
}

func newFixture() (*fixture, error) {
	f := &fixture{back: &backing{}, logger: logging.Logger("c16")}
	_ = logging.SetLogLevel("c16", "fatal")
	_ = logging.SetLogLevel("rpc", "fatal")
	var lastErr error
	for attempt := 0; attempt < 20; attempt++ {
		l, err := net.Listen("tcp", "127.0.0.1:0")
		if err != nil {
			return nil, err
		}
		port := l.Addr().(*net.TCPAddr).Port
		_ = l.Close()
		srv := proxy.NewServer(f.logger, "127.0.0.1", strconv.Itoa(port), f.back)
		if err := srv.Start(context.Background()); err != nil {
			lastErr = err
			continue
		}
		f.srv = srv
		f.url = fmt.Sprintf("http://127.0.0.1:%d", port)
		break
	}
	if f.srv == nil {
		return nil, fmt.Errorf("could not start the proxy server: %v", lastErr)
	}
	cli, err := proxy.NewClient(context.Background(), f.logger, f.url, "", "")
	if err != nil {
		_ = f.srv.Stop(context.Background())
		return nil, err
	}
	f.cli = cli
	f.defMax = cli.DA.MaxBlobSize
	return f, nil
}

func (f *fixture) close() {
	if f.cli != nil {
		f.cli.Close()
	}
	if f.srv != nil {
		ctx, cancel := context.WithTimeout(context.Background(), 2*time.Second)
		defer cancel()
		_ = f.srv.Stop(ctx)
	}
}

func hexBytes(s string) ([]byte, error) {
	if s == "-" || s == "" {
		return nil, nil
	}
	out := make([]byte, len(s)/2)
	if len(s)%2 != 0 {
		return nil, errors.New("odd hex")
	}
	for i := 0; i < len(out); i++ {
		v, err := strconv.ParseUint(s[2*i:2*i+2], 16, 8)
		if err != nil {
			return nil, err
		}
		out[i] = byte(v)
	}
	return out, nil
}
