package prod

import (
	"bytes"
	"fmt"
	"io"
	"os"
	"path/filepath"
	"reflect"
	"sort"
	"strings"
	"sync"

	"verifharness/bm"
	"verifharness/hx"

	_ "github.com/evstack/ev-node/block" // registers the gob types of the caches
	"github.com/evstack/ev-node/pkg/cache"
	"github.com/evstack/ev-node/types"
)

// CacheFiles: the eight files Manager.SaveCache writes below <root>/data/cache, in the order it writes them
// (header cache first; block/manager.go SaveCache, pkg/cache SaveToDisk). This is the vocabulary of the
// `restart cut=<name>` op; Lean: CacheDir.fileNames. The probe reports what the real code wrote
// (Gen.C04.cacheFileNames) and Spec.C04 demands that the two lists agree.
var CacheFiles = []string{
	"header/items_by_height.gob", "header/items_by_hash.gob", "header/hashes.gob", "header/da_included.gob",
	"data/items_by_height.gob", "data/items_by_hash.gob", "data/hashes.gob", "data/da_included.gob",
}

func cacheIndex(name string) int {
	for i, n := range CacheFiles {
		if n == name {
			return i
		}
	}
	return -1
}

// CacheProbe is what the real pkg/cache does when it saves over an existing directory.
type CacheProbe struct {
	Atomic         bool     // no target file was rewritten in place
	InPlace        []string // the files that were
	Names          []string // files present after the first save (CacheFiles order, then anything else)
	LoadIgnoresTmp bool     // LoadFromDisk succeeds, with the same contents, beside truncated <name>.tmp files
}

type anyCache interface {
	SaveToDisk(string) error
	LoadFromDisk(string) error
	SetSeen(string)
	SetDAIncluded(string, uint64)
	VerifItemHeights() []uint64
	VerifSeen() []string
	VerifDAIncluded() map[string]uint64
}

func headerCache(gen int) anyCache {
	c := cache.NewCache[types.SignedHeader]()
	for h := uint64(1); h <= uint64(2+3*gen); h++ {
		sh := &types.SignedHeader{Header: types.Header{BaseHeader: types.BaseHeader{Height: h, Time: uint64(gen), ChainID: "probe"}, AppHash: bytes.Repeat([]byte{byte(gen)}, 32)}}
		c.SetItem(h, sh)
	}
	fillCommon(c, gen)
	return c
}

func dataCache(gen int) anyCache {
	c := cache.NewCache[types.Data]()
	for h := uint64(1); h <= uint64(2+3*gen); h++ {
		d := &types.Data{Metadata: &types.Metadata{ChainID: "probe", Height: h, Time: uint64(gen)}, Txs: types.Txs{types.Tx(fmt.Sprintf("tx-%d-%d", gen, h))}}
		c.SetItem(h, d)
	}
	fillCommon(c, gen)
	return c
}

func fillCommon(c anyCache, gen int) {
	for i := 0; i < 2+3*gen; i++ {
		c.SetSeen(fmt.Sprintf("hash-%d-%d", gen, i))
		c.SetDAIncluded(fmt.Sprintf("hash-%d-%d", gen, i), uint64(10*gen+i))
	}
}

func sameContents(a, b anyCache) bool {
	return reflect.DeepEqual(a.VerifItemHeights(), b.VerifItemHeights()) && reflect.DeepEqual(a.VerifSeen(), b.VerifSeen()) &&
		reflect.DeepEqual(a.VerifDAIncluded(), b.VerifDAIncluded())
}

// ProbeCacheSave runs the REAL SaveToDisk of the real header and data caches twice into the same directory and
// watches what happens to the files of the first save while the second one runs:
//
//	(1) an open descriptor on every old file, and (2) a hard link to every old file in another directory.
//
// A save that replaces a file atomically (write elsewhere, rename over the target) gives the target path a NEW
// inode and leaves the old inode alone: the descriptor and the link still read the complete old bytes. A save
// that rewrites in place (os.Create + encode) keeps the inode, so descriptor and link see the new bytes (or, at
// a crash, a truncated file). Nothing about the source text of pkg/cache is used.
func ProbeCacheSave() (CacheProbe, error) {
	var p CacheProbe
	dir, err := os.MkdirTemp(bm.WorkDir(), "cacheprobe-")
	if err != nil {
		return p, err
	}
	defer os.RemoveAll(dir)
	root, keep := filepath.Join(dir, "cache"), filepath.Join(dir, "keep")
	save := func(gen int) (anyCache, anyCache, error) {
		h, d := headerCache(gen), dataCache(gen)
		if err := h.SaveToDisk(filepath.Join(root, "header")); err != nil {
			return nil, nil, err
		}
		return h, d, d.SaveToDisk(filepath.Join(root, "data"))
	}
	list := func() ([]string, error) {
		var extra []string
		found := map[string]bool{}
		err := filepath.Walk(root, func(path string, fi os.FileInfo, err error) error {
			if err != nil || fi.IsDir() {
				return err
			}
			rel, _ := filepath.Rel(root, path)
			rel = filepath.ToSlash(rel)
			if cacheIndex(rel) >= 0 {
				found[rel] = true
			} else {
				extra = append(extra, rel)
			}
			return nil
		})
		var out []string
		for _, n := range CacheFiles {
			if found[n] {
				out = append(out, n)
			}
		}
		sort.Strings(extra)
		return append(out, extra...), err
	}

	if _, _, err := save(1); err != nil {
		return p, fmt.Errorf("first save: %w", err)
	}
	if p.Names, err = list(); err != nil {
		return p, err
	}
	type held struct {
		name string
		fd   *os.File
		fi   os.FileInfo
		old  []byte
		link string
	}
	var hs []held
	defer func() {
		for _, h := range hs {
			h.fd.Close()
		}
	}()
	if err := os.MkdirAll(keep, 0o755); err != nil {
		return p, err
	}
	for i, n := range p.Names {
		path := filepath.Join(root, filepath.FromSlash(n))
		fd, err := os.Open(path)
		if err != nil {
			return p, err
		}
		h := held{name: n, fd: fd, link: filepath.Join(keep, fmt.Sprintf("%d", i))}
		hs = append(hs, h)
		if hs[i].old, err = io.ReadAll(fd); err != nil {
			return p, err
		}
		if hs[i].fi, err = fd.Stat(); err != nil {
			return p, err
		}
		if err := os.Link(path, h.link); err != nil {
			return p, fmt.Errorf("hard link: %w", err)
		}
	}
	h2, d2, err := save(2)
	if err != nil {
		return p, fmt.Errorf("second save: %w", err)
	}
	changed := 0
	for _, h := range hs {
		path := filepath.Join(root, filepath.FromSlash(h.name))
		nfi, err := os.Stat(path)
		if err != nil {
			return p, err
		}
		now, err := os.ReadFile(path)
		if err != nil {
			return p, err
		}
		if !bytes.Equal(now, h.old) {
			changed++ // (items_by_hash is always the empty map: same bytes, only the inode tells)
		}
		if _, err := h.fd.Seek(0, io.SeekStart); err != nil {
			return p, err
		}
		viaFd, err := io.ReadAll(h.fd)
		if err != nil {
			return p, err
		}
		viaLink, err := os.ReadFile(h.link)
		if err != nil {
			return p, err
		}
		if os.SameFile(h.fi, nfi) || !bytes.Equal(viaFd, h.old) || !bytes.Equal(viaLink, h.old) {
			p.InPlace = append(p.InPlace, h.name)
		}
	}
	if changed < 6 {
		return p, fmt.Errorf("probe is not meaningful: only %d files changed their bytes in the second save", changed)
	}
	p.Atomic = len(p.InPlace) == 0

	// a partly written temporary file beside every cache file must not disturb loading
	for _, n := range p.Names {
		path := filepath.Join(root, filepath.FromSlash(n))
		b, err := os.ReadFile(path)
		if err != nil {
			return p, err
		}
		if err := os.WriteFile(path+".tmp", b[:len(b)/2], 0o644); err != nil {
			return p, err
		}
	}
	h3, d3 := anyCache(cache.NewCache[types.SignedHeader]()), anyCache(cache.NewCache[types.Data]())
	p.LoadIgnoresTmp = h3.LoadFromDisk(filepath.Join(root, "header")) == nil && d3.LoadFromDisk(filepath.Join(root, "data")) == nil &&
		sameContents(h2, h3) && sameContents(d2, d3)
	return p, nil
}

var (
	probeOnce sync.Once
	probeRes  CacheProbe
	probeErr  error
)

// cacheProbe: the probe, once per process (the runner decides by it what a `cut` op means).
func cacheProbe() (CacheProbe, error) {
	probeOnce.Do(func() { probeRes, probeErr = ProbeCacheSave() })
	return probeRes, probeErr
}

func init() {
	hx.RegisterFacts("C04", func() (string, error) {
		p, err := ProbeCacheSave()
		if err != nil {
			return "", err
		}
		q := func(ss []string) string {
			var o []string
			for _, s := range ss {
				o = append(o, hx.LeanString(s))
			}
			return "[" + strings.Join(o, ", ") + "]"
		}
		var b strings.Builder
		fmt.Fprintf(&b, "/-- measured: the real `SaveToDisk` of the header and data caches was run over a directory that already held the files\nof an earlier save; `true` iff every target path got a new inode and an open descriptor on / a hard link to every\nold file still read the complete old bytes (files rewritten in place: %s) -/\n", q(p.InPlace))
		fmt.Fprintf(&b, "def cacheSaveAtomic : Bool := %s\n", hx.LeanBool(p.Atomic))
		fmt.Fprintf(&b, "/-- the real `LoadFromDisk` succeeds, with the saved contents, when a truncated `<name>.tmp` lies beside every file -/\n")
		fmt.Fprintf(&b, "def cacheLoadIgnoresTmp : Bool := %s\n", hx.LeanBool(p.LoadIgnoresTmp))
		fmt.Fprintf(&b, "/-- the files a complete save leaves in the cache directory -/\n")
		fmt.Fprintf(&b, "def cacheFileNames : List String := %s\n", q(p.Names))
		return b.String(), nil
	})
}
