package prod

import (
	"bytes"
	"fmt"
	"io"
	"os"
	"os/exec"
	"path/filepath"
	"reflect"
	"sort"
	"strconv"
	"strings"
	"sync"

	"verifharness/bm"
	"verifharness/hx"

	_ "github.com/evstack/ev-node/block" // registers the gob types of the caches
	"github.com/evstack/ev-node/pkg/cache"
	"github.com/evstack/ev-node/types"
)

// CacheFiles: the eight files Manager.SaveCache writes below <root>/data/cache, in the order it writes them
// (header cache first; block/manager.go SaveCache, pkg/cache SaveToDisk). This is the vocabulary of the
// `restart cut=<name>` op; Lean: CacheDir.fileNames. The probe reports what the real code wrote
// (Gen.C04.cacheFileNames) and Spec.C04 demands that the two lists agree.
var CacheFiles = []string{
	"header/items_by_height.gob", "header/items_by_hash.gob", "header/hashes.gob", "header/da_included.gob",
	"data/items_by_height.gob", "data/items_by_hash.gob", "data/hashes.gob", "data/da_included.gob",
}

func cacheIndex(name string) int {
	for i, n := range CacheFiles {
		if n == name {
			return i
		}
	}
	return -1
}

// CacheProbe is what the real pkg/cache does when it saves over an existing directory.
type CacheProbe struct {
	// Atomic = NoTruncateInPlace && ViaRename && SyncBeforeRename && InodeCheck: what the runner and the model go by
	Atomic bool
	// the system calls of the real save, per target path (strace of a child process running only the save):
	NoTruncateInPlace bool     // no target path is opened for writing / created / truncated / unlinked / renamed away
	ViaRename         bool     // every target path is (only) the destination of a rename from a non-target path in the same directory, never written through a descriptor afterwards
	SyncBeforeRename  bool     // the renamed file was fsync'ed / fdatasync'ed after its last write and before the rename
	Trace             []string // per target: the calls that touched it or the file renamed onto it
	// cross-check on the result of the same save: every path has a new inode, the old inodes are untouched
	InodeCheck     bool
	InPlace        []string // the files for which that is not so
	Names          []string // files present after the first save (CacheFiles order, then anything else)
	LoadIgnoresTmp bool     // LoadFromDisk succeeds, with the same contents, beside truncated <name>.tmp files
}

type anyCache interface {
	SaveToDisk(string) error
	LoadFromDisk(string) error
	SetSeen(string)
	SetDAIncluded(string, uint64)
	VerifItemHeights() []uint64
	VerifSeen() []string
	VerifDAIncluded() map[string]uint64
}

func headerCache(gen int) anyCache {
	c := cache.NewCache[types.SignedHeader]()
	for h := uint64(1); h <= uint64(2+3*gen); h++ {
		sh := &types.SignedHeader{Header: types.Header{BaseHeader: types.BaseHeader{Height: h, Time: uint64(gen), ChainID: "probe"}, AppHash: bytes.Repeat([]byte{byte(gen)}, 32)}}
		c.SetItem(h, sh)
	}
	fillCommon(c, gen)
	return c
}

func dataCache(gen int) anyCache {
	c := cache.NewCache[types.Data]()
	for h := uint64(1); h <= uint64(2+3*gen); h++ {
		d := &types.Data{Metadata: &types.Metadata{ChainID: "probe", Height: h, Time: uint64(gen)}, Txs: types.Txs{types.Tx(fmt.Sprintf("tx-%d-%d", gen, h))}}
		c.SetItem(h, d)
	}
	fillCommon(c, gen)
	return c
}

func fillCommon(c anyCache, gen int) {
	for i := 0; i < 2+3*gen; i++ {
		c.SetSeen(fmt.Sprintf("hash-%d-%d", gen, i))
		c.SetDAIncluded(fmt.Sprintf("hash-%d-%d", gen, i), uint64(10*gen+i))
	}
}

func sameContents(a, b anyCache) bool {
	return reflect.DeepEqual(a.VerifItemHeights(), b.VerifItemHeights()) && reflect.DeepEqual(a.VerifSeen(), b.VerifSeen()) &&
		reflect.DeepEqual(a.VerifDAIncluded(), b.VerifDAIncluded())
}

// ProbeCacheSave runs the REAL SaveToDisk of the real header and data caches twice into the same directory and
// watches what happens to the files of the first save while the second one runs:
//
//	(1) an open descriptor on every old file, and (2) a hard link to every old file in another directory.
//
// A save that replaces a file atomically (write elsewhere, rename over the target) gives the target path a NEW
// inode and leaves the old inode alone: the descriptor and the link still read the complete old bytes. A save
// that rewrites in place (os.Create + encode) keeps the inode, so descriptor and link see the new bytes (or, at
// a crash, a truncated file). That alone does NOT show atomicity (remove + create + encode also yields a new inode
// and leaves the old one alone, yet a crash leaves an absent or cut-off file), so it is only a cross-check:
//
//	(3) the second save runs in a CHILD process (this binary re-executed with VERIF_CACHE_SAVE_CHILD=<dir>, which
//	    runs nothing but the real SaveToDisk of the real caches) under strace, and the system calls that touch each
//	    target path - or the file that is renamed onto it - are what decides: see analyseTrace.
//
// Nothing about the source text of pkg/cache is used.
func ProbeCacheSave() (CacheProbe, error) {
	var p CacheProbe
	dir, err := os.MkdirTemp(bm.WorkDir(), "cacheprobe-")
	if err != nil {
		return p, err
	}
	defer os.RemoveAll(dir)
	root, keep := filepath.Join(dir, "cache"), filepath.Join(dir, "keep")
	save := func(gen int) error { return saveGeneration(root, gen) }
	list := func() ([]string, error) {
		var extra []string
		found := map[string]bool{}
		err := filepath.Walk(root, func(path string, fi os.FileInfo, err error) error {
			if err != nil || fi.IsDir() {
				return err
			}
			rel, _ := filepath.Rel(root, path)
			rel = filepath.ToSlash(rel)
			if cacheIndex(rel) >= 0 {
				found[rel] = true
			} else {
				extra = append(extra, rel)
			}
			return nil
		})
		var out []string
		for _, n := range CacheFiles {
			if found[n] {
				out = append(out, n)
			}
		}
		sort.Strings(extra)
		return append(out, extra...), err
	}

	if err := save(1); err != nil {
		return p, fmt.Errorf("first save: %w", err)
	}
	if p.Names, err = list(); err != nil {
		return p, err
	}
	type held struct {
		name string
		fd   *os.File
		fi   os.FileInfo
		old  []byte
		link string
	}
	var hs []held
	defer func() {
		for _, h := range hs {
			h.fd.Close()
		}
	}()
	if err := os.MkdirAll(keep, 0o755); err != nil {
		return p, err
	}
	for i, n := range p.Names {
		path := filepath.Join(root, filepath.FromSlash(n))
		fd, err := os.Open(path)
		if err != nil {
			return p, err
		}
		h := held{name: n, fd: fd, link: filepath.Join(keep, fmt.Sprintf("%d", i))}
		hs = append(hs, h)
		if hs[i].old, err = io.ReadAll(fd); err != nil {
			return p, err
		}
		if hs[i].fi, err = fd.Stat(); err != nil {
			return p, err
		}
		if err := os.Link(path, h.link); err != nil {
			return p, fmt.Errorf("hard link: %w", err)
		}
	}
	h2, d2 := headerCache(2), dataCache(2) // what the child saves (deterministic)
	trace, err := tracedSave(dir)
	if err != nil {
		return p, fmt.Errorf("second save (traced child): %w", err)
	}
	var targets []string
	for _, n := range CacheFiles {
		targets = append(targets, filepath.Join(root, filepath.FromSlash(n)))
	}
	p.NoTruncateInPlace, p.ViaRename, p.SyncBeforeRename, p.Trace, err = analyseTrace(trace, dir, targets)
	if err != nil {
		return p, err
	}
	changed := 0
	for _, h := range hs {
		path := filepath.Join(root, filepath.FromSlash(h.name))
		nfi, err := os.Stat(path)
		if err != nil {
			return p, err
		}
		now, err := os.ReadFile(path)
		if err != nil {
			return p, err
		}
		if !bytes.Equal(now, h.old) {
			changed++ // (items_by_hash is always the empty map: same bytes, only the inode tells)
		}
		if _, err := h.fd.Seek(0, io.SeekStart); err != nil {
			return p, err
		}
		viaFd, err := io.ReadAll(h.fd)
		if err != nil {
			return p, err
		}
		viaLink, err := os.ReadFile(h.link)
		if err != nil {
			return p, err
		}
		if os.SameFile(h.fi, nfi) || !bytes.Equal(viaFd, h.old) || !bytes.Equal(viaLink, h.old) {
			p.InPlace = append(p.InPlace, h.name)
		}
	}
	if changed < 6 {
		return p, fmt.Errorf("probe is not meaningful: only %d files changed their bytes in the second save", changed)
	}
	p.InodeCheck = len(p.InPlace) == 0
	p.Atomic = p.NoTruncateInPlace && p.ViaRename && p.SyncBeforeRename && p.InodeCheck

	// a partly written temporary file beside every cache file must not disturb loading
	for _, n := range p.Names {
		path := filepath.Join(root, filepath.FromSlash(n))
		b, err := os.ReadFile(path)
		if err != nil {
			return p, err
		}
		if err := os.WriteFile(path+".tmp", b[:len(b)/2], 0o644); err != nil {
			return p, err
		}
	}
	h3, d3 := anyCache(cache.NewCache[types.SignedHeader]()), anyCache(cache.NewCache[types.Data]())
	p.LoadIgnoresTmp = h3.LoadFromDisk(filepath.Join(root, "header")) == nil && d3.LoadFromDisk(filepath.Join(root, "data")) == nil &&
		sameContents(h2, h3) && sameContents(d2, d3)
	return p, nil
}

var (
	probeOnce sync.Once
	probeRes  CacheProbe
	probeErr  error
)

// cacheProbe: the probe, once per process (the runner decides by it what a `cut` op means).
func cacheProbe() (CacheProbe, error) {
	probeOnce.Do(func() { probeRes, probeErr = ProbeCacheSave() })
	return probeRes, probeErr
}

// saveGeneration: the real SaveToDisk of a real header cache and a real data cache, as Manager.SaveCache calls them.
func saveGeneration(root string, gen int) error {
	if err := headerCache(gen).SaveToDisk(filepath.Join(root, "header")); err != nil {
		return err
	}
	return dataCache(gen).SaveToDisk(filepath.Join(root, "data"))
}

const childEnv = "VERIF_CACHE_SAVE_CHILD"

// traced system calls (`?` = ignore where the architecture has no such call)
const straceSet = "trace=?open,openat,?creat,?rename,renameat,renameat2,?unlink,unlinkat,?link,linkat,fsync,fdatasync,ftruncate,truncate,write,pwrite64,writev,pwritev,close"

// tracedSave re-executes this binary under strace; the child (see init) saves generation 2 into <dir>/cache, between
// the creation of the marker files <dir>/begin and <dir>/end. Returns the trace text.
func tracedSave(dir string) (string, error) {
	exe, err := os.Executable()
	if err != nil {
		return "", err
	}
	st, err := exec.LookPath("strace")
	if err != nil {
		return "", fmt.Errorf("strace is needed to observe how pkg/cache replaces its files: %w", err)
	}
	out := filepath.Join(dir, "trace")
	cmd := exec.Command(st, "-f", "-qq", "-s", "0", "-e", straceSet, "-o", out, exe)
	cmd.Env = append(os.Environ(), childEnv+"="+dir)
	cmd.Dir = dir
	if b, err := cmd.CombinedOutput(); err != nil {
		return "", fmt.Errorf("strace %s: %v: %s", exe, err, strings.TrimSpace(string(b)))
	}
	b, err := os.ReadFile(out)
	return string(b), err
}

type sysc struct {
	name string
	args []string
	ret  int64
}

// parseStrace: `-f -o` lines "<tid> name(args) = ret …"; calls split into "<unfinished ...>" / "<... name resumed>"
// are joined and take the position of their completion; signal and exit lines are skipped.
func parseStrace(text string) []sysc {
	var out []sysc
	pending := map[string]string{}
	for _, line := range strings.Split(text, "\n") {
		tid, rest, ok := strings.Cut(strings.TrimSpace(line), " ")
		rest = strings.TrimSpace(rest)
		if !ok || rest == "" || rest[0] == '+' || rest[0] == '-' {
			continue
		}
		if strings.HasSuffix(rest, "<unfinished ...>") {
			pending[tid] = strings.TrimSuffix(rest, "<unfinished ...>")
			continue
		}
		if strings.HasPrefix(rest, "<... ") {
			i := strings.Index(rest, "resumed>")
			if i < 0 {
				continue
			}
			rest = pending[tid] + rest[i+len("resumed>"):]
			delete(pending, tid)
		}
		open := strings.IndexByte(rest, '(')
		is := strings.LastIndex(rest, " = ") // "name(args)   = ret [errno (text)]"
		if open <= 0 || is < open {
			continue
		}
		eq := strings.LastIndex(rest[:is+1], ")")
		if eq < open {
			continue
		}
		c := sysc{name: rest[:open], ret: -1}
		if f := strings.Fields(rest[is+3:]); len(f) > 0 {
			if n, err := strconv.ParseInt(f[0], 0, 64); err == nil {
				c.ret = n
			}
		}
		// top-level arguments
		depth, inq, start := 0, false, open+1
		body := rest[:eq]
		for i := open + 1; i < len(body); i++ {
			ch := body[i]
			switch {
			case inq && ch == '\\':
				i++
			case ch == '"':
				inq = !inq
			case inq:
			case ch == '[' || ch == '{' || ch == '(':
				depth++
			case ch == ']' || ch == '}' || ch == ')':
				depth--
			case ch == ',' && depth == 0:
				c.args = append(c.args, strings.TrimSpace(body[start:i]))
				start = i + 1
			}
		}
		c.args = append(c.args, strings.TrimSpace(body[start:]))
		out = append(out, c)
	}
	return out
}

// analyseTrace decides the three facts from the system calls the child issued between its two markers. One
// descriptor table (the child is one process; its threads share it); only successful calls count.
//
//	noTrunc:  no target path is opened with O_WRONLY/O_RDWR/O_CREAT/O_TRUNC/O_APPEND, truncated, unlinked, renamed
//	          away or linked over
//	viaRen:   every target path is the destination of at least one rename, every such rename comes from a path in
//	          the same directory that is not itself a target, and nothing is written through a descriptor of that
//	          file after the rename
//	synced:   for every such rename: the source was opened for writing by the child, and an fsync/fdatasync on one of
//	          its descriptors succeeded after the last write to it and before the rename
func analyseTrace(text, dir string, targets []string) (noTrunc, viaRen, synced bool, summary []string, err error) {
	calls := parseStrace(text)
	isTarget := map[string]bool{}
	for _, t := range targets {
		isTarget[t] = true
	}
	abs := func(dirfd, quoted string) (string, bool) {
		p, e := strconv.Unquote(quoted)
		if e != nil {
			p = strings.Trim(quoted, "\"")
		}
		if !filepath.IsAbs(p) {
			if dirfd != "AT_FDCWD" {
				return p, false
			}
			p = filepath.Join(dir, p) // the child's working directory
		}
		return filepath.Clean(p), true
	}
	type file struct { // a file created by the child, followed through renames
		path                string
		lastWrite, lastSync int
		opened              bool
	}
	fds := map[int64]*file{}       // descriptor -> file
	byPath := map[string]*file{}   // current path -> file
	ev := map[string][]string{}    // target -> what happened to it
	srcOf := map[string][]string{} // target -> rename sources
	noTrunc, viaRen, synced = true, true, true
	renamedTo := map[string]int{}
	note := func(t, what string) {
		if n := len(ev[t]); n == 0 || ev[t][n-1] != what {
			ev[t] = append(ev[t], what)
		}
	}
	rel := func(p string) string {
		if r, e := filepath.Rel(filepath.Join(dir, "cache"), p); e == nil {
			return filepath.ToSlash(r)
		}
		return p
	}
	in, done, unresolved := false, false, 0
	for i, c := range calls {
		if c.ret < 0 || done {
			continue
		}
		var dirfd, path, flags string
		switch c.name {
		case "openat":
			if len(c.args) >= 3 {
				dirfd, path, flags = c.args[0], c.args[1], c.args[2]
			}
		case "open":
			if len(c.args) >= 2 {
				dirfd, path, flags = "AT_FDCWD", c.args[0], c.args[1]
			}
		case "creat":
			if len(c.args) >= 1 {
				dirfd, path, flags = "AT_FDCWD", c.args[0], "O_WRONLY|O_CREAT|O_TRUNC"
			}
		}
		if path != "" {
			p, ok := abs(dirfd, path)
			if p == filepath.Join(dir, "begin") {
				in = true
				continue
			}
			if p == filepath.Join(dir, "end") {
				done = true
				continue
			}
			if !in {
				continue
			}
			if !ok {
				unresolved++
				continue
			}
			writing := false
			for _, f := range []string{"O_WRONLY", "O_RDWR", "O_CREAT", "O_TRUNC", "O_APPEND"} {
				writing = writing || strings.Contains(flags, f)
			}
			if isTarget[p] && writing {
				noTrunc = false
				note(p, "openat(TARGET, "+flags+")")
			}
			f := byPath[p]
			if f == nil {
				f = &file{path: p, lastWrite: -1, lastSync: -1}
				byPath[p] = f
			}
			if writing {
				f.opened = true
			}
			fds[c.ret] = f
			continue
		}
		if !in {
			continue
		}
		fd := func() *file {
			if len(c.args) == 0 {
				return nil
			}
			n, e := strconv.ParseInt(c.args[0], 0, 64)
			if e != nil {
				return nil
			}
			return fds[n]
		}
		switch c.name {
		case "write", "pwrite64", "writev", "pwritev":
			if f := fd(); f != nil {
				f.lastWrite = i
				if isTarget[f.path] {
					viaRen, noTrunc = false, false
					note(f.path, c.name+"(descriptor of TARGET)")
				}
			}
		case "fsync", "fdatasync":
			if f := fd(); f != nil {
				f.lastSync = i
			}
		case "ftruncate":
			if f := fd(); f != nil && isTarget[f.path] {
				noTrunc = false
				note(f.path, "ftruncate(descriptor of TARGET)")
			}
		case "truncate":
			if len(c.args) >= 1 {
				if p, ok := abs("AT_FDCWD", c.args[0]); ok && isTarget[p] {
					noTrunc = false
					note(p, "truncate(TARGET)")
				} else if !ok {
					unresolved++
				}
			}
		case "close":
			if len(c.args) >= 1 {
				if n, e := strconv.ParseInt(c.args[0], 0, 64); e == nil {
					delete(fds, n)
				}
			}
		case "unlink", "unlinkat":
			a := c.args
			d := "AT_FDCWD"
			if c.name == "unlinkat" && len(a) >= 2 {
				d, a = a[0], a[1:]
			}
			if len(a) >= 1 {
				p, ok := abs(d, a[0])
				if !ok {
					unresolved++
				} else if isTarget[p] {
					noTrunc = false
					note(p, c.name+"(TARGET)")
				} else {
					delete(byPath, p)
				}
			}
		case "rename", "renameat", "renameat2", "link", "linkat":
			var sd, sp, dd, dp string
			switch {
			case (c.name == "rename" || c.name == "link") && len(c.args) >= 2:
				sd, sp, dd, dp = "AT_FDCWD", c.args[0], "AT_FDCWD", c.args[1]
			case len(c.args) >= 4:
				sd, sp, dd, dp = c.args[0], c.args[1], c.args[2], c.args[3]
			default:
				continue
			}
			src, ok1 := abs(sd, sp)
			dst, ok2 := abs(dd, dp)
			if !ok1 || !ok2 {
				unresolved++
				continue
			}
			if isTarget[src] {
				noTrunc, viaRen = false, false
				note(src, c.name+"(TARGET -> "+rel(dst)+")")
			}
			if !isTarget[dst] {
				if f := byPath[src]; f != nil && strings.HasPrefix(c.name, "rename") {
					delete(byPath, src)
					f.path = dst
					byPath[dst] = f
				}
				continue
			}
			if strings.HasPrefix(c.name, "link") {
				noTrunc, viaRen = false, false
				note(dst, c.name+"("+rel(src)+" -> TARGET)")
				continue
			}
			renamedTo[dst]++
			srcOf[dst] = append(srcOf[dst], rel(src))
			f := byPath[src]
			good := !isTarget[src] && filepath.Dir(src) == filepath.Dir(dst)
			if !good {
				viaRen = false
			}
			what := c.name + "(" + rel(src) + " -> TARGET)"
			switch {
			case f == nil || !f.opened:
				synced = false
				what = "[source not written by this save] " + what
			case f.lastWrite < 0:
				synced = false
				what = "[no write to the source seen] " + what
			case f.lastSync > f.lastWrite && f.lastSync < i:
				what = fmt.Sprintf("open(%s) write fsync ", rel(src)) + what
			default:
				synced = false
				what = fmt.Sprintf("open(%s) write NO-SYNC-AFTER-LAST-WRITE ", rel(src)) + what
			}
			note(dst, what)
			if f != nil {
				delete(byPath, src)
				f.path = dst
				byPath[dst] = f
			}
		}
	}
	if !in || !done {
		return false, false, false, nil, fmt.Errorf("traced child: markers not found in the trace (begin=%v end=%v)", in, done)
	}
	if unresolved > 0 {
		return false, false, false, nil, fmt.Errorf("traced child: %d path(s) relative to a directory descriptor could not be resolved", unresolved)
	}
	for _, t := range targets {
		if renamedTo[t] == 0 {
			viaRen, synced = false, false
			note(t, "never the destination of a rename")
		}
		summary = append(summary, rel(t)+": "+strings.Join(ev[t], "; "))
	}
	return
}

func init() {
	if dir := os.Getenv(childEnv); dir != "" {
		// the traced child of ProbeCacheSave: nothing but the real save, between two marker files
		code := 0
		if err := os.WriteFile(filepath.Join(dir, "begin"), nil, 0o644); err != nil {
			code = 3
		}
		if err := saveGeneration(filepath.Join(dir, "cache"), 2); err != nil {
			fmt.Fprintln(os.Stderr, "save:", err)
			code = 3
		}
		if err := os.WriteFile(filepath.Join(dir, "end"), nil, 0o644); err != nil {
			code = 3
		}
		os.Exit(code)
	}
	hx.RegisterFacts("C04", func() (string, error) {
		p, err := ProbeCacheSave()
		if err != nil {
			return "", err
		}
		q := func(ss []string) string {
			var o []string
			for _, s := range ss {
				o = append(o, hx.LeanString(s))
			}
			return "[" + strings.Join(o, ", ") + "]"
		}
		var b strings.Builder
		b.WriteString("/-! Measured on the compiled pkg/cache: the real `SaveToDisk` of a header and a data cache was run, in a child process\nunder strace, over a directory that already held the eight files of an earlier save. -/\n")
		fmt.Fprintf(&b, "/-- no target path was opened for writing / created / truncated / unlinked / renamed away / linked over, and nothing\nwas written through a descriptor of a target -/\ndef cacheSaveNoTruncateInPlace : Bool := %s\n", hx.LeanBool(p.NoTruncateInPlace))
		fmt.Fprintf(&b, "/-- every target path was the destination of a rename, each from a non-target path in the same directory -/\ndef cacheSaveViaRename : Bool := %s\n", hx.LeanBool(p.ViaRename))
		fmt.Fprintf(&b, "/-- every renamed file was written by this save and fsync'ed / fdatasync'ed after its last write, before the rename -/\ndef cacheSaveSyncBeforeRename : Bool := %s\n", hx.LeanBool(p.SyncBeforeRename))
		fmt.Fprintf(&b, "/-- cross-check on the outcome of the same save: every target path has a new inode; an open descriptor on and a hard\nlink to every old file still read the complete old bytes (not so for: %s) -/\ndef cacheSaveInodeCheck : Bool := %s\n", q(p.InPlace), hx.LeanBool(p.InodeCheck))
		b.WriteString("/-- what the runner and the driver go by -/\ndef cacheSaveAtomic : Bool :=\n  cacheSaveNoTruncateInPlace && cacheSaveViaRename && cacheSaveSyncBeforeRename && cacheSaveInodeCheck\n")
		fmt.Fprintf(&b, "/-- per target: the system calls that touched it or the file renamed onto it -/\ndef cacheSaveTrace : List String := %s\n", "[\n  "+strings.Join(func() []string {
			var o []string
			for _, s := range p.Trace {
				o = append(o, hx.LeanString(s))
			}
			return o
		}(), ",\n  ")+"]")
		fmt.Fprintf(&b, "/-- the real `LoadFromDisk` succeeds, with the saved contents, when a truncated `<name>.tmp` lies beside every file -/\n")
		fmt.Fprintf(&b, "def cacheLoadIgnoresTmp : Bool := %s\n", hx.LeanBool(p.LoadIgnoresTmp))
		fmt.Fprintf(&b, "/-- the files a complete save leaves in the cache directory -/\n")
		fmt.Fprintf(&b, "def cacheFileNames : List String := %s\n", q(p.Names))
		return b.String(), nil
	})
}
