// Package prod: correspondence streams and monitors for block production on the sequencer node
// (C01 chain validity + liveness, C04 crash recovery, C08 pending limit, C11 conservation).
package prod

import (
	"bytes"
	"context"
	"fmt"
	"os"
	"path/filepath"
	"strings"
	"time"

	"verifharness/bm"
	"verifharness/hx"

	"github.com/evstack/ev-node/block"
	"github.com/evstack/ev-node/types"
)

// World is the interpreter state of one scenario.
type World struct {
	c        *hx.Ctx
	env      *bm.Env
	opt      bm.Options
	stepFrom int // index in DS.Log where the last step began
	baseImg  map[string][]byte
	// ghost state for the monitors
	committed map[uint64]string   // height -> header hash (must never change)
	batchOf   map[uint64][][]byte // height -> txs of the batch the block was first built from
	maxTs     int64
	lastH     uint64
	probeH    uint64
	probes    int
	dead      bool
	tainted   string // set once chain height and state disagree: later reports are consequences
	cause     string // for a crash: which two writes it fell between
}

func errClass(err error) string {
	if err == nil {
		return "nil"
	}
	s := err.Error()
	switch {
	case strings.Contains(s, "timestamp is not monotonically increasing"):
		return "err:time"
	case strings.Contains(s, "error applying block"):
		return "err:exec"
	case strings.Contains(s, "failed to validate block"):
		switch {
		case strings.Contains(s, "block time must be strictly increasing"):
			return "err:validate:time"
		case strings.Contains(s, "invalid height"):
			return "err:validate:height"
		case strings.Contains(s, "appHash mismatch"):
			return "err:validate:appHash"
		case strings.Contains(s, "chain ID mismatch"):
			return "err:validate:chainId"
		case strings.Contains(s, "header and data do not match"):
			return "err:validate:dataMismatch"
		case strings.Contains(s, "dataHash from the header does not match"):
			return "err:validate:dataHash"
		case strings.Contains(s, "invalid header"):
			return "err:validate:header"
		}
		return "err:validate:other"
	case strings.Contains(s, "error while loading last"):
		return "err:lastblock"
	case strings.Contains(s, "proposer address is not the same"):
		return "err:signer"
	}
	return "err:other"
}

func (w *World) observe(class string, execFrom int) string {
	e := w.env
	h := e.Height()
	st, err := e.Store.GetState(context.Background())
	disk := "none"
	if err == nil {
		disk = bm.ShowState(st)
	}
	var ex []string
	for _, c := range e.Exec.Calls[execFrom:] {
		ex = append(ex, fmt.Sprintf("%d:%d:%s", c.Height, len(c.Txs), bm.H8(c.Prev)))
	}
	exs := "-"
	if len(ex) > 0 {
		exs = strings.Join(ex, ",")
	}
	lbd, _ := e.Store.GetMetadata(context.Background(), "l")
	return fmt.Sprintf("out=%s height=%d disk=%s mem=%s w=%s exec=%s lbd=%s head=[%s] next=[%s]",
		class, h, disk, bm.ShowState(e.M.GetLastState()), bm.DescribeWrites(e.DS, w.stepFrom), exs, hx.Hex(lbd), e.ShowBlock(h), e.ShowBlock(h+1))
}

func (w *World) start(img map[string][]byte, root string) string {
	o := w.opt
	o.Image = img
	o.Root = root
	old := w.env
	env, err := bm.New(o)
	if old != nil && root == "" {
		old.Cleanup()
	}
	w.env = env
	w.stepFrom = 0
	if err != nil {
		w.dead = true
		cls := "err:other"
		switch {
		case strings.Contains(err.Error(), "failed to load cache"):
			cls = "err:cache"
		case strings.Contains(err.Error(), "is greater than last stored state"):
			cls = "err:genesisAboveState"
		case strings.Contains(err.Error(), "invalid length of last submitted height"):
			cls = "err:badWatermark"
		}
		return "start " + cls
	}
	w.dead = false
	w.lastH = env.Height()
	return "start " + w.observe("ok", 0)
}

// Run interprets producer ops.
func Run(c *hx.Ctx) {
	w := &World{c: c}
	defer func() {
		if w.env != nil {
			w.env.Cleanup()
		}
	}()
	for {
		o, ok := c.Next()
		if !ok {
			return
		}
		c.Hit(o.Verb)
		switch o.Verb {
		case "reset":
			if w.env != nil {
				w.env.Cleanup()
				w.env = nil
			}
			ih, _ := o.U64("ih")
			maxp, _ := o.U64("maxp")
			// sk=<n>: the node signs with key n (default 1 = the genesis proposer's key); sk=2 is a foreign signer
			sk, _ := o.U64("sk")
			w.opt = bm.Options{InitialHeight: ih, GenesisTime: time.Unix(0, o.I64("gt")), MaxPending: maxp, Aggregator: true, KeySeed: byte(sk)}
			w.committed, w.batchOf = map[uint64]string{}, map[uint64][][]byte{}
			w.maxTs, w.probes, w.tainted, w.cause = o.I64("gt"), 0, "", ""
			c.Emit("%s", w.start(nil, ""))
			w.checkChain("start")
		case "step":
			if w.env == nil || w.dead {
				c.Emit("dead")
				continue
			}
			c.Emit("%s", w.step(o))
		case "crash", "restart":
			if w.env == nil || w.dead {
				c.Emit("dead")
				continue
			}
			n := w.env.DS.NumWrites()
			keep := n
			if o.Verb == "crash" {
				k := o.Int("keep")
				if w.stepFrom+k < n {
					keep = w.stepFrom + k
				}
			}
			c.Hit(fmt.Sprintf("crash-keep-%d-of-%d", keep-w.stepFrom, n-w.stepFrom))
			w.cause = "clean"
			if keep < n {
				last := "start"
				if keep > w.stepFrom {
					last = kindOf(bm.DescribeWS(w.env.DS.Log[keep-1]))
				}
				w.cause = "crash-between-" + last + "-and-" + kindOf(bm.DescribeWS(w.env.DS.Log[keep]))
			}
			if sk, ok := o.U64("sk"); ok && sk != 0 {
				w.opt.KeySeed = byte(sk) // the operator restarts the node with another signing key
			}
			img := w.env.DS.ImageAt(keep)
			// the cache directory survives both: a clean stop writes the caches to disk (node/full.go:484-495),
			// possibly cut short by a crash; a crash leaves the directory as the LAST clean stop left it - the
			// restarted node loads the stale files of that older generation (a mixed old/new set after a cut save)
			root := w.env.Root
			if o.Verb == "restart" {
				w.saveCaches(o)
			} else if ents, err := os.ReadDir(filepath.Join(w.env.CacheDir(), "header")); err == nil && len(ents) > 0 {
				c.Hit("crash-restarts-on-stale-cache-files")
			}
			keepRoot := w.env
			c.Emit("%s", w.start(img, root))
			if root != "" && keepRoot != nil {
				w.env.Options.Root = "" // the directory is ours to remove at the end
			}
			if !w.dead {
				// blocks that were never made durable were neither committed nor published
				h := w.env.Height()
				for k := range w.committed {
					if k > h {
						delete(w.committed, k)
					}
				}
				for k := range w.batchOf {
					if _, err := w.env.Store.GetHeader(context.Background(), k); err != nil {
						delete(w.batchOf, k)
					}
				}
			}
			if w.dead {
				c.Report("C04/restart-fails/"+w.cause, "NewManager failed after "+o.Verb)
			} else {
				w.checkChain(o.Verb)
			}
		default:
			c.Emit("bad-op")
		}
	}
}

// saveCaches runs the real Manager.SaveCache and, for `restart cut=<file> frac=<n>`, turns the directory into the
// image a crash during the save of that file leaves: the files saved before it are new, the files after it are
// what they were before the save (complete older versions, or absent). What becomes of the file itself is decided
// by the probe of the real pkg/cache (ProbeCacheSave), not assumed:
//   - files are replaced atomically: the path keeps its OLD version and a partly written `<file>.tmp` (the first
//     frac % of the new encoding) is left beside it;
//   - files are rewritten in place: the path holds the first frac % of the new encoding (a truncated file).
func (w *World) saveCaches(o hx.Op) {
	c := w.c
	dir := w.env.CacheDir()
	path := func(i int) string { return filepath.Join(dir, filepath.FromSlash(CacheFiles[i])) }
	old := make([][]byte, len(CacheFiles)) // nil = absent
	for i := range CacheFiles {
		if b, err := os.ReadFile(path(i)); err == nil {
			old[i] = append([]byte{}, b...)
		}
	}
	if err := w.env.M.SaveCache(); err != nil {
		c.Report("C04/save-cache-fails", err.Error())
	}
	i := cacheIndex(o.Str("cut"))
	if i < 0 {
		return
	}
	probe, err := cacheProbe()
	if err != nil {
		c.Report("C04/cache-probe-fails", err.Error())
		return
	}
	restore := func(j int) {
		if old[j] == nil {
			_ = os.Remove(path(j))
		} else {
			_ = os.WriteFile(path(j), old[j], 0o644)
		}
	}
	b, err := os.ReadFile(path(i))
	if err != nil {
		c.Report("C04/save-cache-fails", "not written: "+CacheFiles[i])
		return
	}
	at := len(b)
	if fr, _ := o.U64("frac"); fr < 100 {
		at = len(b) * int(fr) / 100
	}
	for j := i + 1; j < len(CacheFiles); j++ {
		restore(j)
	}
	if probe.Atomic {
		c.Hit("cache-cut-old-version-and-tmp")
		restore(i)
		_ = os.WriteFile(path(i)+".tmp", b[:at], 0o644)
		w.cause = "cache-tmp-file-left-over"
	} else {
		c.Hit("cache-cut-truncated-in-place")
		_ = os.WriteFile(path(i), b[:at], 0o644)
		if at < len(b) {
			w.cause = "cache-file-truncated"
		}
	}
}

func (w *World) step(o hx.Op) string {
	e := w.env
	resp := &hx.SeqResp{}
	switch o.Str("resp") {
	case "err":
		resp.Err = true
	case "absent":
		resp.NilBatch = true
	case "batch":
		resp.Txs = o.List("txs")
		resp.Ts = time.Unix(0, o.I64("ts"))
		resp.Data = o.List("bd")
	default:
		return "bad-op"
	}
	e.Seq.Next = resp
	e.Exec.Fail = o.Str("exec") == "fail"
	w.stepFrom = e.DS.NumWrites()
	execFrom := len(e.Exec.Calls)
	seqCalls := e.Seq.Calls
	hBefore := e.Height()
	_, pendErr := e.Store.GetHeader(context.Background(), hBefore+1)
	var err error
	func() {
		defer func() {
			if r := recover(); r != nil {
				w.c.Report("C01/panic/publish", fmt.Sprint(r))
				err = fmt.Errorf("panic: %v", r)
			}
		}()
		err = e.M.VerifPublishBlock(context.Background())
	}()
	out := w.observe(errClass(err), execFrom)
	// ghost: which batch was a block first built from
	if pendErr != nil && e.Seq.Calls > seqCalls && !resp.Err && !resp.NilBatch {
		if _, err := e.Store.GetHeader(context.Background(), hBefore+1); err == nil {
			if _, seen := w.batchOf[hBefore+1]; !seen {
				w.batchOf[hBefore+1] = resp.Txs
			}
		}
	}
	if o.Str("resp") == "batch" && o.I64("ts") > w.maxTs {
		w.maxTs = o.I64("ts")
	}
	hAfter := e.Height()
	if hAfter < hBefore {
		w.c.Report("C01/height/decreased", fmt.Sprintf("%d -> %d", hBefore, hAfter))
	} else if hAfter > hBefore+1 {
		w.c.Report("C01/height/skipped", fmt.Sprintf("%d -> %d", hBefore, hAfter))
	}
	w.checkChain("step")
	// liveness probe: two consecutive well-formed steps must raise the height
	// (a node whose signer is not the genesis proposer is not supposed to produce: no liveness demand)
	if o.Bool("probe") && w.opt.KeySeed <= 1 {
		if w.probes == 0 {
			w.probeH = hBefore
		}
		w.probes++
		if w.probes == 2 {
			if hAfter <= w.probeH {
				w.c.Report(w.classifyStall(hAfter), fmt.Sprintf("height stays %d after two well-formed responses (%s)", hAfter, errClass(err)))
			}
			w.probes = 0
		}
	} else {
		w.probes = 0
	}
	return out
}

// kindOf reduces a write description to its kind (blk, height, state, meta).
func kindOf(d string) string {
	if i := strings.IndexByte(d, ':'); i > 0 {
		return d[:i]
	}
	return d
}

// classifyStall names the cause of a producer that does not recover.
func (w *World) classifyStall(h uint64) string {
	e := w.env
	ctx := context.Background()
	st, errS := e.Store.GetState(ctx)
	mem := e.M.GetLastState()
	if errS == nil && st.LastBlockHeight < h || mem.LastBlockHeight < h {
		return "C04/wedged/chain-height-ahead-of-state"
	}
	if sh, d, err := e.Store.GetBlockData(ctx, h+1); err == nil {
		if len(d.Txs) == 0 && sh.Time().Before(mem.LastBlockTime) {
			return "C01/liveness/pending-empty-block-time-regression"
		}
		return "C01/liveness/pending-block-invalid-other"
	}
	if e.Options.MaxPending != 0 {
		return "C08/deadlock/other"
	}
	return "C01/liveness/other"
}

// checkChain re-derives every clause of C01/C04 from the real store.
func (w *World) checkChain(when string) {
	e := w.env
	if e == nil || w.dead {
		return
	}
	ctx := context.Background()
	c := w.c
	h := e.Height()
	ih := e.Options.InitialHeight
	if w.tainted != "" {
		return
	}
	st, errS := e.Store.GetState(ctx)
	mem := e.M.GetLastState()
	// recorded chain height, recorded state and stored blocks agree (outside a step nothing is in flight)
	why := "after-" + when
	if when == "crash" || when == "restart" {
		why = w.cause
	}
	if (errS == nil && st.LastBlockHeight != h && h >= ih) || (mem.LastBlockHeight != h && !(h < ih && mem.LastBlockHeight == ih-1)) {
		dir := "chain-height-ahead-of-state"
		if mem.LastBlockHeight > h {
			dir = "state-ahead-of-chain-height"
		}
		w.tainted = "C04/agree/" + dir + "/" + why
		c.Report(w.tainted, fmt.Sprintf("disk state %v mem state %d chain height %d", st.LastBlockHeight, mem.LastBlockHeight, h))
		return
	}
	root := append([]byte(nil), hx.GenesisRoot...)
	var prev *types.SignedHeader
	var prevData *types.Data
	var prevTime time.Time
	for k := ih; k <= h; k++ {
		sh, d, err := e.Store.GetBlockData(ctx, k)
		if err != nil {
			c.Report("C01/chain/block-missing", fmt.Sprintf("height %d of %d: %v", k, h, err))
			return
		}
		hash := hx.Hex(sh.Hash())
		if old, ok := w.committed[k]; ok && old != hash {
			c.Report("C04/committed-block-replaced", fmt.Sprintf("height %d: %s -> %s", k, old, hash))
		}
		w.committed[k] = hash
		if sh.Height() != k {
			c.Report("C01/chain/height-field", fmt.Sprintf("stored at %d has height %d", k, sh.Height()))
		}
		if prev != nil {
			if !bytes.Equal(sh.LastHeaderHash, prev.Hash()) {
				c.Report("C01/chain/last-header-hash", fmt.Sprintf("height %d", k))
			}
			if sh.Time().Before(prevTime) {
				c.Report("C01/chain/time-regression", fmt.Sprintf("height %d", k))
			}
		}
		bare := types.Data{Txs: d.Txs}
		want := bare.DACommitment()
		if len(d.Txs) == 0 {
			want = block.VerifEmptyDataHash()
		}
		if !bytes.Equal(sh.DataHash, want) {
			c.Report("C01/chain/data-hash", fmt.Sprintf("height %d", k))
		}
		if b, ok := w.batchOf[k]; ok {
			if len(b) != len(d.Txs) {
				c.Report("C01/chain/txs-differ-from-batch", fmt.Sprintf("height %d: %d vs %d txs", k, len(d.Txs), len(b)))
			} else {
				for i := range b {
					if !bytes.Equal(b[i], d.Txs[i]) {
						c.Report("C01/chain/txs-differ-from-batch", fmt.Sprintf("height %d tx %d", k, i))
						break
					}
				}
			}
		}
		if !bytes.Equal(sh.AppHash, root) {
			c.Report("C01/chain/app-hash", fmt.Sprintf("height %d: header %s expected %s", k, bm.H8(sh.AppHash), bm.H8(root)))
		}
		txs := make([][]byte, len(d.Txs))
		for i := range d.Txs {
			txs[i] = d.Txs[i]
		}
		root = hx.ExecRoot(root, txs)
		if bm.SigClass(e.Pub, &sh.Header, sh.Signature) != "valid" || sh.Signer.PubKey == nil || !sh.Signer.PubKey.Equals(e.Pub) {
			c.Report("C01/chain/signature", fmt.Sprintf("height %d", k))
		}
		if sig, err := e.Store.GetSignature(ctx, k); err != nil || bm.SigClass(e.Pub, &sh.Header, *sig) != "valid" {
			c.Report("C01/chain/saved-signature", fmt.Sprintf("height %d", k))
		}
		if !bytes.Equal(sh.ProposerAddress, e.Gen.ProposerAddress) || sh.ChainID() != e.Gen.ChainID {
			c.Report("C01/chain/proposer-or-chain-id", fmt.Sprintf("height %d", k))
		}
		// the validation a full node applies
		vst := types.State{ChainID: e.Gen.ChainID, LastBlockHeight: k - 1, LastBlockTime: prevTime, AppHash: sh.AppHash}
		if prev == nil {
			vst.LastBlockTime = e.Gen.GenesisDAStartTime
		}
		if err := e.M.VerifExecValidate(vst, sh, d); err != nil {
			c.Report("C01/chain/full-node-validation", fmt.Sprintf("height %d: %v", k, err))
		}
		if d.Metadata == nil || d.Metadata.Height != k || d.Metadata.ChainID != e.Gen.ChainID {
			c.Report("C01/chain/data-metadata", fmt.Sprintf("height %d", k))
		} else if d.Metadata.Height != sh.Height() || d.Metadata.ChainID != sh.ChainID() || d.Metadata.Time != sh.BaseHeader.Time {
			c.Report("C01/chain/data-metadata-differs-from-header", fmt.Sprintf("height %d: metadata %s/%d/%d header %s/%d/%d", k,
				d.Metadata.ChainID, d.Metadata.Height, d.Metadata.Time, sh.ChainID(), sh.Height(), sh.BaseHeader.Time))
		}
		// the data chain: data(k) names the hash of data(k-1) - the adjacency rule the repo itself defines
		// (types.Data.Verify, applied by go-header to the data P2P store); execValidate does not look at it
		if d.Metadata != nil {
			if prevData != nil {
				want := prevData.Hash()
				if err := prevData.Verify(d); err != nil || !bytes.Equal(d.Metadata.LastDataHash, want) {
					c.Report("C01/chain/data-not-linked-to-previous-data", fmt.Sprintf("height %d: LastDataHash=%s, hash of data %d=%s (%v)", k,
						bm.H8(d.Metadata.LastDataHash), k-1, bm.H8(want), err))
				}
			} else if len(d.Metadata.LastDataHash) != 0 {
				c.Report("C01/chain/first-data-names-a-previous-data", fmt.Sprintf("height %d: LastDataHash=%s", k, bm.H8(d.Metadata.LastDataHash)))
			}
		}
		prev, prevData, prevTime = sh, d, sh.Time()
	}
	if h >= ih && errS == nil && st.LastBlockHeight == h && !bytes.Equal(st.AppHash, root) {
		c.Report("C01/state/app-hash", fmt.Sprintf("state root %s expected %s", bm.H8(st.AppHash), bm.H8(root)))
	}
}
