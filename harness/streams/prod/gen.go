package prod

import (
	"fmt"
	"io"

	"verifharness/bm"
	"verifharness/hx"

	"github.com/evstack/ev-node/types"
)

const sec = int64(1_000_000_000)
const baseTime = int64(1_700_000_000) * sec

func paHex() string {
	_, pub := bm.DetKey(1)
	return hx.Hex(types.KeyAddress(pub))
}

// saHex is the address of signing key n (n=2: a foreign signer, not the genesis proposer).
func saHex(n byte) string {
	_, pub := bm.DetKey(n)
	return hx.Hex(types.KeyAddress(pub))
}

// one symbol of the response alphabet
type sym struct {
	resp string // err | absent | batch
	ntx  int    // 0 = empty batch
	dt   int64  // timestamp relative to the last timestamp handed out (seconds): <0, 0, >0
	exec string
}

type scn struct {
	w     io.Writer
	r     *hx.Rng
	cur   int64 // last timestamp handed out
	txSeq int
}

func (s *scn) reset(ih uint64, maxp uint64) {
	s.cur = baseTime
	fmt.Fprintf(s.w, "reset ih=%d gt=%d maxp=%d pa=%s\n", ih, baseTime, maxp, paHex())
}

func (s *scn) tx() []byte {
	s.txSeq++
	switch s.r.Intn(8) {
	case 0:
		return []byte{} // empty transaction
	case 1:
		return s.r.Bytes(300) // larger transaction
	case 2:
		return []byte("dup") // repeated bytes
	default:
		return []byte(fmt.Sprintf("k%d=v%d", s.txSeq, s.r.Intn(100)))
	}
}

func (s *scn) step(y sym, probe bool) {
	p := ""
	if probe {
		p = " probe=1"
	}
	switch y.resp {
	case "err", "absent":
		fmt.Fprintf(s.w, "step resp=%s exec=%s%s\n", y.resp, y.exec, p)
	default:
		ts := s.cur + y.dt*sec
		if ts > s.cur {
			s.cur = ts
		}
		var txs [][]byte
		for i := 0; i < y.ntx; i++ {
			txs = append(txs, s.tx())
		}
		var bd [][]byte
		if s.r.Chance(40) {
			bd = [][]byte{s.r.Bytes(1 + s.r.Intn(6))}
			if s.r.Chance(30) {
				bd = append(bd, []byte{})
			}
		}
		fmt.Fprintf(s.w, "step resp=batch txs=%s ts=%d bd=%s exec=%s%s\n", hx.HexList(txs), ts, hx.HexList(bd), y.exec, p)
	}
}

func (s *scn) probes() {
	s.step(sym{"batch", 1, 1, "ok"}, true)
	s.step(sym{"batch", 1, 1, "ok"}, true)
}

func alphabet() []sym {
	var a []sym
	for _, ex := range []string{"ok", "fail"} {
		a = append(a, sym{"err", 0, 0, ex}, sym{"absent", 0, 0, ex})
		for _, dt := range []int64{-5, 0, 3} {
			a = append(a, sym{"batch", 0, dt, ex}, sym{"batch", 1 + len(a)%3, dt, ex})
		}
	}
	return a
}

func randSym(r *hx.Rng, valid int) sym {
	if r.Chance(valid) {
		n := 1 + r.Intn(3)
		if r.Chance(25) {
			n = 0
		}
		return sym{"batch", n, int64(r.Intn(3)), "ok"}
	}
	a := alphabet()
	return a[r.Intn(len(a))]
}

func ihs() []uint64 { return []uint64{1, 2, 7} }

// GenC01: all response sequences over the alphabet up to a small length (exhaustive), then random
// mostly-valid longer ones; every scenario ends with two well-formed probes (liveness).
func GenC01(r *hx.Rng, tier string, w io.Writer) {
	s := &scn{w: w, r: r}
	a := alphabet()
	// corpus: the known liveness wedge, deliberately
	s.reset(1, 0)
	s.step(sym{"batch", 1, 1, "ok"}, false)
	s.step(sym{"batch", 1, 1, "ok"}, false)
	s.step(sym{"batch", 0, -5, "ok"}, false)
	s.probes()
	depth := 2
	if tier == "thorough" {
		depth = 3
	}
	var rec func(pre []sym, d int)
	rec = func(pre []sym, d int) {
		if len(pre) > 0 {
			s.reset(ihs()[len(pre)%3+0*int(r.U64()%1)], 0)
			s.step(sym{"batch", 1, 1, "ok"}, false) // genesis block
			s.step(sym{"batch", 1, 1, "ok"}, false) // one ordinary block so that there is a predecessor
			for _, y := range pre {
				s.step(y, false)
			}
			s.probes()
		}
		if d == 0 {
			return
		}
		for _, y := range a {
			rec(append(append([]sym(nil), pre...), y), d-1)
		}
	}
	rec(nil, depth)
	// a signer that is not the genesis proposer (NewManager accepts any signer): the node must never commit a block.
	// (a) from an empty disk: the genesis block it saved carries its own key under the proposer's address and fails
	// validation for ever; (b) on an existing chain after the operator swapped the key (restart/crash with sk=2):
	// a fresh block is refused by execCreateBlock ("proposer address is not the same"), a block left waiting by the
	// old key is re-signed with the new key and fails signature validation. No liveness probes: by design.
	foreign := []sym{{"batch", 1, 1, "ok"}, {"batch", 0, 1, "ok"}, {"batch", 2, 1, "fail"}, {"err", 0, 0, "ok"}, {"absent", 0, 0, "ok"}, {"batch", 1, -5, "ok"}}
	for _, ih := range []uint64{1, 3} {
		s.cur = baseTime
		fmt.Fprintf(w, "reset ih=%d gt=%d maxp=0 pa=%s sk=2 sa=%s\n", ih, baseTime, paHex(), saHex(2))
		for _, y := range foreign {
			s.step(y, false)
		}
		fmt.Fprintln(w, "crash keep=0")
		s.step(foreign[0], false)
		fmt.Fprintln(w, "restart")
		s.step(foreign[0], false)
		for _, pend := range []bool{false, true} {
			for _, verb := range []string{"crash keep=9", "restart"} {
				s.reset(ih, 0)
				s.step(sym{"batch", 1, 1, "ok"}, false)
				s.step(sym{"batch", 2, 1, "ok"}, false)
				if pend {
					s.step(sym{"batch", 1, 1, "fail"}, false) // leaves a block of the old key waiting at height+1
				}
				fmt.Fprintf(w, "%s sk=2 sa=%s\n", verb, saHex(2))
				for _, y := range foreign {
					s.step(y, false)
				}
				// the operator puts the right key back: production resumes
				fmt.Fprintf(w, "restart sk=1 sa=%s\n", paHex())
				s.probes()
			}
		}
	}
	// the chain clauses of C01 must also hold for what a restarted node treats as committed: a crash after every
	// prefix of the writes of one step (non-empty, empty, failing execution), restart, two well-formed answers
	// (the full crash matrix - nesting, prior lengths, clean stops, cache files - is stream C04)
	for _, ih := range []uint64{1, 7} {
		for yi, y := range []sym{{"batch", 2, 1, "ok"}, {"batch", 0, 1, "ok"}, {"batch", 1, 1, "fail"}} {
			for keep := 0; keep <= 5; keep++ {
				if tier != "thorough" && ih == 7 && yi > 0 {
					continue
				}
				s.reset(ih, 0)
				s.step(sym{"batch", 1, 1, "ok"}, false)
				s.step(sym{"batch", 2, 1, "ok"}, false)
				s.step(y, false)
				fmt.Fprintf(w, "crash keep=%d\n", keep)
				s.probes()
			}
		}
	}
	n := 80
	if tier == "thorough" {
		n = 1500
	}
	for i := 0; i < n; i++ {
		s.reset(ihs()[r.Intn(3)], 0)
		l := 3 + r.Intn(12)
		if tier == "thorough" && r.Chance(10) {
			l = 40
		}
		valid := 85
		if r.Chance(30) {
			valid = 50
		}
		for j := 0; j < l; j++ {
			s.step(randSym(r, valid), false)
		}
		s.probes()
	}
}

// GenC04: a crash after every prefix of the atomic writes of a production step (and, nested, of the
// first step after the restart), for empty and non-empty batches, any prior chain length.
func GenC04(r *hx.Rng, tier string, w io.Writer) {
	s := &scn{w: w, r: r}
	steps := []sym{{"batch", 2, 1, "ok"}, {"batch", 0, 1, "ok"}, {"batch", 1, 1, "fail"}, {"batch", 1, 0, "ok"}}
	depth2 := tier == "thorough"
	for _, ih := range []uint64{1, 3} {
		for prior := 0; prior <= 2; prior++ {
			for _, y := range steps {
				for keep := 0; keep <= 5; keep++ {
					emit := func(keep2 int, y2 sym) {
						s.reset(ih, 0)
						for i := 0; i < prior; i++ {
							s.step(sym{"batch", 1 + i%2, 1, "ok"}, false)
						}
						s.step(y, false)
						fmt.Fprintf(w, "crash keep=%d\n", keep)
						if keep2 >= 0 {
							s.step(y2, false)
							fmt.Fprintf(w, "crash keep=%d\n", keep2)
						}
						s.probes()
						s.step(sym{"batch", 1, 1, "ok"}, false)
					}
					emit(-1, sym{})
					if depth2 || (ih == 1 && prior == 1) {
						for keep2 := 0; keep2 <= 5; keep2++ {
							emit(keep2, steps[(keep+keep2)%len(steps)])
						}
					}
				}
			}
		}
	}
	// random histories with crashes and clean restarts at random positions
	n := 40
	if tier == "thorough" {
		n = 600
	}
	for i := 0; i < n; i++ {
		s.reset(ihs()[r.Intn(3)], 0)
		l := 4 + r.Intn(10)
		for j := 0; j < l; j++ {
			s.step(randSym(r, 85), false)
			switch r.Intn(6) {
			case 0:
				fmt.Fprintf(w, "crash keep=%d\n", r.Intn(6))
			case 1:
				fmt.Fprintln(w, "restart")
			}
		}
		s.probes()
	}
	// a crash in the middle of writing the on-disk caches at shutdown: the save of every cache file cut at several
	// lengths, into a fresh directory (no older version) and over the files of an earlier clean stop (older
	// versions present). What a cut leaves on disk is decided by the runner from a probe of the real pkg/cache
	// (atomic replacement: old version + partial .tmp file; in-place rewrite: truncated file) - see saveCaches.
	fracs := []int{0, 50, 100}
	if tier == "thorough" {
		fracs = []int{0, 1, 10, 33, 50, 90, 99, 100}
	}
	for _, f := range CacheFiles {
		for _, fr := range fracs {
			for _, older := range []bool{false, true} {
				s.reset(1, 0)
				s.step(sym{"batch", 1, 1, "ok"}, false)
				if older {
					fmt.Fprintln(w, "restart")
				}
				s.step(sym{"batch", 2, 1, "ok"}, false)
				fmt.Fprintf(w, "restart cut=%s frac=%d\n", f, fr)
				s.probes()
				// the next clean stop saves over whatever the crash left (a left-over .tmp included) and restarts
				fmt.Fprintln(w, "restart")
				s.step(sym{"batch", 1, 1, "ok"}, false)
			}
		}
	}
	// a crash (not during a save) restarts on the cache files of the LAST clean stop - an older generation than the
	// store image - or on the mixed old/new set a cut save left, at every crash point of the step
	for keep := 0; keep <= 5; keep++ {
		for _, mixed := range []string{"", CacheFiles[1], CacheFiles[6]} {
			s.reset(1, 0)
			s.step(sym{"batch", 1, 1, "ok"}, false)
			s.step(sym{"batch", 2, 1, "ok"}, false)
			fmt.Fprintln(w, "restart")
			s.step(sym{"batch", 1, 1, "ok"}, false)
			if mixed != "" {
				fmt.Fprintf(w, "restart cut=%s frac=50\n", mixed)
				s.step(sym{"batch", 0, 1, "ok"}, false)
			}
			s.step(sym{"batch", 2, 1, "ok"}, false)
			fmt.Fprintf(w, "crash keep=%d\n", keep)
			s.probes()
			fmt.Fprintln(w, "crash keep=1")
			fmt.Fprintln(w, "restart")
			s.step(sym{"batch", 1, 1, "ok"}, false)
		}
	}
	// two crashed saves in a row
	for i := 0; i+1 < len(CacheFiles); i += 3 {
		s.reset(1, 0)
		s.step(sym{"batch", 1, 1, "ok"}, false)
		fmt.Fprintf(w, "restart cut=%s frac=%d\n", CacheFiles[i+1], 40)
		s.step(sym{"batch", 1, 1, "ok"}, false)
		fmt.Fprintf(w, "restart cut=%s frac=%d\n", CacheFiles[i], 70)
		s.probes()
	}
}

func init() {
	hx.Register("C01", hx.Stream{Gen: GenC01, Run: Run})
	hx.Register("C04", hx.Stream{Gen: GenC04, Run: Run})
}
