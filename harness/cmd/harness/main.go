// harness gen <ID> [-tier quick|thorough] [-seed N]      -> op lines on stdout
// harness run <ID> [-stats file]  < ops                   -> one observation line per op on stdout
package main

import (
	"flag"
	"fmt"
	"os"

	logging "github.com/ipfs/go-log/v2"

	"verifharness/hx"
	_ "verifharness/streams"
)

func main() {
	if len(os.Args) < 3 {
		fmt.Fprintln(os.Stderr, "usage: harness gen|run <ID> [flags]")
		os.Exit(2)
	}
	mode, id := os.Args[1], os.Args[2]
	fs := flag.NewFlagSet("harness", flag.ExitOnError)
	tier := fs.String("tier", "quick", "")
	seed := fs.Uint64("seed", 1, "")
	stats := fs.String("stats", "", "")
	_ = fs.Parse(os.Args[3:])
	_ = logging.SetLogLevel("*", "fatal")
	s, ok := hx.Streams[id]
	if !ok {
		fmt.Fprintln(os.Stderr, "unknown stream", id)
		os.Exit(2)
	}
	switch mode {
	case "gen":
		s.Gen(hx.NewRng(*seed), *tier, os.Stdout)
	case "run":
		c := hx.NewCtx(os.Stdin, os.Stdout)
		s.Run(c)
		c.Finish(*stats)
	default:
		os.Exit(2)
	}
}
