package main

import (
	"verifharness/hx"
	_ "verifharness/streams/prod"
)

func main() { hx.Main("C04") }
