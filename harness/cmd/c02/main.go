package main

import (
	"verifharness/hx"
	_ "verifharness/streams/syncs"
)

func main() { hx.Main("C02") }
