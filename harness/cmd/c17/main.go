package main

import (
	"verifharness/hx"
	_ "verifharness/streams/c17"
)

func main() { hx.Main("C17") }
