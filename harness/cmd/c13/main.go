package main

import (
	"verifharness/hx"
	_ "verifharness/streams/c13"
)

func main() { hx.Main("C13") }
