package main

import (
	"verifharness/hx"
	_ "verifharness/streams/fnode"
)

func main() { hx.Main("FNODE") }
