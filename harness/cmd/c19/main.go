package main

import (
	"verifharness/hx"
	_ "verifharness/streams/c19"
)

func main() { hx.Main("C19") }
