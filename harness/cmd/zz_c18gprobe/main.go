package main

import (
	"fmt"
	"os"
	"path/filepath"
	"time"

	"github.com/evstack/ev-node/pkg/genesis"
)

func try(name string, cid string, t time.Time, pa []byte) {
	dir, _ := os.MkdirTemp("", "g")
	defer os.RemoveAll(dir)
	p := filepath.Join(dir, "genesis.json")
	g := genesis.NewGenesis(cid, 1, t, pa)
	err := g.Save(p)
	raw, _ := os.ReadFile(p)
	fmt.Printf("== %s\n save err=%v\n file=%q\n", name, err, raw)
	if err == nil {
		b, err := genesis.LoadGenesis(p)
		_, off := b.GenesisDAStartTime.Zone()
		fmt.Printf(" load err=%v cid=%q unix=%d.%d off=%d equal=%v\n", err, b.ChainID, b.GenesisDAStartTime.Unix(), b.GenesisDAStartTime.Nanosecond(), off, b.GenesisDAStartTime.Equal(t))
	}
}

func main() {
	base := time.Unix(1700000000, 500)
	try("plain", "c<>&\"\\\x01\b\f\n\r\t\x7f é😀", base.UTC(), []byte{1, 2, 3, 4})
	try("off-seconds", "c", base.In(time.FixedZone("x", 3600+30)), []byte{})
	try("off-neg-seconds", "c", base.In(time.FixedZone("x", -(3600+30))), nil)
	try("off-24h", "c", base.In(time.FixedZone("x", 24*3600)), []byte{1})
	try("off-23:59", "c", base.In(time.FixedZone("x", 23*3600+59*60)), []byte{1})
	try("year-10000", "c", time.Date(10000, 1, 1, 0, 0, 0, 0, time.UTC), []byte{1})
	try("year-9999-local-10000", "c", time.Date(9999, 12, 31, 23, 30, 0, 0, time.UTC).In(time.FixedZone("x", 3600)), []byte{1})
	try("year--1", "c", time.Date(-1, 1, 1, 0, 0, 0, 0, time.UTC), []byte{1})
	try("year-0", "c", time.Date(0, 1, 1, 0, 0, 0, 0, time.UTC), []byte{1})
	try("bad-utf8", "a\xffb\xc3(\xe2\x82", base.UTC(), []byte{1})
	try("nanos", "c", time.Unix(1700000000, 120000000).UTC(), []byte{1, 2})
	try("zero-off-name", "c", base.In(time.FixedZone("UTC", 0)), []byte{1, 2, 3})
	try("zero-off-othername", "c", base.In(time.FixedZone("x", 0)), []byte{1, 2, 3})
}
