package main

import (
	"verifharness/hx"
	_ "verifharness/streams/c16"
)

func main() { hx.Main("C16") }
