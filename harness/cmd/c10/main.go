package main

import (
	"verifharness/hx"
	_ "verifharness/streams/c10"
)

func main() { hx.Main("C10") }
