package main

import (
	"verifharness/hx"
	_ "verifharness/streams/retr"
)

func main() { hx.Main("C09") }
