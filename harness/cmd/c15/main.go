package main

import (
	"verifharness/hx"
	_ "verifharness/streams/c15"
)

func main() { hx.Main("C15") }
