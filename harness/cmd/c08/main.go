package main

import (
	"verifharness/hx"
	_ "verifharness/streams/subm"
)

func main() { hx.Main("C08") }
