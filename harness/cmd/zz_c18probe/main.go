package main

import (
	"bufio"
	"fmt"
	"os"
	"strconv"
	"strings"

	"github.com/spf13/viper"

	c18 "verifharness/streams/c18"

	"github.com/evstack/ev-node/pkg/config"
)

func main() {
	sc := bufio.NewScanner(os.Stdin)
	sc.Buffer(make([]byte, 1<<20), 1<<24)
	dir, _ := os.MkdirTemp("", "probe")
	defer os.RemoveAll(dir)
	for sc.Scan() {
		s, err := strconv.Unquote(sc.Text())
		if err != nil {
			fmt.Println("bad", sc.Text())
			continue
		}
		cfg := c18.DeepCopy(config.DefaultConfig)
		cfg.RootDir = dir
		cfg.DA.Namespace = s
		if err := cfg.SaveAsYaml(); err != nil {
			fmt.Printf("%q -> save-error %v\n", s, err)
			continue
		}
		raw, _ := os.ReadFile(cfg.ConfigPath())
		line := ""
		lines := strings.Split(string(raw), "\n")
		for i, l := range lines {
			if strings.HasPrefix(strings.TrimSpace(l), "namespace:") && i > 0 && strings.Contains(lines[i-1], "Namespace ID") {
				line = strings.Join(lines[i:min(i+4, len(lines))], "\n")
				if j := strings.Index(line, "\n  #"); j >= 0 {
					line = line[:j]
				}
			}
		}
		pv := viper.New()
		pv.SetConfigFile(cfg.ConfigPath())
		perr := pv.ReadInConfig()
		back, err := c18.RealLoad(dir, nil)
		c18.RestoreDefaults()
		st := "SAME"
		if back.DA.Namespace != s {
			st = "DIFF"
		}
		if perr != nil {
			st = "UNPARSABLE"
		}
		fmt.Printf("%s %q -> %q written=%q err=%v\n", st, s, back.DA.Namespace, line, err)
	}
}
