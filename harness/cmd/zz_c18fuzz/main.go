package main

import (
	"bytes"
	"fmt"
	"os"
	"sort"
	"strconv"

	"github.com/goccy/go-yaml"
	"github.com/mitchellh/mapstructure"
	"github.com/spf13/viper"
)

type inner struct {
	Namespace string `mapstructure:"namespace" yaml:"namespace" comment:"c"`
	After     uint64 `mapstructure:"after" yaml:"after"`
}
type outer struct {
	DA inner `mapstructure:"da" yaml:"da"`
}

func rt(s string) (string, string) {
	data, err := yaml.MarshalWithOptions(outer{DA: inner{Namespace: s, After: 7}})
	if err != nil {
		return "", "marshal-error"
	}
	v := viper.New()
	v.SetConfigType("yaml")
	if err := v.ReadConfig(bytes.NewReader(data)); err != nil {
		return "", "unparsable"
	}
	out := outer{DA: inner{Namespace: "DEFAULT", After: 1}}
	dec, _ := mapstructure.NewDecoder(&mapstructure.DecoderConfig{Result: &out, WeaklyTypedInput: true})
	if err := dec.Decode(v.AllSettings()); err != nil {
		return "", "decode-error"
	}
	if out.DA.After != 7 {
		return out.DA.Namespace, "sibling-lost"
	}
	if out.DA.Namespace == s {
		return s, "same"
	}
	return out.DA.Namespace, "diff"
}

func main() {
	alpha := os.Args[1]
	maxLen, _ := strconv.Atoi(os.Args[2])
	a, _ := strconv.Unquote(alpha)
	rs := []rune(a)
	counts := map[string]int{}
	var rec func(prefix []rune, n int)
	rec = func(prefix []rune, n int) {
		if len(prefix) > 0 {
			s := string(prefix)
			got, cl := rt(s)
			counts[cl]++
			if os.Getenv("FUZZ_HEX") != "" {
				if cl == "diff" {
					if got == "" {
						fmt.Printf("%x diff -\n", s)
					} else {
						fmt.Printf("%x diff %x\n", s, got)
					}
				} else {
					fmt.Printf("%x %s\n", s, cl)
				}
			} else if cl != "same" {
				fmt.Printf("%s\t%q\t%q\n", cl, s, got)
			}
		}
		if n == 0 {
			return
		}
		for _, r := range rs {
			rec(append(prefix, r), n-1)
		}
	}
	rec(nil, maxLen)
	var ks []string
	for k := range counts {
		ks = append(ks, k)
	}
	sort.Strings(ks)
	for _, k := range ks {
		fmt.Fprintf(os.Stderr, "%s=%d\n", k, counts[k])
	}
}
