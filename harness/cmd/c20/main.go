package main

import (
	"verifharness/hx"
	_ "verifharness/streams/c20"
)

func main() { hx.Main("C20") }
