package main

import (
	"verifharness/hx"
	_ "verifharness/streams/c14"
)

func main() { hx.Main("C14") }
