package main

import (
	"verifharness/hx"
	_ "verifharness/streams/c12"
)

func main() { hx.Main("C12") }
