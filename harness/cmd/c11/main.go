package main

import (
	"verifharness/hx"
	_ "verifharness/streams/flow"
)

func main() { hx.Main("C11") }
