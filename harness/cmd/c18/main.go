package main

import (
	"verifharness/hx"
	_ "verifharness/streams/c18"
)

func main() { hx.Main("C18") }
