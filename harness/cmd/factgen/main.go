// factgen <outdir> [names…]: writes <outdir>/<Name>.lean for every registered fact generator.
package main

import (
	"fmt"
	"os"
	"path/filepath"

	logging "github.com/ipfs/go-log/v2"

	"verifharness/facts"
)

func main() {
	if len(os.Args) < 2 {
		fmt.Fprintln(os.Stderr, "usage: factgen <outdir> [names]")
		os.Exit(2)
	}
	_ = logging.SetLogLevel("*", "fatal")
	out := os.Args[1]
	names := os.Args[2:]
	if len(names) == 0 {
		names = facts.Names()
	}
	rc := 0
	for _, n := range names {
		f, ok := facts.Gens[n]
		if !ok {
			fmt.Fprintln(os.Stderr, "unknown fact module", n)
			rc = 2
			continue
		}
		body, err := f()
		if err != nil {
			fmt.Fprintf(os.Stderr, "factgen %s: %v\n", n, err)
			rc = 1
			continue
		}
		src := "import Model.Bytes\n/-! GENERATED from the /repo working tree by /verif/harness/cmd/factgen on every run. Do not edit. -/\nnamespace Gen." + n + "\n" + body + "\nend Gen." + n + "\n"
		if err := os.WriteFile(filepath.Join(out, n+".lean"), []byte(src), 0o644); err != nil {
			fmt.Fprintln(os.Stderr, err)
			rc = 1
		}
	}
	os.Exit(rc)
}
