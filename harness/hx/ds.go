package hx

import (
	"context"
	"errors"
	"sort"
	"strings"
	"sync"

	ds "github.com/ipfs/go-datastore"
	dsq "github.com/ipfs/go-datastore/query"
)

// W is one put or delete; a WriteSet is one atomic commit (a single Put/Delete or one Batch.Commit).
type W struct {
	Del bool
	Key string
	Val []byte
}
type WriteSet []W

// LogDS is an in-memory ds.Batching whose batches commit atomically (like badger) and which
// logs every atomic write, so that the durable image after any prefix of writes can be rebuilt.
type LogDS struct {
	mu   sync.Mutex
	init map[string][]byte
	m    map[string][]byte
	Log  []WriteSet
	// OnWrite, if set, is called (without the lock) right before the n-th atomic write is applied: the instant a
	// crash "before write n" would happen. Monitors use it to sample what the node reports at that instant.
	OnWrite func(n int)
	// Fault injection (transient datastore errors: the property statements that talk about "a crash between any two
	// durable writes" do not cover these, the ones about "every error pattern" do): the next FailPut single Puts, the
	// next FailDelete single Deletes, the next FailCommit batch commits return ErrInjected and write NOTHING.
	FailPut, FailDelete, FailCommit int
	// Transient READ faults: after the next FailGetSkip reads (Get / Has / GetSize; they succeed and are counted),
	// the next FailGet reads return ErrInjected and read nothing. Both zero (the default) = no read faults.
	FailGet, FailGetSkip int
}

// ErrInjected is what an injected datastore fault returns.
var ErrInjected = errors.New("verif: injected datastore error")

func (s *LogDS) fail(c *int) bool {
	s.mu.Lock()
	defer s.mu.Unlock()
	if *c > 0 {
		*c--
		return true
	}
	return false
}

// failRead: is this read (Get / Has / GetSize) one of the injected read faults?
func (s *LogDS) failRead() bool {
	s.mu.Lock()
	defer s.mu.Unlock()
	if s.FailGet <= 0 {
		return false
	}
	if s.FailGetSkip > 0 {
		s.FailGetSkip--
		return false
	}
	s.FailGet--
	return true
}

func NewLogDS(init map[string][]byte) *LogDS {
	s := &LogDS{init: map[string][]byte{}, m: map[string][]byte{}}
	for k, v := range init {
		s.init[k] = append([]byte(nil), v...)
		s.m[k] = append([]byte(nil), v...)
	}
	return s
}

func (s *LogDS) apply(ws WriteSet) {
	for _, w := range ws {
		if w.Del {
			delete(s.m, w.Key)
		} else {
			s.m[w.Key] = w.Val
		}
	}
	s.Log = append(s.Log, ws)
}

// Image returns a copy of the current durable image.
func (s *LogDS) Image() map[string][]byte {
	s.mu.Lock()
	defer s.mu.Unlock()
	out := make(map[string][]byte, len(s.m))
	for k, v := range s.m {
		out[k] = v
	}
	return out
}

// ImageAt returns the image after the first n logged atomic writes.
func (s *LogDS) ImageAt(n int) map[string][]byte {
	s.mu.Lock()
	defer s.mu.Unlock()
	out := make(map[string][]byte, len(s.m))
	for k, v := range s.init {
		out[k] = v
	}
	for _, ws := range s.Log[:n] {
		for _, w := range ws {
			if w.Del {
				delete(out, w.Key)
			} else {
				out[w.Key] = w.Val
			}
		}
	}
	return out
}
func (s *LogDS) NumWrites() int { s.mu.Lock(); defer s.mu.Unlock(); return len(s.Log) }

func (s *LogDS) Get(_ context.Context, k ds.Key) ([]byte, error) {
	if s.failRead() {
		return nil, ErrInjected
	}
	s.mu.Lock()
	defer s.mu.Unlock()
	v, ok := s.m[k.String()]
	if !ok {
		return nil, ds.ErrNotFound
	}
	return append([]byte(nil), v...), nil
}
func (s *LogDS) Has(_ context.Context, k ds.Key) (bool, error) {
	if s.failRead() {
		return false, ErrInjected
	}
	s.mu.Lock()
	defer s.mu.Unlock()
	_, ok := s.m[k.String()]
	return ok, nil
}
func (s *LogDS) GetSize(ctx context.Context, k ds.Key) (int, error) {
	v, err := s.Get(ctx, k)
	if err != nil {
		return -1, err
	}
	return len(v), nil
}
func (s *LogDS) Query(_ context.Context, q dsq.Query) (dsq.Results, error) {
	s.mu.Lock()
	defer s.mu.Unlock()
	keys := make([]string, 0, len(s.m))
	for k := range s.m {
		keys = append(keys, k)
	}
	sort.Strings(keys) // badger iterates in key order
	es := make([]dsq.Entry, 0, len(keys))
	for _, k := range keys {
		es = append(es, dsq.Entry{Key: k, Value: append([]byte(nil), s.m[k]...), Size: len(s.m[k])})
	}
	return dsq.NaiveQueryApply(q, dsq.ResultsWithEntries(q, es)), nil
}
func (s *LogDS) before() {
	if f := s.OnWrite; f != nil {
		s.mu.Lock()
		n := len(s.Log)
		s.mu.Unlock()
		f(n)
	}
}

func (s *LogDS) Put(_ context.Context, k ds.Key, v []byte) error {
	if s.fail(&s.FailPut) {
		return ErrInjected
	}
	s.before()
	s.mu.Lock()
	defer s.mu.Unlock()
	s.apply(WriteSet{{Key: k.String(), Val: append([]byte(nil), v...)}})
	return nil
}
func (s *LogDS) Delete(_ context.Context, k ds.Key) error {
	if s.fail(&s.FailDelete) {
		return ErrInjected
	}
	s.before()
	s.mu.Lock()
	defer s.mu.Unlock()
	s.apply(WriteSet{{Del: true, Key: k.String()}})
	return nil
}
func (s *LogDS) Sync(context.Context, ds.Key) error { return nil }
func (s *LogDS) Close() error                       { return nil }

type logBatch struct {
	s  *LogDS
	ws WriteSet
}

func (s *LogDS) Batch(context.Context) (ds.Batch, error) { return &logBatch{s: s}, nil }
func (b *logBatch) Put(_ context.Context, k ds.Key, v []byte) error {
	b.ws = append(b.ws, W{Key: k.String(), Val: append([]byte(nil), v...)})
	return nil
}
func (b *logBatch) Delete(_ context.Context, k ds.Key) error {
	b.ws = append(b.ws, W{Del: true, Key: k.String()})
	return nil
}
func (b *logBatch) Commit(context.Context) error {
	if b.s.fail(&b.s.FailCommit) {
		b.ws = nil
		return ErrInjected
	}
	b.s.before()
	b.s.mu.Lock()
	defer b.s.mu.Unlock()
	b.s.apply(b.ws)
	b.ws = nil
	return nil
}

// DescribeWS renders a write-set canonically (keys only, sorted) for observation lines.
func DescribeWS(ws WriteSet) string {
	parts := make([]string, len(ws))
	for i, w := range ws {
		if w.Del {
			parts[i] = "del:" + w.Key
		} else {
			parts[i] = "put:" + w.Key
		}
	}
	sort.Strings(parts)
	return strings.Join(parts, ",")
}

var _ ds.Batching = (*LogDS)(nil)
