// Package hx holds what every correspondence stream shares: the line protocol,
// the PRNG, the logging datastore and the doubles for the layers outside the
// repository's responsibility.
package hx

import (
	"bufio"
	"encoding/hex"
	"encoding/json"
	"fmt"
	"io"
	"os"
	"runtime"
	"path/filepath"
	"sort"
	"strconv"
	"strings"
	"sync"
	"time"
)

// Rng is splitmix64: every random choice of a run derives from VERIF_SEED.
type Rng struct {
	s    uint64
	Seed uint64 // the seed it was made from (generators split exhaustive enumerations over consecutive seeds)
}

func NewRng(seed uint64) *Rng {
	// mix the seed first: with s = seed*gamma consecutive seeds would yield shifted copies of one sequence
	r := &Rng{s: seed ^ 0xD1B54A32D192ED03}
	a, b := r.U64(), r.U64()
	return &Rng{s: a ^ (b << 1) ^ (seed * 0xA24BAED4963EE407), Seed: seed}
}
func (r *Rng) U64() uint64 {
	r.s += 0x9E3779B97F4A7C15
	z := r.s
	z = (z ^ (z >> 30)) * 0xBF58476D1CE4E5B9
	z = (z ^ (z >> 27)) * 0x94D049BB133111EB
	return z ^ (z >> 31)
}
func (r *Rng) Intn(n int) int {
	if n <= 0 {
		return 0
	}
	return int(r.U64() % uint64(n))
}
func (r *Rng) Bool() bool        { return r.U64()&1 == 1 }
func (r *Rng) Chance(p int) bool { return r.Intn(100) < p }
func (r *Rng) Bytes(n int) []byte {
	b := make([]byte, n)
	for i := range b {
		b[i] = byte(r.U64())
	}
	return b
}
func (r *Rng) Perm(n int) []int {
	p := make([]int, n)
	for i := range p {
		p[i] = i
	}
	for i := n - 1; i > 0; i-- {
		j := r.Intn(i + 1)
		p[i], p[j] = p[j], p[i]
	}
	return p
}

// Hex token: "-" for the empty string so that every token is non-empty.
func Hex(b []byte) string {
	if len(b) == 0 {
		return "-"
	}
	return hex.EncodeToString(b)
}
func UnHex(s string) ([]byte, error) {
	if s == "-" || s == "" {
		return nil, nil
	}
	return hex.DecodeString(s)
}
func HexList(bs [][]byte) string {
	if len(bs) == 0 {
		return "-"
	}
	parts := make([]string, len(bs))
	for i, b := range bs {
		if len(b) == 0 {
			parts[i] = "."
		} else {
			parts[i] = hex.EncodeToString(b)
		}
	}
	return strings.Join(parts, ",")
}
func UnHexList(s string) ([][]byte, error) {
	if s == "-" || s == "" {
		return nil, nil
	}
	var out [][]byte
	for _, p := range strings.Split(s, ",") {
		if p == "." {
			out = append(out, []byte{})
			continue
		}
		b, err := hex.DecodeString(p)
		if err != nil {
			return nil, err
		}
		out = append(out, b)
	}
	return out, nil
}

// Op is one protocol line: a verb and key=value arguments.
type Op struct {
	Verb string
	Args map[string]string
	Pos  []string
	Raw  string
}

func ParseOp(line string) Op {
	f := strings.Fields(line)
	op := Op{Args: map[string]string{}, Raw: line}
	if len(f) == 0 {
		return op
	}
	op.Verb = f[0]
	for _, t := range f[1:] {
		if i := strings.IndexByte(t, '='); i > 0 {
			op.Args[t[:i]] = t[i+1:]
		} else {
			op.Pos = append(op.Pos, t)
		}
	}
	return op
}
func (o Op) Str(k string) string { return o.Args[k] }
func (o Op) Has(k string) bool   { _, ok := o.Args[k]; return ok }
func (o Op) U64(k string) (uint64, bool) {
	v, ok := o.Args[k]
	if !ok {
		return 0, false
	}
	n, err := strconv.ParseUint(v, 10, 64)
	return n, err == nil
}
func (o Op) Int(k string) int { n, _ := o.U64(k); return int(n) }
func (o Op) I64(k string) int64 {
	n, _ := strconv.ParseInt(o.Args[k], 10, 64)
	return n
}
func (o Op) Bytes(k string) []byte  { b, _ := UnHex(o.Args[k]); return b }
func (o Op) List(k string) [][]byte { b, _ := UnHexList(o.Args[k]); return b }
func (o Op) Bool(k string) bool     { return o.Args[k] == "1" || o.Args[k] == "true" }

// Finding is one property violation observed on the real code by a monitor.
type Finding struct {
	Signature string   `json:"signature"`
	What      string   `json:"what"`
	Scenario  int      `json:"scenario"`
	Ops       []string `json:"ops,omitempty"`
}

// Stats is what a run reports about its own coverage.
type Stats struct {
	Scenarios int            `json:"scenarios"`
	Ops       int            `json:"ops"`
	Hist      map[string]int `json:"hist"`
	Findings  []Finding      `json:"findings"`
	Notes     []string       `json:"notes,omitempty"`
}

// Ctx is handed to a stream's Run: it reads ops, writes one observation line per op,
// and collects monitor findings.
type Ctx struct {
	in       *bufio.Scanner
	out      *bufio.Writer
	St       Stats
	scenario int
	cur      []string
	seen     map[string]bool
}

func NewCtx(in io.Reader, out io.Writer) *Ctx {
	sc := bufio.NewScanner(in)
	sc.Buffer(make([]byte, 1<<20), 1<<28)
	return &Ctx{in: sc, out: bufio.NewWriterSize(out, 1<<16), St: Stats{Hist: map[string]int{}, Findings: []Finding{}}, scenario: -1, seen: map[string]bool{}}
}

// Next returns the next op; ok=false at end of input. A "reset" verb starts a new scenario.
// watchdog: an operation that does not return within VERIF_OP_TIMEOUT seconds (default 180) means the code under test
// hangs (a deadlock, a wait nothing will ever end).  The process then ends with a goroutine dump, and the check reports
// the scenario being executed as the failing input instead of waiting for its own much longer time limit.
var (
	wdMu   sync.Mutex
	wdOp   string
	wdSeq  uint64
	wdOnce sync.Once
)

func watchdogArm(line string) {
	limit := 180 * time.Second
	if v := os.Getenv("VERIF_OP_TIMEOUT"); v != "" {
		if n, err := strconv.Atoi(v); err == nil && n > 0 {
			limit = time.Duration(n) * time.Second
		}
	}
	wdMu.Lock()
	wdOp = line
	wdSeq++
	wdMu.Unlock()
	wdOnce.Do(func() {
		go func() {
			var last uint64
			var since time.Time
			for {
				time.Sleep(time.Second)
				wdMu.Lock()
				seq, op := wdSeq, wdOp
				wdMu.Unlock()
				if seq != last {
					last, since = seq, time.Now()
					continue
				}
				if op != "" && time.Since(since) > limit {
					buf := make([]byte, 1<<20)
					n := runtime.Stack(buf, true)
					if len(op) > 300 {
						op = op[:300]
					}
					fmt.Fprintf(os.Stderr, "fatal error: verif watchdog: operation did not return within %v: %s\n%s\n", limit, op, buf[:n])
					os.Exit(3)
				}
			}
		}()
	})
}

func watchdogDisarm() {
	wdMu.Lock()
	wdOp = ""
	wdSeq++
	wdMu.Unlock()
}

func (c *Ctx) Next() (Op, bool) {
	watchdogDisarm()
	for c.in.Scan() {
		line := strings.TrimSpace(c.in.Text())
		if line == "" || strings.HasPrefix(line, "#") {
			continue
		}
		op := ParseOp(line)
		if op.Verb == "reset" {
			c.scenario++
			c.St.Scenarios++
			c.cur = nil
		}
		c.cur = append(c.cur, line)
		c.St.Ops++
		watchdogArm(line)
		return op, true
	}
	return Op{}, false
}
func (c *Ctx) Emit(format string, a ...any) {
	fmt.Fprintf(c.out, format, a...)
	c.out.WriteByte('\n')
	c.out.Flush()
}
func (c *Ctx) Hit(k string) { c.St.Hist[k]++ }

// Report records a violation of the property on the real code. One finding per (scenario, signature).
func (c *Ctx) Report(signature, what string) {
	key := fmt.Sprintf("%d|%s", c.scenario, signature)
	if c.seen[key] {
		return
	}
	c.seen[key] = true
	c.St.Findings = append(c.St.Findings, Finding{Signature: signature, What: what, Scenario: c.scenario, Ops: append([]string(nil), c.cur...)})
}
func (c *Ctx) Finish(statsPath string) {
	c.out.Flush()
	if statsPath == "" {
		return
	}
	b, err := json.MarshalIndent(c.St, "", " ")
	if err == nil {
		err = os.WriteFile(statsPath, b, 0o644)
	}
	if err != nil {
		// the monitors' findings travel in this file: losing it silently would turn a violation into OK
		fmt.Fprintf(os.Stderr, "fatal error: verif harness: cannot write the stats file %s: %v\n", statsPath, err)
		os.Exit(4)
	}
}

// Stream is one property's generator and executor.
type Stream struct {
	// Gen writes op lines for the tier ("quick"/"thorough").
	Gen func(r *Rng, tier string, w io.Writer)
	// Run interprets op lines against the real code.
	Run func(c *Ctx)
}

var Streams = map[string]Stream{}

func Register(id string, s Stream) { Streams[id] = s }

func SortedKeys[V any](m map[string]V) []string {
	ks := make([]string, 0, len(m))
	for k := range m {
		ks = append(ks, k)
	}
	sort.Strings(ks)
	return ks
}

// SourcePath maps a path under /repo to the file a check is really built from: when the check runs against an overlay
// (VERIF_OVERLAY or -overlay= in GOFLAGS: mutation testing without touching /repo) fact generators that read source
// files must read the replacement, like the compiler does.
func SourcePath(p string) string {
	path := os.Getenv("VERIF_OVERLAY")
	if path == "" {
		for _, f := range strings.Fields(os.Getenv("GOFLAGS")) {
			if strings.HasPrefix(f, "-overlay=") {
				path = strings.TrimPrefix(f, "-overlay=")
			}
		}
	}
	if path == "" {
		return p
	}
	b, err := os.ReadFile(path)
	if err != nil {
		return p
	}
	var ov struct{ Replace map[string]string }
	if json.Unmarshal(b, &ov) == nil {
		if r, ok := ov.Replace[p]; ok && r != "" {
			return r
		}
	}
	return p
}

// SourceFiles lists the non-test .go files of a package directory under /repo as the compiler sees them: files on
// disk, files an overlay adds, minus files an overlay removes; each entry is the path to READ (the replacement when
// there is one).  Fact generators that look for a function should look in every file of the package: moving a
// function to another file of the same package is not a change of behaviour.
func SourceFiles(dir string) []string {
	names := map[string]bool{}
	if ents, err := os.ReadDir(dir); err == nil {
		for _, e := range ents {
			names[filepath.Join(dir, e.Name())] = true
		}
	}
	for k, v := range overlayReplace() {
		if filepath.Dir(k) == dir {
			names[k] = v != ""
		}
	}
	var out []string
	for n, present := range names {
		if !present || !strings.HasSuffix(n, ".go") || strings.HasSuffix(n, "_test.go") {
			continue
		}
		out = append(out, SourcePath(n))
	}
	sort.Strings(out)
	return out
}

func overlayReplace() map[string]string {
	path := os.Getenv("VERIF_OVERLAY")
	if path == "" {
		for _, f := range strings.Fields(os.Getenv("GOFLAGS")) {
			if strings.HasPrefix(f, "-overlay=") {
				path = strings.TrimPrefix(f, "-overlay=")
			}
		}
	}
	if path == "" {
		return nil
	}
	b, err := os.ReadFile(path)
	if err != nil {
		return nil
	}
	var ov struct{ Replace map[string]string }
	if json.Unmarshal(b, &ov) != nil {
		return nil
	}
	return ov.Replace
}
