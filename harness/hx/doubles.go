package hx

import (
	"context"
	"crypto/sha256"
	"errors"
	"sync"
	"time"

	coresequencer "github.com/evstack/ev-node/core/sequencer"
)

// ExecCall is one ExecuteTxs call as received by the execution double.
type ExecCall struct {
	Height uint64
	Txs    [][]byte
	Prev   []byte
	Root   []byte
	Time   time.Time
}

// Exec is the execution-layer double: root' = sha256(root || tx1 || tx2 ...), the same function
// the Lean driver evaluates. Fail makes the next ExecuteTxs calls fail.
type Exec struct {
	mu       sync.Mutex
	Fail     bool
	Calls    []ExecCall
	Finals   []uint64
	Inits    int
	Mempool  [][]byte
	GetTxErr bool
	// MaxBytes is what InitChain / ExecuteTxs report as "maximum bytes of the next block" (0 = 3 bytes: smaller than
	// almost every batch of the streams, so that code which starts to cut batches by it cannot go unnoticed; the
	// repository ignores the value today)
	MaxBytes uint64
	// Drain (optional, default off): GetTxs is destructive like the in-repo reference executor's
	// (apps/testapp/kv/kvexecutor.go GetTxs drains its channel): every transaction of Mempool is returned by exactly
	// one GetTxs call. Taken logs what the GetTxs calls returned while Drain was on, in order.
	Drain bool
	Taken [][]byte
}

func (e *Exec) maxBytes() uint64 {
	if e.MaxBytes == 0 {
		return 3
	}
	return e.MaxBytes
}

var GenesisRoot = []byte("genesis-root")

func ExecRoot(prev []byte, txs [][]byte) []byte {
	h := sha256.New()
	h.Write(prev)
	for _, tx := range txs {
		h.Write(tx)
	}
	return h.Sum(nil)
}

func (e *Exec) InitChain(context.Context, time.Time, uint64, string) ([]byte, uint64, error) {
	e.mu.Lock()
	defer e.mu.Unlock()
	e.Inits++
	return append([]byte(nil), GenesisRoot...), e.maxBytes(), nil
}
func (e *Exec) GetTxs(context.Context) ([][]byte, error) {
	e.mu.Lock()
	defer e.mu.Unlock()
	if e.GetTxErr {
		return nil, errors.New("mempool unavailable")
	}
	out := append([][]byte(nil), e.Mempool...)
	if e.Drain {
		e.Taken = append(e.Taken, out...)
		e.Mempool = nil
	}
	return out, nil
}
func (e *Exec) ExecuteTxs(_ context.Context, txs [][]byte, h uint64, ts time.Time, prev []byte) ([]byte, uint64, error) {
	e.mu.Lock()
	defer e.mu.Unlock()
	if e.Fail {
		return nil, 0, errors.New("execution failed")
	}
	root := ExecRoot(prev, txs)
	cp := make([][]byte, len(txs))
	for i := range txs {
		cp[i] = append([]byte(nil), txs[i]...)
	}
	e.Calls = append(e.Calls, ExecCall{Height: h, Txs: cp, Prev: append([]byte(nil), prev...), Root: root, Time: ts})
	return root, e.maxBytes(), nil
}
func (e *Exec) SetFinal(_ context.Context, h uint64) error {
	e.mu.Lock()
	defer e.mu.Unlock()
	e.Finals = append(e.Finals, h)
	return nil
}

// SeqResp is one scripted answer of the sequencing layer.
type SeqResp struct {
	Err      bool
	NilBatch bool
	Txs      [][]byte
	Ts       time.Time
	Data     [][]byte
}

// Seq is the scripted sequencing-layer double; the harness sets Next before each step.
type Seq struct {
	mu     sync.Mutex
	Next   *SeqResp
	Calls  int
	LastRq [][]byte
}

func (s *Seq) SubmitBatchTxs(context.Context, coresequencer.SubmitBatchTxsRequest) (*coresequencer.SubmitBatchTxsResponse, error) {
	return &coresequencer.SubmitBatchTxsResponse{}, nil
}
func (s *Seq) GetNextBatch(_ context.Context, req coresequencer.GetNextBatchRequest) (*coresequencer.GetNextBatchResponse, error) {
	s.mu.Lock()
	defer s.mu.Unlock()
	s.Calls++
	s.LastRq = req.LastBatchData
	r := s.Next
	if r == nil || r.Err {
		return nil, errors.New("sequencer unavailable")
	}
	if r.NilBatch {
		return &coresequencer.GetNextBatchResponse{Timestamp: r.Ts}, nil
	}
	return &coresequencer.GetNextBatchResponse{Batch: &coresequencer.Batch{Transactions: r.Txs}, Timestamp: r.Ts, BatchData: r.Data}, nil
}
func (s *Seq) VerifyBatch(context.Context, coresequencer.VerifyBatchRequest) (*coresequencer.VerifyBatchResponse, error) {
	return &coresequencer.VerifyBatchResponse{Status: true}, nil
}

// Bcast records what was handed to a broadcaster.
type Bcast[T any] struct {
	mu  sync.Mutex
	Got []T
	Err error
}

func (b *Bcast[T]) WriteToStoreAndBroadcast(_ context.Context, p T) error {
	b.mu.Lock()
	defer b.mu.Unlock()
	b.Got = append(b.Got, p)
	return b.Err
}

// DASubmit is one Submit call received by the DA double.
type DASubmit struct {
	Blobs    [][]byte
	Answer   string
	Accepted int
	Height   uint64
}

// DA is a scripted DA-layer double. Submit answers come from Script (consumed one per call;
// when exhausted: accept everything). Accepted blobs are stored at the current DA height, which
// advances by one after every accepting Submit.
type DA struct {
	mu      sync.Mutex
	Script  []string // "ok", "ok:<k>", "lost:<k>", "notincluded", "inmempool", "toobig", "error", "canceled"
	Submits []DASubmit
	Blobs   map[uint64][][]byte // DA height -> blobs
	Height  uint64
	MaxBlob uint64
	// retrieval script: per DA height a list of outcomes consumed per attempt; default: serve Blobs
	Fetch     map[uint64][]string // "ok","notfound","future","errids","errget[:c]"; text-only variants (a proxied DA): "notfoundtext","futuretext","errgettext[:c]"
	FetchLog  []string
	GetCalls  int
	failGet   bool
	failText  bool // the scripted Get failure is a text-only "height from future" error (what a proxied DA returns)
	failChunk int
	// OnSubmit (optional) runs at the beginning of every Submit call, before the answer is taken: the blobs are in
	// flight, the caller has not seen the result yet
	OnSubmit func()
}

func NewDA() *DA {
	return &DA{Blobs: map[uint64][][]byte{}, Height: 1, MaxBlob: 1 << 30, Fetch: map[uint64][]string{}}
}
