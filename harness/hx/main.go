package hx

import (
	"flag"
	"fmt"
	"os"
	"path/filepath"
	"sort"
	"strings"

	logging "github.com/ipfs/go-log/v2"
)

// Facts maps a Lean module name under Gen/ to a function returning its body. Facts are obtained by
// asking the compiled code (calling it, reflection, descriptors), so harmless refactorings do not move them.
var Facts = map[string]func() (string, error){}

func RegisterFacts(name string, f func() (string, error)) { Facts[name] = f }

// LeanBytes renders a byte string as a Lean `Bytes` literal.
func LeanBytes(b []byte) string {
	if len(b) == 0 {
		return "([] : Bytes)"
	}
	parts := make([]string, len(b))
	for i, x := range b {
		parts[i] = fmt.Sprintf("%d", x)
	}
	return "([" + strings.Join(parts, ", ") + "] : Bytes)"
}
func LeanString(s string) string { return fmt.Sprintf("%q", s) }
func LeanBool(b bool) string {
	if b {
		return "true"
	}
	return "false"
}

// Main is the entry point of every per-property harness binary:
//
//	<bin> gen   [-tier quick|thorough] [-seed N]   -> op lines on stdout
//	<bin> run   [-stats file]  < ops               -> one observation line per op on stdout
//	<bin> facts <outdir>                           -> writes <outdir>/<Name>.lean for every registered fact module
func Main(id string) {
	if len(os.Args) < 2 {
		fmt.Fprintln(os.Stderr, "usage: gen|run|facts [flags]")
		os.Exit(2)
	}
	mode := os.Args[1]
	logging.SetAllLoggers(logging.LevelFatal)
	if mode == "facts" {
		if len(os.Args) < 3 {
			os.Exit(2)
		}
		os.Exit(writeFacts(os.Args[2]))
	}
	fs := flag.NewFlagSet("harness", flag.ExitOnError)
	tier := fs.String("tier", "quick", "")
	seed := fs.Uint64("seed", 1, "")
	stats := fs.String("stats", "", "")
	_ = fs.Parse(os.Args[2:])
	s, ok := Streams[id]
	if !ok {
		fmt.Fprintln(os.Stderr, "unknown stream", id)
		os.Exit(2)
	}
	switch mode {
	case "gen":
		s.Gen(NewRng(*seed), *tier, os.Stdout)
	case "run":
		c := NewCtx(os.Stdin, os.Stdout)
		s.Run(c)
		c.Finish(*stats)
	default:
		os.Exit(2)
	}
}

func writeFacts(out string) int {
	rc := 0
	var names []string
	for n := range Facts {
		names = append(names, n)
	}
	sort.Strings(names)
	for _, n := range names {
		body, err := Facts[n]()
		if err != nil {
			fmt.Fprintf(os.Stderr, "facts %s: %v\n", n, err)
			rc = 1
			continue
		}
		src := "import Model.Bytes\n/-! GENERATED from the /repo working tree by /verif/harness (facts) on every run. Do not edit. -/\nnamespace Gen." + n + "\n" + body + "\nend Gen." + n + "\n"
		if err := os.WriteFile(filepath.Join(out, n+".lean"), []byte(src), 0o644); err != nil {
			fmt.Fprintln(os.Stderr, err)
			rc = 1
		}
	}
	return rc
}
