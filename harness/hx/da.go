package hx

import (
	"context"
	"encoding/binary"
	"errors"
	"fmt"
	"strconv"
	"strings"
	"time"

	coreda "github.com/evstack/ev-node/core/da"
)

func (d *DA) id(height uint64, idx int) []byte {
	id := make([]byte, 16)
	binary.LittleEndian.PutUint64(id, height)
	binary.LittleEndian.PutUint64(id[8:], uint64(idx)+1)
	return id
}

// Place puts blobs at a DA height directly (third-party / pre-existing content).
func (d *DA) Place(height uint64, blobs ...[]byte) {
	d.mu.Lock()
	defer d.mu.Unlock()
	d.Blobs[height] = append(d.Blobs[height], blobs...)
	if height >= d.Height {
		d.Height = height + 1
	}
}

func (d *DA) SubmitWithOptions(ctx context.Context, blobs []coreda.Blob, _ float64, _ []byte, _ []byte) ([]coreda.ID, error) {
	if f := d.OnSubmit; f != nil {
		f()
	}
	d.mu.Lock()
	defer d.mu.Unlock()
	ans := "ok"
	if len(d.Script) > 0 {
		ans = d.Script[0]
		d.Script = d.Script[1:]
	}
	rec := DASubmit{Answer: ans, Height: d.Height}
	for _, b := range blobs {
		rec.Blobs = append(rec.Blobs, append([]byte(nil), b...))
	}
	kind, arg := ans, len(blobs)
	if i := strings.IndexByte(ans, ':'); i > 0 {
		kind = ans[:i]
		arg, _ = strconv.Atoi(ans[i+1:])
	}
	if arg > len(blobs) {
		arg = len(blobs)
	}
	accept := func(k int) []coreda.ID {
		base := len(d.Blobs[d.Height])
		ids := make([]coreda.ID, k)
		for i := 0; i < k; i++ {
			d.Blobs[d.Height] = append(d.Blobs[d.Height], rec.Blobs[i])
			ids[i] = d.id(d.Height, base+i)
		}
		if k > 0 {
			d.Height++
		}
		return ids
	}
	var ids []coreda.ID
	var err error
	switch kind {
	case "ok":
		ids = accept(arg)
		rec.Accepted = arg
	case "lost":
		accept(arg)
		rec.Accepted = arg
		err = errors.New("acknowledgement lost")
	case "notincluded":
		err = coreda.ErrTxTimedOut
	case "inmempool":
		err = coreda.ErrTxAlreadyInMempool
	case "toobig":
		err = coreda.ErrBlobSizeOverLimit
	case "canceled":
		err = context.Canceled
	default:
		err = errors.New("da unavailable")
	}
	d.Submits = append(d.Submits, rec)
	return ids, err
}
func (d *DA) Submit(ctx context.Context, blobs []coreda.Blob, gp float64, ns []byte) ([]coreda.ID, error) {
	return d.SubmitWithOptions(ctx, blobs, gp, ns, nil)
}

// TextError is an error that carries a message only (it wraps nothing): what a DA reached through an RPC proxy returns
// for the server's sentinel errors.
type TextError string

func (e TextError) Error() string { return string(e) }

func (d *DA) GetIDs(_ context.Context, height uint64, _ []byte) (*coreda.GetIDsResult, error) {
	d.mu.Lock()
	defer d.mu.Unlock()
	out := "ok"
	d.failGet = false // a scripted Get failure concerns the fetch that follows its listing only
	if s := d.Fetch[height]; len(s) > 0 {
		out = s[0]
		d.Fetch[height] = s[1:]
	}
	if out == "ok" && height >= d.Height {
		out = "future"
	}
	d.FetchLog = append(d.FetchLog, fmt.Sprintf("ids:%d:%s", height, out))
	switch {
	case out == "future":
		return nil, fmt.Errorf("%w: requested %d", coreda.ErrHeightFromFuture, height)
	case out == "errids":
		// transient failures come in several kinds; all of them mean "retry this height"
		switch len(d.FetchLog) % 4 {
		case 1:
			return nil, fmt.Errorf("listing: %w", context.DeadlineExceeded)
		case 2:
			return nil, coreda.ErrContextDeadline
		case 3:
			return nil, fmt.Errorf("listing: %w", coreda.ErrContextCanceled)
		}
		return nil, errors.New("rpc failure while listing")
	case out == "notfound":
		return nil, coreda.ErrBlobNotFound
	case out == "notfoundtext":
		// what arrives through a JSON-RPC proxy: the server's message only, the sentinel is not in the error chain
		return nil, TextError("rpc error: code = Unknown desc = " + coreda.ErrBlobNotFound.Error() + " at this height")
	case out == "futuretext":
		return nil, TextError(fmt.Sprintf("rpc error: code = Unknown desc = %s: requested %d", coreda.ErrHeightFromFuture.Error(), height))
	case strings.HasPrefix(out, "errget"):
		d.failText = strings.HasPrefix(out, "errgettext")
		d.failChunk = 0
		if i := strings.IndexByte(out, ':'); i > 0 {
			d.failChunk, _ = strconv.Atoi(out[i+1:])
		}
		d.failGet = true
	}
	n := len(d.Blobs[height])
	ids := make([]coreda.ID, n)
	for i := range ids {
		ids[i] = d.id(height, i)
	}
	return &coreda.GetIDsResult{IDs: ids, Timestamp: time.Unix(int64(height), 0)}, nil
}

// Log returns a copy of the fetch log.
func (d *DA) Log() []string {
	d.mu.Lock()
	defer d.mu.Unlock()
	return append([]string(nil), d.FetchLog...)
}

func (d *DA) Get(_ context.Context, ids []coreda.ID, _ []byte) ([]coreda.Blob, error) {
	d.mu.Lock()
	defer d.mu.Unlock()
	chunk := d.GetCalls
	d.GetCalls++
	first := -1
	if len(ids) > 0 && len(ids[0]) == 16 {
		first = int(binary.LittleEndian.Uint64(ids[0][8:])) - 1
	}
	d.FetchLog = append(d.FetchLog, fmt.Sprintf("get:%d@%d", len(ids), first))
	_ = chunk
	if d.failGet && first/100 == d.failChunk {
		d.failGet = false
		if d.failText {
			d.failText = false
			return nil, TextError("rpc error: code = Unknown desc = " + coreda.ErrHeightFromFuture.Error())
		}
		// transient failures of a fetch come in several kinds; all of them mean "retry this height" - also a listed id
		// whose blob the endpoint cannot find right now ("blob: not found" on Get is NOT "nothing at this height":
		// the listing said there are blobs; seed C09-H took the text for an empty height)
		switch len(d.FetchLog) % 5 {
		case 1:
			return nil, coreda.ErrContextDeadline
		case 2:
			return nil, fmt.Errorf("fetching: %w", context.DeadlineExceeded)
		case 3:
			return nil, coreda.ErrBlobNotFound
		case 4:
			return nil, TextError("failed to get blobs: " + coreda.ErrBlobNotFound.Error())
		}
		return nil, errors.New("rpc failure while fetching")
	}
	out := make([]coreda.Blob, 0, len(ids))
	for _, id := range ids {
		if len(id) != 16 {
			return nil, coreda.ErrBlobNotFound
		}
		h := binary.LittleEndian.Uint64(id)
		i := int(binary.LittleEndian.Uint64(id[8:])) - 1
		if i < 0 || i >= len(d.Blobs[h]) {
			return nil, coreda.ErrBlobNotFound
		}
		out = append(out, d.Blobs[h][i])
	}
	return out, nil
}
func (d *DA) GetProofs(context.Context, []coreda.ID, []byte) ([]coreda.Proof, error) { return nil, nil }
func (d *DA) Commit(context.Context, []coreda.Blob, []byte) ([]coreda.Commitment, error) {
	return nil, nil
}
func (d *DA) Validate(_ context.Context, ids []coreda.ID, _ []coreda.Proof, _ []byte) ([]bool, error) {
	return make([]bool, len(ids)), nil
}
func (d *DA) GasPrice(context.Context) (float64, error)      { return -1, nil }
func (d *DA) GasMultiplier(context.Context) (float64, error) { return 0, nil }

var _ coreda.DA = (*DA)(nil)
