// Package facts regenerates lean/Gen/*.lean from the current /repo working tree on every run.
// Facts are obtained by asking the compiled code (calling it, reflection, protobuf descriptors),
// not by parsing syntax, so a harmless refactoring does not move them.
package facts

import (
	"fmt"
	"sort"
	"strings"
)

// Gens maps a Lean module name under Gen/ (e.g. "C12") to a function returning its body.
var Gens = map[string]func() (string, error){}

func Register(name string, f func() (string, error)) { Gens[name] = f }

func Names() []string {
	var ns []string
	for n := range Gens {
		ns = append(ns, n)
	}
	sort.Strings(ns)
	return ns
}

// LeanBytes renders a byte string as a Lean `Bytes` literal.
func LeanBytes(b []byte) string {
	if len(b) == 0 {
		return "([] : Bytes)"
	}
	parts := make([]string, len(b))
	for i, x := range b {
		parts[i] = fmt.Sprintf("%d", x)
	}
	return "([" + strings.Join(parts, ", ") + "] : Bytes)"
}

func LeanString(s string) string { return fmt.Sprintf("%q", s) }

func LeanBool(b bool) string {
	if b {
		return "true"
	}
	return "false"
}
