#!/usr/bin/env python3
"""tools/pin_theorems.py [Cxx ...] - writes the theorem names found by the LAST run of each property's check
(evidence/Cxx.json, which must be an OK run against /repo itself) into props/Cxx.json `required_theorems`.
Run it deliberately after adding / renaming theorems; `check` then fails when one of them disappears."""
import json, os, sys
ROOT = os.path.dirname(os.path.dirname(os.path.abspath(__file__)))
ids = sys.argv[1:] or sorted(f[:-5] for f in os.listdir(os.path.join(ROOT, "props")) if f.endswith(".json"))
for pid in ids:
    ev = json.load(open(os.path.join(ROOT, "evidence", pid + ".json")))
    if ev.get("violations") or ev.get("run", {}).get("overlay"):
        print(pid, "skipped: last run was not a clean run against /repo"); continue
    names = sorted(ev["coverage"]["theorems"])
    f = os.path.join(ROOT, "props", pid + ".json")
    d = json.load(open(f)); d["required_theorems"] = names
    json.dump(d, open(f, "w"), indent=1)
    print(pid, len(names))
