#!/usr/bin/env python3
"""tools/mkindex.py - regenerates seeded/INDEX.md from seeded/*/meta.json and README.md titles."""
import json, os, re
ROOT = os.path.dirname(os.path.dirname(os.path.abspath(__file__)))
sd = os.path.join(ROOT, "seeded")
rows = []
for d in sorted(os.listdir(sd)):
    mp = os.path.join(sd, d, "meta.json")
    if not os.path.exists(mp):
        continue
    m = json.load(open(mp))
    t = ""
    rd = os.path.join(sd, d, "README.md")
    if os.path.exists(rd):
        mm = re.search(r"^#\s*(.+)$", open(rd).read(), re.M)
        t = mm.group(1).strip() if mm else ""
    t = re.sub(r"^Seed\s+C\d\d\s*[/-]?\s*\w\s*[—–-]+\s*", "", t)
    det = []
    for c, v in sorted((m.get("detected_by") or {}).items()):
        if v.get("exit"):
            sig = ", ".join(str(x) for x in (v.get("signatures") or [])[:3]) or ("no-failing-input-found" if v.get("no_failing_input_found") else "violation")
            det.append(f"{c}: {sig}")
    note = ""
    if m.get("equivalent_on_reachable_states"):
        note = "not a violation on reachable states (see meta.json): silence is correct"
    elif not det:
        note = "NOT REPORTED"
    rows.append(f"| {d} | {t.replace('|', '/')} | {'; '.join(det).replace('|', '/')} {note} | {'yes' if m.get('strengthened') else ''} |")
head = open(os.path.join(sd, "INDEX.md")).read().split("| seed |")[0]
open(os.path.join(sd, "INDEX.md"), "w").write(head + "| seed | change | reported by (check: signatures) | strengthened |\n|---|---|---|---|\n" + "\n".join(rows) + "\n")
print(len(rows), "seeds;", sum("NOT REPORTED" in r for r in rows), "not reported")
