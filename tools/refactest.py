#!/usr/bin/env python3
"""tools/refactest.py <worktree> <name> <diff> <checks,comma-separated> [--tier quick]

False-alarm test: runs /verif's checks against a BEHAVIOUR-PRESERVING refactoring of /repo (produced by an independent
agent that saw nothing of /verif) through a Go build overlay, without touching /repo.  Every VIOLATION here is an alarm
on code where the property still holds.  Writes /verif/refactored/<name>/{patch.diff, meta.json}.
"""
import sys, os, re, json, subprocess, shutil, time
ROOT = os.path.dirname(os.path.dirname(os.path.abspath(__file__)))
ENV = dict(os.environ, GOFLAGS="-mod=mod", GOPROXY="off")
MODS = ["apps/testapp", "core", "da", "sequencers/single", "sequencers/based", "execution/evm", "apps/evm/single", "apps/evm/based"]


def sh(cmd, cwd=None, env=None, timeout=3600):
    p = subprocess.run(cmd, cwd=cwd, env=env or ENV, shell=isinstance(cmd, str), stdout=subprocess.PIPE, stderr=subprocess.STDOUT, text=True, timeout=timeout)
    return p.returncode, p.stdout


def module_of(path):
    for m in MODS:
        if path.startswith(m + "/"):
            return m, path[len(m) + 1:]
    return ".", path


def main():
    wt, name, diff, checks = sys.argv[1], sys.argv[2], os.path.abspath(sys.argv[3]), sys.argv[4].split(",")
    tier = sys.argv[sys.argv.index("--tier") + 1] if "--tier" in sys.argv else "quick"
    meta = {"name": name, "checks": {}, "confirmed": {}}
    sh("git checkout -- . && git clean -fdq -e _refac", cwd=wt)
    rc, out = sh(["git", "apply", diff], cwd=wt)
    meta["confirmed"]["patch_applies"] = rc == 0
    if rc != 0:
        print(name, "patch does not apply", out[-300:])
        return
    files = [l[6:].strip() for l in open(diff) if l.startswith("+++ b/")]
    removed = [l[6:].strip() for l in open(diff) if l.startswith("--- a/")]
    removed = [f for f in removed if not os.path.exists(os.path.join(wt, f))]
    meta["files"] = files
    okb = True
    for m in sorted({module_of(f)[0] for f in files}):
        for tags in ([], ["-tags", "verif"]):
            for sub in ("build", "vet"):
                rc, out = sh(["go", sub] + tags + ["./..."], cwd=os.path.join(wt, m))
                okb = okb and rc == 0
    meta["confirmed"]["builds_and_vets"] = okb
    okt = True
    for pkgdir in sorted({os.path.dirname(f) for f in files}):
        mod, rel = module_of(pkgdir + "/x")
        pkg = "./" + os.path.dirname(rel) if os.path.dirname(rel) else "."
        for _ in range(3):
            rc, out = sh(["go", "test", "-count=1", pkg], cwd=os.path.join(wt, mod), timeout=1500)
            if rc == 0:
                break
        okt = okt and rc == 0
    meta["confirmed"]["existing_tests_pass"] = okt
    ovd = os.path.join("/tmp", "refacov", name)
    shutil.rmtree(ovd, ignore_errors=True)
    os.makedirs(ovd)
    rep = {}
    for i, f in enumerate(files):
        dst = os.path.join(ovd, f"{i}_{os.path.basename(f)}")
        shutil.copy(os.path.join(wt, f), dst)
        rep[os.path.join("/repo", f)] = dst
    for f in removed:
        rep[os.path.join("/repo", f)] = ""
    json.dump({"Replace": rep}, open(os.path.join(ovd, "overlay.json"), "w"))
    sh("git checkout -- . && git clean -fdq -e _refac", cwd=wt)
    for c in checks:
        t0 = time.time()
        rc, out = sh([os.path.join(ROOT, "check"), c, tier], cwd=ROOT, env=dict(os.environ, VERIF_OVERLAY=os.path.join(ovd, "overlay.json")))
        viol = [l for l in out.splitlines() if l.startswith("VIOLATION")]
        meta["checks"][c] = {"exit": rc, "violations": viol, "wall_s": round(time.time() - t0, 1), "tail": out[-1500:] if rc != 0 else ""}
        print(f"[{name}] {c}: exit={rc} {'FALSE ALARM ' + ' '.join(viol)[:300] if rc != 0 else 'quiet'}")
        sh([os.path.join(ROOT, "check"), c, "--facts"], cwd=ROOT, env=dict(os.environ))
    out = os.path.join(ROOT, "refactored", name)
    os.makedirs(out, exist_ok=True)
    shutil.copy(diff, os.path.join(out, "patch.diff"))
    json.dump(meta, open(os.path.join(out, "meta.json"), "w"), indent=1)
    print(name, json.dumps(meta["confirmed"]))


if __name__ == "__main__":
    main()
