#!/usr/bin/env python3
"""tools/seedtest.py <PROP> <seed-worktree> <variant> [--tier quick|thorough] [--checks C01,C04]

Confirms a seeded change produced by an independent agent and runs /verif's checks against it WITHOUT touching
/repo (Go build overlay):
  1 the patch applies to the scratch worktree; `go build` / `go vet` (also -tags verif) are clean in the module(s)
  2 the demonstration (file with a `// place at <path>` header) FAILS with the patch and PASSES without it
  3 the existing tests of the touched packages pass with the patch
  4 `VERIF_OVERLAY=… ./check <P> <tier>` for the property (and any --checks) → detected?
Writes /verif/seeded/<PROP>-<variant>/{patch.diff, demo files, README.md, meta.json}.
"""
import sys, os, re, json, subprocess, shutil, time

ROOT = os.path.dirname(os.path.dirname(os.path.abspath(__file__)))
ENV = dict(os.environ, GOFLAGS="-mod=mod", GOPROXY="off")
MODS = ["apps/testapp", "core", "da", "sequencers/single", "sequencers/based", "execution/evm", "apps/evm/single", "apps/evm/based"]


def sh(cmd, cwd=None, env=None, timeout=1800):
    p = subprocess.run(cmd, cwd=cwd, env=env or ENV, shell=isinstance(cmd, str), stdout=subprocess.PIPE, stderr=subprocess.STDOUT, text=True, timeout=timeout)
    return p.returncode, p.stdout


def module_of(path):
    for m in MODS:
        if path.startswith(m + "/"):
            return m, path[len(m) + 1:]
    return ".", path


def main():
    a = sys.argv[1:]
    prop, wt, var = a[0], a[1], a[2]
    tier = "quick"
    checks = [prop]
    if "--tier" in a:
        tier = a[a.index("--tier") + 1]
    if "--checks" in a:
        checks = a[a.index("--checks") + 1].split(",")
    race = ["-race"] if "--race" in a else []   # the demonstration needs the race detector
    sd = os.path.join(wt, "_seed", var)
    patch = os.path.join(sd, "patch.diff")
    meta = {"property": prop, "variant": var, "ran": [], "confirmed": {}}
    sh("git checkout -- . && git clean -fdq -e _seed", cwd=wt)
    rc, out = sh(["git", "apply", "--check", patch], cwd=wt)
    meta["confirmed"]["patch_applies"] = rc == 0
    if rc != 0:
        print("patch does not apply:", out)
        return finish(meta, sd, prop, var)
    files = [l[6:].strip() for l in open(patch) if l.startswith("+++ b/")]
    meta["files"] = files
    demos = []
    for f in sorted(os.listdir(sd)):
        if f.endswith(".go"):
            head = open(os.path.join(sd, f)).read(600)
            m = re.search(r"place at\s+(\S+)", head)
            if m:
                demos.append((f, m.group(1)))
    meta["demo_files"] = [d[1] for d in demos]

    def run_demo():
        res = []
        for f, dest in demos:
            shutil.copy(os.path.join(sd, f), os.path.join(wt, dest))
        for f, dest in demos:
            mod, rel = module_of(dest)
            pkg = "./" + os.path.dirname(rel) if os.path.dirname(rel) else "."
            tests = re.findall(r"^func (Test\w+)\(", open(os.path.join(sd, f)).read(), re.M)
            rc, out = sh(["go", "test"] + race + ["-count=1", "-run", "^(" + "|".join(tests) + ")$", pkg], cwd=os.path.join(wt, mod), timeout=900)
            res.append((rc, out[-1500:]))
        for f, dest in demos:
            os.remove(os.path.join(wt, dest))
        return res

    # demonstration without the change
    r0 = run_demo()
    meta["confirmed"]["demo_passes_without_change"] = all(rc == 0 for rc, _ in r0) and bool(r0)
    # apply the change
    sh(["git", "apply", patch], cwd=wt)
    mods = sorted({module_of(f)[0] for f in files})
    okb = True
    for m in mods:
        for tags in ([], ["-tags", "verif"]):
            rc, out = sh(["go", "build"] + tags + ["./..."], cwd=os.path.join(wt, m))
            okb = okb and rc == 0
            rc, out = sh(["go", "vet"] + tags + ["./..."], cwd=os.path.join(wt, m))
            okb = okb and rc == 0
    meta["confirmed"]["builds_and_vets"] = okb
    r1 = run_demo()
    meta["confirmed"]["demo_fails_with_change"] = any(rc != 0 for rc, _ in r1) and bool(r1)
    meta["demo_output_with_change"] = [o[-600:] for _, o in r1]
    # existing tests of the touched packages (and their module's dependants inside the module)
    okt, touts = True, []
    for f in files:
        mod, rel = module_of(f)
        pkg = "./" + os.path.dirname(rel) if os.path.dirname(rel) else "."
        rc, out = sh(["go", "test", "-count=1", pkg], cwd=os.path.join(wt, mod), timeout=1500)
        for _ in range(2):   # flaky tests (several packages have one): a failure must repeat
            if rc == 0:
                break
            rc, out = sh(["go", "test", "-count=1", pkg], cwd=os.path.join(wt, mod), timeout=1500)
        if rc != 0:
            # compare with the unchanged tree (a test may fail there as well)
            sh(["git", "stash", "-q"], cwd=wt)
            rc0, out0 = sh(["go", "test", "-count=1", pkg], cwd=os.path.join(wt, mod), timeout=1500)
            sh(["git", "stash", "pop", "-q"], cwd=wt)
            if rc0 == 0:
                okt = False
                touts.append(out[-800:])
    meta["confirmed"]["existing_tests_pass_with_change"] = okt
    meta["existing_test_failures"] = touts
    # overlay for /verif's checks
    ovd = os.path.join("/tmp", "seedov", f"{prop}-{var}")
    shutil.rmtree(ovd, ignore_errors=True)
    os.makedirs(ovd)
    rep = {}
    for i, f in enumerate(files):
        dst = os.path.join(ovd, f"{i}_{os.path.basename(f)}")
        shutil.copy(os.path.join(wt, f), dst)
        rep[os.path.join("/repo", f)] = dst
    json.dump({"Replace": rep}, open(os.path.join(ovd, "overlay.json"), "w"))
    sh("git checkout -- . && git clean -fdq -e _seed", cwd=wt)
    det = {}
    for c in checks:
        t0 = time.time()
        rc, out = sh([os.path.join(ROOT, "check"), c, tier], cwd=ROOT, env=dict(os.environ, VERIF_OVERLAY=os.path.join(ovd, "overlay.json")), timeout=3600)
        viol = [l for l in out.splitlines() if l.startswith("VIOLATION")]
        sigs = []
        for v in viol:
            m = re.search(r"replay=(\S+)", v)
            if m and os.path.exists(m.group(1)):
                try:
                    r = json.load(open(m.group(1)))
                    sigs.append(r.get("signature") or r.get("kind"))
                except Exception:
                    pass
        det[c] = {"exit": rc, "violations": len(viol), "signatures": sigs, "tier": tier, "wall_s": round(time.time() - t0, 1),
                  "no_failing_input_found": any("no-failing-input-found" in v for v in viol)}
        meta["ran"].append(f"VERIF_OVERLAY=<overlay of the patch> ./check {c} {tier}")
        print(c, det[c])
        sh([os.path.join(ROOT, "check"), c, "--facts"], cwd=ROOT, env=dict(os.environ))   # facts back to the real tree
    meta["detected_by"] = det
    finish(meta, sd, prop, var)


def finish(meta, sd, prop, var):
    out = os.path.join(ROOT, "seeded", f"{prop}-{var}")
    os.makedirs(out, exist_ok=True)
    for f in os.listdir(sd):
        shutil.copy(os.path.join(sd, f), os.path.join(out, f))
    meta["needs_to_manifest"] = "see README.md (written by the seeding agent)"
    mp = os.path.join(out, "meta.json")
    if os.path.exists(mp):   # keep notes and the results of checks not re-run this time
        try:
            old = json.load(open(mp))
            for k in ("strengthened", "needs_to_manifest", "after_fix", "detected_by_before_strengthening"):
                if k in old and (k not in meta or k == "needs_to_manifest" and not old[k].startswith("see README")):
                    meta[k] = old[k]
            det = dict(old.get("detected_by") or {})
            det.update(meta.get("detected_by") or {})
            meta["detected_by"] = det
            if "confirmed" in old and "note" in old["confirmed"]:
                meta.setdefault("confirmed", {}).setdefault("note", old["confirmed"]["note"])
        except Exception:
            pass
    json.dump(meta, open(mp, "w"), indent=1)
    print(json.dumps(meta["confirmed"]))


if __name__ == "__main__":
    main()
