#!/bin/bash
# tools/seedbatch.sh <worktree-prefix> <P>:<variant>[:extra-checks][:race] ...   -- runs tools/seedtest.py for each, compact output
pre=$1; shift
head=$(git -C /repo rev-parse HEAD)
for spec in "$@"; do
  IFS=: read p v extra race <<<"$spec"
  wt=$pre-$p
  git -C $wt checkout -q -- . 2>/dev/null; git -C $wt clean -fdq -e _seed; git -C $wt checkout -q --detach $head
  args=""
  [ -n "$extra" ] && args="--checks $p,$extra"
  [ "$race" = "race" ] && args="$args --race"
  python3 /verif/tools/seedtest.py $p $wt $v $args 2>&1 | grep -v WARNING | tail -$((2 + $(echo "$extra" | tr ',' '\n' | grep -c .))) | cut -c1-420 | sed "s/^/[$p-$v] /"
done
