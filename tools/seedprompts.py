#!/usr/bin/env python3
"""tools/seedprompts.py <round-tag> <variant> <outdir>   -- writes one seeding prompt per property.

The prompt contains ONLY the property text (from properties.jsonl), the rules of the exercise and the one-line titles of
the changes earlier rounds produced (so that a new round looks for other mechanisms).  Nothing from /verif's machinery.
Worktrees are expected at /tmp/<round-tag>-<P>.
"""
import json, os, re, sys
tag, var, out = sys.argv[1], sys.argv[2], sys.argv[3]
T = '''You are a software engineer asked to play the adversary in a mutation-seeding exercise. You have your own scratch git worktree of a Go repository (ev-node / rollkit: a sovereign-rollup node framework) at {wt}. Work ONLY inside that directory (never touch /repo, never look at /verif or any other directory outside your worktree except the Go module cache and /tmp scratch space you create). No network is available; use `export GOFLAGS=-mod=mod GOPROXY=off` before every go command (do not set GOSUMDB=off); the repository has several Go modules (root, core/, da/, sequencers/single, sequencers/based, apps/testapp) — run `go test` inside the module that contains the package.

Here is a behavioural property the system is supposed to satisfy:

PROPERTY {id} — {title}
{statement}
It must hold: {quant}
Code involved: {files}

Your task: produce ONE change ("{var}") to the repository's non-test source code, which BREAKS this property while (1) everything still compiles (`go build ./...` and `go vet` are clean in the affected module, also with `-tags verif`), and (2) the existing test-suite of the affected module(s) still passes exactly as it does without the change (run `go test -count=1 ./...` in the affected module(s) before and after; a test that already fails or is flaky on the unchanged tree may keep failing, nothing else may change). The change should look like a plausible slip or "optimisation" a developer could make (2–25 changed lines), not sabotage, and it must need something SPECIFIC to manifest — a particular interleaving, a crash or fault at a particular point, a multi-step sequence of operations, an unusual input or configuration, or two cooperating sites that each look fine alone — not something that ordinary use or the simplest happy-path run would expose at once.

Deliver, under {wt}/_seed/{var}:
- `patch.diff`: `git diff` of the source change only (no test files), applicable with `git apply` at the repository root;
- a demonstration: a Go test file (give its intended path in the repo in a header comment, e.g. `// place at block/zz_seed_test.go`) or a small program, that FAILS with the change applied and PASSES on the unchanged tree, exercising the real code (you may write package-internal tests and use the existing test helpers/mocks of the package); keep it deterministic and under ~10 s;
- `README.md`: first line `# <one-line title of the change>`, then what the change is, why it breaks the property, exactly what is needed for it to manifest, and the exact commands you ran (build, vet, existing tests before/after, demonstration before/after) with their outcomes.
Verify all of that yourself before finishing, then restore the worktree to the unchanged state except for the `_seed` directory (`git checkout -- . && git clean -fd -e _seed`). Final answer: a short summary of {var} (one paragraph) and whether every verification step succeeded.

IMPORTANT: never use `git stash` (the stash is shared between all worktrees of the repository and other agents work in sibling worktrees); to switch between the changed and the unchanged tree use `git diff > /tmp/<yourfile>.patch; git checkout -- .; git apply /tmp/<yourfile>.patch`.

Earlier rounds of this exercise already produced the following changes for this property; yours must use a DIFFERENT mechanism and preferably a different code site. Think about what nobody tried yet: an interaction between TWO components that each look fine alone; behaviour that depends on configuration values at their extremes; an error path taken once; arithmetic at a boundary (off by one at a height, a size, a count); state kept across restarts in the wrong place; ordering of two independent side effects; a resource limit; a retry that is not idempotent; something that only shows after several repetitions of a cycle; a helper shared with another component whose change looks harmless there:
{prior}
The repository has moved on since the property was written (about 28 defects were repaired; `git log --oneline | grep fix:` lists them, read the current code) — do not simply revert one of those fixes.
'''
root = os.path.dirname(os.path.dirname(os.path.abspath(__file__)))
prior = {}
for d in sorted(os.listdir(os.path.join(root, 'seeded'))):
    rd = os.path.join(root, 'seeded', d, 'README.md')
    if not os.path.isdir(os.path.join(root, 'seeded', d)):
        continue
    t = open(rd).read() if os.path.exists(rd) else ''
    m = re.search(r'^#\s*(.+)$', t, re.M)
    prior.setdefault(d.split('-')[0], []).append((m.group(1) if m else d).strip())
os.makedirs(out, exist_ok=True)
for l in open(os.path.join(root, 'properties.jsonl')):
    p = json.loads(l)
    open(os.path.join(out, p['id'] + '.txt'), 'w').write(T.format(
        wt=f"/tmp/{tag}-{p['id']}", id=p['id'], title=p['title'], statement=p['statement'], quant=p['quantifier']['text'],
        files=', '.join(p['anchors']['files']), var=var, prior="\n".join("- " + x for x in prior.get(p['id'], []))))
print("wrote", len(os.listdir(out)), "prompts to", out)
