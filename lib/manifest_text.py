HOOK_COMMITS = ["ff0d111", "d7fcc9b", "06a45ce", "e439313", "190fabf", "bee1fc4", "d03a636", "60a3510", "6cf9a56"]

# reasons for properties that are not claimed
NOT_APPLICABLE = {}
