HOOK_COMMITS = ["ff0d111", "d7fcc9b"]

# reasons for properties that are not claimed
NOT_APPLICABLE = {}
