HOOK_COMMITS = ["ff0d111", "d7fcc9b"]

NOT_APPLICABLE = {}

TEXT = {
    "C12": {
        "level": "Machine-checked Lean 4 theorems about an executable model of the protobuf wire codec, the typed conversions of types/serialization.go and the three hashes: round trip for every value, canonical re-encoding for every byte string the decoder accepts, commitment independent of metadata, golden bytes/hashes by kernel evaluation against facts regenerated from /repo on every run (and pinned copies). The model is tied to the code by differential execution on typed values and mutated byte strings through every decoder.",
        "note": "Trusted: Lean kernel; factgen; the correspondence harness; protobuf-go, gob, libp2p key parsing and Go's SHA-256 are modelled (the model is compared with them on every run), not verified. Decoder totality ('never panics') is a theorem about the Lean decoder and an exploration (recover-guarded stream) for protobuf-go.",
        "technique": "Lean 4 proof (round-trip / canonicity theorems, kernel-evaluated golden vectors) + differential correspondence with the real codec",
    },
}
