"""Per-property configuration of ./check: Lean Spec modules, correspondence streams, trusted base."""

COMMON_TRUSTED = [
    "translator: /verif/harness/cmd/factgen (Go; regenerates lean/Gen/*.lean from /repo on every run)",
    "correspondence check: /verif/harness (Go, real code in-process) vs lean driver, line protocol + diff",
]

PROPS = {
    "C12": {
        "spec": ["Spec.C12"],
        "gen": ["C12"],
        "pinned": ["C12"],
        "streams": ["C12"],
        "thorough_seeds": 4,
        "trusted": COMMON_TRUSTED + [
            "modelled, not verified: protobuf-go (wire codec), encoding/gob, libp2p public-key (un)marshalling (parameter keyOk), crypto/sha256 (Lean SHA-256 model tied by golden vectors and the stream)",
        ],
        "assumptions": [
            "values are within the Go types' ranges (uint64 fields < 2^64, field numbers < 2^29)",
            "protobuf-go writes known fields in field-number order (observed behaviour, checked by the stream on every run)",
        ],
    },
}
