"""Per-property configuration of ./check, loaded from /verif/props/<ID>.json (one file per property):
  spec: Lean modules holding the property theorems; gen: Gen modules they mention (regenerated every run);
  pinned: Gen modules that must equal golden/<name>.lean; streams: correspondence streams (harness binary
  cmd/<id> + lean exe drv_<ID>); manifest: {level, note, technique}; trusted, assumptions, timeout, thorough_seeds."""
import json, os, glob

_ROOT = os.path.dirname(os.path.dirname(os.path.abspath(__file__)))
COMMON_TRUSTED = [
    "translator: /verif/harness facts sub-command (Go; regenerates lean/Gen/*.lean from /repo on every run)",
    "correspondence check: /verif/harness (Go, real code in-process) vs compiled Lean driver, line protocol + diff",
]
PROPS = {}
for _f in sorted(glob.glob(os.path.join(_ROOT, "props", "C*.json"))):
    _p = json.load(open(_f))
    _p["trusted"] = COMMON_TRUSTED + _p.get("trusted", [])
    PROPS[_p["id"]] = _p
