#!/usr/bin/env python3
"""Regenerates MANIFEST.json from lib/props.py and lib/manifest_text.py (claims per property)."""
import json, os, sys
sys.path.insert(0, os.path.dirname(os.path.abspath(__file__)))
from props import PROPS
from manifest_text import NOT_APPLICABLE, HOOK_COMMITS
TEXT = {k: v['manifest'] for k, v in PROPS.items() if 'manifest' in v}

ROOT = os.path.dirname(os.path.dirname(os.path.abspath(__file__)))
ids = [json.loads(l)["id"] for l in open(os.path.join(ROOT, "properties.jsonl"))]
checks = []
for pid in ids:
    if pid not in PROPS or pid not in TEXT:
        continue
    t = TEXT[pid]
    checks.append({
        "property_id": pid,
        "quick_cmd": f"./check {pid} quick",
        "thorough_cmd": f"./check {pid} thorough",
        "evidence_file": f"/verif/evidence/{pid}.json",
        "replay_cmd_template": f"./check {pid} --replay {{path}}",
        "engine": "lean4-proof+correspondence",
        "level_claimed": {"category": "proof", "text": t["level"], "design_ref": t.get("ref", "DESIGN.md §5 " + pid)},
        "level_note": t["note"],
        "technique": t["technique"],
    })
na = [{"property_id": p, "reason": NOT_APPLICABLE.get(p, "machinery for this property is not built yet; not claimed")} for p in ids if p not in {c["property_id"] for c in checks}]
m = {
    "version": 1,
    "setup_cmd": "./check --setup",
    "hooks": {
        "guard": "verif",
        "enable": "go build -tags verif (the harness module /verif/harness replaces github.com/evstack/ev-node and its sub-modules by /repo)",
        "baseline_off_cmd": "for m in $(cat /w/out/gomods.txt); do MF=$(cd /repo/$m && . /w/out/goenv.sh && gomodflag); (cd /repo/$m && go test $MF -json -vet=off -count=1 -timeout 25m ./...); done",
        "source_commits": HOOK_COMMITS,
        "add_only": True,
    },
    "engines": [
        {"name": "lean4-proof+correspondence", "path": "/verif/lean, /verif/harness, /verif/check",
         "serves_properties": [c["property_id"] for c in checks],
         "kind_free_text": "Lean 4 theorems about executable models (lean/Model, lean/Spec); models tied to /repo on every run by regenerated facts (the `facts` sub-command of each harness/cmd/<property> binary -> lean/Gen) and by differential execution of the real code against the compiled Lean driver; Go monitors search the real code for a failing input"},
    ],
    "checks": checks,
    "not_applicable": na,
    "notes": "All checks: exit 0 / 'VIOLATION property=<id> replay=<path>' contract; KNOWN-FINDING lines for defects listed in /verif/known-findings.json. VERIF_SEED seeds every generator. Exit 0 ('OK') means: every proof obligation of the property checked against facts regenerated from the current tree, the correspondence between model and real code held on everything generated, and no violation outside known-findings.json was found. It does NOT mean the property holds in full when a KNOWN-FINDING line is printed: that line says the current code still violates the property at exactly that recorded point (DESIGN.md 6.2 lists them: C02/C05, C07, C08, C10, C11, C12, C16, C17, C18, C19 at the time of writing); the theorems of those properties keep the full statement as a definition with a kernel-checked counter-witness and prove the strongest partial statement. 'theorems=N' in the OK line counts the theorem declarations of the property's Spec module(s) (witness and helper theorems included, one module may serve several properties): it is not a count of property clauses. C13 is claimed partial (shutdown protocol proved, data-race freedom and latencies explored).",
}
json.dump(m, open(os.path.join(ROOT, "MANIFEST.json"), "w"), indent=1)
print("checks:", [c["property_id"] for c in checks], "n/a:", len(na))
