import Model.CacheDir
import Gen.C04

/-! The facts about `pkg/cache` of the tree being checked: `Gen/C04.lean` is regenerated on every run by probing the
compiled code (harness `facts`: the real `SaveToDisk` run in a child process under `strace` over an existing directory —
`cacheSaveAtomic` = nothing in place ∧ rename only ∧ sync before the rename ∧ the inode/hard-link cross-check; the real
`LoadFromDisk` beside truncated `.tmp` files).  The compiled driver
(`MainC01`, `MainC04`) and the theorems of `Spec.C04` use the model at exactly these facts. -/
namespace CacheDir

def tree : Facts := { saveAtomic := Gen.C04.cacheSaveAtomic, loadIgnoresTmp := Gen.C04.cacheLoadIgnoresTmp }

end CacheDir
