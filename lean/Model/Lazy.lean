/-!
# Model/Lazy — the aggregation loop of `block/aggregation.go` as a discrete-time automaton

Time is a natural number of milliseconds.  One `step` is either an external call of
`Manager.NotifyNewTransactions` (`In.notify`) or one scheduling quantum of the loop goroutine
(`In.tick pick dur`):

* while a production (`publishBlock`) is in flight the quantum lets one millisecond pass, and at
  its end executes the code after `publishBlock` returned (`finish`: both `Reset`s of
  `produceBlock`, then `m.txsAvailable = false` on the block-timer path);
* at the `select`: if no case is ready one millisecond passes; if some are ready Go picks one
  *arbitrarily* — `pick` is that choice (index modulo the number of ready cases, in source order
  lazyTimer, blockTimer, txNotifyCh) — and the case body runs in zero time.  A case body that
  calls `produceBlock` starts a production of duration `dur` and reports its start time.

Urgency (time only passes when the goroutine is blocked) is built into `step`.
Timers: a timer is represented by its deadline; `Reset d` at time `t` sets the deadline `t + d`
and (go ≥ 1.23, which go.mod requires) discards a tick that fired earlier, so a deadline is the
complete state of a timer.  Both timers are armed whenever the loop is at the `select`.
`ctx.Done()` is not modelled: a run simply ends.
-/
namespace Lazy

/-- `config.Node`: `BlockTime`, `LazyBlockInterval`, `LazyMode` (milliseconds). -/
structure Cfg where
  block : Nat
  idle : Nat
  lazy : Bool
  deriving Repr, DecidableEq, BEq

/-- `getRemainingSleep(start, interval)` evaluated `elapsed` ms after `start`
(aggregation.go:129-137). -/
def remaining (elapsed interval : Nat) : Nat :=
  if elapsed < interval then interval - elapsed else 1

/-- an in-flight `publishBlock`: `start := time.Now()` of `produceBlock`, the time at which it
returns, and whether it was started from the block-timer case of the lazy loop (the only path
that clears `txsAvailable` afterwards). -/
structure Flight where
  start : Nat
  fin : Nat
  viaBlock : Bool
  deriving Repr, DecidableEq, BEq

structure St where
  now : Nat
  /-- deadline of `lazyTimer` (lazy mode only) -/
  lazyT : Nat
  /-- deadline of `blockTimer` -/
  blockT : Nat
  /-- `m.txsAvailable` -/
  txs : Bool
  /-- `len(m.txNotifyCh) = 1` (capacity 1) -/
  chan : Bool
  flight : Option Flight
  deriving Repr, DecidableEq, BEq

/-- `time.NewTimer(0)` twice, empty channel, flag false (manager.go:391,400; aggregation.go:34,54). -/
def init : St := { now := 0, lazyT := 0, blockT := 0, txs := false, chan := false, flight := none }

inductive Case | lazyTimer | blockTimer | notif
  deriving Repr, DecidableEq, BEq

inductive In
  | notify
  | tick (pick dur : Nat)
  deriving Repr, DecidableEq, BEq

/-- ready cases of the `select`, in source order (the normal loop has no lazy timer). -/
def enabled (c : Cfg) (s : St) : List Case :=
  (if c.lazy = true ∧ s.lazyT ≤ s.now then [Case.lazyTimer] else []) ++
  (if s.blockT ≤ s.now then [Case.blockTimer] else []) ++
  (if s.chan = true then [Case.notif] else [])

def choose (pick : Nat) : List Case → Option Case
  | [] => none
  | e :: es => some ((e :: es).getD (pick % (es.length + 1)) e)

def startFlight (s : St) (dur : Nat) (viaBlock : Bool) : St :=
  { s with flight := some { start := s.now, fin := s.now + dur, viaBlock := viaBlock } }

/-- body of the chosen `select` case; returns the production start if one begins. -/
def fire (c : Cfg) (s : St) (k : Case) (dur : Nat) : St × List Nat :=
  match k with
  | .lazyTimer => (startFlight s dur false, [s.now])
  | .blockTimer =>
    if c.lazy = true then
      if s.txs = true then (startFlight s dur true, [s.now])
      else ({ s with blockT := s.now + c.block }, [])     -- blockTimer.Reset(BlockTime)
    else (startFlight s dur false, [s.now])                -- normal loop: always produce
  | .notif => ({ s with chan := false, txs := true }, [])

/-- code after `publishBlock` returned: `Reset(getRemainingSleep(start, …))` for both timers
(normal loop: block timer only), then `txsAvailable = false` on the block-timer path. -/
def finish (c : Cfg) (s : St) (f : Flight) : St :=
  { s with
    lazyT := if c.lazy = true then s.now + remaining (s.now - f.start) c.idle else s.lazyT
    blockT := s.now + remaining (s.now - f.start) c.block
    txs := if f.viaBlock = true then false else s.txs
    flight := none }

def advance (s : St) : St := { s with now := s.now + 1 }

def step (c : Cfg) (s : St) : In → St × List Nat
  | .notify => ({ s with chan := true }, [])      -- non-blocking send: a full channel stays full
  | .tick pick dur =>
    match s.flight with
    | some f => if s.now < f.fin then (advance s, []) else (finish c s f, [])
    | none =>
      match choose pick (enabled c s) with
      | none => (advance s, [])
      | some k => fire c s k dur

/-- a run: final state and the production starts in order. -/
def run (c : Cfg) : St → List In → St × List Nat
  | s, [] => (s, [])
  | s, i :: is =>
    let r := step c s i
    let r' := run c r.1 is
    (r'.1, r.2 ++ r'.2)

/-! ## The start of `AggregationLoop` (aggregation.go:11-33)

```go
if height < initialHeight { delay = time.Until(genesis.GenesisDAStartTime.Add(BlockTime)) }
else                      { delay = time.Until(m.getLastBlockTime().Add(BlockTime)) }
if delay > 0 { select { case <-ctx.Done(): return; case <-time.After(delay): } }
blockTimer := time.NewTimer(0) …            // then the lazy / normal loop
```

The wait is a `select` on the context and ONE timer: `txNotifyCh` is not a case of it, so a call of
`NotifyNewTransactions` during the wait only fills the one-slot channel, where it is still pending
when the loop proper starts (`enter`).  Nothing is produced during the wait. -/

/-- the instant the wait refers to: genesis time while nothing has been produced
(`height < initialHeight`), the time of the last block otherwise. -/
def startRef (height initialHeight genesisT lastT : Nat) : Nat :=
  if height < initialHeight then genesisT else lastT

/-- `delay = time.Until(ref.Add(BlockTime))` evaluated at `now`; `if delay > 0` is the clipping of
the subtraction of naturals. -/
def startDelay (c : Cfg) (ref now : Nat) : Nat := ref + c.block - now

/-- `AggregationLoop` from its first line: in the start-up wait (`wake` = deadline of
`time.After(delay)`, `chan` = `len(m.txNotifyCh) = 1`) or in the lazy / normal loop. -/
inductive Sys
  | waiting (now wake : Nat) (chan : Bool)
  | running (s : St)
  deriving Repr, DecidableEq, BEq

/-- the loop proper starts: `time.NewTimer(0)` twice at `now`, `txsAvailable` false, the channel as
the wait left it. -/
def enter (now : Nat) (chan : Bool) : St :=
  { now := now, lazyT := now, blockT := now, txs := false, chan := chan, flight := none }

/-- `AggregationLoop` called at `t0` with reference instant `ref` (see `startRef`). -/
def boot (c : Cfg) (ref t0 : Nat) : Sys := .waiting t0 (t0 + startDelay c ref t0) false

def Sys.now : Sys → Nat
  | .waiting now _ _ => now
  | .running s => s.now

def sysStep (c : Cfg) : Sys → In → Sys × List Nat
  | .waiting now wake _, .notify => (.waiting now wake true, [])
  | .waiting now wake chan, .tick _ _ =>
    if now < wake then (.waiting (now + 1) wake chan, [])   -- blocked in the start-up `select`
    else (.running (enter now chan), [])                     -- `time.After` fired / no delay
  | .running s, i => let r := step c s i; (.running r.1, r.2)

def sysRun (c : Cfg) : Sys → List In → Sys × List Nat
  | s, [] => (s, [])
  | s, i :: is =>
    let r := sysStep c s i
    let r' := sysRun c r.1 is
    (r'.1, r.2 ++ r'.2)

/-- what the loop would be if `txNotifyCh` were a case of the start-up `select` (which is not in a
`for`): a notification ends the wait.  Not the code; used by `Spec.C17.startup_wait_must_ignore_notifications`. -/
def sysStepEager (c : Cfg) : Sys → In → Sys × List Nat
  | .waiting now _ true, .tick _ _ =>
    (.running { enter now false with txs := true }, [])
  | s, i => sysStep c s i

def sysRunEager (c : Cfg) : Sys → List In → Sys × List Nat
  | s, [] => (s, [])
  | s, i :: is =>
    let r := sysStepEager c s i
    let r' := sysRunEager c r.1 is
    (r'.1, r.2 ++ r'.2)

end Lazy
