import Model.Wire

/-!
# Chain vocabulary shared by the block-manager models (producer, syncer, submitter, includer)

* symbolic signatures (`Model/Crypto` of DESIGN §4): a signature is either absent, garbage, or
  "made with key `k` over payload `p`"; `verify k p s` holds exactly for `Sig.by k p`.
* the **abstract block store** the block manager programs against: height, blocks by height,
  state, metadata; every mutation is one *atomic* write (`SW`).  That the real `pkg/store` over a
  datastore refines this interface (one batch per block save, monotone height, key families
  disjoint) is property C14 (`Model/Store`, `Spec/C14`).
-/

namespace Chain
open Wire

abbrev KeyId := Nat

inductive Sig
  | none
  | garbage (b : Bytes)
  | by (k : KeyId) (payload : Bytes)
  deriving Repr, DecidableEq, Inhabited

def Sig.isEmpty : Sig → Bool
  | .none => true
  | _ => false

def verify (k : KeyId) (payload : Bytes) : Sig → Bool
  | .by k' p' => k = k' && payload = p'
  | _ => false

/-- `types.Signer`: address + optional public key (identified by the key id) -/
structure MSigner where
  addr : Bytes := []
  key : Option KeyId := none
  deriving Repr, DecidableEq, Inhabited

structure SHeader where
  hdr : Header := {}
  sig : Sig := .none
  signer : MSigner := {}
  deriving Repr, DecidableEq, Inhabited

/-- what `SaveBlockData(header, data, &signature)` stores for one height -/
structure Block where
  sh : SHeader := {}
  data : Data := {}
  savedSig : Sig := .none
  deriving Repr, DecidableEq, Inhabited

/-- `types.State` (times in ns since the epoch) -/
structure State where
  version : Version := {}
  chainId : String := ""
  initialHeight : Nat := 0
  lastHeight : Nat := 0
  lastTime : Nat := 0
  daHeight : Nat := 0
  appHash : Bytes := []
  deriving Repr, DecidableEq, Inhabited

/-- `SignedHeader.ValidateBasic` with the default payload provider -/
inductive VErr
  | noProposer | sigEmpty | addrMismatch | noKey | badSig
  | dataMismatch | dataHash | chainId | height | time | appHash
  deriving Repr, DecidableEq, Inhabited

def payload (h : Header) : Bytes := h.encode

def validateBasic (sh : SHeader) : Option VErr :=
  if sh.hdr.proposerAddress = [] then some .noProposer
  else if sh.sig.isEmpty then some .sigEmpty
  else if sh.hdr.proposerAddress ≠ sh.signer.addr then some .addrMismatch
  else match sh.signer.key with
    | none => some .noKey        -- (the Go code would dereference a nil key here)
    | some k => if verify k (payload sh.hdr) sh.sig then none else some .badSig

/-- `types.Validate(header, data)` -/
def validateData (sh : SHeader) (d : Data) : Option VErr :=
  match d.metadata with
  | some m =>
    if sh.hdr.chainId ≠ m.chainId ∨ sh.hdr.height ≠ m.height ∨ sh.hdr.time ≠ m.time then some .dataMismatch
    else if d.daCommitment ≠ sh.hdr.dataHash then some .dataHash else none
  | none => if d.daCommitment ≠ sh.hdr.dataHash then some .dataHash else none

/-- `Manager.execValidate(lastState, header, data)` — shared by producer and syncer -/
def execValidate (st : State) (sh : SHeader) (d : Data) : Option VErr :=
  match validateBasic sh with
  | some e => some e
  | none =>
    match validateData sh d with
    | some e => some e
    | none =>
      if sh.hdr.chainId ≠ st.chainId then some .chainId
      else if sh.hdr.height ≠ st.lastHeight + 1 then some .height
      else if sh.hdr.height > 1 ∧ sh.hdr.time < st.lastTime then some .time
      else if sh.hdr.appHash ≠ st.appHash then some .appHash
      else none

/-- `State.NextState` -/
def nextState (st : State) (h : Header) (root : Bytes) : State :=
  { st with lastHeight := h.height, lastTime := h.time, appHash := root }

/-- the execution double of the harness: `root' = sha256 (root ‖ tx₁ ‖ tx₂ …)` -/
def execRoot (prev : Bytes) (txs : List Bytes) : Bytes := sha256 (prev ++ txs.flatten)

/-! ## abstract store -/

structure Store where
  height : Nat := 0
  blocks : List (Nat × Block) := []     -- association list, latest save first
  state : Option State := none
  kv : List (String × Bytes) := []
  deriving Repr, Inhabited

/-- one atomic durable write -/
inductive SW
  | saveBlock (h : Nat) (b : Block)
  | setHeight (h : Nat)
  | updateState (s : State)
  | setMeta (k : String) (v : Bytes)
  deriving Repr, Inhabited

def Store.getBlock (s : Store) (h : Nat) : Option Block := (s.blocks.find? (·.1 = h)).map (·.2)
def Store.getMeta (s : Store) (k : String) : Option Bytes := (s.kv.find? (·.1 = k)).map (·.2)

def Store.apply (s : Store) : SW → Store
  | .saveBlock h b => { s with blocks := (h, b) :: s.blocks }
  | .setHeight h => if h > s.height then { s with height := h } else s
  | .updateState st => { s with state := some st }
  | .setMeta k v => { s with kv := (k, v) :: s.kv }

def Store.applyAll (s : Store) (ws : List SW) : Store := ws.foldl Store.apply s

/-- a crash after the first `n` atomic writes of `ws` -/
def Store.applyPrefix (s : Store) (n : Nat) (ws : List SW) : Store := s.applyAll (ws.take n)

/-- `setHeight` issues a write only when the height grows (`DefaultStore.SetHeight`) -/
def setHeightW (s : Store) (h : Nat) : List SW := if h > s.height then [.setHeight h] else []

def le64 (n : Nat) : Bytes := Bytes.le 8 n

end Chain
