import Model.Bytes

/-!
# Model of the reference key-value executor (`/repo/apps/testapp/kv/kvexecutor.go`)

Go strings are byte sequences, so keys are `Bytes` (a Lean `String` could not hold the non-UTF-8 keys a
transaction can produce).  The datastore (badger through go-ds-badger4, no key transform) is a finite
map; it is modelled as an association list **sorted strictly ascending by bytewise lexicographic key
order** – the order of Go's `sort.Strings`, which `computeStateRoot` applies to the queried keys.

Everything is mirrored *as coded*.  There are three reserved keys – the two genesis keys and
`/finalizedHeight` (written by `SetFinal`): `computeStateRoot` skips them and `ExecuteTxs` rejects a
transaction that names one of them (since /repo commit 511b618; before it `/finalizedHeight` was an
ordinary hashed key and the root depended on finalize timing).
-/
namespace KVExec

abbrev Key := Bytes
abbrev Store := List (Key × Bytes)

/-! ## byte-string order (Go `<` on strings) -/

def blt : Bytes → Bytes → Bool
  | [], [] => false
  | [], _ :: _ => true
  | _ :: _, [] => false
  | a :: as, b :: bs => decide (a.toNat < b.toNat) || (decide (a.toNat = b.toNat) && blt as bs)

/-! ## the datastore as a sorted association list -/

/-- `Put`: replace the value of an existing key or insert at the sorted position. -/
def put (k : Key) (v : Bytes) : Store → Store
  | [] => [(k, v)]
  | (k', v') :: r =>
    if k = k' then (k, v) :: r
    else if blt k k' then (k, v) :: (k', v') :: r
    else (k', v') :: put k v r

/-- `Get` / `Has` -/
def get? (k : Key) : Store → Option Bytes
  | [] => none
  | (k', v') :: r => if k = k' then some v' else get? k r

/-- a staged batch committed atomically: puts applied in order (a later put of the same key wins) -/
def applyWrites (ws : List (Key × Bytes)) (s : Store) : Store :=
  ws.foldl (fun s w => put w.1 w.2 s) s

/-! ## constants (ASCII literals spelled as bytes so that the kernel can evaluate them) -/

/-- `"/genesis/initialized"` -/
def genInitKey : Key := [47,103,101,110,101,115,105,115,47,105,110,105,116,105,97,108,105,122,101,100]
/-- `"/genesis/stateroot"` -/
def genRootKey : Key := [47,103,101,110,101,115,105,115,47,115,116,97,116,101,114,111,111,116]
/-- `"/finalizedHeight"` -/
def finalKey : Key := [47,102,105,110,97,108,105,122,101,100,72,101,105,103,104,116]
/-- `"true"` -/
def trueBytes : Bytes := [116,114,117,101]
/-- capacity of the mempool channel (`txChannelBufferSize`) -/
def mempoolCap : Nat := 10000
/-- the constant gas value returned by `InitChain` / `ExecuteTxs` -/
def gasConst : Nat := 1024

/-- the reserved keys: `genesisInitializedKey`, `genesisStateRootKey`, `finalizedHeightKey` -/
def isReserved (k : Key) : Bool := k = genInitKey || k = genRootKey || k = finalKey

/-! ## `ds.NewKey`: `path.Clean("/" + s)` -/

/-- split at every `/` (0x2f) -/
def splitSlash : Bytes → List Bytes
  | [] => [[]]
  | b :: r =>
    if b = 47 then [] :: splitSlash r
    else match splitSlash r with
      | [] => [[b]]
      | c :: cs => (b :: c) :: cs

/-- resolve the components of a rooted path; `acc` is the stack of kept components, innermost first -/
def resolve (acc : List Bytes) : List Bytes → List Bytes
  | [] => acc.reverse
  | c :: cs =>
    if c = [] ∨ c = [46] then resolve acc cs          -- "" and "."
    else if c = [46, 46] then resolve acc.tail cs     -- "..": pop (nothing to pop at the root)
    else resolve (c :: acc) cs

def joinSlash : List Bytes → Bytes
  | [] => []
  | c :: cs => 47 :: c ++ joinSlash cs

/-- `ds.NewKey(s).String()`: the empty string and everything that cleans to the root give `"/"`. -/
def newKey (s : Bytes) : Key :=
  match resolve [] (splitSlash s) with
  | [] => [47]
  | cs => joinSlash cs

/-! ## `strings.TrimSpace` on the bytes of a Go string (`unicode.IsSpace`, invalid UTF-8 is not space) -/

/-- remove one leading white-space rune, if there is one -/
def stripWs : Bytes → Option Bytes
  | 0x09 :: r | 0x0a :: r | 0x0b :: r | 0x0c :: r | 0x0d :: r | 0x20 :: r => some r
  | 0xc2 :: 0x85 :: r | 0xc2 :: 0xa0 :: r => some r                   -- U+0085, U+00A0
  | 0xe1 :: 0x9a :: 0x80 :: r => some r                                 -- U+1680
  | 0xe2 :: 0x80 :: c :: r =>                                            -- U+2000–200A, 2028, 2029, 202F
    if (0x80 ≤ c ∧ c ≤ 0x8a) ∨ c = 0xa8 ∨ c = 0xa9 ∨ c = 0xaf then some r else none
  | 0xe2 :: 0x81 :: 0x9f :: r => some r                                 -- U+205F
  | 0xe3 :: 0x80 :: 0x80 :: r => some r                                 -- U+3000
  | _ => none

/-- the same on the reversed string (a trailing white-space rune) -/
def stripWsRev : Bytes → Option Bytes
  | 0x09 :: r | 0x0a :: r | 0x0b :: r | 0x0c :: r | 0x0d :: r | 0x20 :: r => some r
  | 0x85 :: 0xc2 :: r | 0xa0 :: 0xc2 :: r => some r
  | 0x80 :: 0x9a :: 0xe1 :: r => some r
  | 0x9f :: 0x81 :: 0xe2 :: r => some r
  | 0x80 :: 0x80 :: 0xe3 :: r => some r
  | c :: 0x80 :: 0xe2 :: r =>
    if (0x80 ≤ c ∧ c ≤ 0x8a) ∨ c = 0xa8 ∨ c = 0xa9 ∨ c = 0xaf then some r else none
  | _ => none

def trimWith (f : Bytes → Option Bytes) : Nat → Bytes → Bytes
  | 0, s => s
  | n + 1, s => match f s with
    | some r => trimWith f n r
    | none => s

def trimSpace (s : Bytes) : Bytes :=
  let l := trimWith stripWs s.length s
  (trimWith stripWsRev l.length l.reverse).reverse

/-! ## transactions -/

inductive Err where
  | malformed      -- no '='
  | emptyKey       -- key empty after trimming
  | reserved       -- key normalises to a reserved key (genesis keys, /finalizedHeight)
  | zeroHeight     -- SetFinal(0)
  | genesisCorrupt -- initialised flag present but genesis root missing (unreachable)
  deriving DecidableEq, Repr

/-- `strings.SplitN(s, "=", 2)`: `none` when there is no `=` (0x3d) -/
def splitEq : Bytes → Option (Bytes × Bytes)
  | [] => none
  | b :: r =>
    if b = 61 then some ([], r)
    else match splitEq r with
      | some (k, v) => some (b :: k, v)
      | none => none

/-- one loop iteration of `ExecuteTxs`: the write staged for a transaction, or the error returned -/
def parseTx (tx : Bytes) : Except Err (Key × Bytes) :=
  match splitEq tx with
  | none => .error .malformed
  | some (k, v) =>
    let key := trimSpace k
    let value := trimSpace v
    if key = [] then .error .emptyKey
    else
      let dsKey := newKey key
      if isReserved dsKey then .error .reserved
      else .ok (dsKey, value)

/-- the staging loop: the writes of the whole block, or the first error (nothing is committed then) -/
def stage : List Bytes → Except Err (List (Key × Bytes))
  | [] => .ok []
  | tx :: r =>
    match parseTx tx with
    | .error e => .error e
    | .ok w =>
      match stage r with
      | .error e => .error e
      | .ok ws => .ok (w :: ws)

/-! ## state root -/

def entryBytes (e : Key × Bytes) : Bytes := e.1 ++ 58 :: e.2 ++ [59]     -- "%s:%s;"

/-- the part of the store that `computeStateRoot` looks at: everything but the three reserved keys -/
def user (s : Store) : Store := s.filter fun e => !isReserved e.1

def rootRaw : Store → Bytes
  | [] => []
  | e :: r => entryBytes e ++ rootRaw r

/-- `computeStateRoot` -/
def root (s : Store) : Bytes := rootRaw (user s)

/-! ## executor -/

structure St where
  store : Store := []
  /-- contents of the buffered channel, oldest first -/
  mempool : List Bytes := []
  deriving DecidableEq, Repr

inductive Res where
  | ok (root : Bytes)
  | err (e : Err)
  deriving DecidableEq, Repr

/-- decimal digits of `n` (`fmt.Sprintf("%d", n)`), fuel-based so that the kernel evaluates it -/
def decAux : Nat → Nat → Bytes → Bytes
  | 0, _, acc => acc
  | f + 1, n, acc =>
    let acc' := (48 + n % 10).toUInt8 :: acc
    if n / 10 = 0 then acc' else decAux f (n / 10) acc'

def dec (n : Nat) : Bytes := decAux (n + 1) n []

def initChain (s : St) : St × Res :=
  match get? genInitKey s.store with
  | some _ =>
    match get? genRootKey s.store with
    | some r => (s, .ok r)
    | none => (s, .err .genesisCorrupt)
  | none =>
    let r := root s.store
    ({ s with store := put genInitKey trueBytes (put genRootKey r s.store) }, .ok r)

def executeTxs (s : St) (txs : List Bytes) : St × Res :=
  match stage txs with
  | .error e => (s, .err e)
  | .ok ws =>
    let st := applyWrites ws s.store
    ({ s with store := st }, .ok (root st))

/-- `SetFinal`: a plain `Put` of the reserved key `/finalizedHeight` (never hashed, see `user`) -/
def setFinal (s : St) (h : Nat) : St × Option Err :=
  if h = 0 then (s, some .zeroHeight)
  else ({ s with store := put finalKey (dec h) s.store }, none)

/-- non-blocking send: dropped when the channel is full -/
def injectTx (s : St) (tx : Bytes) : St :=
  if s.mempool.length < mempoolCap then { s with mempool := s.mempool ++ [tx] } else s

/-- drains the channel -/
def getTxs (s : St) : St × List Bytes := ({ s with mempool := [] }, s.mempool)

/-- close the database and construct a new executor on the same directory: the channel is new -/
def reopen (s : St) : St := { s with mempool := [] }

/-- `GetStoreValue` -/
def getStoreValue (s : St) (key : Bytes) : Option Bytes := get? (newKey key) s.store

/-! ## histories -/

inductive Op where
  | init
  | exec (txs : List Bytes)
  | final (h : Nat)
  | inject (tx : Bytes)
  | getTxs
  | reopen
  deriving DecidableEq, Repr

def step (s : St) : Op → St
  | .init => (initChain s).1
  | .exec txs => (executeTxs s txs).1
  | .final h => (setFinal s h).1
  | .inject tx => injectTx s tx
  | .getTxs => (getTxs s).1
  | .reopen => reopen s

def run (ops : List Op) : St := ops.foldl step {}

end KVExec
