import Model.Bytes
/-!
# The genesis file (pkg/genesis/genesis.go, io.go)

`Genesis.Save` = `json.MarshalIndent(g, "", "  ")` + `os.WriteFile` (create or TRUNCATE);
`LoadGenesis` = `os.ReadFile` + `json.Unmarshal` + `Validate`.

Three layers:

* **fields** (`encode` / `decodeDoc`): what `encoding/json` does to the four values.  Strings:
  every byte that is not part of a valid UTF-8 sequence becomes U+FFFD.  `time.Time`: RFC 3339 with
  nanoseconds; `MarshalJSON` fails for a year outside 0..9999 (in the value's own zone) and for a
  zone offset of 24 h or more; the seconds of a zone offset are dropped, the wall clock is kept, so
  the instant SHIFTS; the `*time.Location` (its name) is lost.  `[]byte`: nil ↔ `null`, otherwise
  base64.  `uint64`: decimal.
* **text** (`render` / `parse`): the bytes of the file, exactly as `MarshalIndent` lays them out,
  and a parser for that layout (optional white space after the closing brace, nothing else).
* **disk** (`writeTrunc` / `writeNoTrunc`, `loadAt`): paths hold BYTES.  `os.WriteFile` replaces the
  content; a writer that opens without `O_TRUNC` overwrites a prefix and leaves the tail.

A `time.Time` is kept as the wall-clock fields in its own zone (that is what RFC 3339 prints), the
instant is computed from them (`GoTime.unix`).  Core Lean only; structural recursion or fuel.
-/
namespace GenesisFile

instance {ε α : Type} [DecidableEq ε] [DecidableEq α] : DecidableEq (Except ε α) := fun a b =>
  match a, b with
  | .ok x, .ok y => if h : x = y then isTrue (h ▸ rfl) else isFalse (fun e => by cases e; exact h rfl)
  | .error x, .error y => if h : x = y then isTrue (h ▸ rfl) else isFalse (fun e => by cases e; exact h rfl)
  | .ok _, .error _ => isFalse (fun e => by cases e)
  | .error _, .ok _ => isFalse (fun e => by cases e)

/-! ## time -/

/-- Unix seconds of Go's zero `time.Time` (0001-01-01T00:00:00Z) -/
def zeroUnix : Int := -62135596800

/-- days since 1970-01-01 of a proleptic Gregorian date -/
def daysFromCivil (y : Int) (m d : Nat) : Int :=
  let y' : Int := if m ≤ 2 then y - 1 else y
  let era := y' / 400
  let yoe := y' % 400
  let mp : Int := ((m + 9) % 12 : Nat)
  let doy := (153 * mp + 2) / 5 + (d : Int) - 1
  let doe := yoe * 365 + yoe / 4 - yoe / 100 + doy
  era * 146097 + doe - 719468

/-- the inverse direction (used by the driver to turn the op's Unix seconds into wall-clock fields) -/
def civilFromDays (z : Int) : Int × Nat × Nat :=
  let z := z + 719468
  let era := z / 146097
  let doe := z % 146097
  let yoe := (doe - doe / 1460 + doe / 36524 - doe / 146096) / 365
  let y := yoe + era * 400
  let doy := doe - (365 * yoe + yoe / 4 - yoe / 100)
  let mp := (5 * doy + 2) / 153
  let d := doy - (153 * mp + 2) / 5 + 1
  let m := if mp < 10 then mp + 3 else mp - 9
  (if m ≤ 2 then y + 1 else y, m.toNat, d.toNat)

/-- a `time.Time`: wall clock in its own zone, zone offset, name of the location -/
structure GoTime where
  year : Int
  month : Nat
  day : Nat
  hour : Nat
  min : Nat
  sec : Nat
  nsec : Nat
  offSec : Int        -- zone offset east of UTC, SECONDS
  locName : String    -- name of the location the value carries (not part of the instant)
  deriving DecidableEq, Repr

/-- the instant, Unix seconds -/
def GoTime.unix (t : GoTime) : Int :=
  daysFromCivil t.year t.month t.day * 86400 + ((t.hour * 3600 + t.min * 60 + t.sec : Nat) : Int) - t.offSec

/-- `time.Time.IsZero`: the instant is January 1, year 1, 00:00:00 UTC, whatever the location -/
def GoTime.isZero (t : GoTime) : Bool := t.unix == zeroUnix && t.nsec == 0

/-- the `time.Time` of an instant in a zone: `time.Unix(unix, nsec).In(FixedZone(loc, offSec))` -/
def GoTime.ofUnix (unix : Int) (nsec : Nat) (offSec : Int) (loc : String) : GoTime :=
  let l := unix + offSec
  let (y, m, d) := civilFromDays (l / 86400)
  let sod := (l % 86400).toNat
  { year := y, month := m, day := d, hour := sod / 3600, min := sod % 3600 / 60, sec := sod % 60,
    nsec := nsec, offSec := offSec, locName := loc }

/-! ## the genesis and `Validate` -/

structure Genesis where
  chainId : Bytes
  time : GoTime
  initialHeight : Nat
  proposer : Option Bytes   -- `none` = nil slice
  deriving DecidableEq, Repr

/-- the conditions `Validate` refuses, in the order it tests them -/
inductive Refusal where
  | chainId | initialHeight | daStartTime | proposer
  deriving DecidableEq, Repr

def Refusal.toString : Refusal → String
  | .chainId => "chain_id" | .initialHeight => "initial_height"
  | .daStartTime => "da_start_time" | .proposer => "proposer_address"

/-- `Genesis.Validate` as coded -/
def validate (g : Genesis) : Option Refusal :=
  if g.chainId = [] then some .chainId
  else if g.initialHeight < 1 then some .initialHeight
  else if g.time.isZero then some .daStartTime
  else if g.proposer.isNone then some .proposer
  else none

/-! ## layer 1: fields — what `encoding/json` does to the values -/

/-- one step of Go's `utf8.DecodeRune`: `some n` = a valid sequence of `n` bytes starts here,
`none` = the first byte is not the start of a valid sequence (Go: `RuneError`, width 1) -/
def utf8Width : Bytes → Option Nat
  | [] => none
  | b0 :: rest =>
    let cont (b : UInt8) : Bool := 0x80 ≤ b.toNat && b.toNat ≤ 0xBF
    let n0 := b0.toNat
    if n0 < 0x80 then some 1
    else if 0xC2 ≤ n0 && n0 ≤ 0xDF then
      match rest with
      | b1 :: _ => if cont b1 then some 2 else none
      | _ => none
    else if 0xE0 ≤ n0 && n0 ≤ 0xEF then
      match rest with
      | b1 :: b2 :: _ =>
        let lo := if n0 = 0xE0 then 0xA0 else 0x80
        let hi := if n0 = 0xED then 0x9F else 0xBF
        if lo ≤ b1.toNat && b1.toNat ≤ hi && cont b2 then some 3 else none
      | _ => none
    else if 0xF0 ≤ n0 && n0 ≤ 0xF4 then
      match rest with
      | b1 :: b2 :: b3 :: _ =>
        let lo := if n0 = 0xF0 then 0x90 else 0x80
        let hi := if n0 = 0xF4 then 0x8F else 0xBF
        if lo ≤ b1.toNat && b1.toNat ≤ hi && cont b2 && cont b3 then some 4 else none
      | _ => none
    else none

/-- U+FFFD in UTF-8 -/
def replacement : Bytes := [0xEF, 0xBF, 0xBD]

/-- the string `encoding/json` writes (and reads back): every byte outside a valid UTF-8 sequence
replaced by U+FFFD -/
def sanitizeAux : Nat → Bytes → Bytes
  | 0, _ => []
  | _, [] => []
  | fuel + 1, b :: rest =>
    match utf8Width (b :: rest) with
    | some n => (b :: rest).take n ++ sanitizeAux fuel ((b :: rest).drop n)
    | none => replacement ++ sanitizeAux fuel rest

def sanitize (s : Bytes) : Bytes := sanitizeAux s.length s

def validUtf8 (s : Bytes) : Bool := sanitize s == s

/-- Go's integer division (towards zero): zone offset in whole minutes -/
def offMinutes (o : Int) : Int := if o ≥ 0 then o / 60 else -((-o) / 60)

inductive EncErr where
  | yearRange     -- "Time.MarshalJSON: year outside of range [0,9999]"
  | zoneHour      -- "Time.MarshalJSON: timezone hour outside of range [0,23]"
  deriving DecidableEq, Repr

def EncErr.toString : EncErr → String
  | .yearRange => "year" | .zoneHour => "zonehour"

/-- the time the file denotes: same wall clock, zone offset cut to whole minutes, no location name -/
def encodeTime (t : GoTime) : Except EncErr GoTime :=
  if t.year < 0 || t.year > 9999 then .error .yearRange
  else if (offMinutes t.offSec).natAbs / 60 ≥ 24 then .error .zoneHour
  else .ok { t with offSec := offMinutes t.offSec * 60, locName := "" }

/-- the document: the four values as the file denotes them -/
structure JFile where
  chainId : Bytes
  time : GoTime
  initialHeight : Nat
  proposer : Option Bytes
  deriving DecidableEq, Repr

/-- `json.Marshal`, field level -/
def encode (g : Genesis) : Except EncErr JFile :=
  match encodeTime g.time with
  | .error e => .error e
  | .ok t => .ok { chainId := sanitize g.chainId, time := t, initialHeight := g.initialHeight, proposer := g.proposer }

/-- `json.Unmarshal`, field level -/
def decodeDoc (j : JFile) : Genesis :=
  { chainId := j.chainId, time := j.time, initialHeight := j.initialHeight, proposer := j.proposer }

/-- **the values `encoding/json` preserves**: a year the format can print, a zone offset of whole
minutes below 24 h, a chain id that is valid UTF-8 -/
def GenesisEncodable (g : Genesis) : Bool :=
  (0 ≤ g.time.year && g.time.year ≤ 9999) && g.time.offSec.natAbs < 86400 &&
  g.time.offSec % 60 == 0 && validUtf8 g.chainId

/-- equality modulo the time location -/
def normLoc (g : Genesis) : Genesis := { g with time := { g.time with locName := "" } }

/-! ## layer 2: text — the bytes of the file -/

def ch (c : Char) : UInt8 := c.toNat.toUInt8
def str (s : String) : Bytes := s.toList.map ch

def digitsAux : Nat → Nat → Bytes → Bytes
  | 0, _, acc => acc
  | fuel + 1, n, acc =>
    let acc := (48 + n % 10).toUInt8 :: acc
    if n / 10 = 0 then acc else digitsAux fuel (n / 10) acc

/-- decimal digits of `n` (`strconv.AppendUint`) -/
def digits (n : Nat) : Bytes := digitsAux (n + 1) n []

/-- `n` in exactly `w` digits (the low `w` ones), zero padded -/
def padded : Nat → Nat → Bytes
  | 0, _ => []
  | w + 1, n => padded w (n / 10) ++ [(48 + n % 10).toUInt8]

def dropTrailingZeros (bs : Bytes) : Bytes := (bs.reverse.dropWhile (· == 48)).reverse

def hexDigitLower (n : Nat) : UInt8 := if n < 10 then (48 + n).toUInt8 else (87 + n).toUInt8

/-- `\uXXXX` -/
def uEscape (cp : Nat) : Bytes :=
  str "\\u" ++ [hexDigitLower (cp / 4096 % 16), hexDigitLower (cp / 256 % 16), hexDigitLower (cp / 16 % 16), hexDigitLower (cp % 16)]

/-- the body of the JSON string literal `encoding/json` (Go ≥ 1.22, `EscapeHTML` on) writes for `s` -/
def escapeAux : Nat → Bytes → Bytes
  | 0, _ => []
  | _, [] => []
  | fuel + 1, b :: rest =>
    let n := b.toNat
    if n < 0x80 then
      (if b = ch '"' then str "\\\""
       else if b = ch '\\' then str "\\\\"
       else if n = 8 then str "\\b" else if n = 12 then str "\\f"
       else if n = 10 then str "\\n" else if n = 13 then str "\\r" else if n = 9 then str "\\t"
       else if n < 0x20 || b = ch '<' || b = ch '>' || b = ch '&' then uEscape n
       else [b]) ++ escapeAux fuel rest
    else
      match utf8Width (b :: rest) with
      | none => uEscape 0xFFFD ++ escapeAux fuel rest
      | some w =>
        let sq := (b :: rest).take w
        (if sq = [0xE2, 0x80, 0xA8] then uEscape 0x2028 else if sq = [0xE2, 0x80, 0xA9] then uEscape 0x2029 else sq)
          ++ escapeAux fuel ((b :: rest).drop w)

def escape (s : Bytes) : Bytes := escapeAux s.length s

def b64Char (n : Nat) : UInt8 :=
  if n < 26 then (65 + n).toUInt8 else if n < 52 then (71 + n).toUInt8 else if n < 62 then (n - 4).toUInt8
  else if n = 62 then ch '+' else ch '/'

/-- standard base64 with padding (`[]byte` in JSON) -/
def base64 : Bytes → Bytes
  | [] => []
  | [a] => [b64Char (a.toNat / 4), b64Char (a.toNat % 4 * 16), ch '=', ch '=']
  | [a, b] => [b64Char (a.toNat / 4), b64Char (a.toNat % 4 * 16 + b.toNat / 16), b64Char (b.toNat % 16 * 4), ch '=']
  | a :: b :: c :: rest =>
    [b64Char (a.toNat / 4), b64Char (a.toNat % 4 * 16 + b.toNat / 16), b64Char (b.toNat % 16 * 4 + c.toNat / 64),
     b64Char (c.toNat % 64)] ++ base64 rest

/-- RFC 3339 with nanoseconds, as `time.Time.MarshalJSON` prints it (year 0..9999) -/
def renderTime (t : GoTime) : Bytes :=
  let frac := if t.nsec = 0 then [] else ch '.' :: dropTrailingZeros (padded 9 t.nsec)
  let zm := offMinutes t.offSec
  let zone := if t.offSec = 0 then [ch 'Z'] else     -- `Z` only for offset 0; 30 s east prints `+00:00`
    (if zm < 0 then ch '-' else ch '+') :: (padded 2 (zm.natAbs / 60) ++ [ch ':'] ++ padded 2 (zm.natAbs % 60))
  padded 4 t.year.toNat ++ [ch '-'] ++ padded 2 t.month ++ [ch '-'] ++ padded 2 t.day ++ [ch 'T'] ++
  padded 2 t.hour ++ [ch ':'] ++ padded 2 t.min ++ [ch ':'] ++ padded 2 t.sec ++ frac ++ zone

/-- `json.MarshalIndent(g, "", "  ")` for a genesis `encode` accepts, from the values as the genesis
holds them: a byte of the chain id that is not valid UTF-8 is written as the escape `\ufffd` (a
genuine U+FFFD raw); the zone is `Z` only for offset 0 (30 s east prints `+00:00`) -/
def renderGenesis (g : Genesis) : Bytes :=
  str "{\n  \"chain_id\": \"" ++ escape g.chainId ++
  str "\",\n  \"genesis_da_start_height\": \"" ++ renderTime g.time ++
  str "\",\n  \"initial_height\": " ++ digits g.initialHeight ++
  str ",\n  \"proposer_address\": " ++
  (match g.proposer with | none => str "null" | some p => [ch '"'] ++ base64 p ++ [ch '"']) ++
  str "\n}"

/-- the text of a document (its chain id is valid UTF-8 already) -/
def render (j : JFile) : Bytes := renderGenesis (decodeDoc j)

/-! ### the parser (for exactly this layout)

Built from small parsers `Bytes → Option (value × rest)` that are STABLE: what they read does not
depend on what follows the part of the input they needed (`Stable`, proved in `Proofs/C18.lean`), so
that the whole document parser reads `a ++ suffix` as it reads `a` and hands `suffix` to the final
"nothing but white space may follow" test — which is where `json.Unmarshal` refuses trailing content. -/

abbrev Parser (α : Type) := Bytes → Option (α × Bytes)

def Parser.pure {α : Type} (x : α) : Parser α := fun bs => some (x, bs)
def Parser.fail {α : Type} : Parser α := fun _ => none
def Parser.bind {α β : Type} (p : Parser α) (f : α → Parser β) : Parser β := fun bs =>
  match p bs with
  | none => none
  | some (x, r) => f x r

def expect : Bytes → Bytes → Option Bytes
  | [], bs => some bs
  | _ :: _, [] => none
  | l :: ls, b :: bs => if l = b then expect ls bs else none

def pExpect (lit : Bytes) : Parser Unit := fun bs => (expect lit bs).map fun r => ((), r)

def pByte : Parser UInt8
  | [] => none
  | b :: r => some (b, r)

def hexVal (b : UInt8) : Option Nat :=
  let n := b.toNat
  if 48 ≤ n && n ≤ 57 then some (n - 48) else if 97 ≤ n && n ≤ 102 then some (n - 87)
  else if 65 ≤ n && n ≤ 70 then some (n - 55) else none

/-- UTF-8 of a code point of the basic plane (what `\uXXXX` denotes; surrogates → U+FFFD) -/
def utf8OfBmp (cp : Nat) : Bytes :=
  if cp < 0x80 then [cp.toUInt8]
  else if cp < 0x800 then [(0xC0 + cp / 64).toUInt8, (0x80 + cp % 64).toUInt8]
  else if 0xD800 ≤ cp && cp ≤ 0xDFFF then replacement
  else [(0xE0 + cp / 4096).toUInt8, (0x80 + cp / 64 % 64).toUInt8, (0x80 + cp % 64).toUInt8]

/-- what follows a backslash: (bytes it denotes, rest) -/
def unescapeOne : Parser Bytes
  | [] => none
  | e :: rest =>
    if e = ch 'u' then
      match rest with
      | h1 :: h2 :: h3 :: h4 :: rest' =>
        match hexVal h1, hexVal h2, hexVal h3, hexVal h4 with
        | some a, some b, some c, some d => some (utf8OfBmp (a * 4096 + b * 256 + c * 16 + d), rest')
        | _, _, _, _ => none
      | _ => none
    else if e = ch '"' then some ([ch '"'], rest) else if e = ch '\\' then some ([ch '\\'], rest)
    else if e = ch '/' then some ([ch '/'], rest) else if e = ch 'b' then some ([8], rest)
    else if e = ch 'f' then some ([12], rest) else if e = ch 'n' then some ([10], rest)
    else if e = ch 'r' then some ([13], rest) else if e = ch 't' then some ([9], rest) else none

/-- the body of a JSON string literal up to the closing quote: (value, rest after the quote) -/
def parseStringBody : Nat → Bytes → Bytes → Option (Bytes × Bytes)
  | 0, _, _ => none
  | _, [], _ => none
  | fuel + 1, b :: rest, acc =>
    if b = ch '"' then some (acc.reverse, rest)
    else if b = ch '\\' then
      match unescapeOne rest with
      | some (v, rest') => parseStringBody fuel rest' (v.reverse ++ acc)
      | none => none
    else if b.toNat < 0x20 then none          -- a control character must be escaped
    else parseStringBody fuel rest (b :: acc)

def pString : Parser Bytes := fun bs => parseStringBody (bs.length + 1) bs []

def isDigitB (b : UInt8) : Bool := 48 ≤ b.toNat && b.toNat ≤ 57

def natOfDigits (ds : Bytes) : Nat := ds.foldl (fun n b => n * 10 + (b.toNat - 48)) 0

/-- exactly `w` digits -/
def pFixed (w : Nat) : Parser Nat := fun bs =>
  let ds := bs.take w
  if ds.length = w && ds.all isDigitB then some (natOfDigits ds, bs.drop w) else none

/-- the longest run of bytes satisfying `p`, which must be followed by at least one more byte -/
def pWhile (p : UInt8 → Bool) : Parser Bytes := fun bs =>
  if (bs.dropWhile p).isEmpty then none else some (bs.takeWhile p, bs.dropWhile p)

/-- `.` and 1..9 digits, or nothing: nanoseconds -/
def pFrac : Parser Nat
  | [] => none
  | b :: rest =>
    if b = ch '.' then
      (pWhile isDigitB).bind (fun ds =>
        if ds.isEmpty || ds.length > 9 then Parser.fail
        else Parser.pure (natOfDigits (ds ++ List.replicate (9 - ds.length) 48))) rest
    else some (0, b :: rest)

/-- `Z` or `±hh:mm`: zone offset in seconds -/
def pZone : Parser Int :=
  pByte.bind fun b =>
    if b = ch 'Z' then Parser.pure 0
    else if b = ch '+' || b = ch '-' then
      (pFixed 2).bind fun zh => (pExpect [ch ':']).bind fun _ => (pFixed 2).bind fun zmn =>
        if zh ≥ 24 || zmn ≥ 60 then Parser.fail
        else
          let v : Int := ((zh * 3600 + zmn * 60 : Nat) : Int)
          Parser.pure (if b = ch '-' then -v else v)
    else Parser.fail

/-- `time.Time.UnmarshalJSON` (strict RFC 3339) on the text after the opening quote, closing quote included -/
def pTime : Parser GoTime :=
  (pFixed 4).bind fun y => (pExpect [ch '-']).bind fun _ => (pFixed 2).bind fun mo =>
  (pExpect [ch '-']).bind fun _ => (pFixed 2).bind fun d => (pExpect [ch 'T']).bind fun _ =>
  (pFixed 2).bind fun h => (pExpect [ch ':']).bind fun _ => (pFixed 2).bind fun mi =>
  (pExpect [ch ':']).bind fun _ => (pFixed 2).bind fun s => pFrac.bind fun ns => pZone.bind fun off =>
  (pExpect [ch '"']).bind fun _ =>
    if mo < 1 || mo > 12 || d < 1 || d > 31 || h ≥ 24 || mi ≥ 60 || s ≥ 60 then Parser.fail
    else Parser.pure { year := y, month := mo, day := d, hour := h, min := mi, sec := s, nsec := ns, offSec := off, locName := "" }

/-- decimal without leading zero -/
def pNat : Parser Nat :=
  (pWhile isDigitB).bind fun ds =>
    if ds.isEmpty || (ds.length > 1 && ds.head? == some 48) then Parser.fail else Parser.pure (natOfDigits ds)

def b64Val (b : UInt8) : Option Nat :=
  let n := b.toNat
  if 65 ≤ n && n ≤ 90 then some (n - 65) else if 97 ≤ n && n ≤ 122 then some (n - 71)
  else if 48 ≤ n && n ≤ 57 then some (n + 4) else if b = ch '+' then some 62 else if b = ch '/' then some 63 else none

/-- standard base64 with padding (strict: canonical padding bits) -/
def unbase64 : Bytes → Option Bytes
  | [] => some []
  | [a, b, c, d] =>
    match b64Val a, b64Val b with
    | some x, some y =>
      if c = ch '=' && d = ch '=' then (if y % 16 = 0 then some [(x * 4 + y / 16).toUInt8] else none)
      else match b64Val c with
        | some z =>
          if d = ch '=' then (if z % 4 = 0 then some [(x * 4 + y / 16).toUInt8, (y % 16 * 16 + z / 4).toUInt8] else none)
          else match b64Val d with
            | some w => some [(x * 4 + y / 16).toUInt8, (y % 16 * 16 + z / 4).toUInt8, (z % 4 * 64 + w).toUInt8]
            | none => none
        | none => none
    | _, _ => none
  | a :: b :: c :: d :: rest =>
    match b64Val a, b64Val b, b64Val c, b64Val d, unbase64 rest with
    | some x, some y, some z, some w, some r =>
      some ((x * 4 + y / 16).toUInt8 :: (y % 16 * 16 + z / 4).toUInt8 :: (z % 4 * 64 + w).toUInt8 :: r)
    | _, _, _, _, _ => none
  | _ => none

/-- `null` or a base64 string literal -/
def pProposer : Parser (Option Bytes)
  | [] => none
  | b :: rest =>
    if b = ch '"' then
      ((pWhile (· ≠ ch '"')).bind fun body => pByte.bind fun _ =>
        match unbase64 body with
        | some v => Parser.pure (some v)
        | none => Parser.fail) rest
    else (pExpect (str "null")).bind (fun _ => Parser.pure none) (b :: rest)

/-- the document, up to and including the closing brace -/
def pDocument : Parser JFile :=
  (pExpect (str "{\n  \"chain_id\": \"")).bind fun _ => pString.bind fun cid =>
  (pExpect (str ",\n  \"genesis_da_start_height\": \"")).bind fun _ => pTime.bind fun t =>
  (pExpect (str ",\n  \"initial_height\": ")).bind fun _ => pNat.bind fun ih =>
  (pExpect (str ",\n  \"proposer_address\": ")).bind fun _ => pProposer.bind fun p =>
  (pExpect (str "\n}")).bind fun _ =>
    Parser.pure { chainId := cid, time := t, initialHeight := ih, proposer := p }

def isJsonSpace (b : UInt8) : Bool := b = 32 || b = 9 || b = 10 || b = 13

/-- `json.Unmarshal` of a file in the layout `render` produces: ONE document, then nothing but
white space ("invalid character … after top-level value" otherwise) -/
def parse (bs : Bytes) : Option JFile :=
  match pDocument bs with
  | some (j, rest) => if rest.all isJsonSpace then some j else none
  | none => none

/-- a decoder that stops after the first document (`json.NewDecoder(f).Decode`): what follows is not looked at -/
def parseFirst (bs : Bytes) : Option JFile := (pDocument bs).map (·.1)

/-- parser ∘ printer gives the document the values denote.  Decidable; PROVED for every genesis whose
time is `WallClockOK` (`Proofs/C18Text.lean`: `textRoundTrips_of_wallClock`, and only for those:
`textRoundTrips_iff_wallClock`); the driver still LOADS by parsing the bytes it rendered. -/
def TextRoundTrips (g : Genesis) : Bool :=
  match encode g with
  | .error _ => true
  | .ok j => parse (renderGenesis g) == some j

/-- the wall-clock fields are those of a real `time.Time`: month 1..12, day 1..31, hour < 24,
minute < 60, second < 60 (Go has no leap second), nanosecond < 10⁹.  `GoTime` is a record of free
numbers; every value Go can hold satisfies this (`GoTime.ofUnix` does, for every instant and zone:
`Proofs/C18Civil.lean`, `Spec.C18.ofUnix_wallClockOK`).  It is exactly what `TextRoundTrips` needs
(`Proofs/C18Text.lean`: `textRoundTrips_of_wallClock`, `textRoundTrips_iff_wallClock`). -/
def WallClockOK (t : GoTime) : Bool :=
  decide (1 ≤ t.month) && decide (t.month ≤ 12) && decide (1 ≤ t.day) && decide (t.day ≤ 31) &&
  decide (t.hour < 24) && decide (t.min < 60) && decide (t.sec < 60) && decide (t.nsec < 1000000000)

/-! ## layer 3: disk — paths hold bytes -/

/-- the files of a scenario, by path (newest entry first; the first entry of a path wins) -/
abbrev Disk := List (Nat × Bytes)

def Disk.read (d : Disk) (p : Nat) : Option Bytes := d.lookup p

/-- `os.WriteFile`: create or truncate, then write -/
def writeTrunc (d : Disk) (p : Nat) (bs : Bytes) : Disk := (p, bs) :: d

/-- a writer that opens with `O_WRONLY|O_CREATE` only: the new bytes over the old ones, the old tail stays -/
def writeNoTrunc (d : Disk) (p : Nat) (bs : Bytes) : Disk :=
  (p, bs ++ ((d.lookup p).getD []).drop bs.length) :: d

abbrev Writer := Disk → Nat → Bytes → Disk

/-- `Genesis.Save` with the given file writer: nothing is written when marshalling fails -/
def saveWith (w : Writer) (d : Disk) (p : Nat) (g : Genesis) : Except EncErr Disk :=
  match encode g with
  | .error e => .error e
  | .ok _ => .ok (w d p (renderGenesis g))

/-- `Genesis.Save` -/
def saveAt : Disk → Nat → Genesis → Except EncErr Disk := saveWith writeTrunc

/-- why `LoadGenesis` refuses -/
inductive LoadErr where
  | noFile                      -- nothing at the path
  | unparsable                  -- `json.Unmarshal` refuses the bytes
  | refused (r : Refusal)       -- `Validate` refuses what the file holds
  deriving DecidableEq, Repr

def LoadErr.toString : LoadErr → String
  | .noFile => "nofile" | .unparsable => "unparsable" | .refused r => r.toString

/-- `LoadGenesis` on bytes -/
def loadBytes (bs : Bytes) : Except LoadErr Genesis :=
  match parse bs with
  | none => .error .unparsable
  | some j =>
    match validate (decodeDoc j) with
    | some r => .error (.refused r)
    | none => .ok (decodeDoc j)

/-- `LoadGenesis` from a path -/
def loadAt (d : Disk) (p : Nat) : Except LoadErr Genesis :=
  match d.read p with
  | none => .error .noFile
  | some bs => loadBytes bs

end GenesisFile
