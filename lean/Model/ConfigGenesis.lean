import Model.Bytes
/-!
# The genesis file (pkg/genesis/genesis.go, io.go)

`Genesis.Save` writes the four fields with `encoding/json`; `LoadGenesis` reads them back and
refuses what `Validate` refuses.  `encoding/json` is modelled as a faithful field-wise codec:
strings and numbers are preserved, a nil `[]byte` is `null` and comes back nil, an empty non-nil
slice is `""` and comes back empty and non-nil, a `time.Time` is written as RFC 3339 with
nanoseconds and numeric zone offset, so the instant and the offset survive and the
`*time.Location` (its name) does not.  Core Lean only.
-/
namespace GenesisFile

/-- Unix seconds of Go's zero `time.Time` (0001-01-01T00:00:00Z) -/
def zeroUnix : Int := -62135596800

structure GoTime where
  unix : Int          -- seconds since the Unix epoch
  nsec : Nat
  offMin : Int        -- zone offset east of UTC, minutes
  locName : String    -- name of the location the value carries (not part of the instant)
  deriving DecidableEq, Repr

/-- `time.Time.IsZero`: the instant is January 1, year 1, 00:00:00 UTC, whatever the location -/
def GoTime.isZero (t : GoTime) : Bool := t.unix == zeroUnix && t.nsec == 0

structure Genesis where
  chainId : Bytes
  time : GoTime
  initialHeight : Nat
  proposer : Option Bytes   -- `none` = nil slice
  deriving DecidableEq, Repr

/-- the conditions `Validate` refuses, in the order it tests them -/
inductive Refusal where
  | chainId | initialHeight | daStartTime | proposer
  deriving DecidableEq, Repr

def Refusal.toString : Refusal → String
  | .chainId => "chain_id" | .initialHeight => "initial_height"
  | .daStartTime => "da_start_time" | .proposer => "proposer_address"

/-- `Genesis.Validate` as coded -/
def validate (g : Genesis) : Option Refusal :=
  if g.chainId = [] then some .chainId
  else if g.initialHeight < 1 then some .initialHeight
  else if g.time.isZero then some .daStartTime
  else if g.proposer.isNone then some .proposer
  else none

/-- the JSON document, field-wise -/
structure JFile where
  chainId : Bytes
  unix : Int
  nsec : Nat
  offMin : Int
  initialHeight : Nat
  proposer : Option Bytes
  deriving DecidableEq, Repr

/-- `Genesis.Save` (no validation) -/
def save (g : Genesis) : JFile :=
  { chainId := g.chainId, unix := g.time.unix, nsec := g.time.nsec, offMin := g.time.offMin,
    initialHeight := g.initialHeight, proposer := g.proposer }

def parse (j : JFile) : Genesis :=
  { chainId := j.chainId, time := { unix := j.unix, nsec := j.nsec, offMin := j.offMin, locName := "" },
    initialHeight := j.initialHeight, proposer := j.proposer }

/-- `LoadGenesis` on a well-formed JSON document -/
def load (j : JFile) : Except Refusal Genesis :=
  match validate (parse j) with
  | some r => .error r
  | none => .ok (parse j)

/-! ## Paths: a file that exists already is replaced, not patched

`Save` is `os.WriteFile` (create or TRUNCATE): after it the path holds exactly the new document,
whatever - longer or shorter - it held before.  `LoadGenesis` of a path that holds no file is refused. -/

/-- the genesis files of a scenario, by path (newest entry first; the first entry of a path wins) -/
abbrev Disk := List (Nat × JFile)

/-- why `LoadGenesis` refuses -/
inductive LoadErr where
  | noFile                      -- nothing at the path
  | refused (r : Refusal)       -- `Validate` refuses what the file holds
  deriving DecidableEq, Repr

def LoadErr.toString : LoadErr → String
  | .noFile => "nofile" | .refused r => r.toString

/-- `Genesis.Save` to a path -/
def saveAt (d : Disk) (p : Nat) (g : Genesis) : Disk := (p, save g) :: d

/-- `LoadGenesis` from a path -/
def loadAt (d : Disk) (p : Nat) : Except LoadErr Genesis :=
  match d.lookup p with
  | none => .error .noFile
  | some j =>
    match load j with
    | .ok g => .ok g
    | .error r => .error (.refused r)

/-- equality modulo the time location -/
def normLoc (g : Genesis) : Genesis := { g with time := { g.time with locName := "" } }

end GenesisFile
