import Model.Chain

/-!
# One block-production step of the sequencer node (`block/manager.go` `publishBlockInternal`)
and node start-up (`NewManager` / `getInitialState`), as total functions returning the atomic
durable writes they issue, in order.
-/

namespace Producer
open Wire Chain

structure Cfg where
  chainId : String
  initialHeight : Nat        -- ≥ 1
  genesisTime : Nat          -- ns
  proposerAddr : Bytes       -- genesis proposer address
  key : KeyId                -- the node's signing key
  signerAddr : Bytes         -- address the node's signer reports
  maxPending : Nat := 0
  genesisRoot : Bytes := Bytes.ofString "genesis-root"
  deriving Repr, Inhabited

/-- in-memory state of the manager that matters for production -/
structure Node where
  store : Store := {}
  lastState : State := {}
  lastBatchData : List Bytes := []
  hdrWm : Nat := 0           -- last submitted header height (pendingHeaders)
  dataWm : Nat := 0          -- last submitted data height (pendingData)
  daHeight : Nat := 0
  deriving Repr, Inhabited

/-- answer of the sequencing layer to `GetNextBatch` -/
inductive SeqResp
  | err
  | absent                                   -- response without a batch
  | batch (txs : List Bytes) (ts : Nat) (data : List Bytes)
  deriving Repr, Inhabited

inductive ExecResp | ok | fail
  deriving Repr, DecidableEq, Inhabited

inductive Outcome
  | ok | refused | noBatch | seqErr
  | errTime | errExec | errValidate (e : VErr) | errLastBlock | errSigner
  deriving Repr, DecidableEq, Inhabited

def lastBatchDataKey : String := "l"

/-- `convertBatchDataToBytes` -/
def batchDataToBytes (bd : List Bytes) : Bytes := bd.flatMap fun d => Bytes.le 4 d.length ++ d

/-- `bytesToBatchData` (fuel = input length) -/
def bytesToBatchDataAux : Nat → Bytes → Option (List Bytes)
  | 0, bs => if bs.isEmpty then some [] else none
  | f+1, bs =>
    if bs.isEmpty then some []
    else if bs.length < 4 then none
    else
      let n := Bytes.unLe (bs.take 4)
      let r := bs.drop 4
      if r.length < n then none
      else match bytesToBatchDataAux f (r.drop n) with
        | some rest => some (r.take n :: rest)
        | none => none

def bytesToBatchData (bs : Bytes) : Option (List Bytes) := bytesToBatchDataAux bs.length bs

def mySigner (c : Cfg) : MSigner := { addr := c.proposerAddr, key := some c.key }

/-- `execCreateBlock` -/
def createBlock (c : Cfg) (st : State) (height : Nat) (lastSig : Sig) (lastHeaderHash : Bytes)
    (txs : List Bytes) (ts : Nat) : SHeader × Data :=
  let hdr : Header :=
    { version := st.version, chainId := st.chainId, height := height, time := ts,
      lastHeaderHash := lastHeaderHash, consensusHash := List.replicate 32 0,
      appHash := st.appHash, proposerAddress := c.proposerAddr, validatorHash := [],
      dataHash := if txs.isEmpty then emptyDataHash else ({ txs := txs } : Data).daCommitment }
  ({ hdr := hdr, sig := lastSig, signer := mySigner c }, { metadata := none, txs := txs })

def pendingRefuses (c : Cfg) (n : Node) : Bool :=
  c.maxPending ≠ 0 &&
    (decide (n.store.height - n.hdrWm ≥ c.maxPending) || decide (n.store.height - n.dataWm ≥ c.maxPending))

/-- the header signed with the node's key -/
def signed (c : Cfg) (sh : SHeader) : SHeader := { sh with sig := Sig.by c.key (payload sh.hdr) }

/-- "append metadata to Data before validating and saving" -/
def withMeta (d : Data) (h : Header) (lastDataHash : Bytes) : Data :=
  { d with metadata := some { chainId := h.chainId, height := h.height, time := h.time, lastDataHash := lastDataHash } }

/-- finishing part of the step, common to a fresh block and a re-used pending block -/
def finish (c : Cfg) (n : Node) (ws : List SW) (sh : SHeader) (d : Data) (lastDataHash : Bytes)
    (ex : ExecResp) : Node × List SW × Outcome :=
  match ex with
  | .fail => (n, ws, .errExec)
  | .ok =>
    let root := execRoot n.lastState.appHash d.txs
    let newState := nextState n.lastState sh.hdr root
    let d' : Data := withMeta d sh.hdr lastDataHash
    let sh' : SHeader := signed c sh
    match execValidate n.lastState sh' d' with
    | some e => (n, ws, .errValidate e)
    | none =>
      let w1 := SW.saveBlock sh'.hdr.height (Block.mk sh' d' sh'.sig)
      let s1 := n.store.apply w1
      -- the new state is persisted before the store height is advanced (a crash in between is repaired at start-up)
      let st' := { newState with daHeight := n.daHeight }
      let w2 := SW.updateState st'
      let s2 := s1.apply w2
      let w3 := setHeightW s2 sh'.hdr.height
      let s3 := s2.applyAll w3
      ({ n with store := s3, lastState := st' }, ws ++ [w1, w2] ++ w3, .ok)

/-- what the step reads about the previous block: (last signature, last header hash, last data hash,
last header time); for the first block there is no predecessor -/
def prevInfo (c : Cfg) (s : Store) : Option (Sig × Bytes × Bytes × Option Nat) :=
  if s.height + 1 ≤ c.initialHeight then some (.none, [], [], none)
  else match s.getBlock s.height with
    | some b => some (b.savedSig, b.sh.hdr.hash, b.data.hash, some b.sh.hdr.time)
    | none => none

/-- `batchData.Before(lastHeaderTime)` -/
def regressed (lastHeaderTime : Option Nat) (ts : Nat) : Bool :=
  match lastHeaderTime with
  | some t => decide (ts < t)
  | none => false

/-- build a fresh block from a batch, save it early, then finish the step -/
def buildAndFinish (c : Cfg) (n0 : Node) (w0 : SW) (lastSig : Sig) (lastHeaderHash lastDataHash : Bytes)
    (txs : List Bytes) (ts : Nat) (ex : ExecResp) : Node × List SW × Outcome :=
  let blk := createBlock c n0.lastState (n0.store.height + 1) lastSig lastHeaderHash txs ts
  let w1 := SW.saveBlock (n0.store.height + 1) (Block.mk blk.1 blk.2 .none)   -- early save
  finish c { n0 with store := n0.store.apply w1 } [w0, w1] blk.1 blk.2 lastDataHash ex

/-- no block is stored at `height + 1`: ask the sequencing layer and build a fresh block -/
def fresh (c : Cfg) (n : Node) (lastSig : Sig) (lastHeaderHash lastDataHash : Bytes) (lastHeaderTime : Option Nat)
    (resp : SeqResp) (ex : ExecResp) : Node × List SW × Outcome :=
  match resp with
  | .err => (n, [], .seqErr)
  | .absent => (n, [], .noBatch)
  | .batch txs ts bd =>
    let w0 := SW.setMeta lastBatchDataKey (batchDataToBytes bd)
    let n0 : Node := { n with store := n.store.apply w0, lastBatchData := bd }
    if regressed lastHeaderTime ts then (n0, [w0], .errTime)   -- empty batches are subject to the guard as well
    else if c.signerAddr ≠ c.proposerAddr then (n0, [w0], .errSigner)
    else buildAndFinish c n0 w0 lastSig lastHeaderHash lastDataHash txs ts ex

/-- `publishBlockInternal` -/
def publish (c : Cfg) (n : Node) (resp : SeqResp) (ex : ExecResp) : Node × List SW × Outcome :=
  if pendingRefuses c n then (n, [], .refused) else
  match prevInfo c n.store with
  | none => (n, [], .errLastBlock)
  | some (lastSig, lastHeaderHash, lastDataHash, lastHeaderTime) =>
    match n.store.getBlock (n.store.height + 1) with
    | some pb => finish c n [] pb.sh pb.data lastDataHash ex          -- "using pending block"
    | none => fresh c n lastSig lastHeaderHash lastDataHash lastHeaderTime resp ex

/-- genesis block written by `getInitialState` when no state is stored -/
def genesisBlock (c : Cfg) : Block :=
  let hdr : Header := { appHash := c.genesisRoot, dataHash := emptyDataHash, proposerAddress := c.proposerAddr,
                        chainId := c.chainId, height := c.initialHeight, time := c.genesisTime }
  let sig := Sig.by c.key (payload hdr)
  { sh := { hdr := hdr, sig := sig, signer := mySigner c }, data := {}, savedSig := sig }

inductive StartErr | genesisAboveState | badWatermark
  deriving Repr, DecidableEq, Inhabited

def wmOf (s : Store) (k : String) : Option Nat :=
  match s.getMeta k with
  | none => some 0
  | some b => if b.length = 8 then some (Bytes.unLe b) else none

def hdrWmKey : String := "last-submitted-header-height"
def dataWmKey : String := "last-submitted-data-height"

/-- `NewManager` on a durable image (aggregator: a signer is present) -/
def start (c : Cfg) (disk : Store) (daStart : Nat := 0) : Except StartErr (Node × List SW) :=
  let r : Except StartErr (State × Store × List SW) :=
    match disk.state with
    | none =>
      let w := SW.saveBlock c.initialHeight (genesisBlock c)
      .ok ({ chainId := c.chainId, initialHeight := c.initialHeight, lastHeight := c.initialHeight - 1,
             lastTime := c.genesisTime, appHash := c.genesisRoot, daHeight := 0 }, disk.apply w, [w])
    | some s => if c.initialHeight > s.lastHeight then .error .genesisAboveState else .ok (s, disk, [])
  match r with
  | .error e => .error e
  | .ok (s, d1, ws1) =>
    let ws2 := setHeightW d1 s.lastHeight
    let d2 := d1.applyAll ws2
    match wmOf d2 hdrWmKey, wmOf d2 dataWmKey with
    | some hw, some dw =>
      -- heights below the initial height do not exist: both watermarks start at initialHeight - 1 (persisted when raised)
      let base := c.initialHeight - 1
      let wh : List SW := if c.initialHeight > 1 ∧ base > hw then [.setMeta hdrWmKey (le64 base)] else []
      let d3 := d2.applyAll wh
      let wd : List SW := if c.initialHeight > 1 ∧ base > dw then [.setMeta dataWmKey (le64 base)] else []
      let d4 := d3.applyAll wd
      let hw' := if c.initialHeight > 1 ∧ base > hw then base else hw
      let dw' := if c.initialHeight > 1 ∧ base > dw then base else dw
      let lbd := ((d4.getMeta lastBatchDataKey).bind bytesToBatchData).getD []
      let s' := if s.daHeight < daStart then { s with daHeight := daStart } else s
      .ok ({ store := d4, lastState := s', lastBatchData := lbd, hdrWm := hw', dataWm := dw', daHeight := s'.daHeight },
           ws1 ++ ws2 ++ wh ++ wd)
    | _, _ => .error .badWatermark

/-- `publishBlockInternal` for **any** signer.  `SignedHeader.ValidateBasic` also demands
`Signer.Address = KeyAddress(Signer.PubKey)` (since /repo e753a34).  Every block this node builds or re-signs carries
`Signer{PubKey: node key, Address: genesis proposer address}` (`getInitialState`, `execCreateBlock`), and
`KeyAddress(node key) = c.signerAddr`: for such a block the demand is `c.signerAddr = c.proposerAddr`.  With the
genesis proposer's own key (`signerAddr = proposerAddr`, the only case `execCreateBlock` lets through) this is
`publish`.  With a foreign key the only step `publish` would let succeed is the one that re-uses a block this node
itself signed — the genesis block it saved at start-up — and the real validation rejects it ("invalid header"):
nothing is written, the node stays as it is. -/
def publishB (c : Cfg) (n : Node) (resp : SeqResp) (ex : ExecResp) : Node × List SW × Outcome :=
  if c.signerAddr = c.proposerAddr then publish c n resp ex
  else match publish c n resp ex with
    | (_, _, .ok) => (n, [], .errValidate .addrMismatch)
    | r => r

end Producer
