import Model.Producer

/-!
# The block manager's cache directory across a crash (C04, cache clause)

At a clean stop the node writes its header and data caches to eight gob files (`Manager.SaveCache` →
`Cache.SaveToDisk` ×2 → `saveMapGob` ×4, one file after the other); `NewManager` reads them back (`LoadCache` →
`LoadFromDisk` ×2 → `loadMapGob` ×4) and **any** error is fatal (`block/manager.go:421`).  A missing file is an
empty map; a file that does not decode is an error.

How `saveMapGob` replaces a file decides what a crash during the save can leave on disk.  That is not assumed
here: the model is parametric in `Facts`, two behavioural facts regenerated on every run by probing the compiled
`pkg/cache` (`Gen.C04`, bound in `Model/CacheTree.lean`):

* `saveAtomic` — the new encoding is written to another path in the same directory, `fsync`ed, and renamed over the
  target (since /repo 998b465), as seen in the system calls of the real save (no open-for-writing / truncate / unlink
  of a target path; rename only; sync between the last write and the rename): the path holds the complete old or the
  complete new version, plus possibly a partly written `<name>.tmp`;
  `false` (before: `os.Create` on the target and encode in place; likewise remove + create, or rename without sync) —
  the path can hold a cut-off encoding;
* `loadIgnoresTmp` — `LoadFromDisk` opens the eight target paths only.
-/
namespace CacheDir
open Chain Producer

/-- the two regenerated facts about the compiled `pkg/cache` -/
structure Facts where
  saveAtomic : Bool
  loadIgnoresTmp : Bool
  deriving DecidableEq, Repr

/-- the files of `Manager.SaveCache` in the order it writes them (vocabulary of the op `restart cut=<name>`;
`Gen.C04.cacheFileNames` is what the real code wrote) -/
def fileNames : List String :=
  ["header/items_by_height.gob", "header/items_by_hash.gob", "header/hashes.gob", "header/da_included.gob",
   "data/items_by_height.gob", "data/items_by_hash.gob", "data/hashes.gob", "data/da_included.gob"]

/-- what was at a cache file's path when a save began: nothing (fresh directory) or the complete file of an earlier,
finished save -/
inductive OldFile | absent | complete
  deriving DecidableEq, Repr, Inhabited

/-- where the crash fell relative to the save of one file (`saveMapGob`) -/
inductive SavePoint
  /-- not begun: the path holds what it held -/
  | before
  /-- begun, not finished; `done` = every byte of the new encoding had been written -/
  | during (done : Bool)
  /-- finished -/
  | after
  deriving DecidableEq, Repr

/-- a cache file as `loadMapGob` sees it: decodes, does not exist (an empty map), or is a cut-off encoding -/
inductive CacheFile | ok | absent | truncated
  deriving DecidableEq, Repr

/-- what a crash leaves of one file: the target path, and whether a (partly written) `<name>.tmp` lies beside it -/
structure FileImage where
  target : CacheFile
  tmp : Bool := false
  deriving DecidableEq, Repr

def OldFile.file : OldFile → CacheFile
  | .absent => .absent
  | .complete => .ok

/-- the crash image of one file -/
def crashImage (f : Facts) (old : OldFile) : SavePoint → FileImage
  | .before => { target := old.file }
  | .after => { target := .ok }
  | .during done =>
    if f.saveAtomic then { target := old.file, tmp := true }
    else { target := if done then .ok else .truncated }

/-- the crash image of the directory: per file what was there and where the crash fell (any combination — the
sequential order of `SaveCache` is the special case `seqPoints`; a list also covers saves repeated after crashes) -/
def crashImages (f : Facts) (olds : List OldFile) (pts : List SavePoint) : List FileImage :=
  List.zipWith (crashImage f) olds pts

/-- one crash during `SaveCache`, in the save of file `i` of `n`: the files before it are saved, the files after it
untouched -/
def seqPoints (n i : Nat) (done : Bool) : List SavePoint :=
  (List.range n).map fun j => if j < i then .after else if j = i then .during done else .before

/-- what the next save finds at the path (a cut-off file never gets that far: the node does not start) -/
def FileImage.old (im : FileImage) : OldFile :=
  match im.target with
  | .ok => .complete
  | _ => .absent

/-- `LoadCache`: every target path must decode or be absent; other directory entries matter only if
`LoadFromDisk` looks at them -/
def loadOK (f : Facts) (files : List FileImage) : Bool :=
  files.all fun im => im.target != .truncated && (f.loadIgnoresTmp || !im.tmp)

inductive StartErr' | store (e : StartErr) | loadCache
  deriving DecidableEq, Repr

/-- `NewManager` with its cache directory (`block/manager.go:421`: any `LoadCache` error is fatal) -/
def startWithCaches (f : Facts) (c : Cfg) (d : Store) (files : List FileImage) : Except StartErr' (Node × List SW) :=
  match start c d with
  | .error e => .error (.store e)
  | .ok r => if loadOK f files then .ok r else .error .loadCache

/-- restart on the durable image `d` of the store and the crash image of the cache directory -/
def restartAfterSaveCrash (f : Facts) (c : Cfg) (d : Store) (olds : List OldFile) (pts : List SavePoint) :
    Except StartErr' (Node × List SW) :=
  startWithCaches f c d (crashImages f olds pts)

end CacheDir
