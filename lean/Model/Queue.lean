import Model.Bytes
import Model.Sha256
import Model.Wire

/-!
# The single sequencer's batch queue (`sequencers/single/queue.go`, `sequencer.go`)

`BatchQueue` = an in-memory slice plus a write-ahead copy in the datastore under the prefix
`batches`, **keyed by the hex SHA-256 of the batch's contents** (`core/sequencer.Batch.Hash`).

* `AddBatch`  : bound check, `Put(key(batch), encode(batch))`, then append in memory.
* `Next`      : pop the head in memory, then `Delete(key(batch))`.
* `Load`      : forget memory, iterate the key space **in datastore (= key) order**, append – all entries,
                whatever `maxQueueSize` is (the bound is checked by `AddBatch` only: an admission bound).
* `Sequencer.SubmitBatchTxs` / `GetNextBatch` : chain-id check, empty batches are skipped, then the above.

Every operation performs at most one atomic datastore write, so the crash points "between two
durable writes" are: before / after the single write of the operation in flight.

Ghost accounting is honest about who holds a batch: `Next` deletes the write-ahead record *before*
it returns (queue.go: `Delete`, then `return &batch`), so a process that dies after the `Delete`
became durable has removed the batch from the queue but has **not** handed it to the caller
(`crashNext true`): such a batch is `removed` and `lost`, not `delivered`.

The model is parametric in the key function (`key : Batch → Nat`); the driver and the
counter-witnesses instantiate it with `realKey` (the real SHA-256 of the real hash encoding, read as
a big-endian number – the datastore orders the fixed-length lowercase hex strings exactly like
that number).  The datastore value is the protobuf encoding of the batch; the model keeps the batch
itself (the codec round trip is C12's business) and the driver prints the encoding.
-/

namespace Queue

/-- `coresequencer.Batch.Transactions` -/
abbrev Batch := List Bytes

/-- 8-byte big-endian (`binary.BigEndian.PutUint64`) -/
def be8 (n : Nat) : Bytes :=
  [(n / 72057594037927936 % 256).toUInt8, (n / 281474976710656 % 256).toUInt8,
   (n / 1099511627776 % 256).toUInt8, (n / 4294967296 % 256).toUInt8,
   (n / 16777216 % 256).toUInt8, (n / 65536 % 256).toUInt8, (n / 256 % 256).toUInt8, (n % 256).toUInt8]

/-- the byte string `Batch.Hash` feeds to SHA-256: nothing for an empty batch, otherwise the
number of transactions and every transaction length-prefixed (all 8-byte big-endian). -/
def hashEnc (b : Batch) : Bytes :=
  if b.isEmpty then [] else be8 b.length ++ b.flatMap (fun tx => be8 tx.length ++ tx)

/-- `Batch.Hash` -/
def hashOf (b : Batch) : Bytes := sha256 (hashEnc b)

/-- the hash input under the name the property uses: the byte string `Batch.Hash` feeds to SHA-256 (`hashEnc`).
Injective on lists of byte strings shorter than 2^64 (`Spec.C10.batchHashInput_injective`): the datastore key of a
batch separates any two different batches as far as SHA-256 does. -/
abbrev hashInput : List Bytes → Bytes := hashEnc

/-- NOT the code's layout: the same input without the per-transaction length fields (count ‖ tx₁ ‖ tx₂ …).  It is not
injective (`Spec.C10.hashInputNoLen_not_injective`): batches that cut the same bytes at other places collide. -/
def hashInputNoLen (b : List Bytes) : Bytes :=
  if b.isEmpty then [] else be8 b.length ++ b.flatMap (fun tx => tx)

/-- big-endian value of a byte string -/
def beNat (bs : Bytes) : Nat := bs.foldl (fun acc x => acc * 256 + x.toNat) 0

/-- the datastore key of a batch as a number (order of keys = order of these numbers) -/
def realKey (b : Batch) : Nat := beNat (hashOf b)

/-- the datastore key a queue would use if `Batch.Hash` left the length fields out (witnesses only) -/
def noLenKey (b : Batch) : Nat := beNat (sha256 (hashInputNoLen b))

/-- the datastore key string `/batches/<hex(sha256 …)>` (printed by the driver, compared with the
real datastore's key on every run) -/
def keyString (b : Batch) : String := "/batches/" ++ Bytes.toHex (hashOf b)

/-- 64 lowercase hex digits of a 256-bit number -/
def hex64 (k : Nat) : String :=
  String.ofList ((List.range 64).map fun i => Nat.digitChar (k / 16 ^ (63 - i) % 16))

/-- the datastore key string as the driver renders it from the numeric key the model's datastore is
ordered by (`Drv.C10.showDisk`); equal to `keyString` for every 32-byte hash (`Spec.C10.keyString_eq_render`) -/
def renderKey (k : Nat) : String := "/batches/" ++ hex64 k

/-- the datastore value: `proto.Marshal(&pb.Batch{Txs: …})` (`repeated bytes txs = 1`) -/
def valueOf (b : Batch) : Bytes := Wire.encFields (b.map fun t => (1, .len t))

/-! ## durable part: key-ordered finite map -/

abbrev Disk := List (Nat × Batch)

/-- insert before the first larger key -/
def Disk.ins (k : Nat) (v : Batch) : Disk → Disk
  | [] => [(k, v)]
  | e :: r => if k < e.1 then (k, v) :: e :: r else e :: Disk.ins k v r

/-- `Delete(key)` -/
def Disk.del (k : Nat) (d : Disk) : Disk := d.filter (fun e => e.1 ≠ k)

/-- `Put(key, value)`: replaces an existing entry with the same key -/
def Disk.put (k : Nat) (v : Batch) (d : Disk) : Disk := Disk.ins k v (Disk.del k d)

/-! ## state, operations -/

structure Cfg where
  /-- the sequencer's chain id -/
  id : Bytes := []
  /-- `maxQueueSize`; 0 = unlimited -/
  max : Nat := 0
  deriving Repr, DecidableEq, Inhabited

structure St where
  /-- `BatchQueue.queue` -/
  mem : List Batch := []
  /-- the datastore under the prefix `batches` -/
  disk : Disk := []
  /-- datastore fault injection (outside the property's quantifier, modelled for the correspondence): the next
  `failPut` single `Put`s / `failDel` single `Delete`s of this process return an error and write nothing -/
  failPut : Nat := 0
  failDel : Nat := 0
  /-- the queue bound this process was (re)started with, if it differs from `cfg.max`
  (`restart max=n`: the operator changed `maxQueueSize` between two lives of the node) -/
  maxOverride : Option Nat := none
  deriving Repr, DecidableEq, Inhabited

/-- the state of the `context.Context` a call is made with -/
inductive Ctx
  | live
  /-- already cancelled when the call is made -/
  | cancelled
  /-- deadline in the past when the call is made -/
  | expired
  deriving Repr, DecidableEq, Inhabited

inductive Op
  /-- `Sequencer.SubmitBatchTxs` -/
  | submit (id : Bytes) (b : Batch)
  /-- `Sequencer.GetNextBatch` -/
  | next (id : Bytes)
  /-- stop, start again on the same datastore (`NewSequencer…` → `Load`) -/
  | restart
  /-- the process dies during `SubmitBatchTxs`; `afterWrite` = the `Put` had become durable -/
  | crashSubmit (afterWrite : Bool) (id : Bytes) (b : Batch)
  /-- the process dies during `GetNextBatch`; `afterWrite` = the `Delete` had become durable, but the
  call has not returned: the caller never received the batch (it is removed from the queue and lost) -/
  | crashNext (afterWrite : Bool) (id : Bytes)
  /-- `BatchQueue.AddBatch` called directly (no admission checks except the bound) -/
  | add (b : Batch)
  /-- `BatchQueue.Next` called directly -/
  | qnext
  /-- `BatchQueue.Load` on the live queue -/
  | load
  /-- stop, start again on the same datastore **with the queue bound `max`** (0 = unlimited) -/
  | restartMax (max : Nat)
  /-- arm the datastore's fault injection: the next `put` single Puts and the next `del` single Deletes fail -/
  | fail (put del : Nat)
  /-- `Sequencer.SubmitBatchTxs` called with a context in state `c` -/
  | submitCtx (c : Ctx) (id : Bytes) (b : Batch)
  /-- `Sequencer.GetNextBatch` called with a context in state `c` -/
  | nextCtx (c : Ctx) (id : Bytes)
  deriving Repr, DecidableEq, Inhabited

inductive Out
  | ok                 -- accepted
  | skipEmpty          -- empty batch: acknowledged, nothing stored
  | errId              -- foreign chain id
  | errFull            -- queue full
  | batch (b : Batch)  -- handed out
  | empty              -- nothing to hand out
  | restarted
  | errStore           -- the datastore write failed (`failed to add batch: …`)
  deriving Repr, DecidableEq, Inhabited

/-- the answers that refuse a submission or request (an empty submission is acknowledged but dropped) -/
def Out.refused (o : Out) : Bool := o == .errId || o == .errFull || o == .skipEmpty

/-- the bound in force: the one the process was last started with -/
def effMax (cfg : Cfg) (s : St) : Nat := s.maxOverride.getD cfg.max

def full (cfg : Cfg) (s : St) : Bool := decide (0 < effMax cfg s) && decide (effMax cfg s ≤ s.mem.length)

section
variable (key : Batch → Nat)

/-- the effect of an accepted `AddBatch`: durable `Put` under the content key, then append in memory -/
def accept (s : St) (b : Batch) : St := { s with mem := s.mem ++ [b], disk := s.disk.put (key b) b }

/-- the effect of a `Next` that finds `b` at the head: pop, then durable `Delete` of the content key -/
def pop (s : St) (b : Batch) (r : List Batch) : St := { s with mem := r, disk := s.disk.del (key b) }

/-- `BatchQueue.AddBatch` -/
def addBatch (cfg : Cfg) (s : St) (b : Batch) : St × Out :=
  if full cfg s then (s, .errFull) else (accept key s b, .ok)

/-- `BatchQueue.Next` -/
def nextBatch (s : St) : St × Out :=
  match s.mem with
  | [] => (s, .empty)
  | b :: r => (pop key s b r, .batch b)

/-- `BatchQueue.Load`: memory := the datastore's values in key order – **all** of them: `Load` does not
look at `maxQueueSize` (the bound is an admission bound).  A (re)started process has a healthy datastore. -/
def reload (s : St) : St := { s with mem := s.disk.map (·.2), failPut := 0, failDel := 0 }

/-! ### the same with datastore errors (`St.failPut`, `St.failDel`); `addBatch` … `getNext` above are the
fault-free behaviour (`addBatchF_eq` … in `Proofs/C10.lean`) -/

/-- `AddBatch` when the `Put` may fail: the bound is checked first; a failing `Put` returns the error and the
batch is **not** appended in memory (`queue.go`: `if err := bq.db.Put(…); err != nil { return err }`) -/
def addBatchF (cfg : Cfg) (s : St) (b : Batch) : St × Out :=
  if full cfg s then (s, .errFull)
  else if 0 < s.failPut then ({ s with failPut := s.failPut - 1 }, .errStore)
  else (accept key s b, .ok)

/-- the effect of a `Next` whose `Delete` fails: the head is popped and handed out, the error is only logged
(`queue.go`: "Log the error but continue") – the write-ahead record stays -/
def popKeep (s : St) (r : List Batch) : St := { s with mem := r, failDel := s.failDel - 1 }

/-- `Next` when the `Delete` may fail -/
def nextBatchF (s : St) : St × Out :=
  match s.mem with
  | [] => (s, .empty)
  | b :: r => if 0 < s.failDel then (popKeep s r, .batch b) else (pop key s b r, .batch b)

/-- `Sequencer.SubmitBatchTxs` -/
def submit (cfg : Cfg) (s : St) (id : Bytes) (b : Batch) : St × Out :=
  if id ≠ cfg.id then (s, .errId)
  else if b.isEmpty then (s, .skipEmpty)
  else addBatch key cfg s b

/-- `Sequencer.GetNextBatch` -/
def getNext (cfg : Cfg) (s : St) (id : Bytes) : St × Out :=
  if id ≠ cfg.id then (s, .errId) else nextBatch key s

/-- `Sequencer.SubmitBatchTxs` when the `Put` may fail -/
def submitF (cfg : Cfg) (s : St) (id : Bytes) (b : Batch) : St × Out :=
  if id ≠ cfg.id then (s, .errId)
  else if b.isEmpty then (s, .skipEmpty)
  else addBatchF key cfg s b

/-- `Sequencer.GetNextBatch` when the `Delete` may fail -/
def getNextF (cfg : Cfg) (s : St) (id : Bytes) : St × Out :=
  if id ≠ cfg.id then (s, .errId) else nextBatchF key s

/-- one operation; the output of a crashed operation is what it would have answered -/
def step (cfg : Cfg) (s : St) : Op → St × Out
  | .submit id b => submitF key cfg s id b
  | .next id => getNextF key cfg s id
  | .restart => (reload s, .restarted)
  | .crashSubmit true id b => let r := submitF key cfg s id b; (reload r.1, r.2)
  | .crashSubmit false id b => (reload s, (submitF key cfg s id b).2)
  | .crashNext true id => let r := getNextF key cfg s id; (reload r.1, r.2)
  | .crashNext false id => (reload s, (getNextF key cfg s id).2)
  | .add b => addBatchF key cfg s b
  | .qnext => nextBatchF key s
  | .load => (reload s, .restarted)
  | .restartMax n => (reload { s with maxOverride := some n }, .restarted)
  | .fail p d => ({ s with failPut := p, failDel := d }, .restarted)
  -- neither the sequencer nor the queue looks at the context (it is only passed on to the datastore)
  | .submitCtx _ id b => submitF key cfg s id b
  | .nextCtx _ id => getNextF key cfg s id

/-- the state of the process right after the operation's effect and *before* it stops: for the
operations that restart (`restart`, `load`, the crashes) this is the state whose durable part is then
reloaded; for the others it is the state after the operation. -/
def stepCore (cfg : Cfg) (s : St) : Op → St
  | .submit id b => (submitF key cfg s id b).1
  | .next id => (getNextF key cfg s id).1
  | .restart => s
  | .crashSubmit true id b => (submitF key cfg s id b).1
  | .crashSubmit false _ _ => s
  | .crashNext true id => (getNextF key cfg s id).1
  | .crashNext false _ => s
  | .add b => (addBatchF key cfg s b).1
  | .qnext => (nextBatchF key s).1
  | .load => s
  | .restartMax n => { s with maxOverride := some n }
  | .fail p d => { s with failPut := p, failDel := d }
  | .submitCtx _ id b => (submitF key cfg s id b).1
  | .nextCtx _ id => (getNextF key cfg s id).1

/-! ## ghost history: what has been accepted / removed / handed out / lost so far -/

/-- batches accepted by this step (acknowledged, or durable when the process died) -/
def acceptedBy : Op → Out → List Batch
  | .submit _ b, .ok => [b]
  | .crashSubmit true _ b, .ok => [b]
  | .add b, .ok => [b]
  | .submitCtx _ _ b, .ok => [b]
  | _, _ => []

/-- batches removed from the queue by this step: popped from memory and the write-ahead record deleted
(durably) – whether or not the caller ever received them -/
def removedBy : Op → Out → List Batch
  | .next _, .batch b => [b]
  | .crashNext true _, .batch b => [b]
  | .qnext, .batch b => [b]
  | .nextCtx _ _, .batch b => [b]
  | _, _ => []

/-- batches handed out by this step: **returned to the caller**.  A call that died between its durable
`Delete` and its return (`crashNext true`) hands out nothing. -/
def deliveredBy : Op → Out → List Batch
  | .next _, .batch b => [b]
  | .qnext, .batch b => [b]
  | .nextCtx _ _, .batch b => [b]
  | _, _ => []

/-- batches lost by this step: removed from the queue (record deleted, durable) by a call that died
before it returned – neither on disk nor with the caller -/
def lostBy : Op → Out → List Batch
  | .crashNext true _, .batch b => [b]
  | _, _ => []

structure Run where
  st : St := {}
  /-- accepted so far, in order -/
  acc : List Batch := []
  /-- removed from the queue so far (pop + durable delete), in order -/
  rem : List Batch := []
  /-- handed out (returned to the caller) so far, in order -/
  dlv : List Batch := []
  /-- removed from the queue by a call that died before returning, in order -/
  lost : List Batch := []
  /-- outputs so far, in order -/
  outs : List Out := []
  deriving Repr, DecidableEq, Inhabited

def Run.step (cfg : Cfg) (r : Run) (op : Op) : Run :=
  let so := Queue.step key cfg r.st op
  { st := so.1, acc := r.acc ++ acceptedBy op so.2, rem := r.rem ++ removedBy op so.2,
    dlv := r.dlv ++ deliveredBy op so.2, lost := r.lost ++ lostBy op so.2, outs := r.outs ++ [so.2] }

def runFrom (cfg : Cfg) (r : Run) (ops : List Op) : Run := ops.foldl (Run.step key cfg) r

/-- run a history from the freshly created, empty queue -/
def run (cfg : Cfg) (ops : List Op) : Run := runFrom key cfg {} ops

end

/-- no restart, crash or reload in this operation -/
def Op.plain : Op → Bool
  | .submit .. | .next .. | .add .. | .qnext | .submitCtx .. | .nextCtx .. => true
  | _ => false

/-- the operation stops the process and reloads the queue from the datastore -/
def Op.reloads : Op → Bool
  | .restart | .restartMax _ | .load | .crashSubmit .. | .crashNext .. => true
  | _ => false

/-- the operation arms failing `Delete`s (datastore errors are outside the property's quantifier) -/
def Op.armsDelete : Op → Bool
  | .fail _ d => decide (0 < d)
  | _ => false

/-- the operation changes the queue bound -/
def Op.changesBound : Op → Bool
  | .restartMax _ => true
  | _ => false

/-- an operation within one process lifetime: a call, or the arming of datastore faults -/
def Op.lifetime : Op → Bool
  | .submit .. | .next .. | .add .. | .qnext | .fail .. | .submitCtx .. | .nextCtx .. => true
  | _ => false

/-- the process dies between the durable `Delete` of `Next` and its return -/
def Op.crashAfterDelete : Op → Bool
  | .crashNext true _ => true
  | _ => false

/-! ## the abstract FIFO the property speaks about -/

/-- (the abstract FIFO has the configured bound `cfg.max` and a healthy store) -/
def afull (cfg : Cfg) (q : List Batch) : Bool := decide (0 < cfg.max) && decide (cfg.max ≤ q.length)

def astep (cfg : Cfg) (q : List Batch) : Op → List Batch × Out
  | .submit id b =>
    if id ≠ cfg.id then (q, .errId) else if b.isEmpty then (q, .skipEmpty)
    else if afull cfg q then (q, .errFull) else (q ++ [b], .ok)
  | .add b => if afull cfg q then (q, .errFull) else (q ++ [b], .ok)
  | .next id =>
    if id ≠ cfg.id then (q, .errId) else
    match q with | [] => (q, .empty) | b :: r => (r, .batch b)
  | .qnext => match q with | [] => (q, .empty) | b :: r => (r, .batch b)
  | .submitCtx _ id b =>
    if id ≠ cfg.id then (q, .errId) else if b.isEmpty then (q, .skipEmpty)
    else if afull cfg q then (q, .errFull) else (q ++ [b], .ok)
  | .nextCtx _ id =>
    if id ≠ cfg.id then (q, .errId) else
    match q with | [] => (q, .empty) | b :: r => (r, .batch b)
  | _ => (q, .restarted)

def arun (cfg : Cfg) : List Batch → List Op → List Batch × List Out
  | q, [] => (q, [])
  | q, op :: ops => let r := astep cfg q op; let t := arun cfg r.1 ops; (t.1, r.2 :: t.2)

/-! ## concurrent callers

Every exported method of `BatchQueue` takes `bq.mu` first and releases it by `defer`
(regenerated fact `Gen.C10.queueMethods`, `Spec.C10.calls_are_atomic`), and a `Sequencer` call
contains at most one such call and touches nothing else that is mutable
(`Gen.C10.sequencerCalls`).  So a concurrent execution of several clients, each running its own
program of calls, is a sequence of *atomic* calls: at every moment some client whose next call is
outstanding gets the mutex and its call runs to completion. -/

/-- `Interleaving progs sched`: `sched` is a merge of the clients' programs `progs` – every call of
every client exactly once, every client's calls in its program order -/
inductive Interleaving : List (List Op) → List Op → Prop
  | done {progs : List (List Op)} : (∀ p ∈ progs, p = []) → Interleaving progs []
  | call {progs : List (List Op)} {sched : List Op} (i : Nat) (op : Op) (rest : List Op) :
      progs[i]? = some (op :: rest) → Interleaving (progs.set i rest) sched → Interleaving progs (op :: sched)

section
variable (key : Batch → Nat)

/-- `Conc progs r r'`: the concurrent system with the clients' remaining programs `progs` can go from
`r` to `r'` with all programs finished: repeatedly some client with an outstanding call acquires the
mutex and performs the whole call (one atomic step of the queue). -/
inductive Conc (cfg : Cfg) : List (List Op) → Run → Run → Prop
  | done {progs : List (List Op)} {r : Run} : (∀ p ∈ progs, p = []) → Conc cfg progs r r
  | call {progs : List (List Op)} {r r' : Run} (i : Nat) (op : Op) (rest : List Op) :
      progs[i]? = some (op :: rest) → Conc cfg (progs.set i rest) (Run.step key cfg r op) r' → Conc cfg progs r r'

end

end Queue
