import Model.Bytes
import Model.Sha256
import Model.Wire

/-!
# The single sequencer's batch queue (`sequencers/single/queue.go`, `sequencer.go`)

`BatchQueue` = an in-memory slice plus a write-ahead copy in the datastore under the prefix
`batches`, **keyed by the hex SHA-256 of the batch's contents** (`core/sequencer.Batch.Hash`).

* `AddBatch`  : bound check, `Put(key(batch), encode(batch))`, then append in memory.
* `Next`      : pop the head in memory, then `Delete(key(batch))`.
* `Load`      : forget memory, iterate the key space **in datastore (= key) order**, append.
* `Sequencer.SubmitBatchTxs` / `GetNextBatch` : chain-id check, empty batches are skipped, then the above.

Every operation performs at most one atomic datastore write, so the crash points "between two
durable writes" are: before / after the single write of the operation in flight.

The model is parametric in the key function (`key : Batch → Nat`); the driver and the
counter-witnesses instantiate it with `realKey` (the real SHA-256 of the real hash encoding, read as
a big-endian number – the datastore orders the fixed-length lowercase hex strings exactly like
that number).  The datastore value is the protobuf encoding of the batch; the model keeps the batch
itself (the codec round trip is C12's business) and the driver prints the encoding.
-/

namespace Queue

/-- `coresequencer.Batch.Transactions` -/
abbrev Batch := List Bytes

/-- 8-byte big-endian (`binary.BigEndian.PutUint64`) -/
def be8 (n : Nat) : Bytes :=
  [(n / 72057594037927936 % 256).toUInt8, (n / 281474976710656 % 256).toUInt8,
   (n / 1099511627776 % 256).toUInt8, (n / 4294967296 % 256).toUInt8,
   (n / 16777216 % 256).toUInt8, (n / 65536 % 256).toUInt8, (n / 256 % 256).toUInt8, (n % 256).toUInt8]

/-- the byte string `Batch.Hash` feeds to SHA-256: nothing for an empty batch, otherwise the
number of transactions and every transaction length-prefixed (all 8-byte big-endian). -/
def hashEnc (b : Batch) : Bytes :=
  if b.isEmpty then [] else be8 b.length ++ b.flatMap (fun tx => be8 tx.length ++ tx)

/-- `Batch.Hash` -/
def hashOf (b : Batch) : Bytes := sha256 (hashEnc b)

/-- big-endian value of a byte string -/
def beNat (bs : Bytes) : Nat := bs.foldl (fun acc x => acc * 256 + x.toNat) 0

/-- the datastore key of a batch as a number (order of keys = order of these numbers) -/
def realKey (b : Batch) : Nat := beNat (hashOf b)

/-- the datastore key string `/batches/<hex(sha256 …)>` (printed by the driver, compared with the
real datastore's key on every run) -/
def keyString (b : Batch) : String := "/batches/" ++ Bytes.toHex (hashOf b)

/-- the datastore value: `proto.Marshal(&pb.Batch{Txs: …})` (`repeated bytes txs = 1`) -/
def valueOf (b : Batch) : Bytes := Wire.encFields (b.map fun t => (1, .len t))

/-! ## durable part: key-ordered finite map -/

abbrev Disk := List (Nat × Batch)

/-- insert before the first larger key -/
def Disk.ins (k : Nat) (v : Batch) : Disk → Disk
  | [] => [(k, v)]
  | e :: r => if k < e.1 then (k, v) :: e :: r else e :: Disk.ins k v r

/-- `Delete(key)` -/
def Disk.del (k : Nat) (d : Disk) : Disk := d.filter (fun e => e.1 ≠ k)

/-- `Put(key, value)`: replaces an existing entry with the same key -/
def Disk.put (k : Nat) (v : Batch) (d : Disk) : Disk := Disk.ins k v (Disk.del k d)

/-! ## state, operations -/

structure Cfg where
  /-- the sequencer's chain id -/
  id : Bytes := []
  /-- `maxQueueSize`; 0 = unlimited -/
  max : Nat := 0
  deriving Repr, DecidableEq, Inhabited

structure St where
  /-- `BatchQueue.queue` -/
  mem : List Batch := []
  /-- the datastore under the prefix `batches` -/
  disk : Disk := []
  deriving Repr, DecidableEq, Inhabited

inductive Op
  /-- `Sequencer.SubmitBatchTxs` -/
  | submit (id : Bytes) (b : Batch)
  /-- `Sequencer.GetNextBatch` -/
  | next (id : Bytes)
  /-- stop, start again on the same datastore (`NewSequencer…` → `Load`) -/
  | restart
  /-- the process dies during `SubmitBatchTxs`; `afterWrite` = the `Put` had become durable -/
  | crashSubmit (afterWrite : Bool) (id : Bytes) (b : Batch)
  /-- the process dies during `GetNextBatch`; `afterWrite` = the `Delete` had become durable
  (the response had been produced, so the batch counts as handed out) -/
  | crashNext (afterWrite : Bool) (id : Bytes)
  /-- `BatchQueue.AddBatch` called directly (no admission checks except the bound) -/
  | add (b : Batch)
  /-- `BatchQueue.Next` called directly -/
  | qnext
  /-- `BatchQueue.Load` on the live queue -/
  | load
  deriving Repr, DecidableEq, Inhabited

inductive Out
  | ok                 -- accepted
  | skipEmpty          -- empty batch: acknowledged, nothing stored
  | errId              -- foreign chain id
  | errFull            -- queue full
  | batch (b : Batch)  -- handed out
  | empty              -- nothing to hand out
  | restarted
  deriving Repr, DecidableEq, Inhabited

/-- the answers that refuse a submission or request (an empty submission is acknowledged but dropped) -/
def Out.refused (o : Out) : Bool := o == .errId || o == .errFull || o == .skipEmpty

def full (cfg : Cfg) (s : St) : Bool := decide (0 < cfg.max) && decide (cfg.max ≤ s.mem.length)

section
variable (key : Batch → Nat)

/-- the effect of an accepted `AddBatch`: durable `Put` under the content key, then append in memory -/
def accept (s : St) (b : Batch) : St := { mem := s.mem ++ [b], disk := s.disk.put (key b) b }

/-- the effect of a `Next` that finds `b` at the head: pop, then durable `Delete` of the content key -/
def pop (s : St) (b : Batch) (r : List Batch) : St := { mem := r, disk := s.disk.del (key b) }

/-- `BatchQueue.AddBatch` -/
def addBatch (cfg : Cfg) (s : St) (b : Batch) : St × Out :=
  if full cfg s then (s, .errFull) else (accept key s b, .ok)

/-- `BatchQueue.Next` -/
def nextBatch (s : St) : St × Out :=
  match s.mem with
  | [] => (s, .empty)
  | b :: r => (pop key s b r, .batch b)

/-- `BatchQueue.Load`: memory := the datastore's values in key order -/
def reload (s : St) : St := { mem := s.disk.map (·.2), disk := s.disk }

/-- `Sequencer.SubmitBatchTxs` -/
def submit (cfg : Cfg) (s : St) (id : Bytes) (b : Batch) : St × Out :=
  if id ≠ cfg.id then (s, .errId)
  else if b.isEmpty then (s, .skipEmpty)
  else addBatch key cfg s b

/-- `Sequencer.GetNextBatch` -/
def getNext (cfg : Cfg) (s : St) (id : Bytes) : St × Out :=
  if id ≠ cfg.id then (s, .errId) else nextBatch key s

/-- one operation; the output of a crashed operation is what it would have answered -/
def step (cfg : Cfg) (s : St) : Op → St × Out
  | .submit id b => submit key cfg s id b
  | .next id => getNext key cfg s id
  | .restart => (reload s, .restarted)
  | .crashSubmit true id b => let r := submit key cfg s id b; (reload r.1, r.2)
  | .crashSubmit false id b => (reload s, (submit key cfg s id b).2)
  | .crashNext true id => let r := getNext key cfg s id; (reload r.1, r.2)
  | .crashNext false id => (reload s, (getNext key cfg s id).2)
  | .add b => addBatch key cfg s b
  | .qnext => nextBatch key s
  | .load => (reload s, .restarted)

/-! ## ghost history: what has been accepted / handed out so far -/

/-- batches accepted by this step (acknowledged, or durable when the process died) -/
def acceptedBy : Op → Out → List Batch
  | .submit _ b, .ok => [b]
  | .crashSubmit true _ b, .ok => [b]
  | .add b, .ok => [b]
  | _, _ => []

/-- batches handed out by this step -/
def deliveredBy : Op → Out → List Batch
  | .next _, .batch b => [b]
  | .crashNext true _, .batch b => [b]
  | .qnext, .batch b => [b]
  | _, _ => []

structure Run where
  st : St := {}
  /-- accepted so far, in order -/
  acc : List Batch := []
  /-- handed out so far, in order -/
  dlv : List Batch := []
  /-- outputs so far, in order -/
  outs : List Out := []
  deriving Repr, DecidableEq, Inhabited

def Run.step (cfg : Cfg) (r : Run) (op : Op) : Run :=
  let so := Queue.step key cfg r.st op
  { st := so.1, acc := r.acc ++ acceptedBy op so.2, dlv := r.dlv ++ deliveredBy op so.2,
    outs := r.outs ++ [so.2] }

def runFrom (cfg : Cfg) (r : Run) (ops : List Op) : Run := ops.foldl (Run.step key cfg) r

/-- run a history from the freshly created, empty queue -/
def run (cfg : Cfg) (ops : List Op) : Run := runFrom key cfg {} ops

end

/-- no restart, crash or reload in this operation -/
def Op.plain : Op → Bool
  | .submit .. | .next .. | .add .. | .qnext => true
  | _ => false

/-! ## the abstract FIFO the property speaks about -/

def afull (cfg : Cfg) (q : List Batch) : Bool := decide (0 < cfg.max) && decide (cfg.max ≤ q.length)

def astep (cfg : Cfg) (q : List Batch) : Op → List Batch × Out
  | .submit id b =>
    if id ≠ cfg.id then (q, .errId) else if b.isEmpty then (q, .skipEmpty)
    else if afull cfg q then (q, .errFull) else (q ++ [b], .ok)
  | .add b => if afull cfg q then (q, .errFull) else (q ++ [b], .ok)
  | .next id =>
    if id ≠ cfg.id then (q, .errId) else
    match q with | [] => (q, .empty) | b :: r => (r, .batch b)
  | .qnext => match q with | [] => (q, .empty) | b :: r => (r, .batch b)
  | _ => (q, .restarted)

def arun (cfg : Cfg) : List Batch → List Op → List Batch × List Out
  | q, [] => (q, [])
  | q, op :: ops => let r := astep cfg q op; let t := arun cfg r.1 ops; (t.1, r.2 :: t.2)

end Queue
