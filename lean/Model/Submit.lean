import Model.Producer

/-!
# DA submission, watermarks, DA-inclusion marks and the DA-included height on the sequencer node
(`block/submitter.go`, `block/pending_base.go`, `block/da_includer.go`, `block/manager.go:481-535`).

The DA layer is the scripted double of the harness: each `Submit` call consumes one answer; accepted blobs are
stored at the current DA height, which then advances by one (assumption A-DA1: all blobs of one `Submit` land at
the height of its first id).
-/

namespace Submit
open Wire Chain Producer

/-- one answer of the DA layer to a `Submit` call -/
inductive DAAns
  | ok (k : Option Nat)        -- accepted: all (`none`) or only the first `k` blobs
  | lost (k : Option Nat)      -- accepted on the DA layer, but the acknowledgement is lost (generic error)
  | notIncluded | inMempool | tooBig | error | canceled
  deriving Repr, DecidableEq, Inhabited

/-- what one `Submit` call carried -/
structure SubmitCall where
  isData : Bool
  heights : List Nat
  ans : DAAns
  daHeight : Nat            -- DA height at which accepted blobs were placed
  accepted : Nat            -- how many blobs the DA layer stored
  deriving Repr, Inhabited

/-- aggregator state beyond production -/
structure ANode where
  n : Node := {}
  hMarks : List (Bytes × Nat) := []      -- headerCache.daIncluded : header hash ↦ DA height
  dMarks : List (Bytes × Nat) := []      -- dataCache.daIncluded : data commitment ↦ DA height
  daInc : Nat := 0                        -- daIncludedHeight
  finals : List Nat := []                 -- SetFinal calls received by the execution layer (latest first)
  daH : Nat := 1                          -- DA double: current height
  daBlobs : List (Nat × Bool × Nat) := [] -- DA double: (DA height, isData, block height) of stored blobs (latest first)
  /-- DA double, the stored blobs themselves: (DA height, isData, block height, blob bytes), aligned with `daBlobs` -/
  daBytes : List (Nat × Bool × Nat × Bytes) := []
  deriving Repr, Inhabited

def maxSubmitAttempts : Nat := 30

def markOf (m : List (Bytes × Nat)) (k : Bytes) : Option Nat := (m.find? (·.1 = k)).map (·.2)

def hdrWmKey : String := "last-submitted-header-height"
def dataWmKey : String := "last-submitted-data-height"
def daIncKey : String := "d"

/-- an item to submit: block height, the key under which it is marked, and the blob handed to the DA layer -/
structure Item where
  height : Nat
  key : Bytes
  blob : Bytes := []
  deriving Repr, Inhabited

/-! ### the submitted blobs (`SignedHeader.MarshalBinary` / `SignedData.MarshalBinary`)

Signatures and keys are symbolic in the chain model (`Chain.Sig`, `KeyId`); they are embedded into the byte fields of the
wire types by fixed injections (real Ed25519 signatures and libp2p keys are checked by the Go monitors). -/

def sigBytes : Sig → Bytes
  | .none => []
  | .garbage b => 0 :: b
  | .by k p => 1 :: (Bytes.le 8 k ++ p)

/-- never empty: `FromProto` keeps a signer only when a public key is present -/
def keyBytes (k : KeyId) : Bytes := 2 :: Bytes.le 8 k

def wireSigner (s : MSigner) : Signer := { address := s.addr, pubKey := (s.key.map keyBytes).getD [] }

/-- the wire form of a stored signed header -/
def wireHeader (b : Block) : SignedHeader :=
  { header := b.sh.hdr, signature := sigBytes b.sh.sig, signer := wireSigner b.sh.signer }

/-- `createSignedDataToSubmit`: the stored data, signed at submission time over its encoding with the node's key (the key
the block's header was signed with), signer = the header's signer -/
def wireData (b : Block) : SignedData :=
  { data := b.data
    signature := sigBytes (match b.sh.signer.key with
      | some k => .by k b.data.encode
      | none => .none)
    signer := wireSigner b.sh.signer }

def hdrBlob (b : Block) : Bytes := (wireHeader b).encode
def dataBlob (b : Block) : Bytes := (wireData b).encode

/-- `pendingBase.setLastSubmittedHeight`: only grows; persisted -/
def raiseWm (a : ANode) (isData : Bool) (h : Nat) : ANode × List SW :=
  let cur := if isData then a.n.dataWm else a.n.hdrWm
  if h > cur then
    let w := SW.setMeta (if isData then dataWmKey else hdrWmKey) (le64 h)
    let n' : Node := if isData then { a.n with dataWm := h, store := a.n.store.apply w }
                     else { a.n with hdrWm := h, store := a.n.store.apply w }
    ({ a with n := n' }, [w])
  else (a, [])

/-- the generic retry loop `submitToDA` with the bookkeeping of `postSubmit` -/
def submitLoop (isData : Bool) : Nat → ANode → List Item → List DAAns → List SW → List SubmitCall →
    ANode × List SW × List SubmitCall × Bool
  | 0, a, rem, _, ws, calls => (a, ws, calls, rem.isEmpty)
  | fuel+1, a, rem, script, ws, calls =>
    if rem.isEmpty then (a, ws, calls, true) else
    let ans := script.headD (.ok none)
    let script' := script.tail
    let cnt (k : Option Nat) : Nat := match k with | none => rem.length | some k => min k rem.length
    let hs := rem.map (·.height)
    match ans with
    | .ok k =>
      let c := cnt k
      if c = 0 then
        -- no ids returned for non-empty input: StatusError
        submitLoop isData fuel a rem script' ws (calls ++ [⟨isData, hs, ans, a.daH, 0⟩])
      else
        let sub := rem.take c
        let a1 : ANode :=
          if isData then { a with dMarks := sub.foldl (fun m it => (it.key, a.daH) :: m) a.dMarks }
          else { a with hMarks := sub.foldl (fun m it => (it.key, a.daH) :: m) a.hMarks }
        let lastH := (sub.getLast?.map (·.height)).getD 0
        let (a2, w) := raiseWm a1 isData lastH
        let a3 := { a2 with daH := a.daH + 1, daBlobs := (sub.map fun it => (a.daH, isData, it.height)).reverse ++ a2.daBlobs,
                            daBytes := (sub.map fun it => (a.daH, isData, it.height, it.blob)).reverse ++ a2.daBytes }
        submitLoop isData fuel a3 (rem.drop c) script' (ws ++ w) (calls ++ [⟨isData, hs, ans, a.daH, c⟩])
    | .lost k =>
      let c := cnt k
      let sub := rem.take c
      let a3 := if c = 0 then a else
        { a with daH := a.daH + 1, daBlobs := (sub.map fun it => (a.daH, isData, it.height)).reverse ++ a.daBlobs,
                 daBytes := (sub.map fun it => (a.daH, isData, it.height, it.blob)).reverse ++ a.daBytes }
      submitLoop isData fuel a3 rem script' ws (calls ++ [⟨isData, hs, ans, a.daH, c⟩])
    | .canceled => (a, ws, calls ++ [⟨isData, hs, ans, a.daH, 0⟩], false)
    | _ => submitLoop isData fuel a rem script' ws (calls ++ [⟨isData, hs, ans, a.daH, 0⟩])

inductive IterOut | skipped | fetchErr | done | incomplete
  deriving Repr, DecidableEq, Inhabited

/-- heights `(wm, height]` with their blocks; `none` if one is missing (`getPending` error) -/
def pendingBlocks (s : Store) (wm : Nat) : Option (List Block) :=
  (List.range (s.height - wm)).mapM fun i => s.getBlock (wm + 1 + i)

/-- one tick of `HeaderSubmissionLoop` -/
def headersIter (a : ANode) (script : List DAAns) : ANode × List SW × List SubmitCall × IterOut :=
  if a.n.store.height = a.n.hdrWm then (a, [], [], .skipped)
  else if a.n.hdrWm > a.n.store.height then (a, [], [], .fetchErr)
  else match pendingBlocks a.n.store a.n.hdrWm with
    | none => (a, [], [], .fetchErr)
    | some bs =>
      let items := bs.map fun b => ({ height := b.sh.hdr.height, key := b.sh.hdr.hash, blob := hdrBlob b } : Item)
      let (a', ws, calls, all) := submitLoop false maxSubmitAttempts a items script [] []
      (a', ws, calls, if all then .done else .incomplete)

/-- one tick of `DataSubmissionLoop` (`createSignedDataToSubmit` skips empty data; when nothing is left it advances the
watermark over the — all empty — pending blocks) -/
def dataIter (a : ANode) (script : List DAAns) : ANode × List SW × List SubmitCall × IterOut :=
  if a.n.store.height = a.n.dataWm then (a, [], [], .skipped)
  else if a.n.dataWm > a.n.store.height then (a, [], [], .fetchErr)
  else match pendingBlocks a.n.store a.n.dataWm with
    | none => (a, [], [], .fetchErr)
    | some bs =>
      let items := (bs.filter fun b => !b.data.txs.isEmpty).map fun b =>
        ({ height := (b.data.metadata.map (·.height)).getD 0, key := b.data.daCommitment, blob := dataBlob b } : Item)
      if items.isEmpty then
        -- every pending block is empty: nothing to submit; the watermark moves past them (to the height the last
        -- pending block carries in its data metadata)
        let (a', w) := raiseWm a true ((bs.getLast?.map fun b => (b.data.metadata.map (·.height)).getD 0).getD 0)
        (a', w, [], .skipped)
      else
        let (a', ws, calls, all) := submitLoop true maxSubmitAttempts a items script [] []
        (a', ws, calls, if all then .done else .incomplete)

/-! ### the write that persists the watermark fails (`store.SetMetadata` returns an error)

`setLastSubmittedHeight` stores the new value in memory first and only logs a failed `SetMetadata`: the in-memory
watermark stays raised, the durable copy lags until the next successful write (or a restart, which reloads the durable
copy).  `nf` = how many of the next metadata writes fail (the harness arms `hx.LogDS.FailPut = nf` right before the tick;
a raise that does not move the watermark writes nothing and consumes no fault).  With `nf = 0` these are the functions
above (`Submit.submitLoopF_zero`, `headersIterF_zero`, `dataIterF_zero` in `Proofs/SubmitFault.lean`). -/

/-- `pendingBase.setLastSubmittedHeight` with a failing persist (`fail`): memory is raised, nothing is written -/
def raiseWmF (fail : Bool) (a : ANode) (isData : Bool) (h : Nat) : ANode × List SW :=
  if fail then
    let cur := if isData then a.n.dataWm else a.n.hdrWm
    if h > cur then
      ({ a with n := if isData then { a.n with dataWm := h } else { a.n with hdrWm := h } }, [])
    else (a, [])
  else raiseWm a isData h

/-- does raising to `h` issue a metadata write at all -/
def raises (a : ANode) (isData : Bool) (h : Nat) : Bool := decide (h > (if isData then a.n.dataWm else a.n.hdrWm))

/-- `submitLoop` when the next `nf` watermark writes fail; also returns the faults left -/
def submitLoopF (isData : Bool) : Nat → Nat → ANode → List Item → List DAAns → List SW → List SubmitCall →
    (ANode × List SW × List SubmitCall × Bool) × Nat
  | 0, nf, a, rem, _, ws, calls => ((a, ws, calls, rem.isEmpty), nf)
  | fuel+1, nf, a, rem, script, ws, calls =>
    if rem.isEmpty then ((a, ws, calls, true), nf) else
    let ans := script.headD (.ok none)
    let script' := script.tail
    let cnt (k : Option Nat) : Nat := match k with | none => rem.length | some k => min k rem.length
    let hs := rem.map (·.height)
    match ans with
    | .ok k =>
      let c := cnt k
      if c = 0 then
        submitLoopF isData fuel nf a rem script' ws (calls ++ [⟨isData, hs, ans, a.daH, 0⟩])
      else
        let sub := rem.take c
        let a1 : ANode :=
          if isData then { a with dMarks := sub.foldl (fun m it => (it.key, a.daH) :: m) a.dMarks }
          else { a with hMarks := sub.foldl (fun m it => (it.key, a.daH) :: m) a.hMarks }
        let lastH := (sub.getLast?.map (·.height)).getD 0
        let fail := raises a1 isData lastH && decide (nf > 0)
        let (a2, w) := raiseWmF fail a1 isData lastH
        let a3 := { a2 with daH := a.daH + 1, daBlobs := (sub.map fun it => (a.daH, isData, it.height)).reverse ++ a2.daBlobs,
                            daBytes := (sub.map fun it => (a.daH, isData, it.height, it.blob)).reverse ++ a2.daBytes }
        submitLoopF isData fuel (if fail then nf - 1 else nf) a3 (rem.drop c) script' (ws ++ w)
          (calls ++ [⟨isData, hs, ans, a.daH, c⟩])
    | .lost k =>
      let c := cnt k
      let sub := rem.take c
      let a3 := if c = 0 then a else
        { a with daH := a.daH + 1, daBlobs := (sub.map fun it => (a.daH, isData, it.height)).reverse ++ a.daBlobs,
                 daBytes := (sub.map fun it => (a.daH, isData, it.height, it.blob)).reverse ++ a.daBytes }
      submitLoopF isData fuel nf a3 rem script' ws (calls ++ [⟨isData, hs, ans, a.daH, c⟩])
    | .canceled => ((a, ws, calls ++ [⟨isData, hs, ans, a.daH, 0⟩], false), nf)
    | _ => submitLoopF isData fuel nf a rem script' ws (calls ++ [⟨isData, hs, ans, a.daH, 0⟩])

/-- one tick of `HeaderSubmissionLoop`, the next `nf` watermark writes failing -/
def headersIterF (nf : Nat) (a : ANode) (script : List DAAns) : (ANode × List SW × List SubmitCall × IterOut) × Nat :=
  if a.n.store.height = a.n.hdrWm then ((a, [], [], .skipped), nf)
  else if a.n.hdrWm > a.n.store.height then ((a, [], [], .fetchErr), nf)
  else match pendingBlocks a.n.store a.n.hdrWm with
    | none => ((a, [], [], .fetchErr), nf)
    | some bs =>
      let items := bs.map fun b => ({ height := b.sh.hdr.height, key := b.sh.hdr.hash, blob := hdrBlob b } : Item)
      let r := submitLoopF false maxSubmitAttempts nf a items script [] []
      ((r.1.1, r.1.2.1, r.1.2.2.1, if r.1.2.2.2 then .done else .incomplete), r.2)

/-- one tick of `DataSubmissionLoop`, the next `nf` watermark writes failing -/
def dataIterF (nf : Nat) (a : ANode) (script : List DAAns) : (ANode × List SW × List SubmitCall × IterOut) × Nat :=
  if a.n.store.height = a.n.dataWm then ((a, [], [], .skipped), nf)
  else if a.n.dataWm > a.n.store.height then ((a, [], [], .fetchErr), nf)
  else match pendingBlocks a.n.store a.n.dataWm with
    | none => ((a, [], [], .fetchErr), nf)
    | some bs =>
      let items := (bs.filter fun b => !b.data.txs.isEmpty).map fun b =>
        ({ height := (b.data.metadata.map (·.height)).getD 0, key := b.data.daCommitment, blob := dataBlob b } : Item)
      if items.isEmpty then
        let h := (bs.getLast?.map fun b => (b.data.metadata.map (·.height)).getD 0).getD 0
        let fail := raises a true h && decide (nf > 0)
        let r := raiseWmF fail a true h
        ((r.1, r.2, [], .skipped), if fail then nf - 1 else nf)
      else
        let r := submitLoopF true maxSubmitAttempts nf a items script [] []
        ((r.1.1, r.1.2.1, r.1.2.2.1, if r.1.2.2.2 then .done else .incomplete), r.2)

/-! ### a block committed while a submission body runs

`DataSubmissionLoop` / `HeaderSubmissionLoop` and `AggregationLoop` are different goroutines.  A submission body reads its
pending list once, at its beginning; a block the aggregation loop commits afterwards — while the items are signed, or while
the blobs are in flight — is not in that list.  The body then writes only watermark metadata, marks and the DA double; the
production step writes blocks, state, height and the batch cursor and reads the watermarks (pending limit) as they were. -/

/-- the node after both: the submission's result `a2` (computed on the node before both) with the production step's
result `n1` (computed on the same node) for everything the submission does not write -/
def mergeDuring (a2 : ANode) (n1 : Node) (ws2 : List SW) : ANode :=
  { a2 with n := { n1 with hdrWm := a2.n.hdrWm, dataWm := a2.n.dataWm, store := n1.store.applyAll ws2 } }

/-- a data tick during which a block is committed (after the pending list was read) -/
def dataIterDuring (c : Cfg) (a : ANode) (script : List DAAns) (resp : SeqResp) (ex : ExecResp) :
    ANode × List SW × List SubmitCall × IterOut × Outcome :=
  let r := dataIter a script
  let p := publish c a.n resp ex
  (mergeDuring r.1 p.1 r.2.1, p.2.1 ++ r.2.1, r.2.2.1, r.2.2.2, p.2.2)

def headersIterDuring (c : Cfg) (a : ANode) (script : List DAAns) (resp : SeqResp) (ex : ExecResp) :
    ANode × List SW × List SubmitCall × IterOut × Outcome :=
  let r := headersIter a script
  let p := publish c a.n resp ex
  (mergeDuring r.1 p.1 r.2.1, p.2.1 ++ r.2.1, r.2.2.1, r.2.2.2, p.2.2)

/-- `IsDAIncluded` -/
def isDAIncluded (a : ANode) (h : Nat) : Option Bool :=
  if a.n.store.height < h then some false
  else match a.n.store.getBlock h with
    | none => none
    | some b =>
      some ((markOf a.hMarks b.sh.hdr.hash).isSome &&
            (b.data.daCommitment = emptyDataHash || (markOf a.dMarks b.data.daCommitment).isSome))

def rhbKey (h : Nat) (part : String) : String := s!"rhb/{h}/{part}"

/-- one pass of the body of `DAIncluderLoop` -/
def includerPass : Nat → ANode → List SW → ANode × List SW
  | 0, a, ws => (a, ws)
  | fuel+1, a, ws =>
    let next := a.daInc + 1
    match isDAIncluded a next with
    | some true =>
      match a.n.store.getBlock next with
      | none => (a, ws)
      | some b =>
        match markOf a.hMarks b.sh.hdr.hash with
        | none => (a, ws)
        | some hd =>
          let dd : Option Nat := if b.data.daCommitment = emptyDataHash then some hd else markOf a.dMarks b.data.daCommitment
          match dd with
          | none => (a, ws)       -- (the loop would terminate with an error here)
          | some dd =>
            let w1 := SW.setMeta (rhbKey next "h") (le64 hd)
            let w2 := SW.setMeta (rhbKey next "d") (le64 dd)
            let w3 := SW.setMeta daIncKey (le64 next)
            let st := ((a.n.store.apply w1).apply w2).apply w3
            includerPass fuel { a with n := { a.n with store := st }, daInc := next, finals := next :: a.finals } (ws ++ [w1, w2, w3])
    | _ => (a, ws)

def includerIter (a : ANode) : ANode × List SW := includerPass (a.n.store.height + 1) a []

/-- (re)start of the aggregator (`disk = {}`: the first start): watermarks and DA-included height are reloaded from the
image, each raised to `initialHeight - 1`; the marks survive only
a clean stop (they are written to the cache files by `SaveCache`) -/
def restart (c : Cfg) (a : ANode) (disk : Store) (clean : Bool) : Option ANode :=
  match Producer.start c disk with
  | .error _ => none
  | .ok (n, _) =>
    let di0 := match n.store.getMeta daIncKey with
      | some b => if b.length = 8 then Bytes.unLe b else 0
      | none => 0
    -- heights below the initial height do not exist and need no inclusion: the value in memory starts at
    -- initialHeight - 1 (not persisted; the next advance persists initialHeight)
    let di := if c.initialHeight > 1 ∧ di0 < c.initialHeight - 1 then c.initialHeight - 1 else di0
    some { a with n := n, daInc := di, hMarks := if clean then a.hMarks else [], dMarks := if clean then a.dMarks else [] }

end Submit
