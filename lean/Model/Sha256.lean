import Model.Bytes
/- SHA-256 over Nat words (mod 2^32), structural recursion only, for kernel evaluation -/
namespace Sha256
def M : Nat := 4294967296
def K : List Nat := [
  0x428a2f98,0x71374491,0xb5c0fbcf,0xe9b5dba5,0x3956c25b,0x59f111f1,0x923f82a4,0xab1c5ed5,
  0xd807aa98,0x12835b01,0x243185be,0x550c7dc3,0x72be5d74,0x80deb1fe,0x9bdc06a7,0xc19bf174,
  0xe49b69c1,0xefbe4786,0x0fc19dc6,0x240ca1cc,0x2de92c6f,0x4a7484aa,0x5cb0a9dc,0x76f988da,
  0x983e5152,0xa831c66d,0xb00327c8,0xbf597fc7,0xc6e00bf3,0xd5a79147,0x06ca6351,0x14292967,
  0x27b70a85,0x2e1b2138,0x4d2c6dfc,0x53380d13,0x650a7354,0x766a0abb,0x81c2c92e,0x92722c85,
  0xa2bfe8a1,0xa81a664b,0xc24b8b70,0xc76c51a3,0xd192e819,0xd6990624,0xf40e3585,0x106aa070,
  0x19a4c116,0x1e376c08,0x2748774c,0x34b0bcb5,0x391c0cb3,0x4ed8aa4a,0x5b9cca4f,0x682e6ff3,
  0x748f82ee,0x78a5636f,0x84c87814,0x8cc70208,0x90befffa,0xa4506ceb,0xbef9a3f7,0xc67178f2]
def rotr (x n : Nat) : Nat := ((x >>> n) ||| (x <<< (32 - n))) % M
def not32 (x : Nat) : Nat := M - 1 - x

def pad (msg : List Nat) : List Nat :=
  let l := msg.length
  let zeros := (119 - l % 64) % 64
  let bl := l * 8
  msg ++ [0x80] ++ List.replicate zeros 0 ++ (List.range 8).map (fun i => (bl >>> ((7 - i) * 8)) % 256)

def words : List Nat → List Nat
  | a :: b :: c :: d :: rest => (a * 16777216 + b * 65536 + c * 256 + d) :: words rest
  | _ => []

/-- extend schedule: w is reversed list (most recent first) -/
def extend : Nat → List Nat → List Nat
  | 0, w => w
  | n+1, w =>
    let g := fun i => w.getD i 0
    let w15 := g 14; let w2 := g 1; let w16 := g 15; let w7 := g 6
    let s0 := rotr w15 7 ^^^ rotr w15 18 ^^^ (w15 >>> 3)
    let s1 := rotr w2 17 ^^^ rotr w2 19 ^^^ (w2 >>> 10)
    extend n (((w16 + s0 + w7 + s1) % M) :: w)

structure St where
  a : Nat
  b : Nat
  c : Nat
  d : Nat
  e : Nat
  f : Nat
  g : Nat
  h : Nat

def round (s : St) (kw : Nat × Nat) : St :=
  let S1 := rotr s.e 6 ^^^ rotr s.e 11 ^^^ rotr s.e 25
  let ch := (s.e &&& s.f) ^^^ (not32 s.e &&& s.g)
  let t1 := (s.h + S1 + ch + kw.1 + kw.2) % M
  let S0 := rotr s.a 2 ^^^ rotr s.a 13 ^^^ rotr s.a 22
  let mj := (s.a &&& s.b) ^^^ (s.a &&& s.c) ^^^ (s.b &&& s.c)
  let t2 := (S0 + mj) % M
  { a := (t1 + t2) % M, b := s.a, c := s.b, d := s.c, e := (s.d + t1) % M, f := s.e, g := s.f, h := s.g }

def compress (h : St) (blk : List Nat) : St :=
  let w := (extend 48 (words blk).reverse).reverse
  let r := (K.zip w).foldl round h
  { a := (h.a + r.a) % M, b := (h.b + r.b) % M, c := (h.c + r.c) % M, d := (h.d + r.d) % M,
    e := (h.e + r.e) % M, f := (h.f + r.f) % M, g := (h.g + r.g) % M, h := (h.h + r.h) % M }

def blocks : Nat → List Nat → St → St
  | 0, _, h => h
  | n+1, p, h => blocks n (p.drop 64) (compress h (p.take 64))

def H0 : St := ⟨0x6a09e667,0xbb67ae85,0x3c6ef372,0xa54ff53a,0x510e527f,0x9b05688c,0x1f83d9ab,0x5be0cd19⟩

def be4 (x : Nat) : List Nat := [x / 16777216 % 256, x / 65536 % 256, x / 256 % 256, x % 256]

def hash (msg : List Nat) : List Nat :=
  let p := pad msg
  let r := blocks (p.length / 64) p H0
  be4 r.a ++ be4 r.b ++ be4 r.c ++ be4 r.d ++ be4 r.e ++ be4 r.f ++ be4 r.g ++ be4 r.h


end Sha256

/-- SHA-256 on byte strings (the function the driver and the theorems both use). -/
def sha256 (bs : Bytes) : Bytes := (Sha256.hash (bs.map UInt8.toNat)).map Nat.toUInt8
