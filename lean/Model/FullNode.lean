import Model.Retrieve
import Model.Submit

/-!
# A full node that syncs from the DA layer only, across restarts

Composition of the two loops a node without signer runs side by side (`node/full.go`):

* `RetrieveLoop` (`Retrieve.scan`) walks the DA layer from the cursor `m.daHeight`, hands every accepted header /
  signed data blob to the sync loop through `headerInCh` / `dataInCh`;
* `SyncLoop` (`Sync.onHeader` / `Sync.onData`) caches what it is handed and applies complete blocks;
* `NewManager` (`Sync.start` + the lines of `block/manager.go` that follow `getInitialState`): the in-memory state's
  DA height is raised to `config.DA.StartHeight` and **the DA cursor starts at that value**,
  `max(persisted state.DAHeight, DA start height)`; the caches come from the cache files (clean stop) or are empty
  (crash).

`trySyncNextBlock` receives the DA height of the event that completed a block, but only assigns it to a local copy
of the state *after* that state was persisted (`block/sync.go`, after `updateState`/`SetHeight`): nothing durable
depends on it.  The model therefore ignores the DA height an event carries; `nextState` keeps `daHeight`.

The two event channels are served by `select` in arbitrary relative order.  This model delivers the events of one
scan in emission order; height, stored blocks and state at quiescence do not depend on that choice
(`Spec.C02`: they are a function of the *set* of delivered events).
-/

namespace FullNode
open Wire Chain

structure Cfg where
  sync : Sync.Cfg
  daStart : Nat := 0          -- `config.DA.StartHeight`
  key : KeyId := 1            -- the key id under which a header accepted from the DA layer is represented
  deriving Inhabited

/-- the node between two operations (both loops idle) -/
structure Node where
  full : Sync.FNode := {}
  cursor : Nat := 0           -- `m.daHeight`: the next DA height `RetrieveLoop` examines
  deriving Inhabited

/-- `if s.DAHeight < config.DA.StartHeight { s.DAHeight = config.DA.StartHeight }` -/
def raise (d : Nat) (s : State) : State := { s with daHeight := max s.daHeight d }

/-- `NewManager` of a node without signer: `getInitialState` on the durable image, the raise of the DA height,
`daH.Store(s.DAHeight)`, `lastState: s`, `LoadCache` -/
def start (c : Cfg) (disk : Store) (caches : Sync.FNode := {}) : Option (Node × List SW) :=
  match Sync.start c.sync disk caches with
  | none => none
  | some (n, ws) =>
    let st := raise c.daStart n.lastState
    some ({ full := { n with lastState := st }, cursor := st.daHeight }, ws)

/-- the header event the retriever hands over, as the sync loop sees it.  The retriever has already run
`ValidateBasic` on this very object: the signature verifies under the carried key and the signer's address is the
proposer address of the header (`Retrieve.validateBasicWire`); `execValidate` runs the same check again. -/
def toSH (k : KeyId) (w : SignedHeader) : SHeader :=
  { hdr := w.header, sig := .by k (payload w.header), signer := { addr := w.signer.address, key := some k } }

/-- one event taken from `headerInCh` / `dataInCh` -/
def stepEv (c : Cfg) (n : Sync.FNode) : Retrieve.Event → Sync.FNode × List SW
  | .hdr w _ => Sync.onHeader n (toSH c.key w)
  | .dat sd _ => Sync.onData n sd.data

/-- the sync loop drains the events of a scan -/
def feed (c : Cfg) : Sync.FNode → List Retrieve.Event → Sync.FNode × List SW
  | n, [] => (n, [])
  | n, e :: rest =>
    let r := stepEv c n e
    let r' := feed c r.1 rest
    (r'.1, r.2 ++ r'.2)

/-- enough fuel for the scan to reach the first height the DA layer does not have yet -/
def scanFuel (cursor top : Nat) : Nat := max top cursor + 2 - cursor

/-- the view the retriever has of the node when a scan starts (`headerCache.IsSeen` / `dataCache.IsSeen`) -/
def rnodeOf (nd : Node) : Retrieve.RNode := { daHeight := nd.cursor, seenH := nd.full.seenH, seenD := nd.full.seenD }

/-- **run until quiescent**: the retriever scans until a height from the future or a persistently failing height,
the sync loop handles everything it was handed.  Returns the node, the DA view (fetch scripts consumed) and the
durable writes in order. -/
def run (c : Cfg) (nd : Node) (v : Retrieve.DAView) : Node × Retrieve.DAView × List SW :=
  let r := Retrieve.scan c.sync.proposerAddr (scanFuel nd.cursor v.top) (rnodeOf nd) v [] []
  let f := feed c nd.full r.2.2.1
  ({ full := f.1, cursor := r.1.daHeight }, r.2.1, f.2)

def isHdr : Retrieve.Event → Bool
  | .hdr _ _ => true
  | .dat _ _ => false

/-- one of the schedules `select` may produce: one channel is served completely before the other, and the last
`hold` events of the other channel are still queued (never handled) when the node is stopped -/
def sched (hdrFirst : Bool) (hold : Nat) (evs : List Retrieve.Event) : List Retrieve.Event :=
  let hs := evs.filter isHdr
  let ds := evs.filter (fun e => !isHdr e)
  if hdrFirst then hs ++ ds.take (ds.length - hold) else ds ++ hs.take (hs.length - hold)

/-- a scan whose events are served in the schedule `sched hdrFirst hold`; the node is then stopped cleanly with the
held events still queued (queued events are not part of what `SaveCache` writes) -/
def runHeld (c : Cfg) (nd : Node) (v : Retrieve.DAView) (hdrFirst : Bool) (hold : Nat) : Node × Retrieve.DAView × List SW :=
  let r := Retrieve.scan c.sync.proposerAddr (scanFuel nd.cursor v.top) (rnodeOf nd) v [] []
  let f := feed c nd.full (sched hdrFirst hold r.2.2.1)
  ({ full := f.1, cursor := r.1.daHeight }, r.2.1, f.2)

/-- clean stop (`SaveCache`) and restart on the same store and cache directory -/
def restartClean (c : Cfg) (nd : Node) : Option (Node × List SW) := start c nd.full.store nd.full

/-- the process dies after `k` of the durable writes `ws` issued since the store was `before`; restart on that
image with empty caches -/
def restartCrash (c : Cfg) (before : Store) (ws : List SW) (k : Nat) : Option (Node × List SW) :=
  start c (before.applyPrefix k ws) {}

/-! ## histories: what happens to the node and to the DA layer, one operation at a time -/

/-- the DA-inclusion marks one scan sets (`headerCache/dataCache.SetDAIncluded`: every accepted blob at a passed DA
height, seen or not), latest first -/
def marksOf (c : Cfg) (nd : Node) (v : Retrieve.DAView) : List (Bytes × Nat) × List (Bytes × Nat) :=
  let r := Retrieve.scan c.sync.proposerAddr (scanFuel nd.cursor v.top) (rnodeOf nd) v [] []
  (r.1.hMarks, r.1.dMarks)

/-- `NewManager`: the DA-included height is read from the metadata and raised to `initialHeight - 1` -/
def daIncOf (c : Cfg) (st : Store) : Nat :=
  let di0 := match st.getMeta Submit.daIncKey with
    | some b => if b.length = 8 then Bytes.unLe b else 0
    | none => 0
  if c.sync.initialHeight > 1 ∧ di0 < c.sync.initialHeight - 1 then c.sync.initialHeight - 1 else di0

/-- the view `DAIncluderLoop` has of the node: store, marks, DA-included height, `SetFinal` log -/
def toA (st : Store) (hm dm : List (Bytes × Nat)) (di : Nat) (fin : List Nat) : Submit.ANode :=
  { n := { store := st }, hMarks := hm, dMarks := dm, daInc := di, finals := fin }

inductive HOp
  | place (da : Nat) (b : Bytes) (o : Retrieve.Oracle)   -- somebody's blob is included at DA height `da`
  | head (n : Nat)                                        -- the DA layer has produced the heights below `n`
  | script (da : Nat) (l : List Retrieve.Fetch)           -- outcomes of the next fetch attempts at DA height `da`
  | run                                                   -- all loops run until quiescent
  | runHeld (hdrFirst : Bool) (hold : Nat)                -- ... in the schedule `sched`, `hold` events never handled
  | p2p (es : List Retrieve.Event)                        -- headers / data handed to the sync loop directly
  /-- items arrive in the node's P2P header / data stores (go-header), then `HeaderStoreRetrieveLoop` and
  `DataStoreRetrieveLoop` poll once each (`hdrFirst`: which of them first), everything runs until quiescent -/
  | p2pstore (hs : List (SignedHeader × Retrieve.Oracle)) (ds : List Data) (hdrFirst : Bool)
  /-- items arrive in the P2P stores while nobody polls (between two polls, or while the node is down) -/
  | p2padd (hs : List (SignedHeader × Retrieve.Oracle)) (ds : List Data)
  | restart                                               -- clean stop and restart
  | crash (k : Nat)                                       -- the process dies after `k` of the last writes; restart
  deriving Inhabited

/-- the node, the DA layer, and the durable writes made since the store was `before` (what a crash can cut) -/
structure HSt where
  nd : Node := {}
  v : Retrieve.DAView := {}
  before : Store := {}
  ws : List SW := []
  ok : Bool := true          -- `NewManager` succeeded at the last (re)start
  hMarks : List (Bytes × Nat) := []      -- `headerCache.daIncluded` (header hash ↦ DA height), latest first
  dMarks : List (Bytes × Nat) := []      -- `dataCache.daIncluded` (data commitment ↦ DA height)
  daInc : Nat := 0                        -- `daIncludedHeight`
  finals : List Nat := []                 -- `SetFinal` calls received by the execution layer since the last start
  hStore : List (SignedHeader × Retrieve.Oracle) := []   -- P2P header store: heights initialHeight, initialHeight+1, …
  dStore : List Data := []                -- P2P data store
  hCur : Nat := 0                         -- `lastHeaderStoreHeight` of `HeaderStoreRetrieveLoop`
  dCur : Nat := 0                         -- `lastDataStoreHeight` of `DataStoreRetrieveLoop`
  deriving Inhabited

/-- one poll of `HeaderStoreRetrieveLoop`: if the store is ahead of the cursor, every height in (cursor, store height]
is fetched and — if `isUsingExpectedSingleSequencer` admits it — handed to the sync loop; the cursor becomes the
store height in any case -/
def pollH (c : Cfg) (s : HSt) : List Retrieve.Event × Nat :=
  let base := c.sync.initialHeight - 1
  let sH := base + s.hStore.length
  (if sH > s.hCur then
     (s.hStore.drop (s.hCur - base)).filterMap fun (w, o) =>
       if Retrieve.p2pAdmit o c.sync.proposerAddr w then some (Retrieve.Event.hdr w s.nd.cursor) else none
   else [], sH)

/-- one poll of `DataStoreRetrieveLoop` (data carries no signature: nothing is checked) -/
def pollD (c : Cfg) (s : HSt) : List Retrieve.Event × Nat :=
  let base := c.sync.initialHeight - 1
  let sD := base + s.dStore.length
  (if sD > s.dCur then (s.dStore.drop (s.dCur - base)).map fun d => Retrieve.Event.dat { data := d } s.nd.cursor
   else [], sD)

/-- `DAIncluderLoop` runs until it cannot advance (`Submit.includerIter`); its writes follow those of the sync loop -/
def includeSt (s : HSt) : HSt :=
  let r := Submit.includerIter (toA s.nd.full.store s.hMarks s.dMarks s.daInc s.finals)
  { s with nd := { s.nd with full := { s.nd.full with store := r.1.n.store } },
           daInc := r.1.daInc, finals := r.1.finals, ws := s.ws ++ r.2 }

/-- after `NewManager`: the marks come from the cache files (clean stop) or are gone (crash) -/
def started (c : Cfg) (s : HSt) (disk : Store) (keepMarks : Bool) : Option (Node × List SW) → HSt
  | none => { s with ok := false }
  | some (nd, ws) =>
    -- the store loops start with the chain height as cursor; the P2P stores themselves are on disk
    { s with nd := nd, before := disk, ws := ws, ok := true, daInc := daIncOf c nd.full.store, finals := [],
             hMarks := if keepMarks then s.hMarks else [], dMarks := if keepMarks then s.dMarks else [],
             hCur := nd.full.store.height, dCur := nd.full.store.height }

def hstep (c : Cfg) (s : HSt) : HOp → HSt
  | .place da b o => { s with v := { s.v with placed := s.v.placed ++ [(da, b, o)], top := max s.v.top (da + 1) } }
  | .head n => { s with v := { s.v with top := max s.v.top n } }
  | .script da l => if l.isEmpty then s else { s with v := s.v.setScript da l }
  | .run =>
    if !s.ok then s else
    let r := run c s.nd s.v
    let m := marksOf c s.nd s.v
    includeSt { s with nd := r.1, v := r.2.1, before := s.nd.full.store, ws := r.2.2,
                       hMarks := m.1 ++ s.hMarks, dMarks := m.2 ++ s.dMarks }
  | .runHeld hf hold =>
    if !s.ok then s else
    let r := runHeld c s.nd s.v hf hold
    let m := marksOf c s.nd s.v
    includeSt { s with nd := r.1, v := r.2.1, before := s.nd.full.store, ws := r.2.2,
                       hMarks := m.1 ++ s.hMarks, dMarks := m.2 ++ s.dMarks }
  | .p2p es =>
    if !s.ok then s else
    let f := feed c s.nd.full es
    includeSt { s with nd := { s.nd with full := f.1 }, before := s.nd.full.store, ws := f.2 }
  | .p2padd hs ds => { s with hStore := s.hStore ++ hs, dStore := s.dStore ++ ds }
  | .p2pstore hs ds hf =>
    if !s.ok then s else
    let s1 := { s with hStore := s.hStore ++ hs, dStore := s.dStore ++ ds }
    let ph := pollH c s1
    let pd := pollD c s1
    let f := feed c s.nd.full (if hf then ph.1 ++ pd.1 else pd.1 ++ ph.1)
    includeSt { s1 with nd := { s.nd with full := f.1 }, before := s.nd.full.store, ws := f.2, hCur := ph.2, dCur := pd.2 }
  | .restart => if !s.ok then s else started c s s.nd.full.store true (restartClean c s.nd)
  | .crash k => if !s.ok then s else started c s (s.before.applyPrefix k s.ws) false (restartCrash c s.before s.ws k)

/-- the node of a first start on an empty store, with an empty DA layer -/
def hinit (c : Cfg) : HSt := started c {} {} false (start c {} {})

def hrun (c : Cfg) (ops : List HOp) : HSt := ops.foldl (hstep c) (hinit c)

/-! ## the DA includer INSIDE a block application

`trySyncNextBlock` writes `SaveBlockData(h)`, the state, `SetHeight(h)` in this order; `DAIncluderLoop` is another
goroutine and may run between any two of them.  `runInc c s k`: the run that starts in `s`, with ONE includer pass
after `k` of the sync loop's durable writes (the scan is over: every mark it sets is there), then the rest of the
sync loop's writes, then the includer until it cannot advance. -/

/-- what the includer sees after `k` of the durable writes of the run that starts in `s` -/
def midView (c : Cfg) (s : HSt) (k : Nat) : Submit.ANode :=
  let r := run c s.nd s.v
  let m := marksOf c s.nd s.v
  toA (s.nd.full.store.applyPrefix k r.2.2) (m.1 ++ s.hMarks) (m.2 ++ s.dMarks) s.daInc s.finals

/-- does the sync loop of the run that starts in `s` make more than `k` durable writes? (else there is no such boundary) -/
def midFires (c : Cfg) (s : HSt) (k : Nat) : Bool := k < (run c s.nd s.v).2.2.length

def runInc (c : Cfg) (s : HSt) (k : Nat) : HSt :=
  if !s.ok then s else
  if !midFires c s k then hstep c s .run else
  let r := run c s.nd s.v
  let m := marksOf c s.nd s.v
  let a := Submit.includerIter (midView c s k)
  let st := a.1.n.store.applyAll (r.2.2.drop k)
  includeSt { s with nd := { r.1 with full := { r.1.full with store := st } }, v := r.2.1, before := s.nd.full.store,
                     ws := r.2.2.take k ++ a.2 ++ r.2.2.drop k,
                     hMarks := m.1 ++ s.hMarks, dMarks := m.2 ++ s.dMarks, daInc := a.1.daInc, finals := a.1.finals }

/-- histories with includer passes inside block applications -/
inductive HOp2
  | base (op : HOp)
  | runInc (k : Nat)      -- a run with one includer pass after `k` of the sync loop's writes
  deriving Inhabited

def hstep2 (c : Cfg) (s : HSt) : HOp2 → HSt
  | .base op => hstep c s op
  | .runInc k => runInc c s k

/-! ### the relaxed chain-height guard (`syncedHeight+1 < height`): NOT what the code does; used by the witness that
the guard is what ties the DA-included height to the chain height -/

def isDAIncludedRelaxed (a : Submit.ANode) (h : Nat) : Option Bool :=
  if a.n.store.height + 1 < h then some false
  else match a.n.store.getBlock h with
    | none => none
    | some b =>
      some ((Submit.markOf a.hMarks b.sh.hdr.hash).isSome &&
            (b.data.daCommitment = emptyDataHash || (Submit.markOf a.dMarks b.data.daCommitment).isSome))

/-- `Submit.includerPass` with the relaxed guard -/
def includerPassRelaxed : Nat → Submit.ANode → List SW → Submit.ANode × List SW
  | 0, a, ws => (a, ws)
  | fuel+1, a, ws =>
    let next := a.daInc + 1
    match isDAIncludedRelaxed a next with
    | some true =>
      match a.n.store.getBlock next with
      | none => (a, ws)
      | some b =>
        match Submit.markOf a.hMarks b.sh.hdr.hash with
        | none => (a, ws)
        | some hd =>
          let dd : Option Nat := if b.data.daCommitment = emptyDataHash then some hd else Submit.markOf a.dMarks b.data.daCommitment
          match dd with
          | none => (a, ws)
          | some dd =>
            let w1 := SW.setMeta (Submit.rhbKey next "h") (le64 hd)
            let w2 := SW.setMeta (Submit.rhbKey next "d") (le64 dd)
            let w3 := SW.setMeta Submit.daIncKey (le64 next)
            let st := ((a.n.store.apply w1).apply w2).apply w3
            includerPassRelaxed fuel { a with n := { a.n with store := st }, daInc := next, finals := next :: a.finals } (ws ++ [w1, w2, w3])
    | _ => (a, ws)

/-! ## blobs of the proposer's chain as they appear on the DA layer -/

/-- `SignedHeader.MarshalBinary` of a header of the chain (signature bytes `sig`, marshalled public key `pk`) -/
def hdrBlob (pk sig : Bytes) (sh : SHeader) : Bytes :=
  SignedHeader.encode { header := sh.hdr, signature := sig, signer := { address := sh.signer.addr, pubKey := pk } }

/-- `SignedData.MarshalBinary` -/
def datBlob (pk sig addr : Bytes) (d : Data) : Bytes :=
  SignedData.encode { data := d, signature := sig, signer := { address := addr, pubKey := pk } }

/-- the crypto oracle of a blob really signed by the key it carries -/
def oHdr : Retrieve.Oracle := { keyOk := true, hdrSigOk := true, dataSigOk := false }
def oDat : Retrieve.Oracle := { keyOk := true, hdrSigOk := false, dataSigOk := true }
def oBad : Retrieve.Oracle := { keyOk := true, hdrSigOk := false, dataSigOk := false }
def oNone : Retrieve.Oracle := { keyOk := false, hdrSigOk := false, dataSigOk := false }

end FullNode
