import Model.Bytes

/-!
# Durable key-value state, atomic write-sets, crash prefixes

The durable state of a node is a finite map `String → Bytes` (the go-datastore the node writes
to; keys are the datastore key strings).  An *atomic write* (`WriteSet`) is what one
`ds.Put`/`ds.Delete` or one `Batch.Commit` makes durable at once; a crash leaves the image after a
*prefix* of the atomic writes issued so far (`applyPrefix`).  Core Lean only.

`KV` is a plain association list; only `get` observes it, so two lists with the same `get` are the
same durable state (`KV.Equiv`).  `put` removes older bindings of the key, hence a `KV` built from
`KV.empty` by `put`/`del` never holds a key twice.
-/

abbrev KV := List (String × Bytes)

/-- one put or delete -/
inductive W
  | put (k : String) (v : Bytes)
  | del (k : String)
  deriving Repr, DecidableEq, Inhabited

/-- one atomic commit -/
abbrev WriteSet := List W

def W.key : W → String
  | .put k _ => k
  | .del k => k

namespace KV

def empty : KV := []

def get : KV → String → Option Bytes
  | [], _ => none
  | (k', v) :: rest, k => if k' = k then some v else get rest k

def del : KV → String → KV
  | [], _ => []
  | (k', v) :: rest, k => if k' = k then del rest k else (k', v) :: del rest k

def put (kv : KV) (k : String) (v : Bytes) : KV := (k, v) :: del kv k

def has (kv : KV) (k : String) : Bool := (kv.get k).isSome

/-- the keys, in insertion order (latest first) -/
def keys (kv : KV) : List String := kv.map (·.1)

/-- same durable state -/
def Equiv (a b : KV) : Prop := ∀ k, a.get k = b.get k

@[simp] theorem get_empty (k : String) : empty.get k = none := rfl

@[simp] theorem get_del_same (kv : KV) (k : String) : (kv.del k).get k = none := by
  induction kv with
  | nil => rfl
  | cons p rest ih =>
    obtain ⟨k', v⟩ := p
    by_cases h : k' = k <;> simp [del, get, h, ih]

theorem get_del_other (kv : KV) {k k' : String} (h : k' ≠ k) : (kv.del k').get k = kv.get k := by
  induction kv with
  | nil => rfl
  | cons p rest ih =>
    obtain ⟨k'', v⟩ := p
    by_cases h1 : k'' = k'
    · have h2 : k'' ≠ k := by rw [h1]; exact h
      simp [del, get, h1, ih, h]
    · by_cases h2 : k'' = k
      · subst h2; simp [del, get, h1]
      · simp [del, get, h1, h2, ih]

@[simp] theorem get_put_same (kv : KV) (k : String) (v : Bytes) : (kv.put k v).get k = some v := by
  simp [put, get]

theorem get_put_other (kv : KV) {k k' : String} (v : Bytes) (h : k' ≠ k) :
    (kv.put k' v).get k = kv.get k := by
  simp [put, get, h, get_del_other kv h]

theorem get_put (kv : KV) (k k' : String) (v : Bytes) :
    (kv.put k' v).get k = if k' = k then some v else kv.get k := by
  by_cases h : k' = k
  · subst h; simp
  · simp [h, get_put_other kv v h]

theorem get_del (kv : KV) (k k' : String) :
    (kv.del k').get k = if k' = k then none else kv.get k := by
  by_cases h : k' = k
  · subst h; simp
  · simp [h, get_del_other kv h]

theorem Equiv.refl (a : KV) : Equiv a a := fun _ => rfl
theorem Equiv.symm {a b : KV} (h : Equiv a b) : Equiv b a := fun k => (h k).symm
theorem Equiv.trans {a b c : KV} (h1 : Equiv a b) (h2 : Equiv b c) : Equiv a c :=
  fun k => (h1 k).trans (h2 k)

end KV

/-- apply one put/delete -/
def applyW (kv : KV) : W → KV
  | .put k v => kv.put k v
  | .del k => kv.del k

/-- apply one atomic commit -/
def applyWS (kv : KV) (ws : WriteSet) : KV := ws.foldl applyW kv

/-- apply a sequence of atomic commits -/
def applyAll (kv : KV) (wss : List WriteSet) : KV := wss.foldl applyWS kv

/-- crash: only the first `n` atomic commits of `wss` reached the disk -/
def applyPrefix (n : Nat) (wss : List WriteSet) (kv : KV) : KV := applyAll kv (wss.take n)

theorem get_applyW (kv : KV) (w : W) (k : String) :
    (applyW kv w).get k =
      match w with
      | .put k' v => if k' = k then some v else kv.get k
      | .del k' => if k' = k then none else kv.get k := by
  cases w <;> simp [applyW, KV.get_put, KV.get_del]

@[simp] theorem applyWS_nil (kv : KV) : applyWS kv [] = kv := rfl
@[simp] theorem applyWS_cons (kv : KV) (w : W) (ws : WriteSet) :
    applyWS kv (w :: ws) = applyWS (applyW kv w) ws := rfl
theorem applyWS_append (kv : KV) (a b : WriteSet) :
    applyWS kv (a ++ b) = applyWS (applyWS kv a) b := by simp [applyWS, List.foldl_append]

/-- a key that no write of the set touches keeps its value -/
theorem get_applyWS_untouched (ws : WriteSet) (kv : KV) (k : String)
    (h : ∀ w ∈ ws, w.key ≠ k) : (applyWS kv ws).get k = kv.get k := by
  induction ws generalizing kv with
  | nil => rfl
  | cons w ws ih =>
    rw [applyWS_cons, ih _ (fun w' hw' => h w' (List.mem_cons_of_mem _ hw'))]
    have hw := h w (List.mem_cons_self ..)
    cases w <;> simp_all [applyW, W.key, KV.get_put_other, KV.get_del_other]

@[simp] theorem applyAll_nil (kv : KV) : applyAll kv [] = kv := rfl
@[simp] theorem applyAll_cons (kv : KV) (ws : WriteSet) (wss : List WriteSet) :
    applyAll kv (ws :: wss) = applyAll (applyWS kv ws) wss := rfl
theorem applyAll_append (kv : KV) (a b : List WriteSet) :
    applyAll kv (a ++ b) = applyAll (applyAll kv a) b := by simp [applyAll, List.foldl_append]

@[simp] theorem applyPrefix_zero (wss : List WriteSet) (kv : KV) : applyPrefix 0 wss kv = kv := rfl
@[simp] theorem applyPrefix_nil (n : Nat) (kv : KV) : applyPrefix n [] kv = kv := by
  simp [applyPrefix]
@[simp] theorem applyPrefix_succ_cons (n : Nat) (ws : WriteSet) (wss : List WriteSet) (kv : KV) :
    applyPrefix (n + 1) (ws :: wss) kv = applyPrefix n wss (applyWS kv ws) := rfl
theorem applyPrefix_all {n : Nat} {wss : List WriteSet} (h : wss.length ≤ n) (kv : KV) :
    applyPrefix n wss kv = applyAll kv wss := by
  simp [applyPrefix, List.take_of_length_le h]

/-- a crash during a sequence `a ++ b` either falls inside `a` or after all of `a` -/
theorem applyPrefix_append (n : Nat) (a b : List WriteSet) (kv : KV) :
    applyPrefix n (a ++ b) kv =
      if n ≤ a.length then applyPrefix n a kv else applyPrefix (n - a.length) b (applyAll kv a) := by
  unfold applyPrefix
  rw [List.take_append]
  split
  · next h =>
    have : n - a.length = 0 := by omega
    simp [this]
  · next h =>
    rw [applyAll_append, List.take_of_length_le (by omega)]

/-- **atomicity**: under a crash, a single atomic commit is applied entirely or not at all -/
theorem applyPrefix_single (n : Nat) (ws : WriteSet) (kv : KV) :
    applyPrefix n [ws] kv = kv ∨ applyPrefix n [ws] kv = applyWS kv ws := by
  cases n with
  | zero => left; rfl
  | succ n => right; simp
