import Model.Bytes
import Model.Sha256

/-! # C19 — the proposer key file (`pkg/signer/file/local.go`)

The file on disk is the JSON object `keyData` (local.go:31-36): four optional byte-string fields
`priv_key_encrypted`, `nonce`, `pub_key`, `salt`.  The model mirrors `saveKeys`, `loadKeys`,
`ExportPrivateKey`, `ImportPrivateKey`, `fallbackDeriveKey`, `getAddress` *as coded*, including

* the **partial operations** the code contains: `i % len(passphrase)` in the legacy derivation
  (`fallbackDeriveKey`; division by zero on an empty passphrase — `legacyByte`/`legacyKey` return
  `none` there) and `gcm.Open`, which panics on a nonce whose length is not 12 before it
  authenticates (`gcmOpen` returns `.panic` there), and
* the **guards** in front of them (`decrypt`): a salt-less file with the empty passphrase and a
  nonce of the wrong length are rejected with an error, and
* the **comparison** of the stored public key with the key derived from the decrypted private key
  (`load`): a differing stored key is rejected.

`Spec.C19.C19_noPanic` proves that the guards make the panic branches unreachable; `C19_usable`
that every signer handed out is consistent.  (`decryptPre`/`loadPre` at the end of the file are the
behaviour before the three `fix:` commits, kept only to state what the repair changed.)

Cryptography (Argon2id, AES-GCM, Ed25519, the libp2p key parsers) is a *structure of functions*
(`Crypto`) with *laws* (`Laws`, a hypothesis bundle that the theorems take as a parameter — no
axioms).  `Sym` is a concrete symbolic instance, executable, used by the driver; `Sym.laws` proves
that it satisfies the bundle.  Core Lean only. -/
namespace KeyFile

/-- The cryptographic primitives the key file code calls. -/
structure Crypto where
  Key : Type
  Ct : Type
  SK : Type
  PK : Type
  Sig : Type
  /-- `argon2.IDKey(passphrase, salt, 3, 32*1024, 4, 32)` -/
  argon : Bytes → Bytes → Key
  /-- 32 bytes used directly as the AES-256 key (legacy path) -/
  raw : Bytes → Key
  /-- `gcm.Seal(nil, nonce, plaintext, nil)` -/
  enc : Key → Bytes → Bytes → Ct
  /-- `gcm.Open(nil, nonce, ciphertext, nil)` for a 12-byte nonce -/
  dec : Key → Bytes → Ct → Option Bytes
  /-- `privKey.Raw()` -/
  privBytes : SK → Bytes
  /-- `crypto.UnmarshalEd25519PrivateKey` -/
  parsePriv : Bytes → Option SK
  /-- `privKey.GetPublic()` -/
  pubOf : SK → PK
  /-- `pubKey.Raw()` -/
  pubBytes : PK → Bytes
  /-- `crypto.UnmarshalEd25519PublicKey` -/
  parsePub : Bytes → Option PK
  sign : SK → Bytes → Sig
  verify : PK → Bytes → Sig → Bool

/-- What the theorems assume of the primitives (AEAD correctness and integrity, KDF injective
enough, key (un)marshalling round trips, signatures verify under — and only under — the signer's
own public key). -/
structure Laws (C : Crypto) : Prop where
  dec_enc : ∀ k n m, C.dec k n (C.enc k n m) = some m
  dec_key : ∀ k k' n n' m, k ≠ k' → C.dec k' n' (C.enc k n m) = none
  dec_nonce : ∀ k k' n n' m, n ≠ n' → C.dec k' n' (C.enc k n m) = none
  argon_inj : ∀ p s p' s', C.argon p s = C.argon p' s' → p = p' ∧ s = s'
  raw_inj : ∀ b b', C.raw b = C.raw b' → b = b'
  parsePriv_privBytes : ∀ sk, C.parsePriv (C.privBytes sk) = some sk
  parsePub_pubBytes : ∀ pk, C.parsePub (C.pubBytes pk) = some pk
  verify_sign : ∀ sk m, C.verify (C.pubOf sk) m (C.sign sk m) = true
  verify_own : ∀ pk sk m, C.verify pk m (C.sign sk m) = true → pk = C.pubOf sk

/-- `keyData`: every JSON field may be missing (`none`); a missing field and an empty one behave
alike in the code (only `len` is looked at), which `fld` expresses. -/
structure File (C : Crypto) where
  ct : Option C.Ct := none
  nonce : Option Bytes := none
  pub : Option Bytes := none
  salt : Option Bytes := none

def fld (o : Option Bytes) : Bytes := o.getD []

/-- What is at `<dir>/signer.json`. `garbage` = bytes that `json.Unmarshal` rejects. -/
inductive Disk (C : Crypto) where
  | absent
  | garbage
  | file (f : File C)

inductive Err where
  | nofile | exists_ | json | auth | privkey | pubkey
  /-- "invalid key file: nonce has %d bytes, want %d" -/
  | nonce
  /-- "failed to derive key: key file has no salt (legacy format) and the passphrase is empty" -/
  | emptypass
  /-- "invalid key file: public key does not match the private key" -/
  | pubmismatch
  deriving DecidableEq, Repr

/-- the run-time panics the code *contains* (both are guarded: `Spec.C19.C19_noPanic`) -/
inductive Panic where
  /-- `i % len(passphrase)` with an empty passphrase (`fallbackDeriveKey`) -/
  | divZero
  /-- "crypto/cipher: incorrect nonce length given to GCM" (`gcm.Open`) -/
  | nonceLen
  deriving DecidableEq, Repr

inductive Res (α : Type) where
  | ok (a : α)
  | err (e : Err)
  | panic (p : Panic)

def Res.isPanic {α} : Res α → Bool
  | .panic _ => true
  | _ => false

def Res.isErr {α} : Res α → Bool
  | .err _ => true
  | _ => false

/-- The in-memory signer: both keys, *independently* obtained. -/
structure Signer (C : Crypto) where
  sk : C.SK
  pk : C.PK

/-- `gcm.NonceSize()` -/
def nonceSize : Nat := 12
def keyLen : Nat := 32

/-- one byte of the legacy key: `passphrase[i%len(passphrase)] ^ byte(i)`; `none` = the integer
division by zero the Go runtime panics on. -/
def legacyByte (p : Bytes) (i : Nat) : Option UInt8 :=
  if p.length = 0 then none else some (p.getD (i % p.length) 0 ^^^ i.toUInt8)

/-- `fallbackDeriveKey(passphrase, 32)`. -/
def legacyKey (p : Bytes) : Option Bytes :=
  if keyLen ≤ p.length then some (p.take keyLen)
  else ((List.range' p.length (keyLen - p.length)).mapM (legacyByte p)).map (p ++ ·)

/-- key derivation of `loadKeys`/`ExportPrivateKey`: no salt ⇒ legacy. `none` = panic. -/
def deriveKey (C : Crypto) (pass salt : Bytes) : Option C.Key :=
  if salt.length = 0 then (legacyKey pass).map C.raw else some (C.argon pass salt)

/-- `gcm.Open(nil, nonce, ciphertext, nil)` as the library behaves: it **panics** on a nonce whose
length is not `gcm.NonceSize()`; a ciphertext shorter than the tag (here: absent) or one that does
not authenticate is an error. -/
def gcmOpen (C : Crypto) (k : C.Key) (nonce : Bytes) (ct : Option C.Ct) : Res Bytes :=
  if nonce.length ≠ nonceSize then .panic .nonceLen
  else
    match ct with
    | none => .err .auth          -- len(ciphertext) < tag size
    | some ct =>
      match C.dec k nonce ct with
      | none => .err .auth
      | some m => .ok m

/-- common prefix of `loadKeys` and `ExportPrivateKey`, line by line: reject the empty passphrase
on the legacy path, derive, reject a nonce of the wrong length, open. -/
def decrypt (C : Crypto) (pass : Bytes) (f : File C) : Res Bytes :=
  if (fld f.salt).length = 0 ∧ pass.length = 0 then .err .emptypass
  else
    match deriveKey C pass (fld f.salt) with
    | none => .panic .divZero
    | some k =>
      if (fld f.nonce).length ≠ nonceSize then .err .nonce
      else gcmOpen C k (fld f.nonce) f.ct

/-- `loadKeys`: decrypt, parse both keys, and accept the stored public key only if it is the
public key of the decrypted private key (`privKey.GetPublic().Equals(pubKey)`: raw bytes equal). -/
def load (C : Crypto) (pass : Bytes) (f : File C) : Res (Signer C) :=
  match decrypt C pass f with
  | .panic p => .panic p
  | .err e => .err e
  | .ok m =>
    match C.parsePriv m with
    | none => .err .privkey
    | some sk =>
      match C.parsePub (fld f.pub) with
      | none => .err .pubkey
      | some pk =>
        if C.pubBytes (C.pubOf sk) = C.pubBytes pk then .ok { sk := sk, pk := pk } else .err .pubmismatch

/-- `saveKeys`; `salt` (16 bytes) and `nonce` (12 bytes) come from `crypto/rand`. -/
def save (C : Crypto) (pass : Bytes) (sk : C.SK) (salt nonce : Bytes) : File C :=
  { ct := some (C.enc (C.argon pass salt) nonce (C.privBytes sk)),
    nonce := some nonce,
    pub := some (C.pubBytes (C.pubOf sk)),
    salt := some salt }

/-- a file in the old salt-less format (what `fallbackDeriveKey` exists for); `none` when the
legacy derivation is undefined for the passphrase. -/
def saveLegacy (C : Crypto) (pass : Bytes) (sk : C.SK) (nonce : Bytes) : Option (File C) :=
  (legacyKey pass).map fun kb =>
    { ct := some (C.enc (C.raw kb) nonce (C.privBytes sk)),
      nonce := some nonce,
      pub := some (C.pubBytes (C.pubOf sk)),
      salt := none }

/-- `ExportPrivateKey` (it never looks at `pub_key`). -/
def exportKey (C : Crypto) (pass : Bytes) (f : File C) : Res Bytes := decrypt C pass f

/-- `ImportPrivateKey`. -/
def importKey (C : Crypto) (pass raw salt nonce : Bytes) : Res (File C) :=
  match C.parsePriv raw with
  | none => .err .privkey
  | some sk => .ok (save C pass sk salt nonce)

def loadDisk (C : Crypto) (pass : Bytes) : Disk C → Res (Signer C)
  | .absent => .err .nofile
  | .garbage => .err .json
  | .file f => load C pass f

def exportDisk (C : Crypto) (pass : Bytes) : Disk C → Res Bytes
  | .absent => .err .nofile
  | .garbage => .err .json
  | .file f => exportKey C pass f

/-- `CreateFileSystemSigner`: refuses to overwrite. -/
def create (C : Crypto) (pass : Bytes) (sk : C.SK) (salt nonce : Bytes) : Disk C → Res (Signer C × Disk C)
  | .absent => .ok ({ sk := sk, pk := C.pubOf sk }, .file (save C pass sk salt nonce))
  | _ => .err .exists_

/-- `getAddress` (local.go) = `noop.getAddress` (noop/signer.go:54) = `types.KeyAddress`
(types/signer.go:42): SHA-256 of the raw public key. -/
def address (C : Crypto) (pk : C.PK) : Bytes := sha256 (C.pubBytes pk)

/-- "signatures made by the signer verify under the public key it reports" -/
def Signer.Consistent {C : Crypto} (s : Signer C) : Prop := ∀ m, C.verify s.pk m (C.sign s.sk m) = true

/-- executable probe of the same (what the monitor does on the real signer) -/
def Signer.probe {C : Crypto} (s : Signer C) (m : Bytes) : Bool := C.verify s.pk m (C.sign s.sk m)

/-! ## Before the repair (history) — *not* what the code does, not run by the driver

`loadPre` = `loadKeys` before the three `fix:` commits (notes/C19.md): no guard in front of the two
partial operations, stored public key taken as is.  Only used by `Spec.C19.repair_*`, which state
what the repair changed (nothing that was right is rejected, nothing new is accepted). -/

def decryptPre (C : Crypto) (pass : Bytes) (f : File C) : Res Bytes :=
  match deriveKey C pass (fld f.salt) with
  | none => .panic .divZero
  | some k => gcmOpen C k (fld f.nonce) f.ct

def loadPre (C : Crypto) (pass : Bytes) (f : File C) : Res (Signer C) :=
  match decryptPre C pass f with
  | .panic p => .panic p
  | .err e => .err e
  | .ok m =>
    match C.parsePriv m with
    | none => .err .privkey
    | some sk =>
      match C.parsePub (fld f.pub) with     -- the stored public key, taken as is
      | none => .err .pubkey
      | some pk => .ok { sk := sk, pk := pk }

/-! ## A concrete symbolic instance (for the driver and for the witnesses) -/

inductive SymKey where
  | argon (p s : Bytes)
  | raw (b : Bytes)
  deriving DecidableEq, Repr

inductive SymCt where
  | sealed (k : SymKey) (n m : Bytes)
  /-- any byte string that no `seal` produced (a modified, truncated or empty ciphertext) -/
  | garbage
  deriving DecidableEq, Repr

/-- raw Ed25519 private key as libp2p holds it: 32-byte seed ‖ 32-byte public key -/
abbrev SymSK := { b : Bytes // b.length = 64 }
abbrev SymPK := { b : Bytes // b.length = 32 }

def symDec (k : SymKey) (n : Bytes) : SymCt → Option Bytes
  | .sealed k' n' m => if k' = k ∧ n' = n then some m else none
  | .garbage => none

def symPubOf (sk : SymSK) : SymPK := ⟨sk.val.drop 32, by simp [List.length_drop, sk.property]⟩

def Sym : Crypto where
  Key := SymKey
  Ct := SymCt
  SK := SymSK
  PK := SymPK
  Sig := Bytes × Bytes
  argon := SymKey.argon
  raw := SymKey.raw
  enc := fun k n m => SymCt.sealed k n m
  dec := symDec
  privBytes := fun sk => sk.val
  parsePriv := fun b => if h : b.length = 64 then some ⟨b, h⟩ else none
  pubOf := symPubOf
  pubBytes := fun pk => pk.val
  parsePub := fun b => if h : b.length = 32 then some ⟨b, h⟩ else none
  sign := fun sk m => ((symPubOf sk).val, m)
  verify := fun pk m s => decide (s = (pk.val, m))

theorem Sym.laws : Laws Sym where
  dec_enc := by intro k n m; show symDec k n (SymCt.sealed k n m) = some m; simp only [symDec]; rw [if_pos ⟨rfl, rfl⟩]
  dec_key := by
    intro k k' n n' m h
    simp only [Sym, symDec]
    rw [if_neg]; intro hh; exact h hh.1
  dec_nonce := by
    intro k k' n n' m h
    simp only [Sym, symDec]
    rw [if_neg]; intro hh; exact h hh.2
  argon_inj := by intro p s p' s' h; simp only [Sym] at h; cases h; exact ⟨rfl, rfl⟩
  raw_inj := by intro b b' h; simp only [Sym] at h; cases h; rfl
  parsePriv_privBytes := by intro sk; simp only [Sym]; rw [dif_pos sk.property]; rfl
  parsePub_pubBytes := by intro pk; simp only [Sym]; rw [dif_pos pk.property]; rfl
  verify_sign := by intro sk m; simp [Sym]
  verify_own := by
    intro pk sk m h
    simp only [Sym, decide_eq_true_eq, Prod.mk.injEq, and_true] at h
    exact Subtype.ext h.symm

end KeyFile
