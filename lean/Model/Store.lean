import Model.KV
import Model.Wire

/-!
# `pkg/store` (`store.go`, `keys.go`, `kv.go`) over the durable `KV`

* the exact datastore key strings (`keys.go` + `GenerateKey`/`path.Clean` of `kv.go` + `ds.NewKey`),
  as the datastore handed to `store.New` sees them (the node wraps its database in the prefix `/0`,
  `node/full.go: RollkitPrefix`; that prefix is below this layer);
* every method of `DefaultStore` as *reads of the `KV`* and *the atomic write-sets it issues*;
* values are the encoded bytes (`Wire.SignedHeader.encode …`); typed views decode them.

Core Lean only.  Theorems are in `Spec/C14.lean` / `Proofs/C14*.lean`.
-/

namespace Store

/-! ## key layout -/

/-- split at `/` (structural): `"a//b"` ↦ `["a", "", "b"]` -/
def splitSlash : List Char → List (List Char)
  | [] => [[]]
  | c :: cs =>
    if c = '/' then [] :: splitSlash cs
    else match splitSlash cs with
      | [] => [[c]]
      | s :: ss => (c :: s) :: ss

/-- `acc` = the cleaned segments so far, innermost first -/
def cleanSegs (acc : List (List Char)) : List (List Char) → List (List Char)
  | [] => acc.reverse
  | s :: rest =>
    if s = [] ∨ s = ['.'] then cleanSegs acc rest
    else if s = ['.', '.'] then cleanSegs acc.tail rest
    else cleanSegs (s :: acc) rest

def joinSlash : List (List Char) → List Char
  | [] => []
  | [s] => s
  | s :: rest => s ++ '/' :: joinSlash rest

/-- Go's `path.Clean` of a rooted path (`"/" + …`): empty and `.` elements dropped, `..` removes the
element before it (and is dropped at the root), no trailing slash, result starts with `/`.
`ds.NewKey` applies the same function again (idempotent). -/
def pathCleanRooted (s : List Char) : List Char := '/' :: joinSlash (cleanSegs [] (splitSlash s))

/-- `GenerateKey(fields)` = `path.Clean("/" + strings.Join(fields, "/"))` -/
def generateKey (fields : List String) : String :=
  String.ofList (pathCleanRooted ('/' :: joinSlash (fields.map String.toList)))

/-- a metadata key that `path.Clean` leaves alone: non-empty, no empty, `.` or `..` element.
Every key the node uses is of this kind (`d`, `l`, `last-submitted-header-height`,
`last-submitted-data-height`, `rhb/<height>/h`, `rhb/<height>/d`). -/
def metaKeyOK (k : String) : Bool :=
  (splitSlash k.toList).all fun s => s ≠ [] && s ≠ ['.'] && s ≠ ['.', '.']

def heightKey : String := "/t"
def stateKey : String := "/s"
def headerKey (h : Nat) : String := "/h/" ++ Nat.repr h
def dataKey (h : Nat) : String := "/d/" ++ Nat.repr h
def signatureKey (h : Nat) : String := "/c/" ++ Nat.repr h

def hexUpperDigit (n : Nat) : Char := if n < 10 then Char.ofNat (48 + n) else Char.ofNat (55 + n)
/-- `header.Hash.String()`: upper-case hex -/
def hexUpper (b : Bytes) : List Char :=
  b.flatMap fun x => [hexUpperDigit (x.toNat / 16), hexUpperDigit (x.toNat % 16)]

/-- `getIndexKey(hash)`; the empty hash gives `path.Clean("/i/") = "/i"` -/
def indexKey (hash : Bytes) : String :=
  if hash = [] then "/i" else "/i/" ++ String.ofList (hexUpper hash)

/-- `getMetaKey(key)` = `path.Clean("/m/" + key)`; for the keys `path.Clean` leaves alone this is
`"/m/" ++ key` (`Proofs.C14Keys.generateKey_meta` shows that the first branch is what the second
computes, so the `if` is only a convenience for evaluation). -/
def metaKey (k : String) : String :=
  if metaKeyOK k then "/m/" ++ k else generateKey ["m", k]

/-- the metadata keys of the node -/
def daIncludedHeightKey : String := "d"
def lastBatchDataKey : String := "l"
def lastSubmittedHeaderHeightKey : String := "last-submitted-header-height"
def lastSubmittedDataHeightKey : String := "last-submitted-data-height"
def rhbHeaderKey (h : Nat) : String := "rhb/" ++ Nat.repr h ++ "/h"
def rhbDataKey (h : Nat) : String := "rhb/" ++ Nat.repr h ++ "/d"

/-! ## values -/

/-- `encodeHeight`: 8 bytes little endian -/
def encodeHeight (h : Nat) : Bytes := Bytes.le 8 h
/-- `decodeHeight`: exactly 8 bytes -/
def decodeHeight (b : Bytes) : Option Nat := if b.length = 8 then some (Bytes.unLe b) else none

/-- the three records of a block as stored: marshalled `SignedHeader`, marshalled `Data`, raw signature -/
structure Block where
  header : Bytes
  data : Bytes
  signature : Bytes
  deriving Repr, DecidableEq, Inhabited

inductive Err
  | notFound   -- `ds.ErrNotFound` from the datastore
  | corrupt    -- a stored value does not decode
  deriving Repr, DecidableEq, Inhabited

def Err.toString : Err → String
  | .notFound => "err:notfound"
  | .corrupt => "err:corrupt"

def getOr (kv : KV) (k : String) : Except Err Bytes :=
  match kv.get k with
  | some v => .ok v
  | none => .error .notFound

/-! ## methods: writes -/

/-- `Height`: 0 when nothing was stored -/
def height (kv : KV) : Except Err Nat :=
  match kv.get heightKey with
  | none => .ok 0
  | some b =>
    match decodeHeight b with
    | some h => .ok h
    | none => .error .corrupt

def setHeightWS (h : Nat) : WriteSet := [.put heightKey (encodeHeight h)]

/-- `SetHeight`: one `Put`, only when the height grows; an unreadable stored height is an error and
nothing is written -/
def setHeight (kv : KV) (h : Nat) : Except Err (List WriteSet) :=
  match height kv with
  | .error e => .error e
  | .ok cur => if h ≤ cur then .ok [] else .ok [setHeightWS h]

/-- the write-sets of `SetHeight` (none on error) -/
def setHeightW (kv : KV) (h : Nat) : List WriteSet :=
  match setHeight kv h with
  | .ok w => w
  | .error _ => []

/-- `getHeightByHash` -/
def getHeightByHash (kv : KV) (hash : Bytes) : Except Err Nat :=
  match kv.get (indexKey hash) with
  | none => .error .notFound
  | some b =>
    match decodeHeight b with
    | some h => .ok h
    | none => .error .corrupt

/-- `GetHeader(height)` followed by `.Hash()` on a stored header record: `none` = the record does not
parse (any error of `GetHeader` makes `SaveBlockData` skip the clean-up) -/
def storedHeaderHash (keyOk : Bytes → Bool) (hb : Bytes) : Option Bytes :=
  (Wire.SignedHeader.decode keyOk hb).map (·.header.hash)

/-- `getHeightByHash(x)` succeeds and returns `h` -/
def indexPointsAt (kv : KV) (x : Bytes) (h : Nat) : Bool :=
  match getHeightByHash kv x with
  | .ok h' => h' == h
  | .error _ => false

/-- the hash whose index entry `SaveBlockData(h, hash)` deletes (since /repo 34bccfd): the hash of the
header stored at `h` when it is another one than `hash` and its index entry still points at `h`.
`hashOf` = `storedHeaderHash keyOk` in the typed operations. -/
def staleHash (hashOf : Bytes → Option Bytes) (kv : KV) (h : Nat) (hash : Bytes) : Option Bytes :=
  match kv.get (headerKey h) with
  | none => none
  | some ob =>
    match hashOf ob with
    | none => none
    | some oh => if oh ≠ hash ∧ indexPointsAt kv oh h = true then some oh else none

def staleIndexWS (hashOf : Bytes → Option Bytes) (kv : KV) (h : Nat) (hash : Bytes) : WriteSet :=
  match staleHash hashOf kv h hash with
  | some oh => [.del (indexKey oh)]
  | none => []

/-- the four puts of a block save -/
def savePutsWS (h : Nat) (hash : Bytes) (b : Block) : WriteSet :=
  [ .put (headerKey h) b.header, .put (dataKey h) b.data, .put (signatureKey h) b.signature,
    .put (indexKey hash) (encodeHeight h) ]

/-- `SaveBlockData` on the stored bytes: ONE batch — the delete of the replaced header's index entry
(if any), then header, data, signature and hash → height index -/
def saveBlobsWS (hashOf : Bytes → Option Bytes) (kv : KV) (h : Nat) (hash : Bytes) (b : Block) : WriteSet :=
  staleIndexWS hashOf kv h hash ++ savePutsWS h hash b

/-- `SaveBlockData` as it was before /repo 34bccfd (kept for the witness of the repaired defect) -/
def saveBlobsWSOld (h : Nat) (hash : Bytes) (b : Block) : WriteSet := savePutsWS h hash b

/-- `SaveBlockData(header, data, signature)` -/
def saveBlockDataWS (keyOk : Bytes → Bool) (kv : KV) (sh : Wire.SignedHeader) (d : Wire.Data) (sig : Bytes) :
    WriteSet :=
  saveBlobsWS (storedHeaderHash keyOk) kv sh.header.height sh.header.hash ⟨sh.encode, d.encode, sig⟩

def saveBlockData (keyOk : Bytes → Bool) (kv : KV) (sh : Wire.SignedHeader) (d : Wire.Data) (sig : Bytes) :
    List WriteSet :=
  [saveBlockDataWS keyOk kv sh d sig]

/-- `UpdateState` on the marshalled `pb.State` -/
def updateStateWS (blob : Bytes) : WriteSet := [.put stateKey blob]

def setMetadataWS (k : String) (v : Bytes) : WriteSet := [.put (metaKey k) v]

/-! ## methods: reads on the stored bytes -/

def getHeaderBlob (kv : KV) (h : Nat) : Except Err Bytes := getOr kv (headerKey h)
def getDataBlob (kv : KV) (h : Nat) : Except Err Bytes := getOr kv (dataKey h)

/-- `GetSignature` -/
def getSignature (kv : KV) (h : Nat) : Except Err Bytes := getOr kv (signatureKey h)

/-- `GetBlockData` before unmarshalling: header bytes and data bytes -/
def getBlockBlobs (kv : KV) (h : Nat) : Except Err (Bytes × Bytes) :=
  match getHeaderBlob kv h with
  | .error e => .error e
  | .ok hb =>
    match getDataBlob kv h with
    | .error e => .error e
    | .ok db => .ok (hb, db)

def getBlockBlobsByHash (kv : KV) (hash : Bytes) : Except Err (Bytes × Bytes) :=
  match getHeightByHash kv hash with
  | .error e => .error e
  | .ok h => getBlockBlobs kv h

/-- `GetSignatureByHash` -/
def getSignatureByHash (kv : KV) (hash : Bytes) : Except Err Bytes :=
  match getHeightByHash kv hash with
  | .error e => .error e
  | .ok h => getSignature kv h

def getStateBlob (kv : KV) : Except Err Bytes := getOr kv stateKey

/-- `GetMetadata` -/
def getMetadata (kv : KV) (k : String) : Except Err Bytes := getOr kv (metaKey k)

/-! ## typed views (`UnmarshalBinary` of what was read; a value that does not parse is `corrupt`).
`keyOk` models the libp2p public-key parse, as in `Wire.SignedHeader.decode`. -/

/-- `GetHeader` -/
def getHeader (keyOk : Bytes → Bool) (kv : KV) (h : Nat) : Except Err Wire.SignedHeader :=
  match getHeaderBlob kv h with
  | .error e => .error e
  | .ok hb =>
    match Wire.SignedHeader.decode keyOk hb with
    | some sh => .ok sh
    | none => .error .corrupt

/-- `GetBlockData`: header read, header parse, data read, data parse — in that order -/
def getBlockData (keyOk : Bytes → Bool) (kv : KV) (h : Nat) : Except Err (Wire.SignedHeader × Wire.Data) :=
  match getHeader keyOk kv h with
  | .error e => .error e
  | .ok sh =>
    match getDataBlob kv h with
    | .error e => .error e
    | .ok db =>
      match Wire.Data.decode db with
      | some d => .ok (sh, d)
      | none => .error .corrupt

/-- `GetBlockByHash` -/
def getBlockByHash (keyOk : Bytes → Bool) (kv : KV) (hash : Bytes) : Except Err (Wire.SignedHeader × Wire.Data) :=
  match getHeightByHash kv hash with
  | .error e => .error e
  | .ok h => getBlockData keyOk kv h

/-! ### `types.State` ⇄ `pb.State` (`types/serialization.go`) -/

/-- seconds of `time.Time{}` (0001-01-01) as the `uint64` two's complement protobuf writes -/
def zeroTimeSeconds : Nat := 2 ^ 64 - 62135596800

structure State where
  version : Wire.Version := {}
  chainId : String := ""
  initialHeight : Nat := 0
  lastBlockHeight : Nat := 0
  /-- `LastBlockTime.Unix()` as `uint64` (two's complement) -/
  lastBlockTimeSec : Nat := zeroTimeSeconds
  /-- `LastBlockTime.Nanosecond()` -/
  lastBlockTimeNanos : Nat := 0
  daHeight : Nat := 0
  lastResultsHash : Bytes := []
  appHash : Bytes := []
  deriving Repr, DecidableEq, Inhabited

open Wire in
/-- `State.ToProto` + `proto.Marshal`: `Version` and `LastBlockTime` are always present -/
def State.fields (s : State) : List Field :=
  [(1, .len s.version.encode)] ++ optB 2 (utf8 s.chainId) ++ optV 3 s.initialHeight ++
  optV 4 s.lastBlockHeight ++
  [(5, .len (encFields (optV 1 s.lastBlockTimeSec ++ optV 2 s.lastBlockTimeNanos)))] ++
  optV 6 s.daHeight ++ optB 7 s.lastResultsHash ++ optB 8 s.appHash

def State.encode (s : State) : Bytes := Wire.encFields s.fields

open Wire in
/-- `proto.Unmarshal` + `State.FromProto` (an absent timestamp is `time.Time{}`).  Exact for the
bytes `State.encode` produces (nanoseconds in range); other timestamps are normalised by Go's
`time.Unix` and are not modelled. -/
def State.decode (bs : Bytes) : Option State :=
  match decFields bs with
  | none => none
  | some fs =>
    match getMsg 1 Version.decode fs, getMsg 5 decFields fs, ofUtf8? (getLen 2 fs) with
    | some v, some ts, some cid =>
      if (getRep 2 fs).all (fun b => (ofUtf8? b).isSome) then
        some { version := v.getD {}, chainId := cid, initialHeight := getVarint 3 fs,
               lastBlockHeight := getVarint 4 fs,
               lastBlockTimeSec := (match ts with | some t => getVarint 1 t | none => zeroTimeSeconds),
               lastBlockTimeNanos := (match ts with | some t => getVarint 2 t | none => 0),
               daHeight := getVarint 6 fs, lastResultsHash := getLen 7 fs, appHash := getLen 8 fs }
      else none
    | _, _, _ => none

/-- `UpdateState` -/
def updateState (s : State) : List WriteSet := [updateStateWS s.encode]

/-- `GetState` -/
def getState (kv : KV) : Except Err State :=
  match getStateBlob kv with
  | .error e => .error e
  | .ok b =>
    match State.decode b with
    | some s => .ok s
    | none => .error .corrupt

def setMetadata (k : String) (v : Bytes) : List WriteSet := [setMetadataWS k v]

/-- `Close` + `New` on the same datastore: the store object holds no state of its own -/
def reopen (kv : KV) : KV := kv

end Store
