import Model.KV
import Model.Wire

/-!
# `pkg/store` (`store.go`, `keys.go`, `kv.go`) over the durable `KV`

* the exact datastore key strings (`keys.go` + `GenerateKey`/`path.Clean` of `kv.go` + `ds.NewKey`),
  as the datastore handed to `store.New` sees them (the node wraps its database in the prefix `/0`,
  `node/full.go: RollkitPrefix`; that prefix is below this layer);
* every method of `DefaultStore` as *reads of the `KV`* and *the atomic write-sets it issues*;
* values are the encoded bytes (`Wire.SignedHeader.encode …`); typed views decode them.

Core Lean only.  Theorems are in `Spec/C14.lean` / `Proofs/C14*.lean`.
-/

namespace Store

/-! ## key layout -/

/-- split at `/` (structural): `"a//b"` ↦ `["a", "", "b"]` -/
def splitSlash : List Char → List (List Char)
  | [] => [[]]
  | c :: cs =>
    if c = '/' then [] :: splitSlash cs
    else match splitSlash cs with
      | [] => [[c]]
      | s :: ss => (c :: s) :: ss

/-- `acc` = the cleaned segments so far, innermost first -/
def cleanSegs (acc : List (List Char)) : List (List Char) → List (List Char)
  | [] => acc.reverse
  | s :: rest =>
    if s = [] ∨ s = ['.'] then cleanSegs acc rest
    else if s = ['.', '.'] then cleanSegs acc.tail rest
    else cleanSegs (s :: acc) rest

def joinSlash : List (List Char) → List Char
  | [] => []
  | [s] => s
  | s :: rest => s ++ '/' :: joinSlash rest

/-- Go's `path.Clean` of a rooted path (`"/" + …`): empty and `.` elements dropped, `..` removes the
element before it (and is dropped at the root), no trailing slash, result starts with `/`.
`ds.NewKey` applies the same function again (idempotent). -/
def pathCleanRooted (s : List Char) : List Char := '/' :: joinSlash (cleanSegs [] (splitSlash s))

/-- `GenerateKey(fields)` = `path.Clean("/" + strings.Join(fields, "/"))` -/
def generateKey (fields : List String) : String :=
  String.ofList (pathCleanRooted ('/' :: joinSlash (fields.map String.toList)))

/-- a metadata key that `path.Clean` leaves alone: non-empty, no empty, `.` or `..` element.
Every key the node uses is of this kind (`d`, `l`, `last-submitted-header-height`,
`last-submitted-data-height`, `rhb/<height>/h`, `rhb/<height>/d`). -/
def metaKeyOK (k : String) : Bool :=
  (splitSlash k.toList).all fun s => s ≠ [] && s ≠ ['.'] && s ≠ ['.', '.']

def heightKey : String := "/t"
def stateKey : String := "/s"
def headerKey (h : Nat) : String := "/h/" ++ Nat.repr h
def dataKey (h : Nat) : String := "/d/" ++ Nat.repr h
def signatureKey (h : Nat) : String := "/c/" ++ Nat.repr h

def hexUpperDigit (n : Nat) : Char := if n < 10 then Char.ofNat (48 + n) else Char.ofNat (55 + n)
/-- `header.Hash.String()`: upper-case hex -/
def hexUpper (b : Bytes) : List Char :=
  b.flatMap fun x => [hexUpperDigit (x.toNat / 16), hexUpperDigit (x.toNat % 16)]

/-- `getIndexKey(hash)`; the empty hash gives `path.Clean("/i/") = "/i"` -/
def indexKey (hash : Bytes) : String :=
  if hash = [] then "/i" else "/i/" ++ String.ofList (hexUpper hash)

/-- `getMetaKey(key)` = `path.Clean("/m/" + key)`; for the keys `path.Clean` leaves alone this is
`"/m/" ++ key` (`Proofs.C14Keys.generateKey_meta` shows that the first branch is what the second
computes, so the `if` is only a convenience for evaluation). -/
def metaKey (k : String) : String :=
  if metaKeyOK k then "/m/" ++ k else generateKey ["m", k]

/-- the metadata keys of the node -/
def daIncludedHeightKey : String := "d"
def lastBatchDataKey : String := "l"
def lastSubmittedHeaderHeightKey : String := "last-submitted-header-height"
def lastSubmittedDataHeightKey : String := "last-submitted-data-height"
def rhbHeaderKey (h : Nat) : String := "rhb/" ++ Nat.repr h ++ "/h"
def rhbDataKey (h : Nat) : String := "rhb/" ++ Nat.repr h ++ "/d"

/-! ## values -/

/-- `encodeHeight`: 8 bytes little endian -/
def encodeHeight (h : Nat) : Bytes := Bytes.le 8 h
/-- `decodeHeight`: exactly 8 bytes -/
def decodeHeight (b : Bytes) : Option Nat := if b.length = 8 then some (Bytes.unLe b) else none

/-- the three records of a block as stored: marshalled `SignedHeader`, marshalled `Data`, raw signature -/
structure Block where
  header : Bytes
  data : Bytes
  signature : Bytes
  deriving Repr, DecidableEq, Inhabited

inductive Err
  | notFound   -- `ds.ErrNotFound` from the datastore
  | corrupt    -- a stored value does not decode
  | io         -- a transient read error of the datastore (any `Get` error other than not-found)
  deriving Repr, DecidableEq, Inhabited

def Err.toString : Err → String
  | .notFound => "err:notfound"
  | .corrupt => "err:corrupt"
  | .io => "err:io"

def getOr (kv : KV) (k : String) : Except Err Bytes :=
  match kv.get k with
  | some v => .ok v
  | none => .error .notFound

/-! ## methods: writes -/

/-- `Height`: 0 when nothing was stored -/
def height (kv : KV) : Except Err Nat :=
  match kv.get heightKey with
  | none => .ok 0
  | some b =>
    match decodeHeight b with
    | some h => .ok h
    | none => .error .corrupt

def setHeightWS (h : Nat) : WriteSet := [.put heightKey (encodeHeight h)]

/-- `SetHeight`: one `Put`, only when the height grows; an unreadable stored height is an error and
nothing is written -/
def setHeight (kv : KV) (h : Nat) : Except Err (List WriteSet) :=
  match height kv with
  | .error e => .error e
  | .ok cur => if h ≤ cur then .ok [] else .ok [setHeightWS h]

/-- the write-sets of `SetHeight` (none on error) -/
def setHeightW (kv : KV) (h : Nat) : List WriteSet :=
  match setHeight kv h with
  | .ok w => w
  | .error _ => []

/-- `getHeightByHash` -/
def getHeightByHash (kv : KV) (hash : Bytes) : Except Err Nat :=
  match kv.get (indexKey hash) with
  | none => .error .notFound
  | some b =>
    match decodeHeight b with
    | some h => .ok h
    | none => .error .corrupt

/-- `GetHeader(height)` followed by `.Hash()` on a stored header record: `none` = the record does not
parse (any error of `GetHeader` makes `SaveBlockData` skip the clean-up) -/
def storedHeaderHash (keyOk : Bytes → Bool) (hb : Bytes) : Option Bytes :=
  (Wire.SignedHeader.decode keyOk hb).map (·.header.hash)

/-- `getHeightByHash(x)` succeeds and returns `h` -/
def indexPointsAt (kv : KV) (x : Bytes) (h : Nat) : Bool :=
  match getHeightByHash kv x with
  | .ok h' => h' == h
  | .error _ => false

/-- the hash whose index entry `SaveBlockData(h, hash)` deletes (since /repo 34bccfd): the hash of the
header stored at `h` when it is another one than `hash` and its index entry still points at `h`.
`hashOf` = `storedHeaderHash keyOk` in the typed operations. -/
def staleHash (hashOf : Bytes → Option Bytes) (kv : KV) (h : Nat) (hash : Bytes) : Option Bytes :=
  match kv.get (headerKey h) with
  | none => none
  | some ob =>
    match hashOf ob with
    | none => none
    | some oh => if oh ≠ hash ∧ indexPointsAt kv oh h = true then some oh else none

def staleIndexWS (hashOf : Bytes → Option Bytes) (kv : KV) (h : Nat) (hash : Bytes) : WriteSet :=
  match staleHash hashOf kv h hash with
  | some oh => [.del (indexKey oh)]
  | none => []

/-- the four puts of a block save -/
def savePutsWS (h : Nat) (hash : Bytes) (b : Block) : WriteSet :=
  [ .put (headerKey h) b.header, .put (dataKey h) b.data, .put (signatureKey h) b.signature,
    .put (indexKey hash) (encodeHeight h) ]

/-- `SaveBlockData` on the stored bytes: ONE batch — the delete of the replaced header's index entry
(if any), then header, data, signature and hash → height index -/
def saveBlobsWS (hashOf : Bytes → Option Bytes) (kv : KV) (h : Nat) (hash : Bytes) (b : Block) : WriteSet :=
  staleIndexWS hashOf kv h hash ++ savePutsWS h hash b

/-- `SaveBlockData` as it was before /repo 34bccfd (kept for the witness of the repaired defect) -/
def saveBlobsWSOld (h : Nat) (hash : Bytes) (b : Block) : WriteSet := savePutsWS h hash b

/-- `SaveBlockData(header, data, signature)` -/
def saveBlockDataWS (keyOk : Bytes → Bool) (kv : KV) (sh : Wire.SignedHeader) (d : Wire.Data) (sig : Bytes) :
    WriteSet :=
  saveBlobsWS (storedHeaderHash keyOk) kv sh.header.height sh.header.hash ⟨sh.encode, d.encode, sig⟩

def saveBlockData (keyOk : Bytes → Bool) (kv : KV) (sh : Wire.SignedHeader) (d : Wire.Data) (sig : Bytes) :
    List WriteSet :=
  [saveBlockDataWS keyOk kv sh d sig]

/-- `UpdateState` on the marshalled `pb.State` -/
def updateStateWS (blob : Bytes) : WriteSet := [.put stateKey blob]

def setMetadataWS (k : String) (v : Bytes) : WriteSet := [.put (metaKey k) v]

/-! ## methods: reads on the stored bytes -/

def getHeaderBlob (kv : KV) (h : Nat) : Except Err Bytes := getOr kv (headerKey h)
def getDataBlob (kv : KV) (h : Nat) : Except Err Bytes := getOr kv (dataKey h)

/-- `GetSignature` -/
def getSignature (kv : KV) (h : Nat) : Except Err Bytes := getOr kv (signatureKey h)

/-- `GetBlockData` before unmarshalling: header bytes and data bytes -/
def getBlockBlobs (kv : KV) (h : Nat) : Except Err (Bytes × Bytes) :=
  match getHeaderBlob kv h with
  | .error e => .error e
  | .ok hb =>
    match getDataBlob kv h with
    | .error e => .error e
    | .ok db => .ok (hb, db)

def getBlockBlobsByHash (kv : KV) (hash : Bytes) : Except Err (Bytes × Bytes) :=
  match getHeightByHash kv hash with
  | .error e => .error e
  | .ok h => getBlockBlobs kv h

/-- `GetSignatureByHash` -/
def getSignatureByHash (kv : KV) (hash : Bytes) : Except Err Bytes :=
  match getHeightByHash kv hash with
  | .error e => .error e
  | .ok h => getSignature kv h

def getStateBlob (kv : KV) : Except Err Bytes := getOr kv stateKey

/-- `GetMetadata` -/
def getMetadata (kv : KV) (k : String) : Except Err Bytes := getOr kv (metaKey k)

/-! ## typed views (`UnmarshalBinary` of what was read; a value that does not parse is `corrupt`).
`keyOk` models the libp2p public-key parse, as in `Wire.SignedHeader.decode`. -/

/-- `GetHeader` -/
def getHeader (keyOk : Bytes → Bool) (kv : KV) (h : Nat) : Except Err Wire.SignedHeader :=
  match getHeaderBlob kv h with
  | .error e => .error e
  | .ok hb =>
    match Wire.SignedHeader.decode keyOk hb with
    | some sh => .ok sh
    | none => .error .corrupt

/-- `GetBlockData`: header read, header parse, data read, data parse — in that order -/
def getBlockData (keyOk : Bytes → Bool) (kv : KV) (h : Nat) : Except Err (Wire.SignedHeader × Wire.Data) :=
  match getHeader keyOk kv h with
  | .error e => .error e
  | .ok sh =>
    match getDataBlob kv h with
    | .error e => .error e
    | .ok db =>
      match Wire.Data.decode db with
      | some d => .ok (sh, d)
      | none => .error .corrupt

/-- `GetBlockByHash` -/
def getBlockByHash (keyOk : Bytes → Bool) (kv : KV) (hash : Bytes) : Except Err (Wire.SignedHeader × Wire.Data) :=
  match getHeightByHash kv hash with
  | .error e => .error e
  | .ok h => getBlockData keyOk kv h

/-! ### `types.State` ⇄ `pb.State` (`types/serialization.go`) -/

/-- seconds of `time.Time{}` (0001-01-01) as the `uint64` two's complement protobuf writes -/
def zeroTimeSeconds : Nat := 2 ^ 64 - 62135596800

structure State where
  version : Wire.Version := {}
  chainId : String := ""
  initialHeight : Nat := 0
  lastBlockHeight : Nat := 0
  /-- `LastBlockTime.Unix()` as `uint64` (two's complement) -/
  lastBlockTimeSec : Nat := zeroTimeSeconds
  /-- `LastBlockTime.Nanosecond()` -/
  lastBlockTimeNanos : Nat := 0
  daHeight : Nat := 0
  lastResultsHash : Bytes := []
  appHash : Bytes := []
  deriving Repr, DecidableEq, Inhabited

open Wire in
/-- `State.ToProto` + `proto.Marshal`: `Version` and `LastBlockTime` are always present -/
def State.fields (s : State) : List Field :=
  [(1, .len s.version.encode)] ++ optB 2 (utf8 s.chainId) ++ optV 3 s.initialHeight ++
  optV 4 s.lastBlockHeight ++
  [(5, .len (encFields (optV 1 s.lastBlockTimeSec ++ optV 2 s.lastBlockTimeNanos)))] ++
  optV 6 s.daHeight ++ optB 7 s.lastResultsHash ++ optB 8 s.appHash

def State.encode (s : State) : Bytes := Wire.encFields s.fields

open Wire in
/-- `proto.Unmarshal` + `State.FromProto` (an absent timestamp is `time.Time{}`).  Exact for the
bytes `State.encode` produces (nanoseconds in range); other timestamps are normalised by Go's
`time.Unix` and are not modelled. -/
def State.decode (bs : Bytes) : Option State :=
  match decFields bs with
  | none => none
  | some fs =>
    match getMsg 1 Version.decode fs, getMsg 5 decFields fs, ofUtf8? (getLen 2 fs) with
    | some v, some ts, some cid =>
      if (getRep 2 fs).all (fun b => (ofUtf8? b).isSome) then
        some { version := v.getD {}, chainId := cid, initialHeight := getVarint 3 fs,
               lastBlockHeight := getVarint 4 fs,
               lastBlockTimeSec := (match ts with | some t => getVarint 1 t | none => zeroTimeSeconds),
               lastBlockTimeNanos := (match ts with | some t => getVarint 2 t | none => 0),
               daHeight := getVarint 6 fs, lastResultsHash := getLen 7 fs, appHash := getLen 8 fs }
      else none
    | _, _, _ => none

/-- `UpdateState` -/
def updateState (s : State) : List WriteSet := [updateStateWS s.encode]

/-- `GetState` -/
def getState (kv : KV) : Except Err State :=
  match getStateBlob kv with
  | .error e => .error e
  | .ok b =>
    match State.decode b with
    | some s => .ok s
    | none => .error .corrupt

def setMetadata (k : String) (v : Bytes) : List WriteSet := [setMetadataWS k v]

/-! ## transient read faults of the datastore

`Faults`: which of the `Get`s ONE method call issues (numbered from 0 in program order) return a transient
error (an error other than `ds.ErrNotFound`) and read nothing.  The `…F` versions below are what the driver
executes; with `noFaults` they are the definitions above (`Proofs/C14Fault.lean`: `…F_noFaults`).  What the
CURRENT code does with a faulted read, method by method (`store.go`):

* `Height`, `GetHeader`, `GetBlockData`, `GetBlockByHash`, `GetSignature`, `GetSignatureByHash`, `GetState`,
  `GetMetadata`: the error is returned (`err:io`), later reads are not made;
* `SetHeight`: the error of `Height` is returned, nothing is written;
* `UpdateState`, `SetMetadata`: no reads;
* `SaveBlockData` (since /repo 3ba0234): the read of the header stored at the height (read 0) and — made only when
  that header parses and has ANOTHER hash — the read of its index entry (read 1) return the error; nothing is
  written.  Before 3ba0234 both look-ups swallowed the error (`if …; err == nil {`): the delete of the replaced
  header's index entry was skipped, the four puts were committed and the call answered `nil`
  (`saveBlobsWSFOld`, kept for the witness of the repaired defect
  `C14/read/by-hash-returns-other-block-after-height-overwrite/after-read-fault`). -/

abbrev Faults := Nat → Bool

def noFaults : Faults := fun _ => false

/-- `fault get=n skip=k`: reads `k`, …, `k+n-1` of the call fail -/
def Faults.window (skip n : Nat) : Faults := fun i => decide (skip ≤ i) && decide (i < skip + n)

/-- `Height` (one read: number 0) -/
def heightF (f : Faults) (kv : KV) : Except Err Nat :=
  if f 0 then .error .io else height kv

/-- `SetHeight`: the error of the height look-up is returned and nothing is written -/
def setHeightF (f : Faults) (kv : KV) (h : Nat) : Except Err (List WriteSet) :=
  match heightF f kv with
  | .error e => .error e
  | .ok cur => if h ≤ cur then .ok [] else .ok [setHeightWS h]

def setHeightWF (f : Faults) (kv : KV) (h : Nat) : List WriteSet :=
  match setHeightF f kv h with
  | .ok w => w
  | .error _ => []

/-- `getHeightByHash` when it is read number `i` of the call -/
def getHeightByHashF (f : Faults) (i : Nat) (kv : KV) (hash : Bytes) : Except Err Nat :=
  if f i then .error .io else getHeightByHash kv hash

def indexPointsAtF (f : Faults) (i : Nat) (kv : KV) (x : Bytes) (h : Nat) : Bool :=
  match getHeightByHashF f i kv x with
  | .ok h' => h' == h
  | .error _ => false

/-- `SaveBlockData` BEFORE /repo 3ba0234: the look-up of the index entry to delete swallowed read errors: read 0 =
the header stored at `h` (ANY error, also a faulted read: no clean-up), read 1 = the index entry of its hash, made
only when that hash is another one (ANY error: no clean-up) -/
def staleHashFOld (hashOf : Bytes → Option Bytes) (f : Faults) (kv : KV) (h : Nat) (hash : Bytes) : Option Bytes :=
  if f 0 then none else
  match kv.get (headerKey h) with
  | none => none
  | some ob =>
    match hashOf ob with
    | none => none
    | some oh => if oh ≠ hash ∧ indexPointsAtF f 1 kv oh h = true then some oh else none

def staleIndexWSFOld (hashOf : Bytes → Option Bytes) (f : Faults) (kv : KV) (h : Nat) (hash : Bytes) : WriteSet :=
  match staleHashFOld hashOf f kv h hash with
  | some oh => [.del (indexKey oh)]
  | none => []

/-- the write-set of `SaveBlockData` under read faults BEFORE /repo 3ba0234 (never an error, always the four puts) -/
def saveBlobsWSFOld (hashOf : Bytes → Option Bytes) (f : Faults) (kv : KV) (h : Nat) (hash : Bytes) (b : Block) :
    WriteSet :=
  staleIndexWSFOld hashOf f kv h hash ++ savePutsWS h hash b

/-- does `SaveBlockData` read the index entry of the header stored at `h` (its second read)?  Only when that header
is there, parses, and has another hash than the one being saved -/
def saveReadsIndex (hashOf : Bytes → Option Bytes) (kv : KV) (h : Nat) (hash : Bytes) : Bool :=
  match kv.get (headerKey h) with
  | none => false
  | some ob =>
    match hashOf ob with
    | none => false
    | some oh => oh != hash

/-- a read `SaveBlockData` makes is faulted: read 0 (stored header), or read 1 (index entry) when it is made -/
def saveFaulted (hashOf : Bytes → Option Bytes) (f : Faults) (kv : KV) (h : Nat) (hash : Bytes) : Bool :=
  f 0 || (saveReadsIndex hashOf kv h hash && f 1)

/-- `SaveBlockData` on the stored bytes under read faults (since /repo 3ba0234): a faulted read is returned as the
error and NOTHING is written; otherwise the one batch of `saveBlobsWS` -/
def saveBlobsF (hashOf : Bytes → Option Bytes) (f : Faults) (kv : KV) (h : Nat) (hash : Bytes) (b : Block) :
    Except Err WriteSet :=
  if saveFaulted hashOf f kv h hash then .error .io else .ok (saveBlobsWS hashOf kv h hash b)

/-- `SaveBlockData(header, data, signature)` under read faults -/
def saveBlockDataF (keyOk : Bytes → Bool) (f : Faults) (kv : KV) (sh : Wire.SignedHeader) (d : Wire.Data)
    (sig : Bytes) : Except Err (List WriteSet) :=
  match saveBlobsF (storedHeaderHash keyOk) f kv sh.header.height sh.header.hash ⟨sh.encode, d.encode, sig⟩ with
  | .ok ws => .ok [ws]
  | .error e => .error e

/-- `GetSignature` as read number `i` -/
def getSignatureF (f : Faults) (i : Nat) (kv : KV) (h : Nat) : Except Err Bytes :=
  if f i then .error .io else getSignature kv h

/-- `GetHeader` as read number `i` -/
def getHeaderF (keyOk : Bytes → Bool) (f : Faults) (i : Nat) (kv : KV) (h : Nat) : Except Err Wire.SignedHeader :=
  if f i then .error .io else getHeader keyOk kv h

/-- `GetBlockData`: header = read `i`; data = read `i+1`, made only when the header was read and parsed -/
def getBlockDataF (keyOk : Bytes → Bool) (f : Faults) (i : Nat) (kv : KV) (h : Nat) :
    Except Err (Wire.SignedHeader × Wire.Data) :=
  match getHeaderF keyOk f i kv h with
  | .error e => .error e
  | .ok sh =>
    if f (i + 1) then .error .io else
    match getDataBlob kv h with
    | .error e => .error e
    | .ok db =>
      match Wire.Data.decode db with
      | some d => .ok (sh, d)
      | none => .error .corrupt

/-- `GetBlockByHash`: index = read 0, header = read 1, data = read 2 -/
def getBlockByHashF (keyOk : Bytes → Bool) (f : Faults) (kv : KV) (hash : Bytes) :
    Except Err (Wire.SignedHeader × Wire.Data) :=
  match getHeightByHashF f 0 kv hash with
  | .error e => .error e
  | .ok h => getBlockDataF keyOk f 1 kv h

/-- `GetSignatureByHash`: index = read 0, signature = read 1 -/
def getSignatureByHashF (f : Faults) (kv : KV) (hash : Bytes) : Except Err Bytes :=
  match getHeightByHashF f 0 kv hash with
  | .error e => .error e
  | .ok h => getSignatureF f 1 kv h

def getStateF (f : Faults) (kv : KV) : Except Err State :=
  if f 0 then .error .io else getState kv

def getMetadataF (f : Faults) (kv : KV) (k : String) : Except Err Bytes :=
  if f 0 then .error .io else getMetadata kv k

/-- `Close` + `New` on the same datastore: the store object holds no state of its own -/
def reopen (kv : KV) : KV := kv

end Store
