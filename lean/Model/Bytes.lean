/-! Byte strings, hex, little/big-endian helpers.  Core Lean only. -/
abbrev Bytes := List UInt8

namespace Bytes

def hexDigit (n : Nat) : Char := Nat.digitChar n

def toHex (bs : Bytes) : String :=
  String.ofList (bs.flatMap fun b => [hexDigit (b.toNat / 16), hexDigit (b.toNat % 16)])

def hexVal (c : Char) : Option Nat :=
  if '0' ≤ c ∧ c ≤ '9' then some (c.toNat - '0'.toNat)
  else if 'a' ≤ c ∧ c ≤ 'f' then some (c.toNat - 'a'.toNat + 10)
  else if 'A' ≤ c ∧ c ≤ 'F' then some (c.toNat - 'A'.toNat + 10)
  else none

def ofHexChars : List Char → Option Bytes
  | [] => some []
  | [_] => none
  | a :: b :: rest =>
    match hexVal a, hexVal b, ofHexChars rest with
    | some x, some y, some r => some ((x * 16 + y).toUInt8 :: r)
    | _, _, _ => none

/-- "-" denotes the empty string (so that every token is non-empty). -/
def ofHex (s : String) : Option Bytes :=
  if s = "-" then some [] else ofHexChars s.toList

def toHexTok (bs : Bytes) : String := if bs.isEmpty then "-" else toHex bs

def ofString (s : String) : Bytes := s.toUTF8.toList

/-- little-endian, `n` bytes -/
def le : Nat → Nat → Bytes
  | 0, _ => []
  | n+1, x => (x % 256).toUInt8 :: le n (x / 256)

def unLe : Bytes → Nat
  | [] => 0
  | b :: r => b.toNat + 256 * unLe r

end Bytes
