import Model.Wire

/-!
# `pb.State`, `google.protobuf.Timestamp`, Go strings that are not UTF-8, nil vs empty

Additions to `Model/Wire.lean` (which is shared and stays as it is):

* `Timestamp` (seconds : int64, nanos : int32) and Go's `time.Time` as the conversions see it
  (`timestamppb.New` = `(t.Unix(), t.Nanosecond())`, `AsTime` = `time.Unix(sec, nanos).UTC()`,
  `time.Unix` normalises the nanoseconds and wraps the seconds like Go's `int64` arithmetic);
* `State` ↔ `pb.State` (`types/serialization.go` `State.ToProto` / `FromProto`,
  `pkg/store` `UpdateState` / `GetState`); neither direction calls `Timestamp.CheckValid`;
* Go-level marshalling of values whose chain id is a Go string holding arbitrary bytes: protobuf-go
  checks UTF-8 on marshal *and* unmarshal; `Header.Hash` returns nil on a marshal error,
  `Data.Hash` ignores the error and hashes what `proto.Marshal` left in its buffer;
* what a round trip does to the nil-ness of Go slices.
-/

namespace Wire

/-! ### two's complement (`uint64(int64)`, `int64(uint64)`, `int32(uint64)`) -/

def two64 : Int := 18446744073709551616
def two63 : Int := 9223372036854775808
def two32 : Int := 4294967296
def two31 : Int := 2147483648

/-- `uint64(z)` for a Go `int64`/`int32` `z` (sign extension): the varint payload of `int64` and `int32` fields -/
def ofI64 (z : Int) : Nat := (z % two64).toNat
/-- `int64(n)` for a Go `uint64` -/
def toI64 (n : Nat) : Int := if (n : Int) % two64 < two63 then (n : Int) % two64 else (n : Int) % two64 - two64
/-- `int32(n)` for a Go `uint64` (protobuf-go truncates an over-long `int32` varint) -/
def toI32 (n : Nat) : Int := if (n : Int) % two32 < two31 then (n : Int) % two32 else (n : Int) % two32 - two32
/-- Go `int64` arithmetic wraps -/
def wrapI64 (z : Int) : Int := toI64 (ofI64 z)

/-! ### google.protobuf.Timestamp -/

structure Timestamp where
  seconds : Int := 0   -- int64
  nanos : Int := 0     -- int32
  deriving Repr, DecidableEq, Inhabited

def Timestamp.fields (t : Timestamp) : List Field := optV 1 (ofI64 t.seconds) ++ optV 2 (ofI64 t.nanos)
def Timestamp.ofFields (fs : List Field) : Timestamp :=
  { seconds := toI64 (getVarint 1 fs), nanos := toI32 (getVarint 2 fs) }
def Timestamp.encode (t : Timestamp) : Bytes := encFields t.fields
def Timestamp.decode (bs : Bytes) : Option Timestamp := (decFields bs).map Timestamp.ofFields

/-! ### `time.Time` as an instant

`sec` = `t.Unix()` (an `int64`; Go stores `sec + 62135596800` and all its arithmetic wraps, so every
`int64` is the `Unix()` of some `Time`), `nsec` = `t.Nanosecond()` (`0 ≤ nsec < 10^9`).  The location
and the monotonic reading are not part of the instant: `AsTime` returns UTC without a monotonic
reading (see `deq` of the stream for what `reflect.DeepEqual` makes of that). -/

structure GoTime where
  sec : Int
  nsec : Nat
  deriving Repr, DecidableEq, Inhabited

/-- `time.Time{}`: January 1, year 1, 00:00:00 UTC -/
def GoTime.zero : GoTime := { sec := -62135596800, nsec := 0 }

def nsPerSec : Int := 1000000000

/-- Go's `/` on `int64` truncates toward zero -/
def goDiv (a b : Int) : Int := if 0 ≤ a then a / b else -((-a) / b)

/-- `time.Unix(sec, nsec)` (both `int64`), line by line:
```
if nsec < 0 || nsec >= 1e9 { n := nsec / 1e9; sec += n; nsec -= n * 1e9
                             if nsec < 0 { nsec += 1e9; sec-- } }
```
-/
def timeUnix (sec nsec : Int) : GoTime :=
  if nsec < 0 ∨ nsPerSec ≤ nsec then
    let n := goDiv nsec nsPerSec
    let sec1 := wrapI64 (sec + n)
    let nsec1 := nsec - n * nsPerSec
    if nsec1 < 0 then { sec := wrapI64 (sec1 - 1), nsec := (nsec1 + nsPerSec).toNat }
    else { sec := sec1, nsec := nsec1.toNat }
  else { sec := sec, nsec := nsec.toNat }

/-- `timestamppb.New(t)` -/
def tsNew (t : GoTime) : Timestamp := { seconds := t.sec, nanos := (t.nsec : Int) }
/-- `(*Timestamp).AsTime()` = `time.Unix(int64(x.GetSeconds()), int64(x.GetNanos())).UTC()` -/
def Timestamp.asTime (t : Timestamp) : GoTime := timeUnix t.seconds t.nanos
/-- `(*Timestamp).CheckValid()`: 0001-01-01 … 9999-12-31, nanos in range.  **Not called** by
`State.ToProto` / `FromProto` / the store; here only to say what is outside timestamppb's range. -/
def Timestamp.valid (t : Timestamp) : Bool :=
  decide (-62135596800 ≤ t.seconds) && decide (t.seconds < 253402300800) && decide (0 ≤ t.nanos) && decide (t.nanos < nsPerSec)

/-! ### State -/

/-- `types.State`; `chainId` is a Go string: any bytes -/
structure State where
  version : Version := {}
  chainId : Bytes := []
  initialHeight : Nat := 0
  lastBlockHeight : Nat := 0
  lastBlockTime : GoTime := GoTime.zero
  daHeight : Nat := 0
  lastResultsHash : Bytes := []
  appHash : Bytes := []
  deriving Repr, DecidableEq, Inhabited

def validUtf8 (b : Bytes) : Bool := (ofUtf8? b).isSome

/-- `State.ToProto`: version and timestamp sub-messages are always present -/
def State.fields (s : State) : List Field :=
  [(1, .len s.version.encode)] ++ optB 2 s.chainId ++ optV 3 s.initialHeight ++ optV 4 s.lastBlockHeight ++
  [(5, .len (tsNew s.lastBlockTime).encode)] ++ optV 6 s.daHeight ++ optB 7 s.lastResultsHash ++ optB 8 s.appHash

/-- `proto.Marshal(state.ToProto())`: `none` = "string field contains invalid UTF-8" -/
def State.encode? (s : State) : Option Bytes :=
  if validUtf8 s.chainId then some (encFields s.fields) else none

/-- `proto.Unmarshal` + `State.FromProto` -/
def State.decode (bs : Bytes) : Option State :=
  match decFields bs with
  | none => none
  | some fs =>
    match getMsg 1 Version.decode fs, getMsg 5 Timestamp.decode fs with
    | some v, some ts =>
      if (getRep 2 fs).all validUtf8 then
        some { version := v.getD {}, chainId := getLen 2 fs, initialHeight := getVarint 3 fs,
               lastBlockHeight := getVarint 4 fs,
               lastBlockTime := (match ts with | some t => t.asTime | none => GoTime.zero),
               daHeight := getVarint 6 fs, lastResultsHash := getLen 7 fs, appHash := getLen 8 fs }
      else none
    | _, _ => none

/-! ### Go-level marshalling of headers / metadata / data whose chain id is an arbitrary Go string

The typed messages of `Model/Wire.lean` carry `chainId : String` (valid UTF-8 by construction).  A Go
value is such a message plus the raw chain-id bytes `cid`; the message's own `chainId` is ignored. -/

def Header.withCid (h : Header) (s : String) : Header := { h with chainId := s }
def Metadata.withCid (m : Metadata) (s : String) : Metadata := { m with chainId := s }

/-- `Header.MarshalBinary` -/
def Header.marshalGo (h : Header) (cid : Bytes) : Option Bytes := (ofUtf8? cid).map fun s => (h.withCid s).encode
/-- `Header.Hash`: nil on a marshal error -/
def Header.hashGo (h : Header) (cid : Bytes) : Bytes :=
  match h.marshalGo cid with | some b => sha256 b | none => []

/-- `Metadata.MarshalBinary` -/
def Metadata.marshalGo (m : Metadata) (cid : Bytes) : Option Bytes := (ofUtf8? cid).map fun s => (m.withCid s).encode

/-- the fields protobuf-go sizes for a metadata message with raw chain-id bytes -/
def Metadata.fieldsRaw (m : Metadata) (cid : Bytes) : List Field :=
  optB 1 cid ++ optV 2 m.height ++ optV 3 m.time ++ optB 4 m.lastDataHash

/-- what `proto.Marshal` has appended when it stops at the invalid chain id of the metadata: tag and
(pre-computed) length of the metadata field, then the chain-id field itself; nothing after it —
not the height, time, last data hash, and **none of the transactions** -/
def Data.partialGo (m : Metadata) (cid : Bytes) : Bytes :=
  encVarint 10 ++ encVarint (encFields (m.fieldsRaw cid)).length ++ encFields (optB 1 cid)

/-- `Data.MarshalBinary`: `.error partial` = marshal error, with the bytes `proto.Marshal` returns beside it -/
def Data.marshalGo (d : Data) (cid : Bytes) : Except Bytes Bytes :=
  match d.metadata with
  | none => .ok d.encode
  | some m =>
    match ofUtf8? cid with
    | some s => .ok ({ d with metadata := some (m.withCid s) } : Data).encode
    | none => .error (Data.partialGo m cid)

/-- the bytes `Data.Hash` hashes: `dBytes, _ := d.MarshalBinary()` -/
def Data.hashInputGo (d : Data) (cid : Bytes) : Bytes :=
  match d.marshalGo cid with | .ok b => b | .error p => p
/-- `Data.Hash` -/
def Data.hashGo (d : Data) (cid : Bytes) : Bytes := sha256 (0 :: d.hashInputGo cid)

/-! ### nil vs empty Go slices

`none` = nil, `some b` = a non-nil slice with contents `b`.  Everything else in the model identifies
nil and empty (`bytes.Equal`, hashing, the wire format and every consumer of decoded values do);
`reflect.DeepEqual` — what the repository's tests use through testify's `assert.Equal` — does not. -/

abbrev GoSlice := Option Bytes
def GoSlice.bytes : GoSlice → Bytes
  | none => []
  | some b => b
/-- a `bytes` field through `ToProto`, `proto.Marshal`, `proto.Unmarshal`, `FromProto`: proto3 does not write an
empty field, an absent field is unmarshalled as nil and `FromProto` keeps nil; a non-empty one is copied -/
def GoSlice.rt (g : GoSlice) : GoSlice := if g.bytes = [] then none else some g.bytes

/-- `types.Txs`: `none` = nil list; every transaction is a Go slice -/
abbrev GoTxs := Option (List GoSlice)
def GoTxs.list : GoTxs → List GoSlice
  | none => []
  | some l => l
/-- `byteSlicesToTxs(txsToByteSlices(txs))` around the wire: never nil (`Txs{}` for no transactions),
every transaction non-nil (protobuf-go appends to a non-nil empty buffer) -/
def GoTxs.rt (t : GoTxs) : GoTxs := some (t.list.map fun x => some x.bytes)

end Wire
