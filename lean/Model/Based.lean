import Model.Bytes

/-! # Model of the based sequencer (`sequencers/based/sequencer.go`, `persistent_pending_txs.go`)

`GetNextBatch` + `PersistentPendingTxs`, mirroring the Go code that exists: carry-over pop up to
the size limit (`>`), forward scan within the drift window with the `>=` size test — entered only
when the pop has emptied the carry-over —, push-back of the suffix that does not fit (the height
counts as consumed: scan position advanced past it), persisted scan position, `LastBatchData`
echoed by the caller, and the treatment of each DA retrieval outcome (`StatusError` and
`StatusHeightFromFuture` stop the scan at that height; `NotFound`/no data are skipped).

Modelling decisions: a queue entry holds (tx,id) pairs (the Go code keeps two parallel slices of
equal length); numbers are `Nat` (no uint64 wrap-around); `time.Now()` of an empty pop is `0` (it
never reaches a non-nil response); the JSON value under `/sequencer/pendingTxs` is modelled by its
decoded content. Core Lean only. -/
namespace Based

structure Item where
  tx : Bytes
  id : Bytes
  deriving DecidableEq, Repr, Inhabited

structure Entry where
  items : List Item
  ts : Nat
  deriving DecidableEq, Repr, Inhabited

/-- state = in-memory carry-over queue + the two persisted copies -/
structure St where
  queue : List Entry := []
  pendP : Option (List Entry) := none   -- `/sequencer/pendingTxs`
  scanP : Option Nat := none            -- `/sequencer/lastScannedDAHeight`
  deriving DecidableEq, Repr, Inhabited

structure Cfg where
  daStart : Nat
  drift : Nat
  deriving DecidableEq, Repr, Inhabited

/-- outcome of `types.RetrieveWithHelpers` for one height -/
inductive Fetch
  | ok (items : List Item) (ts : Nat)   -- StatusSuccess
  | empty                               -- StatusNotFound
  | future                              -- StatusHeightFromFuture
  | error                               -- StatusError (GetIDs or Get failed)
  deriving DecidableEq, Repr, Inhabited

inductive Resp
  | errInvalidId
  | errLastHeight
  | nil
  | batch (items : List Item) (ts : Nat)
  deriving DecidableEq, Repr, Inhabited

/-- durable writes, in the order issued, with the value written: `pending q` = `Save()` of the
carry-over queue (`/sequencer/pendingTxs`), `scan n` = `Put` of `/sequencer/lastScannedDAHeight` -/
inductive Wr
  | pending (q : List Entry)
  | scan (n : Nat)
  deriving DecidableEq, Repr

def defaultMax : Nat := 1500000
def effMax (m : Nat) : Nat := if m = 0 then defaultMax else m

def bytesOf (l : List Item) : Nat := (l.map (·.tx.length)).sum
def flat (q : List Entry) : List Item := q.flatMap (·.items)

/-- inner loop of `PopUpToMaxBytes`: (taken, size, rest) -/
def popItems (max : Nat) : List Item → Nat → List Item × Nat × List Item
  | [], size => ([], size, [])
  | it :: r, size =>
    if size + it.tx.length > max then ([], size, it :: r)
    else
      let p := popItems max r (size + it.tx.length)
      (it :: p.1, p.2.1, p.2.2)

structure Popped where
  taken : List Item
  size : Nat
  ts : Nat
  queue : List Entry
  deriving Repr

/-- `PopUpToMaxBytes` (sequencers/based/persistent_pending_txs.go:40-70) -/
def popQueue (max : Nat) : List Entry → Nat → Nat → Popped
  | [], size, ts => ⟨[], size, ts, []⟩
  | e :: q, size, _ =>
    let p := popItems max e.items size
    if p.2.2.isEmpty then
      let r := popQueue max q p.2.1 e.ts
      ⟨p.1 ++ r.taken, r.size, r.ts, r.queue⟩
    else ⟨p.1, p.2.1, e.ts, { items := p.2.2, ts := e.ts } :: q⟩

/-- the `for i, tx := range res.Data` loop (sequencer.go:188-201): (taken, size, rest) -/
def scanItems (max : Nat) : List Item → Nat → List Item × Nat × List Item
  | [], size => ([], size, [])
  | it :: r, size =>
    if size + it.tx.length ≥ max then ([], size, it :: r)
    else
      let p := scanItems max r (size + it.tx.length)
      (it :: p.1, p.2.1, p.2.2)

structure Scanned where
  taken : List Item
  size : Nat
  ts : Nat
  next : Nat
  pushed : Option Entry
  deriving Repr

/-- `OuterLoop` (sequencer.go:163-205); fuel `drift+2` is never exhausted -/
def scan (drift : Nat) (da : Nat → Fetch) (max lastDA : Nat) : Nat → Nat → Nat → Nat → Scanned
  | 0, next, size, ts => ⟨[], size, ts, next, none⟩
  | fuel+1, next, size, ts =>
    if ¬ size < max then ⟨[], size, ts, next, none⟩
    else if next > lastDA + drift then ⟨[], size, ts, next, none⟩
    else
      match da next with
      | .error => ⟨[], size, ts, next, none⟩
      | .empty => scan drift da max lastDA fuel (next+1) size ts
      | .future => ⟨[], size, ts, next, none⟩
      | .ok items hts =>
        if items.isEmpty then scan drift da max lastDA fuel (next+1) size ts
        else
          let p := scanItems max items size
          if p.2.2.isEmpty then
            let r := scan drift da max lastDA fuel (next+1) p.2.1 hts
            ⟨p.1 ++ r.taken, r.size, r.ts, r.next, r.pushed⟩
          else ⟨p.1, p.2.1, if p.1.isEmpty then ts else hts, next + 1, some ⟨p.2.2, hts⟩⟩

/-- the loop condition `size < maxBytes && len(s.pendingTxs.list) == 0` (sequencer.go:165): the
queue only changes inside the loop by the push-back, which leaves the loop, so the second conjunct
is decided by the queue the pop left behind -/
def scanQ (q : List Entry) (drift : Nat) (da : Nat → Fetch) (max lastDA fuel next size ts : Nat) : Scanned :=
  if q.isEmpty then scan drift da max lastDA fuel next size ts else ⟨[], size, ts, next, none⟩

/-- `coreda.SplitID`: height of an id, `none` when `len(id) ≤ 8` -/
def splitHeight (id : Bytes) : Option Nat :=
  if id.length ≤ 8 then none else some (Bytes.unLe (id.take 8))

structure Req where
  idOk : Bool := true
  max : Nat
  last : List Bytes := []     -- `LastBatchData`
  deriving Repr

structure Out where
  st : St
  resp : Resp
  writes : List Wr
  deriving Repr

def persistedPos (cfg : Cfg) (s : St) : Nat :=
  match s.scanP with
  | some v => if v > cfg.daStart then v else cfg.daStart
  | none => cfg.daStart

def pushQ (q : List Entry) : Option Entry → List Entry
  | some e => q ++ [e]
  | none => q

/-- `GetNextBatch` (sequencer.go:116-221) -/
def getNextBatch (cfg : Cfg) (da : Nat → Fetch) (s : St) (r : Req) : Out :=
  if !r.idOk then ⟨s, .errInvalidId, []⟩
  else
    let max := effMax r.max
    let p := popQueue max s.queue 0 0
    let pos := persistedPos cfg s
    match r.last.getLast? with
    | some id =>
      match splitHeight id with
      | none => ⟨{ s with queue := p.queue, pendP := some p.queue }, .errLastHeight, [Wr.pending p.queue]⟩
      | some e =>
        let lastDA := if e > pos then e else pos
        let next := if e > pos then e + 1 else pos
        let sc := scanQ p.queue cfg.drift da max lastDA (cfg.drift + 2) next p.size p.ts
        let q2 := pushQ p.queue sc.pushed
        ⟨{ queue := q2, pendP := some q2, scanP := some sc.next },
          (if (p.taken ++ sc.taken).isEmpty then .nil else .batch (p.taken ++ sc.taken) sc.ts),
          ([Wr.pending p.queue] ++ (if sc.pushed.isSome then [Wr.pending q2] else []) ++ [Wr.scan sc.next] : List Wr)⟩
    | none =>
      let sc := scanQ p.queue cfg.drift da max pos (cfg.drift + 2) pos p.size p.ts
      let q2 := pushQ p.queue sc.pushed
      ⟨{ queue := q2, pendP := some q2, scanP := some sc.next },
        (if (p.taken ++ sc.taken).isEmpty then .nil else .batch (p.taken ++ sc.taken) sc.ts),
        ([Wr.pending p.queue] ++ (if sc.pushed.isSome then [Wr.pending q2] else []) ++ [Wr.scan sc.next] : List Wr)⟩

/-- a new `Sequencer` object on the durable image (`NewPersistentPendingTxs` → `Load`) -/
def restart (s : St) : St := { s with queue := s.pendP.getD [] }

/-- one durable write applied to the durable image -/
def applyWr (s : St) : Wr → St
  | .pending q => { s with pendP := some q }
  | .scan n => { s with scanP := some n }

/-- a crash inside a call: the process dies when the first `k` durable writes `ws` of the call are
on disk (`k ≥ ws.length`: all of them, the crash hits between the last write and the `return`); the
call's answer never reaches the caller; a new `Sequencer` object starts on that image -/
def crashAt (s : St) (ws : List Wr) (k : Nat) : St := restart ((ws.take k).foldl applyWr s)

def Resp.items : Resp → List Item
  | .batch items _ => items
  | _ => []

/-! ## The scripted DA of the correspondence stream (environment, not repo code) -/

def mkId (h i : Nat) : Bytes := Bytes.le 8 h ++ Bytes.le 8 (i + 1)

def mkItems (h : Nat) : Nat → List Bytes → List Item
  | _, [] => []
  | i, tx :: r => ⟨tx, mkId h i⟩ :: mkItems h (i + 1) r

structure DA where
  head : Nat := 0                              -- heights ≥ head are "from the future"
  blobs : List (Nat × List Bytes) := []        -- height ↦ txs
  errIds : List Nat := []                      -- heights whose GetIDs fails
  errGet : List Nat := []                      -- heights whose Get fails
  deriving Repr, Inhabited

def DA.txsAt (d : DA) (h : Nat) : List Bytes :=
  match d.blobs.find? (·.1 = h) with
  | some p => p.2
  | none => []

def DA.fetch (d : DA) (h : Nat) : Fetch :=
  if d.errIds.contains h then .error
  else if h ≥ d.head then .future
  else
    match d.txsAt h with
    | [] => .empty
    | txs => if d.errGet.contains h then .error else .ok (mkItems h 0 txs) (1000 + h)

end Based
