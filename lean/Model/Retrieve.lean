import Model.Sync

/-!
# DA scanning (`block/retriever.go`): `RetrieveLoop`, `processNextDAHeaderAndData`,
`handlePotentialHeader`, `handlePotentialData`, `isUsingExpectedSingleSequencer`, `isValidSignedData`
and `types.RetrieveWithHelpers` (chunks of 100 ids).

Blobs are byte strings decoded with the wire model.  Real signature verification and public-key parsing are
parameters (`Oracle`), supplied per blob by the harness, which runs the real crypto.  The address of the carried
key (`types.KeyAddress` = SHA-256 of `pubKey.Raw()`, /repo e753a34: the signer's address must be the address of
the key it carries) is COMPUTED here for Ed25519 keys (`ed25519Raw`: the libp2p `crypto.pb.PublicKey` envelope
decoded with the wire model) and taken from the oracle only for the other key types libp2p accepts.
-/

namespace Retrieve
open Wire Chain

/-- third-party functions the classification consults, per blob -/
structure Oracle where
  keyOk : Bool        -- libp2p accepts the public key carried by the blob
  hdrSigOk : Bool     -- the carried key verifies the signature over the header payload
  dataSigOk : Bool    -- the carried key verifies the signature over the data bytes
  keyAddr : Bytes := []  -- `types.KeyAddress` of the carried key; consulted only when it is not an Ed25519 key
  deriving Repr, Inhabited

/-- the raw key inside a marshalled libp2p Ed25519 public key: `crypto.pb.PublicKey` is proto2
`{required KeyType Type = 1; required bytes Data = 2}`; protobuf-go keeps the last occurrence of each, stores
the enum as the varint truncated to 32 bits (open enum), `Ed25519 = 1`, and `UnmarshalEd25519PublicKey` wants
exactly 32 bytes; `Raw()` returns them. `none`: not an Ed25519 key (another type, or not a key at all). -/
def ed25519Raw (pk : Bytes) : Option Bytes :=
  match decFields pk with
  | none => none
  | some fs =>
    match (fs.filterMap (pickVarint 1)).getLast?, (fs.filterMap (pickLen 2)).getLast? with
    | some t, some d => if t % 4294967296 = 1 ∧ d.length = 32 then some d else none
    | _, _ => none

/-- `types.KeyAddress(pubKey)`: SHA-256 of the raw key -/
def keyAddrOf (o : Oracle) (pk : Bytes) : Bytes :=
  match ed25519Raw pk with
  | some raw => sha256 raw
  | none => o.keyAddr

inductive BlobClass
  | empty                       -- nil or empty blob: ignored
  | hdrFromProtoErr             -- parsed as pb.SignedHeader but FromProto failed: consumed, nothing happens
  | hdrUnexpectedSequencer      -- a valid, self-consistent header of ANOTHER proposer: consumed, nothing happens
  | hdrAccepted (h : SignedHeader)
  | dataAccepted (d : SignedData)
  | ignored                     -- neither a valid header nor valid signed data
  deriving Repr, Inhabited

/-- `proto.Unmarshal` into pb.SignedHeader followed by `FromProto`, keeping the two failure stages apart -/
inductive HdrStage | wireErr | fromProtoErr | ok (h : SignedHeader)

def headerStage (o : Oracle) (bs : Bytes) : HdrStage :=
  match decFields bs with
  | none => .wireErr
  | some fs =>
    match getMsg 1 Header.decode fs, getMsg 3 Signer.decodeRaw fs with
    | some hd, some sg =>
      match hd with
      | none => .fromProtoErr                       -- "signed header's Header is nil"
      | some h =>
        let s := sg.getD {}
        if s.pubKey ≠ [] ∧ ¬ o.keyOk then .fromProtoErr
        else .ok { header := h, signature := getLen 2 fs, signer := s.canon }
    | _, _ => .wireErr

/-- `SignedHeader.ValidateBasic` on a decoded header (signature check delegated to the oracle) -/
def validateBasicWire (o : Oracle) (sh : SignedHeader) : Bool :=
  sh.header.proposerAddress ≠ [] && sh.signature ≠ [] &&
  decide (sh.header.proposerAddress = sh.signer.address) && sh.signer.pubKey ≠ [] &&
  decide (sh.signer.address = keyAddrOf o sh.signer.pubKey) && o.hdrSigOk

/-- `isValidSignedData` -/
def validSignedData (o : Oracle) (proposer : Bytes) (sd : SignedData) : Bool :=
  decide (sd.signer.address = proposer) && sd.signer.pubKey ≠ [] &&
  decide (sd.signer.address = keyAddrOf o sd.signer.pubKey) && o.dataSigOk

/-- the P2P header path (`HeaderStoreRetrieveLoop`): `isUsingExpectedSingleSequencer` on the stored header -/
def p2pAdmit (o : Oracle) (proposer : Bytes) (sh : SignedHeader) : Bool :=
  decide (sh.header.proposerAddress = proposer) && validateBasicWire o sh

/-! ## the P2P library entry (go-header): what a header received over gossip / an exchange session goes through
before it enters the P2P header store of a full or header-only (light) node -/

/-- `time.Unix(0, int64(t))`: the `uint64` timestamp read as a signed number of nanoseconds -/
def int64Of (t : Nat) : Int := if t < 9223372036854775808 then (t : Int) else (t : Int) - 18446744073709551616

/-- go-header rejects headers more than 10 s ahead of the wall clock. The clock is not modelled: timestamps up
to the run's wall clock are "not from the future", timestamps from 2100-01-01 on are; the streams never produce
timestamps in between. -/
def clockHorizon : Int := 4102444800000000000

/-- go-header's `header.Verify(trusted, untrusted)`: the general checks (same chain id, height above the trusted
one, time not before the trusted one and not from the future), then `SignedHeader.Verify`: same proposer address
and, for adjacent heights, the hash link -/
def libVerify (tr un : SignedHeader) : Bool :=
  decide (un.header.chainId = tr.header.chainId) && decide (tr.header.height < un.header.height) &&
  !decide (int64Of un.header.time < int64Of tr.header.time) && !decide (clockHorizon < int64Of un.header.time) &&
  decide (un.header.proposerAddress = tr.header.proposerAddress) &&
  (!decide (tr.header.height + 1 = un.header.height) || decide (tr.header.hash = un.header.lastHeaderHash))

inductive LibVerdict | accepted | rejDecode | rejValidate | rejVerify | rejGenesis | panics
  deriving Repr, DecidableEq, Inhabited

/-- `hdr.Validate()` as go-header resolves it since /repo 35dfc53: `SignedHeader.Validate = ValidateBasic`
(proposer address, signer key bound to that address, signature) -/
def libValidate (o : Oracle) (sh : SignedHeader) : Bool := validateBasicWire o sh

/-- `hdr.Validate()` before /repo 35dfc53: the method promoted from the embedded unsigned `Header`
(`Header.ValidateBasic`: a proposer address is present) -/
def libValidateOld (sh : SignedHeader) : Bool := sh.header.proposerAddress ≠ []

/-- subscriber / session: `New()`, `UnmarshalBinary`, `Validate()`; then `Verify` against the trusted header when
there is one (none: the first header of a node that trusts a configured hash) -/
def p2pLibAdmitWith (validate : SignedHeader → Bool) (o : Oracle) (trusted : Option SignedHeader) (bs : Bytes) :
    LibVerdict :=
  match headerStage o bs with
  | .ok sh =>
    if !validate sh then .rejValidate
    else match trusted with
      | none => .accepted
      | some tr => if libVerify tr sh then .accepted else .rejVerify
  | _ => .rejDecode

def p2pLibAdmit (o : Oracle) (trusted : Option SignedHeader) (bs : Bytes) : LibVerdict :=
  p2pLibAdmitWith (libValidate o) o trusted bs

def p2pLibAdmitOld (o : Oracle) (trusted : Option SignedHeader) (bs : Bytes) : LibVerdict :=
  p2pLibAdmitWith libValidateOld o trusted bs

/-- go-header `sync/sync_head.go` `isExpired`: `head.Time().Add(TrustingPeriod).Before(time.Now())`, in nanoseconds.
The trusting period is a parameter (`sync.Parameters.TrustingPeriod`; ev-node passes none: the library default,
336 h). -/
def headExpired (tp now : Int) (head : SignedHeader) : Bool := decide (int64Of head.header.time + tp < now)

/-- what go-header does with a peer's answer to the HEAD request (`Syncer.Head` / `subjectiveHead`, the path a node
takes at start when its stored head is not recent; `Exchange.Head` → `request` → `processResponses`: `New()`,
`UnmarshalBinary`, `Validate()`):
* stored head within the trusting period: the answer is verified against it (`Exchange.Head` with `WithTrustedHead`,
  then `incomingNetworkHead` → `header.Verify(subjectiveHead, answer)`) — as `p2pLibAdmit`;
* stored head EXPIRED (`now − head.time > trustingPeriod`): "automatic subjective initialization" — the answer becomes
  the subjective head **without `Verify` against anything the node has** (`setSubjectiveHead(trustHead)`).
With no stored head the function is `p2pLibAdmit … none`. -/
def p2pLibAdmitTP (tp now : Int) (o : Oracle) (trusted : Option SignedHeader) (bs : Bytes) : LibVerdict :=
  match headerStage o bs with
  | .ok sh =>
    if !libValidate o sh then .rejValidate
    else match trusted with
      | none => .accepted
      | some tr =>
        if headExpired tp now tr then .accepted
        else if libVerify tr sh then .accepted else .rejVerify
  | _ => .rejDecode

/-- height of the head of the node's P2P header store after the head request (`setSubjectiveHead`: `store.Append`
takes the accepted answer only when it is ADJACENT to the stored head; any other accepted answer becomes the sync
target and is not stored by this step) -/
def staleStoreHead (tp now : Int) (o : Oracle) (head : SignedHeader) (bs : Bytes) : Nat :=
  match headerStage o bs with
  | .ok sh =>
    if p2pLibAdmitTP tp now o (some head) bs = .accepted && decide (sh.header.height = head.header.height + 1)
    then sh.header.height else head.header.height
  | _ => head.header.height

/-- the FIRST header of the P2P header store of a node without a trusted hash (`SyncService.setFirstAndStart`):
whatever a peer answers to the single request `Exchange.GetByHeight(initial height)` — which go-header only
DECODES, it does not call `Validate()` on it — goes to `initStoreAndStartSyncer`, which since /repo 3ea3561 calls
`Validate()` itself and since /repo 5bb4988 requires the genesis proposer address, before `store.Init`.
Everything received later is only verified against the header before it (`p2pLibAdmit`). -/
def p2pBootAdmit (o : Oracle) (proposer : Bytes) (bs : Bytes) : LibVerdict :=
  match headerStage o bs with
  | .ok sh =>
    if !libValidate o sh then .rejValidate
    else if sh.header.proposerAddress ≠ proposer then .rejGenesis
    else .accepted
  | _ => .rejDecode

/-- the same before /repo 5bb4988: any header that decodes became the head -/
def p2pBootAdmitOld (o : Oracle) (bs : Bytes) : LibVerdict :=
  match headerStage o bs with
  | .ok _ => .accepted
  | _ => .rejDecode

/-- between /repo 5bb4988 and 3ea3561: the genesis proposer ADDRESS was compared, nothing was validated -/
def p2pBootAdmitMid (o : Oracle) (proposer : Bytes) (bs : Bytes) : LibVerdict :=
  match headerStage o bs with
  | .ok sh => if sh.header.proposerAddress ≠ proposer then .rejGenesis else .accepted
  | _ => .rejDecode

/-- the first item of the P2P DATA store goes through the same init path: `Data.Validate()` (metadata present) -/
def p2pBootDataAdmit (bs : Bytes) : LibVerdict :=
  match Data.decode bs with
  | none => .rejDecode
  | some d => if !(d.metadata.isSome) then .rejValidate else .accepted

/-- before /repo 3ea3561 (and 8e620ca): no validation; `store.Init` reads `Height()` of an item without metadata -/
def p2pBootDataAdmitOld (bs : Bytes) : LibVerdict :=
  match Data.decode bs with
  | none => .rejDecode
  | some d => if d.metadata.isNone then .panics else .accepted

/-! ### P2P data items (`types.Data` as go-header's header type of the data sync service) -/

/-- `Data.Validate()` since /repo 8e620ca: the metadata must be present (`ChainID`, `Height`, `Time` read it) -/
def libValidateData (d : Data) : Bool := d.metadata.isSome

/-- `header.Verify(trusted, untrusted)` for data: the general checks on the metadata, then `Data.Verify`: the
received item's `LastDataHash` is the hash of the trusted one (whatever the heights) -/
def libVerifyData (tr un : Data) : Bool :=
  let tm := tr.metadata.getD {}
  let um := un.metadata.getD {}
  decide (um.chainId = tm.chainId) && decide (tm.height < um.height) &&
  !decide (int64Of um.time < int64Of tm.time) && !decide (clockHorizon < int64Of um.time) &&
  decide (tr.hash = um.lastDataHash)

/-- a data item received over gossip / an exchange session: `New()`, `UnmarshalBinary`, `Validate()`, the
accessors go-header reads (`Height`, `ChainID`, `Time`), then `Verify` against the trusted item if there is one -/
def p2pLibDataAdmit (trusted : Option Data) (bs : Bytes) : LibVerdict :=
  match Data.decode bs with
  | none => .rejDecode
  | some d =>
    if !libValidateData d then .rejValidate
    else match trusted with
      | none => .accepted
      | some t => if libVerifyData t d then .accepted else .rejVerify

/-- the same before /repo 8e620ca: `Validate()` accepted everything and the accessors dereferenced the missing
metadata — the node panicked -/
def p2pLibDataAdmitOld (trusted : Option Data) (bs : Bytes) : LibVerdict :=
  match Data.decode bs with
  | none => .rejDecode
  | some d =>
    if d.metadata.isNone then .panics
    else match trusted with
      | none => .accepted
      | some t => if libVerifyData t d then .accepted else .rejVerify

/-- `handlePotentialData` -/
def classifyData (o : Oracle) (proposer : Bytes) (bs : Bytes) : BlobClass :=
  match SignedData.decode (fun _ => o.keyOk) bs with
  | none => .ignored
  | some sd => if sd.data.txs.isEmpty then .ignored
               else if sd.data.metadata.isNone then .ignored      -- signed data without metadata is dropped
               else if validSignedData o proposer sd then .dataAccepted sd else .ignored

/-- `handlePotentialData` BEFORE /repo 76641b6 (no metadata guard): self-consistently signed data with transactions
but without metadata passed `isValidSignedData` and the handler then dereferenced the nil metadata in a log call —
`none` = the scanning goroutine panics. Kept to state what the current classifier avoids. -/
def classifyDataOld (o : Oracle) (proposer : Bytes) (bs : Bytes) : Option BlobClass :=
  match SignedData.decode (fun _ => o.keyOk) bs with
  | none => some .ignored
  | some sd => if sd.data.txs.isEmpty then some .ignored
               else if validSignedData o proposer sd then
                 (if sd.data.metadata.isNone then none else some (.dataAccepted sd))
               else some .ignored

/-- `handlePotentialHeader`, falling through to `handlePotentialData` -/
def classify (o : Oracle) (proposer : Bytes) (bs : Bytes) : BlobClass :=
  if bs.isEmpty then .empty else
  match headerStage o bs with
  | .wireErr => classifyData o proposer bs
  | .fromProtoErr => .hdrFromProtoErr
  | .ok sh =>
    if !validateBasicWire o sh then classifyData o proposer bs
    else if sh.header.proposerAddress ≠ proposer then .hdrUnexpectedSequencer
    else .hdrAccepted sh

/-- outcome of one fetch attempt at a DA height -/
inductive Fetch
  | notFound | future | errIds | errGet (chunk : Nat) | ok
  deriving Repr, DecidableEq, Inhabited

structure RNode where
  daHeight : Nat := 0
  hMarks : List (Bytes × Nat) := []
  dMarks : List (Bytes × Nat) := []
  seenH : List Bytes := []
  seenD : List Bytes := []
  deriving Repr, Inhabited

inductive Event
  | hdr (h : SignedHeader) (da : Nat)
  | dat (d : SignedData) (da : Nat)
  deriving Repr, Inhabited

/-- handle the blobs of one successfully fetched DA height -/
def handleBlobs (proposer : Bytes) (n : RNode) (da : Nat) : List (Bytes × Oracle) → List Event → RNode × List Event
  | [], evs => (n, evs)
  | (b, o) :: rest, evs =>
    match classify o proposer b with
    | .hdrAccepted sh =>
      let hash := sh.header.hash
      let n' := { n with hMarks := (hash, da) :: n.hMarks }
      handleBlobs proposer n' da rest (if hash ∈ n.seenH then evs else evs ++ [.hdr sh da])
    | .dataAccepted sd =>
      let dc := sd.data.daCommitment
      let n' := { n with dMarks := (dc, da) :: n.dMarks }
      handleBlobs proposer n' da rest (if dc ∈ n.seenD then evs else evs ++ [.dat sd da])
    | _ => handleBlobs proposer n da rest evs

def dAFetcherRetries : Nat := 10

/-- `processNextDAHeaderAndData`: up to 10 attempts at the current DA height. Returns whether it succeeded
(the cursor may advance) and the number of attempts consumed. -/
def processNext (proposer : Bytes) (n : RNode) (blobs : List (Bytes × Oracle)) :
    Nat → List Fetch → Nat → RNode × List Event × Bool × Nat
  | 0, _, used => (n, [], false, used)
  | fuel+1, outcomes, used =>
    let succeed : RNode × List Event × Bool × Nat :=
      if blobs.isEmpty then (n, [], true, used + 1)          -- no ids: StatusNotFound
      else
        let r := handleBlobs proposer n n.daHeight blobs []
        (r.1, r.2, true, used + 1)
    match outcomes.headD .ok with
    | .ok => succeed
    | .notFound => (n, [], true, used + 1)
    | .future => (n, [], false, used + 1)
    | .errGet c => if c * 100 < blobs.length then processNext proposer n blobs fuel outcomes.tail (used + 1) else succeed
    | .errIds => processNext proposer n blobs fuel outcomes.tail (used + 1)

/-- `RetrieveWithHelpers` fetches the ids in chunks of 100, in order -/
def chunks (size : Nat) : Nat → List α → List (List α)
  | 0, _ => []
  | fuel+1, l => if l.isEmpty then [] else l.take size :: chunks size fuel (l.drop size)


/-- what the DA layer holds and how its fetches will answer (consumed per attempt) -/
structure DAView where
  placed : List (Nat × Bytes × Oracle) := []       -- (DA height, blob, oracle) in placement order
  scripts : List (Nat × List Fetch) := []
  top : Nat := 1                                   -- heights ≥ top have not been produced yet ("from the future")
  deriving Inhabited

def DAView.blobsAt (v : DAView) (h : Nat) : List (Bytes × Oracle) := (v.placed.filter (·.1 = h)).map (·.2)
def DAView.scriptAt (v : DAView) (h : Nat) : List Fetch := ((v.scripts.find? (·.1 = h)).map (·.2)).getD []
def DAView.setScript (v : DAView) (h : Nat) (l : List Fetch) : DAView :=
  { v with scripts := (h, l) :: v.scripts.filter (·.1 ≠ h) }

/-- the outcomes the attempts at height `h` will see: scripted ones, then the DA layer's own answer -/
def DAView.effective (v : DAView) (h : Nat) : List Fetch :=
  let outs := (v.scriptAt h).map fun o => if o = .ok && h ≥ v.top then Fetch.future else o
  if h ≥ v.top then outs ++ List.replicate dAFetcherRetries .future else outs

/-- `RetrieveLoop` after one signal: process the current DA height; on success advance the cursor by one and
go on (the loop re-signals itself); on failure stop and keep the cursor. Returns the heights examined with
the number of attempts and the verdict. -/
def scan (proposer : Bytes) : Nat → RNode → DAView → List Event → List (Nat × Nat × Bool) →
    RNode × DAView × List Event × List (Nat × Nat × Bool)
  | 0, n, v, evs, tr => (n, v, evs, tr)
  | fuel+1, n, v, evs, tr =>
    let h := n.daHeight
    let r := processNext proposer n (v.blobsAt h) dAFetcherRetries (v.effective h) 0
    let v' := v.setScript h ((v.scriptAt h).drop r.2.2.2)
    let tr' := tr ++ [(h, r.2.2.2, r.2.2.1)]
    if r.2.2.1 then scan proposer fuel { r.1 with daHeight := h + 1 } v' (evs ++ r.2.1) tr'
    else (r.1, v', evs ++ r.2.1, tr')

end Retrieve
