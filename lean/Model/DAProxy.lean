import Model.Bytes

/-!
# C16 — a DA layer behind the JSON-RPC proxy vs the same DA layer in-process

Executable model of

* the error transport of `da/jsonrpc` = go-jsonrpc's registry (`Errors.Register`, server
  `createError`, client `JSONRPCError.val`): `err ↦ (code, message) ↦ err'`, registration and lookup
  by *reflect type*;
* the client wrapper `da/jsonrpc/client.go` (`API.GetIDs`, `API.Get`, `API.SubmitWithOptions`): the
  substring re-mapping of "context canceled", the empty-ids ⇒ `ErrBlobNotFound` mapping, the size
  filter (longest prefix that fits; any oversize blob in the examined prefix ⇒ error, nothing sent);
* the node's classifiers `types.SubmitWithHelpers` (`errors.Is`) and `types.RetrieveWithHelpers`
  (substring matching, chunks of 100 ids), and `block/retriever.go`'s `fetchBlobs` outcome;
* `core/da/dummy.go`'s `SubmitWithOptions` size rule (a reference in-process DA with the same limit).

The registry table and the sentinels' messages / dynamic types are parameters (`Env`); the driver and
`Spec.C16` instantiate them with `Gen.C16`, regenerated from the compiled code on every run.
Core Lean only.
-/
namespace DAProxy

/-! ## strings.Contains on byte strings -/

/-- `strings.Contains s pat` -/
def contains : Bytes → Bytes → Bool
  | [], pat => pat.isEmpty
  | c :: cs, pat => pat.isPrefixOf (c :: cs) || contains cs pat

/-! ## status codes (core/da/da.go) -/

inductive Status
  | unknown | success | notFound | notIncludedInBlock | alreadyInMempool | tooBig
  | contextDeadline | error | incorrectAccountSequence | contextCanceled | heightFromFuture
  deriving DecidableEq, Repr, Inhabited

def Status.toNat : Status → Nat
  | .unknown => 0 | .success => 1 | .notFound => 2 | .notIncludedInBlock => 3 | .alreadyInMempool => 4
  | .tooBig => 5 | .contextDeadline => 6 | .error => 7 | .incorrectAccountSequence => 8
  | .contextCanceled => 9 | .heightFromFuture => 10

def Status.all : List Status :=
  [.unknown, .success, .notFound, .notIncludedInBlock, .alreadyInMempool, .tooBig, .contextDeadline,
   .error, .incorrectAccountSequence, .contextCanceled, .heightFromFuture]

def Status.name : Status → String
  | .unknown => "unknown" | .success => "success" | .notFound => "notfound"
  | .notIncludedInBlock => "notincluded" | .alreadyInMempool => "inmempool" | .tooBig => "toobig"
  | .contextDeadline => "deadline" | .error => "error" | .incorrectAccountSequence => "badseq"
  | .contextCanceled => "canceled" | .heightFromFuture => "future"

/-! ## errors -/

/-- the sentinel errors of core/da/errors.go, in the fixed order of `Gen.C16.sentinel*` -/
inductive Sentinel
  | blobNotFound | blobSizeOverLimit | txTimedOut | txAlreadyInMempool | txIncorrectAccountSequence
  | contextDeadline | heightFromFuture | contextCanceled
  deriving DecidableEq, Repr, Inhabited

def Sentinel.idx : Sentinel → Nat
  | .blobNotFound => 0 | .blobSizeOverLimit => 1 | .txTimedOut => 2 | .txAlreadyInMempool => 3
  | .txIncorrectAccountSequence => 4 | .contextDeadline => 5 | .heightFromFuture => 6 | .contextCanceled => 7

def Sentinel.all : List Sentinel :=
  [.blobNotFound, .blobSizeOverLimit, .txTimedOut, .txAlreadyInMempool, .txIncorrectAccountSequence,
   .contextDeadline, .heightFromFuture, .contextCanceled]

def Sentinel.ofIdx? (i : Nat) : Option Sentinel := Sentinel.all[i]?

/-- the status code under which errors.go registers the sentinel (what the author intended) -/
def Sentinel.intendedCode : Sentinel → Status
  | .blobNotFound => .notFound | .blobSizeOverLimit => .tooBig | .txTimedOut => .contextDeadline
  | .txAlreadyInMempool => .alreadyInMempool | .txIncorrectAccountSequence => .incorrectAccountSequence
  | .contextDeadline => .contextDeadline | .heightFromFuture => .heightFromFuture
  | .contextCanceled => .contextCanceled

/-- what `errors.Is(err, ·)` can be asked about: a DA sentinel or the std library's `context.Canceled` -/
inductive Ident
  | da (s : Sentinel) | ctxCanceled
  deriving DecidableEq, Repr

/-- A Go error value as far as this property can tell: its dynamic (reflect) type, its `Error()` text
and the identities on its `Unwrap` chain (for which `errors.Is` answers true). -/
structure GoErr where
  dynType : Nat
  msg : Bytes
  chain : List Ident
  deriving DecidableEq, Repr

def GoErr.is (e : GoErr) (i : Ident) : Bool := e.chain.contains i

/-- go-jsonrpc's `Errors`: `byType : reflect.Type ↦ code`, `byCode : code ↦ (reflect.Type, kind)`;
kind 0 = interface type, 1 = pointer type, 2 = any other concrete type. Types are ids into
`Gen.C16.typeNames`. -/
structure Registry where
  byType : List (Nat × Int)
  byCode : List (Int × Nat × Nat)

/-- everything the model takes from the compiled code -/
structure Env where
  reg : Registry
  sentMsg : List Bytes          -- Error() of each sentinel, by `Sentinel.idx`
  sentType : List Nat           -- dynamic reflect type of each sentinel
  canceledMsg : Bytes           -- context.Canceled.Error()
  tyCtxCanceled : Nat           -- dynamic type of context.Canceled
  tyJSONRPCError : Nat          -- *jsonrpc.JSONRPCError
  tyErrClient : Nat             -- *jsonrpc.ErrClient (transport failures)
  tyWrapError : Nat             -- *fmt.wrapError
  tyPlain : Nat                 -- type of errors.New(…)

def Env.msgOf (env : Env) (s : Sentinel) : Bytes := env.sentMsg.getD s.idx []
def Env.typeOf (env : Env) (s : Sentinel) : Nat := env.sentType.getD s.idx 0

/-- the sentinel value itself -/
def Env.sentinel (env : Env) (s : Sentinel) : GoErr :=
  { dynType := env.typeOf s, msg := env.msgOf s, chain := [.da s] }
/-- `context.Canceled` -/
def Env.ctxCanceled (env : Env) : GoErr :=
  { dynType := env.tyCtxCanceled, msg := env.canceledMsg, chain := [.ctxCanceled] }
/-- `errors.New(m)` -/
def Env.plain (env : Env) (m : Bytes) : GoErr := { dynType := env.tyPlain, msg := m, chain := [] }
/-- `fmt.Errorf(pre + "%w" + post, e)` -/
def Env.wrap (env : Env) (pre post : Bytes) (e : GoErr) : GoErr :=
  { dynType := env.tyWrapError, msg := pre ++ e.msg ++ post, chain := e.chain }

/-! ## the wire: server `createError`, client `JSONRPCError.val` -/

def lookup {α β} [BEq α] (k : α) : List (α × β) → Option β
  | [] => none
  | (a, b) :: r => if a == k then some b else lookup k r

/-- server side (handler.go `createError`): the code registered for the error's *dynamic type*, else 1 -/
def serverCode (reg : Registry) (e : GoErr) : Int := (lookup e.dynType reg.byType).getD 1

/-- what the calling side holds after the response has been decoded -/
inductive Received
  | nilErr                 -- a nil `error`: the call looks successful
  | err (e : GoErr)
  deriving DecidableEq, Repr

def natBytes (n : Nat) : Bytes := Bytes.ofString (toString n)
def intBytes (i : Int) : Bytes := Bytes.ofString (toString i)

/-- `(*JSONRPCError).Error()` -/
def rpcMessage (code : Int) (msg : Bytes) : Bytes :=
  if -32768 ≤ code ∧ code ≤ -32000 then Bytes.ofString "RPC error (" ++ intBytes code ++ Bytes.ofString "): " ++ msg
  else msg

/-- client side (response.go `val`): a registered code yields a *fresh zero value of the registered
type* (for an interface type that is the nil interface: no error at all; the message is dropped);
an unregistered code yields `*JSONRPCError` carrying code and message. -/
def clientDecode (env : Env) (code : Int) (msg : Bytes) : Received :=
  match lookup code env.reg.byCode with
  | some (t, kind) => if kind = 0 then .nilErr else .err { dynType := t, msg := [], chain := [] }
  | none => .err { dynType := env.tyJSONRPCError, msg := rpcMessage code msg, chain := [] }

/-- an error returned by the DA implementation behind the server, as seen by the generated client stub -/
def transport (env : Env) (e : GoErr) : Received := clientDecode env (serverCode env.reg e) e.msg

/-- a transport failure caused by the caller's context being cancelled (`ErrClient{… context canceled}`) -/
def Env.canceledTransport (env : Env) : GoErr :=
  { dynType := env.tyErrClient, msg := Bytes.ofString "sendRequest failed: " ++ env.canceledMsg, chain := [] }

/-! ## the client wrapper (da/jsonrpc/client.go) -/

/-- client.go's `strings.Contains(err.Error(), context.Canceled.Error())` re-mapping used by Get/Submit -/
def remapCanceled (env : Env) (e : GoErr) : GoErr :=
  if contains e.msg env.canceledMsg then env.ctxCanceled else e

/-- result of `GetIDs` on success: a nil result or `n` ids -/
inductive IdsReply
  | nilRes | ids (n : Nat)
  deriving DecidableEq, Repr

def IdsReply.count : IdsReply → Nat
  | .nilRes => 0 | .ids n => n

/-- `API.GetIDs` after the stub returned `(res, err)` -/
def clientGetIDs (env : Env) (r : Except GoErr IdsReply) : Except GoErr IdsReply :=
  match r with
  | .error e =>
    if contains e.msg (env.msgOf .blobNotFound) then .error e
    else if contains e.msg (env.msgOf .heightFromFuture) then .error e
    else if contains e.msg env.canceledMsg then .error env.ctxCanceled
    else .error e
  | .ok res => if res.count = 0 then .error (env.sentinel .blobNotFound) else .ok res

/-- the stub's view of a backing-DA answer: errors cross the wire, a nil error keeps the zero result -/
def stub {α} (env : Env) (zero : α) (r : Except GoErr α) : Except GoErr α :=
  match r with
  | .ok a => .ok a
  | .error e => match transport env e with
    | .nilErr => .ok zero
    | .err e' => .error e'

/-- `API.Get` after the stub returned -/
def clientGet (env : Env) (r : Except GoErr Nat) : Except GoErr Nat :=
  match r with
  | .ok n => .ok n
  | .error e =>
    if contains e.msg env.canceledMsg then .error env.ctxCanceled
    else .error (env.wrap (Bytes.ofString "failed to get blobs: ") [] e)

/-! ### size filter of `API.SubmitWithOptions` (client.go:144-176) -/

/-- The loop over `inputBlobs`: `(blobsToSubmit, oversizeBlobs)`, starting with `currentSize = cur`. -/
def scan {α} (size : α → Nat) (max : Nat) : Nat → List α → List α × Nat
  | _, [] => ([], 0)
  | cur, b :: bs =>
    if size b > max then ((scan size max cur bs).1, (scan size max cur bs).2 + 1)
    else if cur + size b > max then ([], 0)
    else (b :: (scan size max (cur + size b) bs).1, (scan size max (cur + size b) bs).2)

/-- what the filter decides: refuse everything, return without a call, or send a list -/
inductive FilterOutcome (α : Type)
  | tooBig                 -- `ErrBlobSizeOverLimit`, nothing sent
  | nothing                -- empty input: `[]ID{}, nil`, nothing sent
  | send (bs : List α)
  deriving Repr

def filterBlobs {α} (size : α → Nat) (max : Nat) (blobs : List α) : FilterOutcome α :=
  let r := scan size max 0 blobs
  if r.2 > 0 then .tooBig
  else if r.1.isEmpty then (if blobs.isEmpty then .nothing else .tooBig)
  else .send r.1

/-- what `API.SubmitWithOptions` returns once the call has been made and the DA behind the server
answered `r` (client.go:178-193) -/
def clientSubmitReply (env : Env) (r : Except GoErr Nat) : Except GoErr Nat :=
  match stub env 0 r with
  | .ok k => .ok k
  | .error e => .error (remapCanceled env e)

/-- `API.SubmitWithOptions`: `backing` answers the call that reaches the server (number of ids or an
error); `cancelled` = the caller's context is already cancelled when the request is made.
Returns the result and the list the server received (`none` = no call reached it). -/
def clientSubmit {α} (env : Env) (size : α → Nat) (max : Nat) (blobs : List α) (cancelled : Bool)
    (backing : List α → Except GoErr Nat) : Except GoErr Nat × Option (List α) :=
  match filterBlobs size max blobs with
  | .tooBig => (.error (env.sentinel .blobSizeOverLimit), none)
  | .nothing => (.ok 0, none)
  | .send bs =>
    if cancelled then (.error (remapCanceled env env.canceledTransport), none)
    else (clientSubmitReply env (backing bs), some bs)

/-! ### DummyDA.SubmitWithOptions (core/da/dummy.go:167-224): an in-process DA with the same limit -/

/-- number of blobs accepted, or `none` = `ErrBlobSizeOverLimit` -/
def dummyScan {α} (size : α → Nat) (max : Nat) : Nat → List α → Option Nat
  | _, [] => some 0
  | cur, b :: bs =>
    if size b > max then none
    else if cur + size b > max then some 0
    else (dummyScan size max (cur + size b) bs).map (· + 1)

def dummySubmit {α} (env : Env) (size : α → Nat) (max : Nat) (blobs : List α) : Except GoErr Nat :=
  match dummyScan size max 0 blobs with
  | none => .error (env.sentinel .blobSizeOverLimit)
  | some k => .ok k

/-! ## the node's helpers (types/da.go) -/

structure SubmitResult where
  code : Status
  count : Nat      -- SubmittedCount
  nids : Nat       -- len(IDs)
  height : Nat
  deriving DecidableEq, Repr

/-- the `switch` of `SubmitWithHelpers` (types/da.go:43-55) -/
def submitErrStatus (e : GoErr) : Status :=
  if e.is (.da .txTimedOut) then .notIncludedInBlock
  else if e.is (.da .txAlreadyInMempool) then .alreadyInMempool
  else if e.is (.da .txIncorrectAccountSequence) then .incorrectAccountSequence
  else if e.is (.da .blobSizeOverLimit) then .tooBig
  else if e.is (.da .contextDeadline) then .contextDeadline
  else .error

/-- `SubmitWithHelpers` on the outcome of `da.SubmitWithOptions` (`k` ids, the first carrying DA
height `h`; an error comes without ids). -/
def submitHelper (dataLen h : Nat) (r : Except GoErr Nat) : SubmitResult :=
  match r with
  | .error e =>
    if e.is .ctxCanceled then { code := .contextCanceled, count := 0, nids := 0, height := 0 }
    else { code := submitErrStatus e, count := 0, nids := 0, height := 0 }
  | .ok k =>
    if k = 0 ∧ dataLen > 0 then { code := .error, count := 0, nids := 0, height := 0 }
    else { code := .success, count := k, nids := k, height := if k > 0 then h else 0 }

structure RetrieveResult where
  code : Status
  msg : Bytes
  nids : Nat
  nblobs : Nat
  gets : List Nat   -- sizes of the `Get` calls made (chunks of ids)
  deriving DecidableEq, Repr

/-- the ids of one height are fetched in chunks of `batchSize := 100` -/
def chunkSizes (n : Nat) : List Nat := (List.range ((n + 99) / 100)).map fun i => min 100 (n - 100 * i)

/-- classification of a `GetIDs` error (types/da.go:112-145): substring matching -/
def retrieveIdsErrStatus (env : Env) (e : GoErr) : Status :=
  if contains e.msg (env.msgOf .blobNotFound) then .notFound
  else if contains e.msg (env.msgOf .heightFromFuture) then .heightFromFuture
  else .error

def retrieveIdsErrMessage (env : Env) (e : GoErr) : Bytes :=
  if contains e.msg (env.msgOf .blobNotFound) then env.msgOf .blobNotFound
  else if contains e.msg (env.msgOf .heightFromFuture) then env.msgOf .heightFromFuture
  else Bytes.ofString "failed to get IDs: " ++ e.msg

/-- the `Get` loop: `get i n` answers the i-th chunk (of `n` ids) with a number of blobs or an error -/
def getLoop (get : Nat → Nat → Except GoErr Nat) : Nat → List Nat → Nat → List Nat → Except (Nat × Nat × GoErr × List Nat) (Nat × List Nat)
  | _, [], blobs, gets => .ok (blobs, gets)
  | i, n :: rest, blobs, gets =>
    match get i n with
    | .error e => .error (i, n, e, gets ++ [n])
    | .ok k => getLoop get (i + 1) rest (blobs + k) (gets ++ [n])

/-- `RetrieveWithHelpers` given the answers of `da.GetIDs` and `da.Get` -/
def retrieveHelper (env : Env) (ids : Except GoErr IdsReply) (get : Nat → Nat → Except GoErr Nat) : RetrieveResult :=
  match ids with
  | .error e => { code := retrieveIdsErrStatus env e, msg := retrieveIdsErrMessage env e, nids := 0, nblobs := 0, gets := [] }
  | .ok res =>
    if res.count = 0 then { code := .notFound, msg := env.msgOf .blobNotFound, nids := 0, nblobs := 0, gets := [] }
    else match getLoop get 0 (chunkSizes res.count) 0 [] with
      | .error (i, n, e, gets) =>
        { code := .error,
          msg := Bytes.ofString "failed to get blobs for batch " ++ natBytes (100 * i) ++ Bytes.ofString "-" ++ natBytes (100 * i + n - 1) ++ Bytes.ofString ": " ++ e.msg,
          nids := 0, nblobs := 0, gets := gets }
      | .ok (blobs, gets) => { code := .success, msg := [], nids := res.count, nblobs := blobs, gets := gets }

/-- outcome of `block/retriever.go` for one DA height, as a function of the helper's result
(`fetchBlobs` + the `strings.Contains(fetchErr.Error(), ErrHeightFromFuture.Error())` test) -/
inductive FetchOutcome
  | blobs | nothingHere | future | retry
  deriving DecidableEq, Repr

def fetchOutcome (env : Env) (r : RetrieveResult) : FetchOutcome :=
  match r.code with
  | .error => if contains (Bytes.ofString "failed to retrieve block: " ++ r.msg) (env.msgOf .heightFromFuture) then .future else .retry
  | .heightFromFuture => .future   -- the wrapped sentinel's own text is in the message
  | .notFound => .nothingHere
  | _ => .blobs

/-! ## both sides of one call -/

/-- direct: the node's helper straight on the backing DA -/
def directSubmit {α} (blobs : List α) (h : Nat) (backing : List α → Except GoErr Nat) : SubmitResult :=
  submitHelper blobs.length h (backing blobs)

/-- proxied: helper → client wrapper (filter) → wire → server → backing DA -/
def proxiedSubmit {α} (env : Env) (size : α → Nat) (max : Nat) (blobs : List α) (h : Nat) (cancelled : Bool)
    (backing : List α → Except GoErr Nat) : SubmitResult × Option (List α) :=
  let r := clientSubmit env size max blobs cancelled backing
  (submitHelper blobs.length h r.1, r.2)

def directRetrieve (env : Env) (ids : Except GoErr IdsReply) (get : Nat → Nat → Except GoErr Nat) : RetrieveResult :=
  retrieveHelper env ids get

/-- `cancelled`: the caller's context is already cancelled, the request fails in the transport -/
def proxiedRetrieve (env : Env) (cancelled : Bool) (ids : Except GoErr IdsReply) (get : Nat → Nat → Except GoErr Nat) : RetrieveResult :=
  retrieveHelper env
    (clientGetIDs env (if cancelled then .error env.canceledTransport else stub env .nilRes ids))
    (fun i n => clientGet env (stub env 0 (get i n)))

/-! ## a call the caller gives up in the middle (`xsubmit`)

The DA layer behind both sides takes the batch and waits for its inclusion.  It honours the context it was
given: when that context is cancelled while it waits, it drops the batch (nothing stored) and returns
`ctx.Err()`; otherwise the batch is stored and one id per blob comes back. -/

/-- everything that can be observed of one such submission -/
structure MidCall (α : Type) where
  /-- what `SubmitWithOptions` returns to the caller -/
  result : Except GoErr Nat
  /-- the batch the DA layer received (`none`: no call reached it) -/
  reached : Option (List α)
  /-- the DA layer saw its context cancelled while it was waiting -/
  sawCancel : Bool
  /-- what the DA layer holds afterwards -/
  stored : List α

/-- the waiting DA layer; `ctxCancelled` = the context *it was given* is cancelled while it waits -/
def waitingDA {α} (env : Env) (ctxCancelled : Bool) (bs : List α) : Except GoErr Nat × Bool × List α :=
  if ctxCancelled then (.error env.ctxCanceled, true, []) else (.ok bs.length, false, bs)

/-- in-process: the DA layer is called with the caller's own context -/
def directMidCall {α} (env : Env) (blobs : List α) (cancelMid : Bool) : MidCall α :=
  let r := waitingDA env cancelMid blobs
  { result := r.1, reached := some blobs, sawCancel := r.2.1, stored := r.2.2 }

/-- proxied: `serverInternalAPI.SubmitWithOptions` (server.go) hands the *request* context to the DA
layer, and the request context ends when the client aborts the HTTP request, which it does when the
caller's context is cancelled: the cancellation crosses the wire (`waitingDA env cancelMid`).  The
client's own call then fails in the transport with the context's error text (re-mapped to
`context.Canceled` by client.go:181-184). -/
def proxiedMidCall {α} (env : Env) (size : α → Nat) (max : Nat) (blobs : List α) (cancelMid : Bool) : MidCall α :=
  match filterBlobs size max blobs with
  | .tooBig => { result := .error (env.sentinel .blobSizeOverLimit), reached := none, sawCancel := false, stored := [] }
  | .nothing => { result := .ok 0, reached := none, sawCancel := false, stored := [] }
  | .send bs =>
    let r := waitingDA env cancelMid bs
    { result := if cancelMid then .error (remapCanceled env env.canceledTransport) else clientSubmitReply env r.1,
      reached := some bs, sawCancel := r.2.1, stored := r.2.2 }

/-! ## two callers, one client (`csubmit`)

The node's header and data submission loops call `SubmitWithOptions` on the same client from two
goroutines.  A call has two phases: `pack` (the size filter builds the batch — in client.go a slice
allocated by that call, `make([][]byte, 0, len(inputBlobs))`) and `send` (the generated stub encodes the
batch the call holds).  The phases of the two calls interleave in any order. -/

inductive Caller
  | a | b
  deriving DecidableEq, Repr

inductive Phase
  | pack (c : Caller) | send (c : Caller)
  deriving DecidableEq, Repr

/-- the client's two calls in flight: the batch each call holds and what each request carried -/
structure Calls (α : Type) where
  batchA : Option (FilterOutcome α) := none
  batchB : Option (FilterOutcome α) := none
  wireA : Option (List α) := none
  wireB : Option (List α) := none

def FilterOutcome.batch {α} : FilterOutcome α → Option (List α)
  | .send bs => some bs
  | _ => none

def Calls.step {α} (size : α → Nat) (max : Nat) (inA inB : List α) (s : Calls α) : Phase → Calls α
  | .pack .a => { s with batchA := some (filterBlobs size max inA) }
  | .pack .b => { s with batchB := some (filterBlobs size max inB) }
  | .send .a => { s with wireA := s.batchA.bind FilterOutcome.batch }
  | .send .b => { s with wireB := s.batchB.bind FilterOutcome.batch }

def Calls.run {α} (size : α → Nat) (max : Nat) (inA inB : List α) (sched : List Phase) : Calls α :=
  sched.foldl (Calls.step size max inA inB) {}

/-- `csubmit gate=stub`: A is held between packing and encoding while B runs from start to end -/
def schedStub : List Phase := [.pack .a, .pack .b, .send .b, .send .a]
/-- `csubmit gate=da`: A's request has arrived at the DA layer when B starts -/
def schedDA : List Phase := [.pack .a, .send .a, .pack .b, .send .b]

end DAProxy
