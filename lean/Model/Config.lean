import Model.ConfigYaml
/-!
# Configuration resolution as wired by `config.Load` (pkg/config/config.go)

`Load` builds a viper instance, binds every registered flag under the key of the option it names
(`bindFlags`/`flagConfigKey`: the flag name with the prefix `rollkit.` stripped; the two signer flags
`rollkit.signer.type`/`.path` under `signer.signer_type`/`signer.signer_path`), reads `<home>/config/evnode.yaml`, and decodes
`viper.AllSettings()` into a copy of `DefaultConfig` with mapstructure (keys are matched against
the `mapstructure` tags, case-insensitively; viper lower-cases every key).  For one leaf option
with mapstructure key path `ms` viper therefore answers, in this order: the flag bound to `ms` if
it was given on the command line; the value at `ms` in the file; the registered default of the
flag bound to `ms`; otherwise the key is absent and the field keeps what the copy of
`DefaultConfig` holds.  `cfg := DefaultConfig` copies pointers: a field behind a pointer that `Load`
does not re-allocate is decoded into memory shared with `DefaultConfig`, and what a `Load` resolved
for it is what the next `Load` in the same process starts from.  Which fields are in that position
is a generated fact (`via`, asked of the compiled `Load`): none since /repo 76d1c39 copies
`Instrumentation`; the mechanism stays in the model so that a new shared pointer is noticed.

`SaveAsYaml` writes every field under its `yaml` tag path (goccy/go-yaml); what the reader makes of
the VALUES is `saveYaml` below (`Model/ConfigYaml.lean`).

`LoadFromViper` (second entry point: the application owns the viper its flags are bound to) copies
the keys that are SET in that viper (since /repo 0a9b622: not the defaults of flags that were not
given) over the file's keys and decodes the same way: the same function of (command line, file,
defaults); the stream runs it through the same model (`loadfromviper`).

Values are canonical renderings (strings): how viper/mapstructure convert values of each kind on the
way IN (flag syntax, YAML numbers) is the business of the correspondence stream; what the YAML
writer/reader pair does to a string on its way through a SAVED file is modelled (`saveYaml`).  Core Lean only.
-/
namespace Config

/-- one leaf option of `config.Config` -/
structure Field where
  go : String      -- Go selector path, e.g. "Node.BlockTime"
  ms : String      -- effective mapstructure key path; "-" = never decoded
  yaml : String    -- yaml key path written by SaveAsYaml; "-" = never written
  kind : String
  dflt : String    -- canonical rendering of the value in `DefaultConfig`
  via : String     -- Go path of the pointer field of `DefaultConfig` behind which the leaf lives ("" = none)
  deriving DecidableEq, Repr

/-- one registered command-line flag -/
structure Flag where
  name : String         -- as registered with pflag
  key : String          -- viper key the real `bindFlags` binds the flag to (behavioural fact: asked of viper)
  kind : String
  dflt : String         -- registered default
  reaches : List String -- Go paths of the fields the real `Load` changed when only this flag was given
  deriving DecidableEq, Repr

/-- decoded into memory shared with `DefaultConfig` -/
def Field.shared (f : Field) : Bool := f.via ≠ ""

structure Table where
  fields : List Field
  flags : List Flag

abbrev FieldRow := String × String × String × String × String × String
abbrev FlagRow := String × String × String × String × List String

def Field.ofRow (r : FieldRow) : Field :=
  { go := r.1, ms := r.2.1, yaml := r.2.2.1, kind := r.2.2.2.1, dflt := r.2.2.2.2.1, via := r.2.2.2.2.2 }
def Flag.ofRow (r : FlagRow) : Flag :=
  { name := r.1, key := r.2.1, kind := r.2.2.1, dflt := r.2.2.2.1, reaches := r.2.2.2.2 }
def Table.ofRows (fs : List FieldRow) (fl : List FlagRow) : Table :=
  { fields := fs.map Field.ofRow, flags := fl.map Flag.ofRow }

/-- a layer: key path ↦ canonical value (first entry wins) -/
abbrev Layer := List (String × String)

/-- which layer supplied the value -/
inductive Src where
  | flag | file | dflt
  | flagDflt   -- the registered default of the bound flag, different from the field's default
  | stale      -- what an earlier `Load` left in memory shared with `DefaultConfig`
  deriving DecidableEq, Repr

def Src.toString : Src → String
  | .flag => "flag" | .file => "file" | .dflt => "default" | .flagDflt => "flagdefault" | .stale => "stale"

/-- what `ParseFlags` + `bindFlags` present to viper: one entry per given (registered) flag,
under the key the flag is bound to -/
def flagLayer (T : Table) (args : Layer) : Layer :=
  args.filterMap fun a => (T.flags.find? (fun fl => fl.name = a.1)).map fun fl => (fl.key, a.2)

/-- viper falls back to the registered default of the flag bound to a key -/
def flagDefault (T : Table) (k : String) : Option String :=
  (T.flags.find? (fun fl => fl.key = k)).map (·.dflt)

/-- every argument names a registered flag (otherwise cobra refuses the command line) -/
def argsOK (T : Table) (args : Layer) : Bool :=
  args.all fun a => T.flags.any fun fl => fl.name = a.1

/-- the start value of a field: `DefaultConfig` as it is now (`D` = what earlier loads left in
shared memory, by Go path) -/
def startValue (D : Layer) (f : Field) : String × Src :=
  match D.lookup f.go with
  | some v => if v = f.dflt then (v, .dflt) else (v, .stale)
  | none => (f.dflt, .dflt)

/-- `Load`, one field: `args` = flags given (name ↦ value), `file` = the file's content by key path -/
def resolve (T : Table) (D : Layer) (args file : Layer) (f : Field) : String × Src :=
  if f.ms = "-" then startValue D f else
  match (flagLayer T args).lookup f.ms with
  | some v => (v, .flag)
  | none =>
    match file.lookup f.ms with
    | some v => (v, .file)
    | none =>
      match flagDefault T f.ms with
      | some v => if v = f.dflt then (v, .dflt) else (v, .flagDflt)
      | none => startValue D f

/-- `Load`, the whole configuration (table order) -/
def load (T : Table) (D : Layer) (args file : Layer) : List (String × String) :=
  T.fields.map fun f => (f.go, (resolve T D args file f).1)

/-- what `Load` leaves behind in memory shared with `DefaultConfig` -/
def nextDefaults (T : Table) (D : Layer) (args file : Layer) : Layer :=
  (T.fields.filter (·.shared)).map (fun f => (f.go, (resolve T D args file f).1)) ++ D

/-- a history of loads in one process -/
def runLoads (T : Table) (D : Layer) : List (Layer × Layer) → Layer
  | [] => D
  | (a, fi) :: rest => runLoads T (nextDefaults T D a fi) rest

/-- `SaveAsYaml`: every field under its yaml path -/
def save (T : Table) (c : String → String) : Layer :=
  (T.fields.filter (fun f => f.yaml ≠ "-")).map fun f => (f.yaml, c f.go)

/-! ## `SaveAsYaml` at the value level

`save` above is the file at the level of key paths: every value comes back as it was written.  That
is what the YAML writer/reader pair does for the values `Yaml.YamlSafe` describes, and NOT for
others (`Model/ConfigYaml.lean`): a string option may come back retyped, may make the reader
refuse the whole file (`Load` then silently uses no file at all), or may be taken for a date
(`Load` fails).  Options of the other kinds hold canonical renderings (`canonical`), which the
pair preserves. -/

/-- canonical rendering of a value of the option's kind (what `strconv`/`Duration.String` print);
exact for `bool`, `uint`, `int`; for `float`/`duration` only "not empty" -/
def canonical (kind v : String) : Bool :=
  let uint (s : List Char) : Bool := !s.isEmpty && s.all Yaml.isDigit && (s = ['0'] || s.head? ≠ some '0')
  if kind = "bool" then v = "true" || v = "false"
  else if kind = "uint" then uint v.toList
  else if kind = "int" then (match v.toList with | '-' :: r => uint r && r ≠ ['0'] | s => uint s)
  else if kind = "string" then true
  else v ≠ ""

/-- `c` is a configuration: every option holds a value of its kind -/
def WellTyped (T : Table) (c : String → String) : Prop := ∀ f ∈ T.fields, canonical f.kind (c f.go) = true

instance (T : Table) (c : String → String) : Decidable (WellTyped T c) := by unfold WellTyped; infer_instance

/-- nesting depth of the option's key in the file: the number of dots of its yaml path -/
def Field.depth (f : Field) : Nat := (f.yaml.toList.filter (· = '.')).length

/-- every string option holds a value the YAML writer/reader pair preserves (under its key) -/
def AllYamlSafe (T : Table) (c : String → String) : Prop :=
  ∀ f ∈ T.fields, f.kind = "string" → Yaml.YamlSafeAt f.depth (c f.go) = true

instance (T : Table) (c : String → String) : Decidable (AllYamlSafe T c) := by unfold AllYamlSafe; infer_instance

/-- what happens to the value of one option on its way through the file -/
def fieldOutcome (c : String → String) (f : Field) : Yaml.Outcome :=
  if f.kind = "string" then Yaml.roundTrip f.depth (c f.go).toList else .same

/-- the value `Load` finds in the file for the option -/
def yamlValue (c : String → String) (f : Field) : String :=
  match fieldOutcome c f with
  | .retyped w => String.ofList w
  | _ => c f.go

/-- what `SaveAsYaml c` leaves for the reader -/
inductive Saved where
  | file (l : Layer) (dates : List String)  -- parsed content; keys whose value the reader takes for a date
  | unparsable                              -- the reader refuses the file
  | unmodelled                              -- some value is outside the validated domain of `Yaml.roundTrip`

def saveYaml (T : Table) (c : String → String) : Saved :=
  let fs := T.fields.filter (fun f => f.yaml ≠ "-")
  if fs.any (fun f => fieldOutcome c f == .unmodelled) then .unmodelled
  else if fs.any (fun f => fieldOutcome c f == .fileBroken) then .unparsable
  else .file (fs.map fun f => (f.yaml, yamlValue c f))
             ((fs.filter fun f => fieldOutcome c f == .loadError).map (·.yaml))

inductive Loaded (α : Type) where
  | ok (a : α)
  | error          -- `Load` returns an error
  | unmodelled
  deriving DecidableEq

/-- the file content the reader presents after `SaveAsYaml c` (nothing when it refuses the file;
for a value outside the model's domain the model has nothing to present either) -/
def savedFile (T : Table) (c : String → String) : Layer :=
  match saveYaml T c with
  | .file l _ => l
  | _ => []

/-- `SaveAsYaml c`, then `Load` with command line `args`; `g` = what to compute from the file `Load`
sees.  An unparsable file is no file (`Load` discards the reader's error); a date under a key that
no given flag overrides makes the decoder fail. -/
def loadSaved {α : Type} (T : Table) (args : Layer) (c : String → String) (g : Layer → α) : Loaded α :=
  match saveYaml T c with
  | .unmodelled => .unmodelled
  | .unparsable => .ok (g [])
  | .file l dates =>
    if dates.any (fun k => ((flagLayer T args).lookup k).isNone) then .error else .ok (g l)

/-- one step of a history through ONE command (its command line is fixed for the whole history):
the configuration file is replaced - by hand (`load file`) or by `SaveAsYaml c` (`saveLoad c`) -
and `Load` is called through that command -/
inductive HistOp where
  | load (file : Layer)
  | saveLoad (c : String → String)

/-- the file `Load` finds at that step -/
def HistOp.file (T : Table) : HistOp → Layer
  | .load file => file
  | .saveLoad c => savedFile T c

/-- what a history of load / save→load steps through one command with command line `args` leaves
behind (the only thing a `Load` of the model leaves behind is what it decoded into memory shared
with `DefaultConfig`; in particular it does not change the command) -/
def runHistory (T : Table) (D : Layer) (args : Layer) (ops : List HistOp) : Layer :=
  runLoads T D (ops.map fun o => (args, o.file T))

/-- the fields a flag reaches according to the model: those decoded from the key it binds -/
def reached (T : Table) (fl : Flag) : List String :=
  (T.fields.filter (fun f => f.ms = fl.key)).map (·.go)

/-! ## The property's vocabulary (independent of mapstructure keys) -/

/-- the value given on the command line for the option `f`: the first argument whose flag *names*
`f`, i.e. whose name without the `rollkit.` prefix is the option's path in the configuration file -/
def givenFlag (T : Table) (args : Layer) (f : Field) : Option String :=
  (args.find? fun a => T.flags.any fun fl => fl.name = a.1 ∧ fl.key = f.yaml).map (·.2)

/-- flag > file > default, stated on what the user writes -/
def specResolve (T : Table) (args file : Layer) (f : Field) : String :=
  match givenFlag T args f with
  | some v => v
  | none =>
    match file.lookup f.yaml with
    | some v => v
    | none => f.dflt

/-- which layer the property says supplies the value -/
def specSrc (T : Table) (args file : Layer) (f : Field) : Src :=
  match givenFlag T args f with
  | some _ => .flag
  | none =>
    match file.lookup f.yaml with
    | some _ => .file
    | none => .dflt

/-- The table facts under which the loader obeys the property.
`nonConfigFlags`: flags that deliberately name no option (`home`, the signer passphrase);
`nonConfigFields`: fields that deliberately are not options (`RootDir`). -/
def TableOK (T : Table) (nonConfigFlags nonConfigFields : List String) : Prop :=
  -- every flag binds the key of some field (exactly one, by `msDistinct`) or is listed
  (∀ fl ∈ T.flags, fl.key ∈ nonConfigFlags ∨ ∃ f ∈ T.fields, f.ms = fl.key ∧ f.ms ≠ "-") ∧
  -- what SaveAsYaml writes is what Load reads; nothing is excluded from either except the listed
  (∀ f ∈ T.fields, f.go ∉ nonConfigFields → f.yaml = f.ms ∧ f.ms ≠ "-") ∧
  (∀ f ∈ T.fields, f.go ∈ nonConfigFields → f.ms = "-" ∧ f.yaml = "-") ∧
  -- no two fields share a key path / a Go path; no two flags share a name / a key
  ((T.fields.filter (fun f => f.ms ≠ "-")).map (·.ms)).Nodup ∧
  (T.fields.map (·.go)).Nodup ∧
  (T.flags.map (·.name)).Nodup ∧
  (T.flags.map (·.key)).Nodup ∧
  -- a flag's registered default is the default of the field it binds
  (∀ fl ∈ T.flags, ∀ f ∈ T.fields, f.ms = fl.key → fl.dflt = f.dflt)

instance (T : Table) (a b : List String) : Decidable (TableOK T a b) := by
  unfold TableOK; infer_instance

/-- no option is decoded into memory shared with `DefaultConfig` -/
def DefaultsStable (T : Table) : Prop := ∀ f ∈ T.fields, f.shared = false

instance (T : Table) : Decidable (DefaultsStable T) := by
  unfold DefaultsStable; infer_instance

def Table.dropFlags (T : Table) (names : List String) : Table :=
  { T with flags := T.flags.filter fun fl => fl.name ∉ names }

end Config
