import Model.Producer
import Model.Queue

/-!
# The way of a transaction from the mempool into the chain (C11):
`Reaper.SubmitTxs` (`block/reaper.go`) → single sequencer queue (`Model/Queue`, property C10) →
`publishBlockInternal` (`Model/Producer`, property C01), with every durable write in order so that a crash
can be placed between any two of them.
-/

namespace Flow
open Wire Chain

/-- one durable write of the whole node -/
inductive FW
  | qput (b : Queue.Batch)      -- queue: Put under the content key
  | qdel (b : Queue.Batch)      -- queue: Delete of the content key
  | seen (tx : Bytes)           -- reaper: mark one transaction as handed over
  | st (w : SW)                 -- block store
  deriving Repr, Inhabited

structure Node where
  prod : Producer.Node := {}
  q : Queue.St := {}
  seen : List Bytes := []        -- durable seen-set of the reaper (keyed by sha256(tx); modelled by the bytes)
  tick : Nat := 0                -- the sequencer stamps batches with its clock: strictly increasing here
  deriving Repr, Inhabited

structure Cfg where
  p : Producer.Cfg
  qc : Queue.Cfg
  deriving Inhabited

def key := Queue.realKey

/-- the seen-store is a set (one key per transaction hash) -/
def addSeen (s : List Bytes) (t : Bytes) : List Bytes := if s.contains t then s else s ++ [t]

/-- `Reaper.SubmitTxs` on what `GetTxs` returned -/
def reap (c : Cfg) (n : Node) (mempool : List Bytes) : Node × List FW :=
  let newTxs := mempool.filter (fun t => !n.seen.contains t)
  if newTxs.isEmpty then (n, [])
  else
    match Queue.submit key c.qc n.q c.qc.id newTxs with
    | (q', .ok) =>
      -- marked only after the successful hand-off, one durable put per transaction
      ({ n with q := q', seen := newTxs.foldl addSeen n.seen }, FW.qput newTxs :: newTxs.map FW.seen)
    | _ => (n, [])            -- queue full: nothing marked, everything is offered again next time

/-- does `publishBlockInternal` ask the sequencing layer in this state? -/
def asksSequencer (c : Cfg) (n : Node) : Bool :=
  !Producer.pendingRefuses c.p n.prod && (Producer.prevInfo c.p n.prod.store).isSome &&
  (n.prod.store.getBlock (n.prod.store.height + 1)).isNone

/-- what the sequencing layer's clock shows when it stamps the answer of this step's `GetNextBatch`: the real single
sequencer stamps `time.Now()` (`real`: later than everything before); a sequencing layer with a coarse clock (the time of
the DA block a batch was read from, second resolution, …) answers with the SAME time as the previous block (`same`); a
clock that stepped backwards answers with an EARLIER one (`back`) -/
inductive Clock | real | same | back
  deriving Repr, DecidableEq, Inhabited

def stamp (c : Cfg) (n : Node) : Clock → Nat
  | .real => c.p.genesisTime + (n.tick + 1) * 1000
  | .same => n.prod.lastState.lastTime
  | .back => n.prod.lastState.lastTime - 1

/-- one production step with the real single sequencer behind it; `ex` = what the execution layer answers to
`ExecuteTxs` during this step (`.fail`: the step stops there with an error; a block freshly built from the batch has
been saved early by then and is reused by the next step); `clk` = the sequencing layer's clock -/
def produce (c : Cfg) (n : Node) (ex : Producer.ExecResp := .ok) (clk : Clock := .real) : Node × List FW × Producer.Outcome :=
  let ts := stamp c n clk
  if asksSequencer c n then
    let (q', out) := Queue.getNext key c.qc n.q c.qc.id
    let (txs, ws0) : List Bytes × List FW := match out with
      | .batch b => (b, [FW.qdel b])
      | _ => ([], [])
    let (p', ws, o) := Producer.publish c.p n.prod (.batch txs ts []) ex
    ({ n with prod := p', q := q', tick := n.tick + 1 }, ws0 ++ ws.map FW.st, o)
  else
    let (p', ws, o) := Producer.publish c.p n.prod .absent ex
    ({ n with prod := p', tick := n.tick + 1 }, ws.map FW.st, o)

/-! ### datastore write errors (outside the property's quantifier; modelled for the correspondence check)

`Flow.reap` with a failing queue `Put` is an operation of the histories (`Op.reapPutFails`: the hand-off is refused and
nothing changes).  The two below break what the property promises and are therefore NOT operations of the histories the
theorems quantify over; the driver executes them so that the real code's behaviour is pinned down. -/

/-- `Reaper.SubmitTxs` when the durable mark of the FIRST transaction of the batch fails (`seenStore.Put` error: logged,
ignored): the hand-off stands, that transaction stays unmarked and is handed over again with the next response -/
def reapSeenFault (c : Cfg) (n : Node) (mempool : List Bytes) : Node × List FW :=
  let newTxs := mempool.filter (fun t => !n.seen.contains t)
  if newTxs.isEmpty then (n, [])
  else
    match Queue.submit key c.qc n.q c.qc.id newTxs with
    | (q', .ok) =>
      ({ n with q := q', seen := newTxs.tail.foldl addSeen n.seen }, FW.qput newTxs :: newTxs.tail.map FW.seen)
    | _ => (n, [])

/-- `produce` when the queue's `Delete` of the batch it hands out fails (`BatchQueue.Next`: "log the error but continue"):
the batch is handed out and built into a block, its record stays in the queue's datastore — a restart reloads it and it is
handed out (and included) a second time -/
def produceDelFault (c : Cfg) (n : Node) : Node × List FW × Producer.Outcome :=
  let r := produce c n
  match r.2.1 with
  | .qdel _ :: ws => ({ r.1 with q := { mem := r.1.q.mem, disk := n.q.disk } }, ws, r.2.2)
  | _ => r

/-- durable image -/
structure Disk where
  store : Store := {}
  qdisk : Queue.Disk := []
  seen : List Bytes := []
  deriving Inhabited

def Disk.apply (d : Disk) : FW → Disk
  | .qput b => { d with qdisk := d.qdisk.put (key b) b }
  | .qdel b => { d with qdisk := d.qdisk.del (key b) }
  | .seen t => { d with seen := addSeen d.seen t }
  | .st w => { d with store := d.store.apply w }

def diskOf (n : Node) : Disk := { store := n.prod.store, qdisk := n.q.disk, seen := n.seen }

/-- restart on an image: the queue is reloaded in key order, the producer restarts as in C04 -/
def restart (c : Cfg) (n : Node) (d : Disk) : Option Node :=
  match Producer.start c.p d.store with
  | .error _ => none
  | .ok (p, _) => some { n with prod := p, q := Queue.reload { mem := [], disk := d.qdisk }, seen := d.seen }

/-- what the execution layer answers in a step whose context is cancelled during `GetNextBatch`: nothing between the
sequencer call and `ExecuteTxs` looks at the context (the store ignores it), so the step goes on exactly like an
undisturbed one; an execution layer that honours the context refuses — after the early save.  When the step does not ask
the sequencer (a block waits at `height + 1`, or production is refused) no cancellation happens. -/
def cancelEx (c : Cfg) (n : Node) (aware : Bool) : Producer.ExecResp :=
  if aware && asksSequencer c n then .fail else .ok

/-! ## histories: operations of the node, with a crash after any number of the durable writes of the last operation

The state of a history remembers the durable image before the last operation and the durable writes of the last
operation, in order; `crash k` = the process dies when only the first `k` of them have reached the disk and is
restarted on that image; `restart` = a clean restart (all of them are durable).  The driver (`Drv/Flow.lean`)
executes exactly these definitions against the real reaper / sequencer / producer. -/

inductive Op
  | mempool (txs : List Bytes)     -- what the execution layer's `GetTxs` answers from now on (ASSUMPTION: `GetTxs` is idempotent,
                                   -- a transaction stays in the mempool until the execution layer removes it)
  | mempoolDrain (txs : List Bytes) -- a DRAINING mempool (`apps/testapp/kv` `GetTxs` empties its channel): `txs` is answered
                                   -- by exactly one `GetTxs` call, afterwards the mempool is empty
  | reap                           -- one `Reaper.SubmitTxs`
  | reapPutFails                   -- one `Reaper.SubmitTxs` during which the queue's write-ahead `Put` returns an error
  | produce                        -- one `publishBlock`
  | produceFail                    -- one `publishBlock` during which `ExecuteTxs` fails (or the node dies in it, when a `restart` follows)
  | produceCancelled (aware : Bool) -- one `publishBlock` whose context is cancelled (the stop request arrives) while `GetNextBatch` is
                                   -- running; `aware`: the execution layer honours the cancelled context (`ExecuteTxs` returns `ctx.Err()`)
  | produceSame                    -- one `publishBlock` whose `GetNextBatch` answer carries the SAME timestamp as the previous block
  | restart
  | crash (k : Nat)
  deriving Repr, Inhabited

structure RunSt where
  n : Node := {}
  before : Disk := {}
  ws : List FW := []
  mempool : List Bytes := []
  drain : Bool := false            -- the next `GetTxs` empties the mempool
  deriving Inhabited

/-- the durable image when the first `k` writes of the last operation have been applied -/
def image (s : RunSt) (k : Nat) : Disk := (s.ws.take k).foldl Disk.apply s.before

/-- restart on the image after the first `k` writes of the last operation -/
def recover (c : Cfg) (s : RunSt) (k : Nat) : Option RunSt :=
  match restart c s.n (image s k) with
  | none => none
  | some n' => some { s with n := n', before := image s k, ws := [] }

/-- one operation; `none` = the node did not come up again -/
def opStep (c : Cfg) (s : RunSt) : Op → Option RunSt
  | .mempool txs => some { s with mempool := txs, drain := false }
  | .mempoolDrain txs => some { s with mempool := txs, drain := true }
  | .reap => some { s with n := (reap c s.n s.mempool).1, before := diskOf s.n, ws := (reap c s.n s.mempool).2,
                           mempool := if s.drain then [] else s.mempool }
  -- `AddBatch`: the `Put` comes before the append in memory, its error is returned: the hand-off is refused, the reaper
  -- marks nothing; the draining `GetTxs` has handed its transactions out all the same
  | .reapPutFails => some { s with before := diskOf s.n, ws := [], mempool := if s.drain then [] else s.mempool }
  | .produce => some { s with n := (produce c s.n).1, before := diskOf s.n, ws := (produce c s.n).2.1 }
  | .produceCancelled aware =>
    some { s with n := (produce c s.n (cancelEx c s.n aware)).1, before := diskOf s.n, ws := (produce c s.n (cancelEx c s.n aware)).2.1 }
  | .produceSame => some { s with n := (produce c s.n .ok .same).1, before := diskOf s.n, ws := (produce c s.n .ok .same).2.1 }
  | .produceFail => some { s with n := (produce c s.n .fail).1, before := diskOf s.n, ws := (produce c s.n .fail).2.1 }
  | .restart => recover c s s.ws.length
  | .crash k => recover c s k

/-- first start on an empty disk -/
def initSt (c : Cfg) : Option RunSt :=
  match Producer.start c.p {} with
  | .error _ => none
  | .ok (p, _) => some { n := { prod := p }, before := diskOf { prod := p } }

def runOps (c : Cfg) : RunSt → List Op → Option RunSt
  | s, [] => some s
  | s, op :: rest =>
    match opStep c s op with
    | none => none
    | some s' => runOps c s' rest

end Flow
