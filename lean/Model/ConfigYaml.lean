/-!
# What a STRING option looks like after `SaveAsYaml` → `Load` (value level)

`SaveAsYaml` writes the file with goccy/go-yaml v1.18, `Load` reads it with viper = yaml.v3 and
decodes with mapstructure (`WeaklyTypedInput`).  The two libraries do not agree on which plain
scalars are strings:

* goccy double-quotes a string (`strconv.Quote`) only when `token.IsNeedQuoted` says so: empty,
  a reserved word, a number *by goccy's own grammar*, a date/time *by goccy's own layouts*, a
  special first/last character, `#`, `\`, `: `, `- `.  Everything else is written bare; a string
  with a line break is written as a literal block scalar whose line break character is the most
  frequent one of the value (`DetectLineBreakCharacter`).
* yaml.v3 resolves a bare scalar by ITS grammar (`resolve.go`): `.inf/.nan` words, ints in base 0,
  floats by `yamlStyleFloat`, dates by `parseTimestamp`; it normalises every line break to LF; it
  refuses control characters; `? ` opens a complex mapping key.
* mapstructure turns the number back into a string (`FormatInt`, `FormatFloat(f,'f',-1,64)`) and
  refuses a `time.Time`.

`roundTrip` below is the composition, for the classes of values where the two grammars differ.
It is total, with the explicit outcome `unmodelled` for values outside the domain on which it was
validated against the real pair (exhaustive enumeration of all strings up to length 4–6 over the
alphabets `a19 0eE.+-_xobinfNIF`, the YAML indicators, `a SP LF CR - : ? #`, control/Unicode
samples — see notes/C18.md — and on every run by the correspondence stream).

Everything here is on `List Char`, structural recursion only, so that `decide` evaluates it.
-/
namespace Config.Yaml

abbrev Chars := List Char

/-- what `Load` returns for a string option that `SaveAsYaml` wrote with value `s` -/
inductive Outcome where
  | same                      -- the value that was saved
  | retyped (v : Chars)       -- another value (the reader took the bare scalar for a number, or rewrote line breaks)
  | fileBroken                -- the reader refuses the whole file; `Load` discards that error: EVERY option gets its default
  | loadError                 -- the reader takes the scalar for a date; mapstructure refuses it: `Load` fails
  | unmodelled                -- outside the validated domain: the model makes no claim
  deriving DecidableEq, Repr

/-! ## characters -/

def isDigit (c : Char) : Bool := '0' ≤ c && c ≤ '9'
def isHexDigit (c : Char) : Bool := isDigit c || ('a' ≤ c && c ≤ 'f') || ('A' ≤ c && c ≤ 'F')
def isOctDigit (c : Char) : Bool := '0' ≤ c && c ≤ '7'
def isBinDigit (c : Char) : Bool := c = '0' || c = '1'

/-- characters yaml.v3's reader refuses anywhere in the stream ("control characters are not allowed") -/
def hardControl (c : Char) : Bool :=
  let n := c.toNat
  (n < 0x20 && n ≠ 9 && n ≠ 10 && n ≠ 13) || n = 0x7F || (0x80 ≤ n && n ≤ 0x9F && n ≠ 0x85) ||
  n = 0xFFFE || n = 0xFFFF

/-- characters that act as line breaks / byte order marks for the reader in ways that depend on
their position: outside the modelled domain -/
def positional (c : Char) : Bool :=
  let n := c.toNat
  n = 0x85 || n = 0x2028 || n = 0x2029 || n = 0xFEFF

def isBreak (c : Char) : Bool := c = '\n' || c = '\r'
def isBlank (c : Char) : Bool := c = ' ' || c = '\t'

/-! ## small list helpers (structural) -/

def startsWith : Chars → Chars → Bool
  | _, [] => true
  | [], _ :: _ => false
  | c :: s, p :: ps => c = p && startsWith s ps

def containsSub : Chars → Chars → Bool
  | [], p => p.isEmpty
  | c :: s, p => startsWith (c :: s) p || containsSub s p

def lastChar? : Chars → Option Char
  | [] => none
  | [c] => some c
  | _ :: s => lastChar? s

/-- a blank directly before or after a line break -/
def blankNextToBreak : Chars → Bool
  | a :: b :: s => (isBlank a && isBreak b) || (isBreak a && isBlank b) || blankNextToBreak (b :: s)
  | _ => false

def dropWhileEq (c : Char) : Chars → Chars
  | [] => []
  | d :: s => if d = c then dropWhileEq c s else d :: s

def countTrailing (c : Char) (s : Chars) : Nat := (s.reverse.takeWhile (· = c)).length

/-! ## goccy: `token.IsNeedQuoted`, the STRUCTURAL part

(the reserved-word, number and date tests of `IsNeedQuoted` only ever protect a value, and every
value they protect reads back equal; they need no model — the classes below are by construction
the values those tests miss) -/

def specialFirst (c : Char) : Bool :=
  c = '*' || c = '&' || c = '[' || c = '{' || c = '}' || c = ']' || c = ',' || c = '!' || c = '|' ||
  c = '>' || c = '%' || c = '\'' || c = '"' || c = '@' || c = ' ' || c = '`'

/-- `#` or `\` anywhere, `: ` or `- ` anywhere -/
def innerQuote : Chars → Bool
  | [] => false
  | c :: s =>
    c = '#' || c = '\\' || ((c = ':' || c = '-') && (match s with | d :: _ => d = ' ' | [] => false)) ||
    innerQuote s

def structQuoted (s : Chars) : Bool :=
  match s with
  | [] => true
  | c :: _ =>
    s = ['-'] || specialFirst c ||
    (match lastChar? s with | some l => l = ':' || l = ' ' | none => false) || innerQuote s

/-! ## the validated domain -/

/-- a tab where the reader gives it a meaning: first or last character, after a leading `?` or `-`,
after any `:` -/
def tabHarmful (s : Chars) : Bool :=
  startsWith s ['\t'] || lastChar? s = some '\t' || startsWith s ['?', '\t'] || startsWith s ['-', '\t'] ||
  containsSub s [':', '\t']

def inDomain (s : Chars) : Bool :=
  !s.any positional &&
  !(s.contains '\n' && s.contains '\r') &&                 -- mixed line breaks: outcome depends on their order
  !(s.any isBreak && (s.contains '\t' || s.any hardControl)) &&   -- multi-line: no tab, no control character
  !(s.contains '\r' && blankNextToBreak s) &&                      -- CR lines: no blank next to a break (LF lines: modelled, `lfBlock`)
  (structQuoted s || !tabHarmful s)

/-! ## numbers the reader sees and the writer does not -/

def removeUnderscores (s : Chars) : Chars := s.filter (· ≠ '_')

/-- optional sign: (negative?, rest) -/
def splitSign : Chars → Bool × Chars
  | '-' :: s => (true, s)
  | '+' :: s => (false, s)
  | s => (false, s)

def digitsVal (base : Nat) (s : Chars) : Nat :=
  s.foldl (fun n c =>
    let d := if isDigit c then c.toNat - '0'.toNat
             else if 'a' ≤ c && c ≤ 'f' then c.toNat - 'a'.toNat + 10
             else c.toNat - 'A'.toNat + 10
    n * base + d) 0

def natDigits (n : Nat) : Chars := (toString n).toList

/-- `.inf` / `.nan` words of yaml.v3's `resolveMap` that goccy does not reserve when encoding;
mapstructure prints the float with `FormatFloat(f, 'f', -1, 64)` -/
def infNan (s : Chars) : Option Chars :=
  let str := String.ofList s
  if str = ".inf" || str = ".Inf" || str = ".INF" || str = "+.inf" || str = "+.Inf" || str = "+.INF" then some "+Inf".toList
  else if str = "-.inf" || str = "-.Inf" || str = "-.INF" then some "-Inf".toList
  else if str = ".nan" || str = ".NaN" || str = ".NAN" then some "NaN".toList
  else none

/-- `0X…`, `0O…`, `0B…` (upper-case radix letter): an int for `strconv.ParseInt(_, 0, 64)`, not a
number for goccy (which knows the lower-case prefixes only).  `p` = the value without sign and
underscores.  Result: the decimal digits; `none` = not of this form; the bound keeps the value
below 2^63. -/
def upperRadix (p : Chars) : Option (Option Nat) :=
  match p with
  | '0' :: 'X' :: ds => if !ds.isEmpty && ds.all isHexDigit then some (if ds.length ≤ 15 then some (digitsVal 16 ds) else none) else none
  | '0' :: 'O' :: ds => if !ds.isEmpty && ds.all isOctDigit then some (if ds.length ≤ 20 then some (digitsVal 8 ds) else none) else none
  | '0' :: 'B' :: ds => if !ds.isEmpty && ds.all isBinDigit then some (if ds.length ≤ 62 then some (digitsVal 2 ds) else none) else none
  | _ => none

/-- `0o+17`, `0b-1`: yaml.v3 cuts the lower-case prefix off and gives the rest, SIGN INCLUDED, to
`ParseInt(_, 8|2, 64)`; goccy gives it to `ParseUint`, which refuses the sign.  Only for a value
that starts with the prefix (no sign in front).  Result: (negative?, magnitude). -/
def lowerRadixSigned (p : Chars) : Option (Option (Bool × Nat)) :=
  let go (base : Nat) (ok : Char → Bool) (maxLen : Nat) (rest : Chars) : Option (Option (Bool × Nat)) :=
    match rest with
    | '+' :: ds => if !ds.isEmpty && ds.all ok then some (if ds.length ≤ maxLen then some (false, digitsVal base ds) else none) else none
    | '-' :: ds => if !ds.isEmpty && ds.all ok then some (if ds.length ≤ maxLen then some (true, digitsVal base ds) else none) else none
    | _ => none
  match p with
  | '0' :: 'o' :: rest => go 8 isOctDigit 20 rest
  | '0' :: 'b' :: rest => go 2 isBinDigit 62 rest
  | _ => none

/-- positional rendering of `m · 10^e` (`m > 0` without trailing zero is not required) as
`FormatFloat(_, 'f', -1, 64)` prints a float64 that is exactly that decimal with at most 15
significant digits -/
def positionalDecimal (m : Nat) (e : Int) : Chars :=
  if m = 0 then ['0'] else
  -- move trailing zeros of m into the exponent
  let rec strip (fuel : Nat) (m : Nat) (e : Int) : Nat × Int :=
    match fuel with
    | 0 => (m, e)
    | fuel + 1 => if m % 10 = 0 && m ≠ 0 then strip fuel (m / 10) (e + 1) else (m, e)
  let (m, e) := strip 400 m e
  let ds := natDigits m
  if e ≥ 0 then ds ++ List.replicate e.toNat '0'
  else
    let k := (-e).toNat           -- digits after the point
    if k < ds.length then ds.take (ds.length - k) ++ ['.'] ++ ds.drop (ds.length - k)
    else ['0', '.'] ++ List.replicate (k - ds.length) '0' ++ ds

/-- the mantissa/exponent split of `digits [eE] [sign] digits` (no dot): what `yamlStyleFloat` +
`ParseFloat` accept and goccy's `toNumber` (decimal or octal `ParseUint`) refuses -/
def splitExp (p : Chars) : Option (Chars × Bool × Chars) :=
  let mant := p.takeWhile isDigit
  match p.dropWhile isDigit with
  | e :: rest =>
    if (e = 'e' || e = 'E') && !mant.isEmpty then
      let (neg, ds) := splitSign rest
      if !ds.isEmpty && ds.all isDigit then some (mant, neg, ds) else none
    else none
  | [] => none

inductive Num where
  | notNum
  | tooBig                 -- a number for the reader, but outside the range where the model's decimal arithmetic is the float64 result
  | val (v : Chars)

/-- the value without sign (`signed`: it had one; `neg`: it was `-`) and underscores (`p`) as the reader's number, printed back by mapstructure -/
def readerNumber (signed neg : Bool) (p : Chars) : Num :=
  let sign : Chars := if neg then ['-'] else []
  match upperRadix p with
  | some (some n) => .val (if n = 0 then ['0'] else sign ++ natDigits n)   -- an int: `-0` is `0`
  | some none => .tooBig
  | none =>
    match (if signed then none else lowerRadixSigned p) with
    | some (some (n, v)) => .val (if v = 0 then ['0'] else (if n then ['-'] else []) ++ natDigits v)
    | some none => .tooBig
    | none =>
    match splitExp p with
    | some (mant, eneg, eds) =>
      let m := dropWhileEq '0' mant
      -- at most 15 significant digits and a small exponent: the decimal IS the float64's shortest form
      if m.length > 15 || eds.length > 3 || digitsVal 10 eds > 250 then .tooBig
      else
        let e : Int := if eneg then -(digitsVal 10 eds : Int) else (digitsVal 10 eds : Int)
        .val (sign ++ positionalDecimal (digitsVal 10 m) e)               -- a float: `-0` stays `-0`
    | none =>
      -- `0` followed by digits among which an 8 or 9: no octal for either library, a float for the reader
      match p with
      | '0' :: ds =>
        if !ds.isEmpty && ds.all isDigit && ds.any (fun c => c = '8' || c = '9') then
          let m := dropWhileEq '0' ds
          if m.length > 15 then .tooBig else .val (sign ++ positionalDecimal (digitsVal 10 m) 0)
        else .notNum
      | _ => .notNum

/-! ## dates the reader sees and the writer does not -/

/-- `YYYY-` followed by a digit: yaml.v3's `parseTimestamp` may take it.  Modelled exactly:
`YYYY-M-D` with a one-digit month or day (goccy's `time.DateOnly` wants two), month 1..12, day
1..28 → a `time.Time` → `Load` fails; month or day out of any calendar → a string.  Everything
else of this shape (time of day, day 29..31 with a one-digit part) → `unmodelled`;
`YYYY-MM-DD` → the same string (a valid one is quoted by goccy, an invalid one is no date for either). -/
def dateLike (s : Chars) : Option Outcome :=
  match s with
  | y1 :: y2 :: y3 :: y4 :: '-' :: d :: rest =>
    if isDigit y1 && isDigit y2 && isDigit y3 && isDigit y4 && isDigit d then
      let ms := (d :: rest).takeWhile isDigit
      match (d :: rest).dropWhile isDigit with
      | '-' :: r2 =>
        let dd := r2.takeWhile isDigit
        if r2.dropWhile isDigit ≠ [] || dd.isEmpty || ms.length > 2 || dd.length > 2 then some .unmodelled
        else if ms.length = 2 && dd.length = 2 then some .same   -- a valid date: goccy quotes it (`time.DateOnly`); an invalid one: a string for both
        else
          let m := digitsVal 10 ms; let dv := digitsVal 10 dd
          if m = 0 || m > 12 || dv = 0 || dv > 31 then some .same
          else if dv ≤ 28 then some .loadError else some .unmodelled
      | _ => some .unmodelled
    else none
  | _ => none

/-! ## line breaks -/

/-- a bare value with CR as its only line break is written as a literal block with CR line
breaks; the reader normalises them to LF and applies the block's chomping indicator, which goccy
chose from the CR count: a value that ends in two or more CRs, or consists of CRs only, loses one -/
def crRewrite (s : Chars) : Chars :=
  let t := s.map fun c => if c = '\r' then '\n' else c
  let k := countTrailing '\r' s
  if k ≥ 2 || k = s.length then t.dropLast else t

/-! ## LF line breaks: the literal block goccy writes and what yaml.v3 reads from it

An unquoted value with LF in it is written as a literal block scalar (`ast.StringNode.String`):
header `|-` / `|` / `|+` by the number of trailing LFs, then every line of the value behind `P`
spaces of indentation (`P` = 2 · (nesting depth of the key + 1)), and two `strings.TrimSuffix`
calls on the result that are meant to remove the indentation of a last empty line — and also eat
`P` trailing spaces of the last non-empty line.  goccy never writes the block's indentation
indicator, so yaml.v3 (libyaml's `scan_block_scalar`) DETECTS the indentation: the widest of the
leading blank lines and the first non-blank line.  A value whose first line is empty and whose next
lines are indented therefore loses that indentation, and a later line that is shallower than the
detected indentation ends the block early: the rest is no YAML and the whole file is refused. -/

/-- split on LF (always at least one line) -/
def splitLines : Chars → List Chars
  | [] => [[]]
  | c :: s =>
    match splitLines s with
    | l :: ls => if c = '\n' then [] :: l :: ls else (c :: l) :: ls
    | [] => [[c]]

def joinLines : List Chars → Chars
  | [] => []
  | [l] => l
  | l :: ls => l ++ '\n' :: joinLines ls

def stripSuffix (suf s : Chars) : Chars :=
  if suf.isSuffixOf s then s.take (s.length - suf.length) else s

/-- the lines goccy writes under the block header, at indentation `P` -/
def blockLines (P : Nat) (s : Chars) : List Chars :=
  let pre := List.replicate P ' '
  let joined := joinLines ((splitLines s).map (pre ++ ·))
  splitLines (stripSuffix pre (stripSuffix ('\n' :: pre) joined))

inductive Chomp where
  | strip | clip | keep
  deriving DecidableEq

def chompOf (s : Chars) : Chomp :=
  if ['\n', '\n'].isSuffixOf s then .keep else if ['\n'].isSuffixOf s then .clip else .strip

def leadingSpaces (l : Chars) : Nat := (l.takeWhile (· = ' ')).length
def blankLine (l : Chars) : Bool := l.all (· = ' ')

/-- libyaml's `scan_block_scalar` on the lines of the block (the line after them is a key or a
comment at column `parent`): `none` = a line shallower than the detected indentation ends the block
before the value's lines are used up. -/
def readBlock (parent : Nat) (lines : List Chars) (chomp : Chomp) : Option Chars :=
  let lead := lines.takeWhile blankLine
  let rest := lines.dropWhile blankLine
  let widest := lead.foldl (fun m l => max m l.length) 0
  let first := match rest with | l :: _ => leadingSpaces l | [] => parent
  let indent := max (max widest first) (parent + 1)
  -- (text so far, a content line was read, pending line breaks of blank lines)
  let step (st : Option (Chars × Bool × Nat)) (l : Chars) : Option (Chars × Bool × Nat) :=
    match st with
    | none => none
    | some (acc, had, pending) =>
      if blankLine l && l.length ≤ indent then some (acc, had, pending + 1)
      else if leadingSpaces l ≥ indent then
        some (acc ++ (if had then ['\n'] else []) ++ List.replicate pending '\n' ++ l.drop indent, true, 0)
      else none
  match rest.foldl step (some ([], false, lead.length)) with
  | none => none
  | some (acc, had, pending) =>
    match chomp with
    | .strip => some acc
    | .clip => some (acc ++ (if had then ['\n'] else []))
    | .keep => some (acc ++ (if had then ['\n'] else []) ++ List.replicate pending '\n')

/-- an unquoted value with LF line breaks under a key of nesting depth `depth` -/
def lfBlock (depth : Nat) (s : Chars) : Outcome :=
  match readBlock (2 * depth) (blockLines (2 * (depth + 1)) s) (chompOf s) with
  | none => .fileBroken
  | some v => if v = s then .same else .retyped v

/-! ## the composition -/

/-- `depth` = nesting depth of the option's key in the file (`chain_id`: 0, `da.namespace`: 1) - it
matters for values with line breaks only -/
def roundTrip (depth : Nat) (s : Chars) : Outcome :=
  if s.isEmpty then .same
  else if !inDomain s then .unmodelled
  else if structQuoted s then .same                           -- written "quoted": read back verbatim
  else if s.any hardControl then .fileBroken
  else if s.contains '\r' then .retyped (crRewrite s)
  else if s.contains '\n' then lfBlock depth s
  else if s = ['?'] || startsWith s ['?', ' '] then .fileBroken   -- complex mapping key indicator
  else
    match infNan s with
    | some v => .retyped v
    | none =>
      if startsWith s ['_'] then .same else
      match dateLike s with
      | some o => o
      | none =>
        let (neg, body) := splitSign s
        match readerNumber (body.length ≠ s.length) neg (removeUnderscores body) with
        | .val v => .retyped v
        | .tooBig => .unmodelled
        | .notNum => .same

/-- **The values the YAML writer/reader pair preserves** (within the validated domain): not
`unmodelled`, and none of: unquoted control character; CR; an LF block that reads back differently
(empty first line before indented ones, trailing spaces eaten, lone LF) or ends early; `?`/`? …`; `.inf/.nan` word;
upper-case radix int `0X/0O/0B…`; exponent float without dot `12e4`; `0`-prefixed decimal with an
8 or 9; one-digit-month/day date `2001-1-1`. -/
def YamlSafeAt (depth : Nat) (s : String) : Bool := roundTrip depth s.toList == .same

/-- preserved under a key of either nesting depth the configuration has -/
def YamlSafe (s : String) : Bool := YamlSafeAt 0 s && YamlSafeAt 1 s

def roundTripS (s : String) : Outcome := roundTrip 1 s.toList

end Config.Yaml
