/-! # Shutdown protocol of `FullNode.Run` (property C13)

`node/full.go` `Run` fans the background loops out with `spawnWorker`, waits in ONE `select` for the first error
on `errCh` (capacity `cap errCh`, read at most once) or for the parent context, cancels the node context and joins
the workers with `wg.Wait()`.

A worker is abstracted to the set of its *blocking points* (`BP`): the operations at which the goroutine can be
parked.  The table of blocking points of every loop function is regenerated from the current source into
`Gen/C13.lean`.  Control flow between blocking points is abstracted by the scheduler's choice (`Move`): after the
operation at its current point completes, a worker goes to any point of its table or returns.  The only
structural assumption is the *budget*: between two passes of a loop-head `ctxSelect` a worker completes at most
`budget` other blocking operations (every unbounded `for` of the loop functions is headed by a ctx check - the
fact `loopsHeaded` of the generated table - and the other loops are bounded); `budget` is an arbitrary parameter.

Semantics of one point, after `cancel`:
* `ctxSelect`  - a `select` with a `<-ctx.Done()` case (or an explicit ctx check): the worker returns;
* `sleep true` - `time.Sleep` of a configured interval: completes by itself - but only when that interval is over, so it
                 is NOT a guarded point (the property demands a prompt stop whatever the configuration);
* `sleep false`- `time.Sleep` of a computed, unbounded duration: completes only when the environment lets that
                 time elapse (`Act.elapse`); cancel does not interrupt it;
* `send/recv ch true`  - inside a `select` that has a ctx case or a `default`: never parks the worker after cancel;
* `send/recv ch false` - plain channel statement: completes only when the channel has room / an element;
* `errSend`    - plain (blocking) `errCh <- err` followed by `return`; the non-blocking report
                 `select { case errCh <- err: default: }` is `send errCh true`.
* `lock m free`- `Lock`/`RLock` of mutex `m`; `free` = no critical section of `m` anywhere contains an operation that
                 can park its holder (regenerated fact): the holder releases by itself, the lock is acquired without
                 anybody's help.  With `free = false` the acquisition may wait for a parked holder: never enabled.
* `join ok`    - a wait for other goroutines: `errgroup.Wait` whose joined functions are all walked in place as part of
                 this worker (`ok = true`: as good as their points, which are in the table), or a `WaitGroup.Wait` /
                 `Cond.Wait` on something the table knows nothing about (`ok = false`: never enabled).
* `spawn`      - a `go` statement whose goroutine is NOT joined before the worker returns: the statement itself completes at
                 once, but it leaves an *orphan* - an activity of the node that `Run`'s `wg.Wait()` does not cover.  The
                 state counts the live orphans; an orphan ends when the environment says so (`Act.orphanExit`: the model
                 knows nothing about what it does); `finished` requires that none is left.
`for range ch` and `select {}` are plain receives (`recv ch false`).
-/
namespace Shutdown

inductive Chan
  | errCh | headerInCh | dataInCh | headerStoreCh | dataStoreCh | retrieveCh | daIncluderCh | txNotifyCh
  | timer | loc (n : Nat)
  deriving DecidableEq, Repr, Inhabited

inductive BP
  | ctxSelect
  | sleep (boundedByCfg : Bool)
  | send (ch : Chan) (guarded : Bool)
  | recv (ch : Chan) (guarded : Bool)
  | errSend
  | lock (m : Nat) (free : Bool)
  | join (ok : Bool)
  | spawn
  deriving DecidableEq, Repr, Inhabited

/-- a point that cannot park a worker for ever once the context is cancelled (`errSend` is judged separately,
by counting the senders against the capacity of `errCh`) -/
def BP.guarded : BP → Bool
  | .ctxSelect => true
  | .sleep _ => false   -- cancel does not interrupt `time.Sleep`: "bounded by a configured duration" is not "promptly,
                        -- whatever the configuration"; `boundedByCfg` only says whether the sleep ends by itself
  | .send _ g => g
  | .recv _ g => g
  | .errSend => true
  | .lock _ f => f
  | .join ok => ok
  | .spawn => false

structure Cfg where
  cap : Chan → Nat
  budget : Nat

inductive WSt
  | idle
  | at (p : BP) (left : Nat)
  | done
  deriving DecidableEq, Repr, Inhabited

structure W where
  prog : List BP
  st : WSt
  deriving Repr, Inhabited

inductive Phase | waiting | joining | returned
  deriving DecidableEq, Repr, Inhabited

structure St where
  ws : List W
  lvl : Chan → Nat
  cancelled : Bool
  parentCancelled : Bool
  phase : Phase
  orphans : Nat := 0     -- live goroutines started by workers and joined by nobody

inductive Move | next (p : BP) | ret
  deriving DecidableEq, Repr, Inhabited

inductive Act
  | work (i : Nat) (mv : Move)      -- worker i completes the operation at its point and moves
  | elapse (i : Nat) (mv : Move)    -- ENVIRONMENT: the duration of an unbounded sleep of worker i elapses
  | runErr                          -- Run's select takes `err := <-errCh`
  | runParent                       -- Run's select takes `<-parentCtx.Done()`
  | join                            -- `wg.Wait()` returns, Run returns
  | parentCancel                    -- ENVIRONMENT: the node is asked to stop
  | orphanExit                      -- ENVIRONMENT: an un-joined goroutine ends (when, the model cannot say)
  deriving DecidableEq, Repr, Inhabited

def Act.isEnv : Act → Bool
  | .elapse _ _ => true
  | .parentCancel => true
  | .orphanExit => true
  | _ => false

def inc (f : Chan → Nat) (c : Chan) : Chan → Nat := fun x => if x = c then f x + 1 else f x
def dec (f : Chan → Nat) (c : Chan) : Chan → Nat := fun x => if x = c then f x - 1 else f x

/-- can the operation at point `p` complete now (without the environment)? -/
def opEnabled (cfg : Cfg) (lvl : Chan → Nat) : BP → Bool
  | .ctxSelect => true
  | .sleep b => b
  | .send ch g => g || decide (lvl ch < cfg.cap ch)
  | .recv ch g => g || decide (0 < lvl ch)
  | .errSend => decide (lvl .errCh < cfg.cap .errCh)
  | .lock _ f => f
  | .join ok => ok
  | .spawn => true

def opEffect (cfg : Cfg) (lvl : Chan → Nat) : BP → (Chan → Nat)
  | .send ch _ => if lvl ch < cfg.cap ch then inc lvl ch else lvl
  | .recv ch _ => if 0 < lvl ch then dec lvl ch else lvl
  | .errSend => inc lvl .errCh
  | _ => lvl

/-- where a worker with program `prog` goes after an operation, `avail` being the budget it has left -/
def moveTo (prog : List BP) (avail : Nat) : Move → Option WSt
  | .ret => some .done
  | .next q =>
    if q ∈ prog then
      if q = .ctxSelect then some (.at q avail)
      else if 0 < avail then some (.at q (avail - 1)) else none
    else none

/-- the worker's own step once the operation at its point has completed -/
def after (cfg : Cfg) (cancelled : Bool) (prog : List BP) (st : WSt) (mv : Move) : Option WSt :=
  match st with
  | .idle => moveTo prog cfg.budget mv
  | .done => none
  | .at .errSend _ => some .done                                   -- `errCh <- err; return`
  | .at .ctxSelect _ => if cancelled then some .done else moveTo prog cfg.budget mv
  | .at _ left => moveTo prog left mv

def stEnabled (cfg : Cfg) (lvl : Chan → Nat) : WSt → Bool
  | .at p _ => opEnabled cfg lvl p
  | _ => true

def stEffect (cfg : Cfg) (lvl : Chan → Nat) : WSt → (Chan → Nat)
  | .at p _ => opEffect cfg lvl p
  | _ => lvl

/-- completing a `spawn` point leaves one more orphan -/
def stSpawns : WSt → Nat
  | .at .spawn _ => 1
  | _ => 0

def allDone (ws : List W) : Bool := ws.all fun w => w.st == .done

/-- the node has shut down WITH ALL ITS ACTIVITY: every worker returned, `Run` returned, no un-joined goroutine left -/
def finished (s : St) : Bool := allDone s.ws && s.phase == .returned && s.orphans == 0

def step (cfg : Cfg) (s : St) : Act → Option St
  | .work i mv =>
    match s.ws[i]? with
    | none => none
    | some w =>
      if stEnabled cfg s.lvl w.st then
        match after cfg s.cancelled w.prog w.st mv with
        | none => none
        | some st' => some { s with ws := s.ws.set i { w with st := st' }, lvl := stEffect cfg s.lvl w.st,
                                    orphans := s.orphans + stSpawns w.st }
      else none
  | .elapse i mv =>
    match s.ws[i]? with
    | none => none
    | some w =>
      match w.st with
      | .at (.sleep false) left =>
        match moveTo w.prog left mv with
        | none => none
        | some st' => some { s with ws := s.ws.set i { w with st := st' } }
      | _ => none
  | .runErr =>
    if s.phase = .waiting ∧ 0 < s.lvl .errCh then
      some { s with lvl := dec s.lvl .errCh, cancelled := true, phase := .joining }
    else none
  | .runParent =>
    if s.phase = .waiting ∧ s.parentCancelled = true then
      some { s with cancelled := true, phase := .joining }
    else none
  | .join =>
    if s.phase = .joining ∧ allDone s.ws = true then some { s with phase := .returned } else none
  | .parentCancel =>
    if s.parentCancelled = false then some { s with parentCancelled := true } else none
  | .orphanExit =>
    if 0 < s.orphans then some { s with orphans := s.orphans - 1 } else none

def exec (cfg : Cfg) : St → List Act → Option St
  | s, [] => some s
  | s, a :: as => match step cfg s a with
    | none => none
    | some s' => exec cfg s' as

def initSt (progs : List (List BP)) : St :=
  { ws := progs.map fun p => { prog := p, st := .idle }, lvl := fun _ => 0,
    cancelled := false, parentCancelled := false, phase := .waiting }

/-- states reachable from the start of `Run` under any schedule (environment actions included) -/
inductive Reach (cfg : Cfg) (progs : List (List BP)) : St → Prop
  | init : Reach cfg progs (initSt progs)
  | step {s s' : St} (a : Act) : Reach cfg progs s → step cfg s a = some s' → Reach cfg progs s'

/-- no action of the node itself is enabled (only the environment could still act) -/
def Stuck (cfg : Cfg) (s : St) : Prop := ∀ a, a.isEnv = false → step cfg s a = none

/-- no action at all is enabled: nothing can ever change this state -/
def Dead (cfg : Cfg) (s : St) : Prop := ∀ a, step cfg s a = none

/-! ## measure -/

def wμ (cfg : Cfg) : WSt → Nat
  | .idle => 2 * cfg.budget + 3
  | .at p left => 2 * left + (if p = .ctxSelect then 1 else if p = .spawn then 3 else 2)
  | .done => 0

def wsμ (cfg : Cfg) : List W → Nat
  | [] => 0
  | w :: ws => wμ cfg w.st + wsμ cfg ws

def phaseμ : Phase → Nat
  | .waiting => 2 | .joining => 1 | .returned => 0

/-- number of steps that can still happen after cancel -/
def μ (cfg : Cfg) (s : St) : Nat :=
  wsμ cfg s.ws + phaseμ s.phase + (if s.parentCancelled then 0 else 1) + s.orphans

/-! ## static judgement of a table -/

def errSenders (progs : List (List BP)) : Nat := progs.countP fun p => p.contains .errSend

/-- the full requirement on a worker table: every point guarded, and not more potential senders on `errCh`
than it has room for (`Run` may already have left its select when they send) -/
def allGuarded (cfg : Cfg) (progs : List (List BP)) : Bool :=
  progs.all (fun p => p.all BP.guarded) && decide (errSenders progs ≤ cfg.cap .errCh)

/-! ## executable scheduler used by the driver: park chosen workers, cancel, run the node's own actions -/

def execAll (cfg : Cfg) (s : St) (as : List Act) : St :=
  as.foldl (fun s a => (step cfg s a).getD s) s

/-- one round: every worker tries to complete its operation and return; then join -/
def round (cfg : Cfg) (s : St) : St :=
  execAll cfg s (((List.range s.ws.length).map fun i => Act.work i .ret) ++ [.join])

def rounds (cfg : Cfg) : Nat → St → St
  | 0, s => s
  | n + 1, s => rounds cfg n (round cfg s)

/-- `park`: (worker index, point) - where the stop request finds that worker; the others are at a `ctxSelect`
if they have one (idle otherwise).  The stop request arrives through the parent context.  Result: does `Run`
return without any help from the environment?  `full`: channels whose buffer is full at that moment. -/
def stopsPromptly (cfg : Cfg) (progs : List (List BP)) (park : List (Nat × BP)) (full : List Chan) : Bool :=
  let s0 := { initSt progs with lvl := fun c => if c ∈ full then cfg.cap c else 0 }
  let place := (List.range progs.length).map fun i =>
    match park.find? (·.1 = i) with
    | some (_, p) => Act.work i (.next p)
    | none => Act.work i (.next .ctxSelect)
  let s1 := execAll cfg s0 (place ++ [.parentCancel, .runParent])
  finished (rounds cfg 3 s1)

/-! ## reading the generated table (`Gen/C13.lean`: plain numbers, see the codes there) -/

def chanOf : Nat → Chan
  | 0 => .errCh | 1 => .headerInCh | 2 => .dataInCh | 3 => .headerStoreCh | 4 => .dataStoreCh
  | 5 => .retrieveCh | 6 => .daIncluderCh | 7 => .txNotifyCh | 8 => .timer | n => .loc n

def bpOf (kind chan : Nat) (flag : Bool) : BP :=
  match kind with
  | 0 => .ctxSelect
  | 1 => .sleep flag
  | 2 => .send (chanOf chan) flag
  | 3 => .recv (chanOf chan) flag
  | 4 => .errSend
  | 5 => .lock chan flag
  | 6 => .join flag
  | 7 => .spawn
  | _ => .join false   -- a kind this model does not know: unguarded

abbrev RawPoint := Nat × Nat × Nat × Bool

def progOf (pts : List RawPoint) (loop : Nat) : List BP :=
  (pts.filter fun p => p.1 == loop).map fun p => bpOf p.2.1 p.2.2.1 p.2.2.2

def progsOf (pts : List RawPoint) (workers : List Nat) : List (List BP) := workers.map (progOf pts)

/-- the signal channels of the manager all have capacity 1 (block/manager.go); the three capacities that matter are
regenerated -/
def capOf (e h d : Nat) : Chan → Nat
  | .errCh => e | .headerInCh => h | .dataInCh => d | _ => 1

/-- the raw points that are not guarded; every plain (blocking) send on `errCh` is listed too, since whether it can
park its worker for ever depends on the other writers of `errCh` -/
def unguardedRaw (pts : List RawPoint) : List RawPoint :=
  pts.filter fun p => let b := bpOf p.2.1 p.2.2.1 p.2.2.2; !(b.guarded && b != .errSend)

/-! ## Lock nesting (round 6, after seed C13-H: `updateState` calls `GetLastState` while holding `lastStateMtx`)

The table `lockNesting` of the regenerated facts lists, for every critical section of every mutex the loops lock, the
mutexes acquired INSIDE it (Lock or RLock, directly or through followed calls): edges *held → acquired*.
`sync.Mutex` / `sync.RWMutex` are not re-entrant, so an edge `m → m` parks the goroutine on itself, and a cycle
`a → b → a` lets two goroutines park on each other; neither is woken by a cancelled context.

`lock m free` of the table above is enabled iff `free`; since this round the extractor sets `free` only if BOTH hold:
no critical section of `m` contains another parking operation (old condition), and `m` is not on a nesting cycle (nor is
anything acquired inside its sections).  What that flag stands for is the theorem `Spec.C13.lock_progress` about the
sub-model below: mutexes with holders, workers that acquire according to a nesting table. -/
namespace Locks

abbrev Nest := List (Nat × Nat)

/-- no edge `m → m` -/
def noSelf (nest : Nest) : Bool := nest.all fun e => e.1 != e.2

/-- position of `m` in the order `rank` (`rank.length` if absent) -/
def pos (rank : List Nat) (m : Nat) : Nat := rank.idxOf m

/-- `rank` is a topological order of `nest`: both ends of every edge occur in it, the held mutex strictly before the
acquired one.  (Implies `noSelf` and acyclicity: `ranked_acyclic`.) -/
def ranked (rank : List Nat) (nest : Nest) : Bool :=
  nest.all fun e => decide (pos rank e.1 < pos rank e.2) && decide (pos rank e.2 < rank.length)

/-- `b` can be reached from `a` along at least one and at most `fuel + 1` edges -/
def reach (nest : Nest) : Nat → Nat → Nat → Bool
  | 0, a, b => nest.any fun e => e.1 == a && e.2 == b
  | fuel + 1, a, b => nest.any fun e => e.1 == a && (e.2 == b || reach nest fuel e.2 b)

/-- `m` is on a cycle of the nesting relation (a self edge included) -/
def onCycle (nest : Nest) (m : Nat) : Bool := reach nest nest.length m m

/-- the whole relation is acyclic -/
def acyclic (nest : Nest) : Bool := nest.all fun e => !onCycle nest e.1

/-- a worker of the lock sub-model: the mutexes it holds (innermost first) and the one it is parked on, if any -/
structure LW where
  held : List Nat := []
  want : Option Nat := none
  left : Nat := 0          -- acquisitions it may still start (the budget of the table above)
  deriving DecidableEq, Repr, Inhabited

inductive LAct
  | acquire (i m : Nat)   -- worker i reaches `m.Lock()` / `m.RLock()`: allowed by the table only if every mutex it holds
                          -- has an edge to m
  | grant (i : Nat)       -- the runtime hands the wanted mutex to worker i: only if NOBODY holds it (a reader behind a
                          -- pending writer waits like a writer: all acquisitions are taken as exclusive)
  | release (i : Nat)     -- worker i leaves its innermost critical section (`free`: nothing else parks it in there)
  deriving DecidableEq, Repr, Inhabited

def heldBy (ws : List LW) (m : Nat) : Bool := ws.any fun w => w.held.contains m

def lstep (nest : Nest) (ws : List LW) : LAct → Option (List LW)
  | .acquire i m =>
    match ws[i]? with
    | none => none
    | some w =>
      if w.want = none ∧ 0 < w.left ∧ (w.held.all fun h => nest.contains (h, m)) = true then
        some (ws.set i { w with want := some m, left := w.left - 1 })
      else none
  | .grant i =>
    match ws[i]? with
    | none => none
    | some w =>
      match w.want with
      | none => none
      | some m => if heldBy ws m then none else some (ws.set i { w with held := m :: w.held, want := none })
  | .release i =>
    match ws[i]? with
    | none => none
    | some w =>
      match w.want, w.held with
      | none, _ :: rest => some (ws.set i { w with held := rest })
      | _, _ => none

inductive LReach (nest : Nest) (init : List LW) : List LW → Prop
  | init : LReach nest init init
  | step {ws ws' : List LW} (a : LAct) : LReach nest init ws → lstep nest ws a = some ws' → LReach nest init ws'

/-- nobody holds or wants a mutex -/
def quiet (ws : List LW) : Bool := ws.all fun w => w.held.isEmpty && w.want.isNone

/-- a start state: nobody holds or wants anything (budgets arbitrary) -/
def fresh (ws : List LW) : Bool := quiet ws

/-- the runtime and the holders can do something: some `grant` or `release` is enabled -/
def canMove (nest : Nest) (ws : List LW) : Prop :=
  ∃ i, (lstep nest ws (.grant i)).isSome = true ∨ (lstep nest ws (.release i)).isSome = true

def lwμ (w : LW) : Nat := 3 * w.left + (if w.want.isSome then 2 else 0) + w.held.length

def lμ : List LW → Nat
  | [] => 0
  | w :: ws => lwμ w + lμ ws

def lexec (nest : Nest) : List LW → List LAct → Option (List LW)
  | ws, [] => some ws
  | ws, a :: as => match lstep nest ws a with
    | none => none
    | some ws' => lexec nest ws' as

end Locks

end Shutdown
