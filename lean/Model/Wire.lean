import Model.Bytes
import Model.Sha256

/-!
# proto3 wire format as used by `types/serialization.go` (via protobuf-go)

Raw layer: varints, tags, the four non-group wire types as values, groups are
consumed (and dropped as unknown fields) exactly as `protowire.ConsumeFieldValue`
does.  Typed layer: one `fields`/`ofFields` pair per message of
`proto/evnode/v1/evnode.proto`, mirroring `ToProto`/`FromProto`.
-/

namespace Wire

/-- value of one non-group field -/
inductive WVal
  | varint (n : Nat)
  | i64 (b : Bytes)
  | len (b : Bytes)
  | i32 (b : Bytes)
  deriving Repr, DecidableEq, Inhabited

abbrev Field := Nat × WVal

/-- base-128 little-endian groups, at most `fuel + 1` bytes (structural, so the kernel can evaluate it) -/
def encVarintF : Nat → Nat → Bytes
  | 0, n => [n.toUInt8]
  | f+1, n => if n < 128 then [n.toUInt8] else (n % 128 + 128).toUInt8 :: encVarintF f (n / 128)

/-- `protowire.AppendVarint` for a `uint64`: at most 10 bytes. -/
def encVarint (n : Nat) : Bytes := encVarintF 9 n

/-- `protowire.ConsumeVarint`: at most 10 bytes, the 10th must be 0 or 1. `fuel` = bytes still allowed. -/
def decVarintAux : Nat → Bytes → Option (Nat × Bytes)
  | 0, _ => none
  | _+1, [] => none
  | fuel+1, b :: rest =>
    if b.toNat < 128 then
      (if fuel = 0 ∧ 1 < b.toNat then none else some (b.toNat, rest))
    else match decVarintAux fuel rest with
      | some (hi, rest') => some (b.toNat - 128 + 128 * hi, rest')
      | none => none

def decVarint (bs : Bytes) : Option (Nat × Bytes) := decVarintAux 10 bs

def encField : Field → Bytes
  | (k, .varint n) => encVarint (k * 8) ++ encVarint n
  | (k, .i64 b) => encVarint (k * 8 + 1) ++ b
  | (k, .len b) => encVarint (k * 8 + 2) ++ encVarint b.length ++ b
  | (k, .i32 b) => encVarint (k * 8 + 5) ++ b

def encFields (fs : List Field) : Bytes := fs.flatMap encField

def maxFieldNum : Nat := 536870911  -- 2^29 - 1

/-- Consume the value of a field whose tag (number `num`, wire type `wt`) has been read.
Returns the value (`none` for a skipped group) and the rest.  `fuel` bounds group nesting
and the number of fields inside groups; callers pass the input length + 1. -/
def consumeValue : Nat → Nat → Nat → Bytes → Option (Option WVal × Bytes)
  | 0, _, _, _ => none
  | fuel+1, num, wt, bs =>
    if wt = 0 then
      match decVarint bs with
      | some (v, r) => some (some (.varint v), r)
      | none => none
    else if wt = 1 then
      (if 8 ≤ bs.length then some (some (.i64 (bs.take 8)), bs.drop 8) else none)
    else if wt = 2 then
      match decVarint bs with
      | some (l, r) => if l ≤ r.length then some (some (.len (r.take l)), r.drop l) else none
      | none => none
    else if wt = 5 then
      (if 4 ≤ bs.length then some (some (.i32 (bs.take 4)), bs.drop 4) else none)
    else if wt = 3 then
      -- start group: consume fields until the matching end-group tag
      match consumeGroup fuel num bs with
      | some r => some (none, r)
      | none => none
    else none
where
  consumeGroup : Nat → Nat → Bytes → Option Bytes
  | 0, _, _ => none
  | fuel+1, num, bs =>
    match decVarint bs with
    | none => none
    | some (tag, r) =>
      let n := tag / 8
      let wt := tag % 8
      if n = 0 ∨ maxFieldNum < n then none
      else if wt = 4 then (if n = num then some r else none)
      else match consumeValue fuel n wt r with
        | some (_, r') => consumeGroup fuel num r'
        | none => none

/-- Top-level message parse: list of (number, value) in wire order; groups dropped. -/
def decFieldsAux : Nat → Bytes → Option (List Field)
  | 0, bs => if bs.isEmpty then some [] else none
  | fuel+1, bs =>
    if bs.isEmpty then some [] else
    match decVarint bs with
    | none => none
    | some (tag, r) =>
      let n := tag / 8
      let wt := tag % 8
      if n = 0 ∨ maxFieldNum < n then none
      else match consumeValue (r.length + 1) n wt r with
        | none => none
        | some (v, r') =>
          match decFieldsAux fuel r' with
          | none => none
          | some fs => some (match v with | some v => (n, v) :: fs | none => fs)

def decFields (bs : Bytes) : Option (List Field) := decFieldsAux bs.length bs

/-! ### field selectors (protobuf-go semantics: last scalar wins, messages merge, repeated append;
a known number with another wire type is an unknown field and is ignored) -/

def pickVarint (k : Nat) : Field → Option Nat
  | (k', .varint n) => if k' = k then some n else none
  | _ => none

def pickLen (k : Nat) : Field → Option Bytes
  | (k', .len b) => if k' = k then some b else none
  | _ => none

def getVarint (k : Nat) (fs : List Field) : Nat := ((fs.filterMap (pickVarint k)).getLast?).getD 0
def getLen (k : Nat) (fs : List Field) : Bytes := ((fs.filterMap (pickLen k)).getLast?).getD []
def getRep (k : Nat) (fs : List Field) : List Bytes := fs.filterMap (pickLen k)

/-- optional emitters (proto3: default values are not written) -/
def optV (k v : Nat) : List Field := if v = 0 then [] else [(k, .varint v)]
def optB (k : Nat) (b : Bytes) : List Field := if b = [] then [] else [(k, .len b)]

def utf8 (s : String) : Bytes := s.toUTF8.data.toList
def ofUtf8? (b : Bytes) : Option String := String.fromUTF8? ⟨b.toArray⟩

/-! ### typed messages -/

structure Version where
  block : Nat := 0
  app : Nat := 0
  deriving Repr, DecidableEq, Inhabited

structure Header where
  version : Version := {}
  height : Nat := 0
  time : Nat := 0
  lastHeaderHash : Bytes := []
  lastCommitHash : Bytes := []
  dataHash : Bytes := []
  consensusHash : Bytes := []
  appHash : Bytes := []
  lastResultsHash : Bytes := []
  proposerAddress : Bytes := []
  validatorHash : Bytes := []
  chainId : String := ""
  deriving Repr, DecidableEq, Inhabited

/-- `pb.Signer` as the conversions see it: `FromProto` keeps the signer only when a public key is
present; `ToProto` writes an empty `Signer{}` when there is none. -/
structure Signer where
  address : Bytes := []
  pubKey : Bytes := []     -- marshalled libp2p public key; `[]` = no key
  deriving Repr, DecidableEq, Inhabited

structure SignedHeader where
  header : Header := {}
  signature : Bytes := []
  signer : Signer := {}
  deriving Repr, DecidableEq, Inhabited

structure Metadata where
  chainId : String := ""
  height : Nat := 0
  time : Nat := 0
  lastDataHash : Bytes := []
  deriving Repr, DecidableEq, Inhabited

structure Data where
  metadata : Option Metadata := none
  txs : List Bytes := []
  deriving Repr, DecidableEq, Inhabited

structure SignedData where
  data : Data := {}
  signature : Bytes := []
  signer : Signer := {}
  deriving Repr, DecidableEq, Inhabited

def Version.fields (v : Version) : List Field := optV 1 v.block ++ optV 2 v.app
def Version.ofFields (fs : List Field) : Version := { block := getVarint 1 fs, app := getVarint 2 fs }
def Version.encode (v : Version) : Bytes := encFields v.fields
def Version.decode (bs : Bytes) : Option Version := (decFields bs).map Version.ofFields

/-- all occurrences of message field `k` must parse with `dec`; the value is the parse of their
concatenation (protobuf merge semantics); absent → `dflt`. -/
def getMsg {α : Type} (k : Nat) (dec : Bytes → Option α) (fs : List Field) : Option (Option α) :=
  let occ := getRep k fs
  if occ.isEmpty then some none
  else if occ.all (fun p => (dec p).isSome) then (dec occ.flatten).map some else none

def Header.fields (h : Header) : List Field :=
  [(1, .len h.version.encode)] ++ optV 2 h.height ++ optV 3 h.time ++ optB 4 h.lastHeaderHash ++
  optB 5 h.lastCommitHash ++ optB 6 h.dataHash ++ optB 7 h.consensusHash ++ optB 8 h.appHash ++
  optB 9 h.lastResultsHash ++ optB 10 h.proposerAddress ++ optB 11 h.validatorHash ++
  optB 12 (utf8 h.chainId)

def Header.encode (h : Header) : Bytes := encFields h.fields

def Header.decode (bs : Bytes) : Option Header :=
  match decFields bs with
  | none => none
  | some fs =>
    match getMsg 1 Version.decode fs, ofUtf8? (getLen 12 fs) with
    | some v, some cid =>
      if (getRep 12 fs).all (fun b => (ofUtf8? b).isSome) then
        some { version := v.getD {}, height := getVarint 2 fs, time := getVarint 3 fs,
               lastHeaderHash := getLen 4 fs, lastCommitHash := getLen 5 fs, dataHash := getLen 6 fs,
               consensusHash := getLen 7 fs, appHash := getLen 8 fs, lastResultsHash := getLen 9 fs,
               proposerAddress := getLen 10 fs, validatorHash := getLen 11 fs, chainId := cid }
      else none
    | _, _ => none

def Signer.fields (s : Signer) : List Field :=
  if s.pubKey = [] then [] else optB 1 s.address ++ optB 2 s.pubKey
def Signer.encode (s : Signer) : Bytes := encFields s.fields
/-- raw pb.Signer -/
def Signer.decodeRaw (bs : Bytes) : Option Signer :=
  (decFields bs).map fun fs => { address := getLen 1 fs, pubKey := getLen 2 fs }
/-- what `FromProto` keeps -/
def Signer.canon (s : Signer) : Signer := if s.pubKey = [] then {} else s

def SignedHeader.fields (sh : SignedHeader) : List Field :=
  [(1, .len sh.header.encode)] ++ optB 2 sh.signature ++ [(3, .len sh.signer.encode)]
def SignedHeader.encode (sh : SignedHeader) : Bytes := encFields sh.fields

/-- `proto.Unmarshal` + `FromProto`.  `none` = any error (wire error, nil header).  The libp2p
public-key parse is a parameter `keyOk` (modelled, not verified): a non-empty key that does not
parse is an error. -/
def SignedHeader.decode (keyOk : Bytes → Bool) (bs : Bytes) : Option SignedHeader :=
  match decFields bs with
  | none => none
  | some fs =>
    match getMsg 1 Header.decode fs, getMsg 3 Signer.decodeRaw fs with
    | some (some h), some sg =>
      let s := (sg.getD {})
      if s.pubKey ≠ [] ∧ ¬ keyOk s.pubKey then none
      else some { header := h, signature := getLen 2 fs, signer := s.canon }
    | _, _ => none

def Metadata.fields (m : Metadata) : List Field :=
  optB 1 (utf8 m.chainId) ++ optV 2 m.height ++ optV 3 m.time ++ optB 4 m.lastDataHash
def Metadata.encode (m : Metadata) : Bytes := encFields m.fields
def Metadata.decode (bs : Bytes) : Option Metadata :=
  match decFields bs with
  | none => none
  | some fs =>
    match ofUtf8? (getLen 1 fs) with
    | some cid =>
      if (getRep 1 fs).all (fun b => (ofUtf8? b).isSome) then
        some { chainId := cid, height := getVarint 2 fs, time := getVarint 3 fs, lastDataHash := getLen 4 fs }
      else none
    | none => none

def Data.fields (d : Data) : List Field :=
  (match d.metadata with | some m => [(1, .len m.encode)] | none => []) ++
  d.txs.map (fun t => (2, .len t))
def Data.encode (d : Data) : Bytes := encFields d.fields
def Data.decode (bs : Bytes) : Option Data :=
  match decFields bs with
  | none => none
  | some fs =>
    match getMsg 1 Metadata.decode fs with
    | some m => some { metadata := m, txs := getRep 2 fs }
    | none => none

def SignedData.fields (sd : SignedData) : List Field :=
  [(1, .len sd.data.encode)] ++ optB 2 sd.signature ++ [(3, .len sd.signer.encode)]
def SignedData.encode (sd : SignedData) : Bytes := encFields sd.fields
/-- `FromProto` leaves `Data` at its zero value when the field is absent. -/
def SignedData.decode (keyOk : Bytes → Bool) (bs : Bytes) : Option SignedData :=
  match decFields bs with
  | none => none
  | some fs =>
    match getMsg 1 Data.decode fs, getMsg 3 Signer.decodeRaw fs with
    | some d, some sg =>
      let s := (sg.getD {})
      if s.pubKey ≠ [] ∧ ¬ keyOk s.pubKey then none
      else some { data := d.getD {}, signature := getLen 2 fs, signer := s.canon }
    | _, _ => none

/-! ### hashes (`types/hashing.go`) -/

def Header.hash (h : Header) : Bytes := sha256 h.encode
def Data.hash (d : Data) : Bytes := sha256 (0 :: d.encode)
def Data.daCommitment (d : Data) : Bytes := sha256 (0 :: ({ txs := d.txs } : Data).encode)
/-- `dataHashForEmptyTxs` -/
def emptyDataHash : Bytes := ({} : Data).daCommitment

end Wire
