import Model.Producer

/-!
# The sync loop of a non-producing node (`block/sync.go`): `SyncLoop` event cases,
`trySyncNextBlock`, `handleEmptyDataHash`, and start-up of a node without signer.
-/

namespace Sync
open Wire Chain

structure Cfg where
  chainId : String
  initialHeight : Nat
  genesisTime : Nat
  proposerAddr : Bytes
  genesisRoot : Bytes := Bytes.ofString "genesis-root"
  deriving Repr, Inhabited

/-- in-memory state of the syncing manager -/
structure FNode where
  store : Store := {}
  lastState : State := {}
  hdrCache : List (Nat × SHeader) := []      -- `headerCache.items` by height (latest `SetItem` first)
  datCache : List (Nat × Data) := []         -- `dataCache.items` by height
  seenH : List Bytes := []                   -- `headerCache.hashes` (header hash)
  seenD : List Bytes := []                   -- `dataCache.hashes` (data **commitment**: ignores metadata)
  alive : Bool := true                       -- `SyncLoop` returns (and reports on errCh) on a validation / execution error
  deriving Repr, Inhabited

def getH (n : FNode) (h : Nat) : Option SHeader := (n.hdrCache.find? (·.1 = h)).map (·.2)
def getD (n : FNode) (h : Nat) : Option Data := (n.datCache.find? (·.1 = h)).map (·.2)

inductive ExecResp | ok | fail
  deriving Repr, DecidableEq, Inhabited

/-- `handleEmptyDataHash` -/
def emptyDataFor (n : FNode) (h : Header) : Option Data :=
  if h.dataHash = emptyDataHash then
    let ldh : Bytes :=
      if h.height > 1 then
        match n.store.getBlock (h.height - 1) with
        | some b => b.data.hash
        | none => []
      else []
    some { metadata := some { chainId := h.chainId, height := h.height, time := h.time, lastDataHash := ldh }, txs := [] }
  else none

/-- the tail of one iteration of `trySyncNextBlock` once the block has been validated: execute it, then save
block, state, chain height -/
def applyBlock (n : FNode) (sh : SHeader) (d : Data) (ex : ExecResp) : FNode × List SW × Bool :=
  let h := n.store.height + 1
  match ex with
  | .fail => ({ n with alive := false }, [], false)
  | .ok =>
    let root := execRoot n.lastState.appHash d.txs
    let st' := nextState n.lastState sh.hdr root
    -- the block is saved before the state that says it was applied
    let w1 := SW.saveBlock sh.hdr.height { sh := sh, data := d, savedSig := sh.sig }
    let s1 := n.store.apply w1
    let w2 := SW.updateState st'
    let s2 := s1.apply w2
    let w3 := setHeightW s2 sh.hdr.height
    let s3 := s2.applyAll w3
    ({ n with store := s3, lastState := st',
              hdrCache := n.hdrCache.filter (·.1 ≠ h), datCache := n.datCache.filter (·.1 ≠ h),
              seenD := if sh.hdr.dataHash = emptyDataHash then n.seenD else sh.hdr.dataHash :: n.seenD,
              seenH := sh.hdr.hash :: n.seenH },
     [w1, w2] ++ w3, true)

/-- the cached data of the next height does not belong to the (well-formed, signed) header `sh`: it is dropped and
the node keeps waiting (`return nil`); for an empty block — which needs no data event — the local data is rebuilt
(`handleEmptyDataHash` again) and the loop `continue`s: the next iteration reads the same header and the rebuilt data -/
def dropMismatch (n : FNode) (sh : SHeader) (ex : ExecResp) : FNode × List SW × Bool :=
  let h := n.store.height + 1
  let n1 := { n with datCache := n.datCache.filter (·.1 ≠ h) }
  match emptyDataFor n1 sh.hdr with
  | none => (n1, [], false)
  | some d' =>
    let n2 := { n1 with datCache := (sh.hdr.height, d') :: n1.datCache }
    match getD n2 h with
    | none => (n2, [], false)
    | some d2 =>
      match execValidate n2.lastState sh d2 with
      | none => applyBlock n2 sh d2 ex
      | some _ => ({ n2 with alive := false }, [], false)

/-- one iteration of the loop body of `trySyncNextBlock`; `none` = nothing to do (header or data missing) -/
def applyNext (n : FNode) (ex : ExecResp) : Option (FNode × List SW × Bool) :=
  let h := n.store.height + 1
  match getH n h, getD n h with
  | some sh, some d =>
    match execValidate n.lastState sh d with
    | none => some (applyBlock n sh d ex)
    | some _ =>
      -- Data received over P2P is not authenticated: when the header is well-formed and it is the cached DATA that
      -- does not belong to it, the data is dropped (it used to terminate the loop)
      if validateBasic sh = none ∧ validateData sh d ≠ none then some (dropMismatch n sh ex)
      else some ({ n with alive := false }, [], false)                 -- "failed to validate block": the loop dies
  | _, _ => none

/-- `trySyncNextBlock`: apply as many consecutive cached blocks as possible -/
def trySync : Nat → FNode → List SW → FNode × List SW
  | 0, n, ws => (n, ws)
  | fuel+1, n, ws =>
    match applyNext n .ok with
    | none => (n, ws)
    | some (n', ws', cont) => if cont then trySync fuel n' (ws ++ ws') else (n', ws ++ ws')

/-- `case headerEvent := <-m.headerInCh` -/
def onHeader (n : FNode) (sh : SHeader) : FNode × List SW :=
  if !n.alive then (n, []) else
  let hash := sh.hdr.hash
  if sh.hdr.height ≤ n.store.height ∨ hash ∈ n.seenH then (n, [])
  else
    let n1 := { n with hdrCache := (sh.hdr.height, sh) :: n.hdrCache }
    let n2 := match emptyDataFor n1 sh.hdr with
      | some d => { n1 with datCache := (sh.hdr.height, d) :: n1.datCache }
      | none => n1
    let (n3, ws) := trySync (n2.hdrCache.length + 1) n2 []
    if n3.alive then ({ n3 with seenH := hash :: n3.seenH }, ws) else (n3, ws)

/-- `case dataEvent := <-m.dataInCh` -/
def onData (n : FNode) (d : Data) : FNode × List SW :=
  if !n.alive then (n, []) else
  match d.metadata with
  | none => (n, [])
  | some m =>
    if d.txs.isEmpty then (n, [])
    else
      let dc := d.daCommitment
      if dc ∈ n.seenD then (n, [])
      else if m.height ≤ n.store.height then (n, [])
      else
        let n1 := { n with datCache := (m.height, d) :: n.datCache }
        -- the commitment is marked as seen only when the block is applied (`applyBlock`), not here: an unauthenticated
        -- item that copies the transactions of a block must not make the genuine data count as already seen
        trySync (n1.hdrCache.length + 1) n1 []

/-- genesis block a node without signer writes at start-up; read back from the store its signer is empty
(`FromProto` keeps a signer only when a key is present) -/
def genesisBlock (c : Cfg) : Block :=
  let hdr : Header := { appHash := c.genesisRoot, dataHash := emptyDataHash, proposerAddress := c.proposerAddr,
                        chainId := c.chainId, height := c.initialHeight, time := c.genesisTime }
  { sh := { hdr := hdr, sig := .none, signer := {} }, data := {}, savedSig := .none }

/-- `NewManager` without signer on a durable image; caches as loaded from the cache files -/
def start (c : Cfg) (disk : Store) (caches : FNode := {}) : Option (FNode × List SW) :=
  let r : Option (State × Store × List SW) :=
    match disk.state with
    | none =>
      let w := SW.saveBlock c.initialHeight (genesisBlock c)
      some ({ chainId := c.chainId, initialHeight := c.initialHeight, lastHeight := c.initialHeight - 1,
              lastTime := c.genesisTime, appHash := c.genesisRoot, daHeight := 0 }, disk.apply w, [w])
    | some s => if c.initialHeight > s.lastHeight then none else some (s, disk, [])
  match r with
  | none => none
  | some (s, d1, ws1) =>
    let ws2 := setHeightW d1 s.lastHeight
    let d2 := d1.applyAll ws2
    -- `NewManager` raises both DA-submission watermarks to initialHeight - 1 (fix 6924f89), on every kind of node
    match Producer.wmOf d2 Producer.hdrWmKey, Producer.wmOf d2 Producer.dataWmKey with
    | some hw, some dw =>
      let base := c.initialHeight - 1
      let wh : List SW := if c.initialHeight > 1 ∧ base > hw then [.setMeta Producer.hdrWmKey (le64 base)] else []
      let d3 := d2.applyAll wh
      let wd : List SW := if c.initialHeight > 1 ∧ base > dw then [.setMeta Producer.dataWmKey (le64 base)] else []
      let d4 := d3.applyAll wd
      some ({ caches with store := d4, lastState := s, alive := true }, ws1 ++ ws2 ++ wh ++ wd)
    | _, _ => none

/-- the first thing `SyncLoop` does: apply what the caches loaded at start-up already allow (after a crash the cache
files of an earlier clean stop are older than the store) -/
def loopStart (n : FNode) : FNode × List SW := trySync (n.hdrCache.length + 1) n []

/-- `NewManager` followed by the start of `SyncLoop` -/
def boot (c : Cfg) (disk : Store) (caches : FNode := {}) : Option (FNode × List SW) :=
  match start c disk caches with
  | none => none
  | some (n, ws) => some ((loopStart n).1, ws ++ (loopStart n).2)

end Sync
