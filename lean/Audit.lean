import Lean
open Lean

/-!
`lake env lean --run Audit.lean Spec.C12 [Spec.C14 …]`

Prints, for every theorem declared in the given modules, one line
`THEOREM <module> <name> axioms=<comma separated, sorted>` computed from the compiled
environment (`Lean.collectAxioms`), plus `DEF`/`OTHER` counts.  The check script refuses any
axiom outside {propext, Classical.choice, Quot.sound}.
-/

unsafe def main (args : List String) : IO UInt32 := do
  initSearchPath (← findSysroot)
  let mods := args.map String.toName
  let env ← importModules (mods.toArray.map fun m => { module := m }) {} (trustLevel := 1024) (loadExts := false)
  let mut rc : UInt32 := 0
  for m in mods do
    match env.getModuleIdx? m with
    | none => IO.eprintln s!"module {m} not found"; rc := 1
    | some idx =>
      let names := env.header.moduleData[idx.toNat]!.constNames
      for n in names do
        if n.isInternal then continue
        match env.find? n with
        | some (.thmInfo _) =>
          let kind := if env.isProjectionFn n then "PROJECTION" else "THEOREM"   -- fields of a Prop-valued structure
          let (axs, _) ← ((collectAxioms n : CoreM (Array Name)).toIO
            { fileName := "<audit>", fileMap := default } { env := env })
          let l := (axs.toList.map toString).mergeSort
          IO.println s!"{kind} {m} {n} axioms={String.intercalate "," l}"
        | some (.axiomInfo _) => IO.println s!"AXIOM {m} {n}"
        | _ => pure ()
  return rc
