import Drv.Submit

def main : IO UInt32 := do
  Drv.loop (← IO.getStdin) (← IO.getStdout) ({} : Drv.Sub.St) Drv.Sub.step
  return 0
