import Proofs.Crash

/-!
# The production step for any signer (`Producer.publishB`)

`publishB` is what the driver executes.  With the genesis proposer's own key it *is* `publish`; with a foreign key
(`signerAddr ≠ proposerAddr`) no step ever commits: chain height and state stay what they are, for ever.
-/
namespace Producer
open Wire Chain

/-- with the genesis proposer's own key the step is `publish` -/
theorem publishB_eq {c : Cfg} (h : c.signerAddr = c.proposerAddr) (n : Node) (r : SeqResp) (e : ExecResp) :
    publishB c n r e = publish c n r e := by
  simp [publishB, h]

/-- a run of the producer with any signer -/
def runB (c : Cfg) (n : Node) (rs : List (SeqResp × ExecResp)) : Node :=
  rs.foldl (fun n r => (publishB c n r.1 r.2).1) n

theorem runB_eq {c : Cfg} (h : c.signerAddr = c.proposerAddr) (n : Node) (rs : List (SeqResp × ExecResp)) :
    runB c n rs = run c n rs := by
  induction rs generalizing n with
  | nil => rfl
  | cons r rs ih =>
    show runB c (publishB c n r.1 r.2).1 rs = run c (publish c n r.1 r.2).1 rs
    rw [publishB_eq h, ih]

/-- a step that does not answer `ok` leaves chain height and state alone -/
theorem publish_not_ok {c : Cfg} {n : Node} (hl : Live c n) (r : SeqResp) (e : ExecResp)
    (h : (publish c n r e).2.2 ≠ .ok) :
    (publish c n r e).1.store.height = n.store.height ∧ (publish c n r e).1.lastState = n.lastState := by
  obtain ⟨pre, hpre, hsh⟩ := publish_shape hl r e
  obtain ⟨_, a2, _, _⟩ := harmless_applyAll hl hpre
  rcases hsh with ⟨_, b2, b3, _⟩ | ⟨_, _, _, _, _, b6⟩
  · exact ⟨by rw [b2]; exact a2, b3⟩
  · exact absurd b6 h

theorem publishB_live {c : Cfg} {n : Node} (hl : Live c n) (r : SeqResp) (e : ExecResp) :
    Live c (publishB c n r e).1 := by
  unfold publishB
  split
  · exact publish_live hl r e
  · split
    · exact hl
    · exact publish_live hl r e

/-- **a foreign signer never commits**: whatever the answers, no step returns `ok`, chain height and state stay -/
theorem publishB_foreign {c : Cfg} {n : Node} (hl : Live c n) (hf : c.signerAddr ≠ c.proposerAddr)
    (r : SeqResp) (e : ExecResp) :
    (publishB c n r e).2.2 ≠ .ok ∧ (publishB c n r e).1.store.height = n.store.height ∧
    (publishB c n r e).1.lastState = n.lastState := by
  unfold publishB
  rw [if_neg hf]
  split
  · exact ⟨by simp, rfl, rfl⟩
  · rename_i hno
    have hne : (publish c n r e).2.2 ≠ .ok := by
      intro hok
      exact hno (publish c n r e).1 (publish c n r e).2.1 (by rw [← hok])
    exact ⟨hne, publish_not_ok hl r e hne⟩

theorem runB_live {c : Cfg} {n : Node} (hl : Live c n) (rs : List (SeqResp × ExecResp)) : Live c (runB c n rs) := by
  induction rs generalizing n with
  | nil => exact hl
  | cons r rs ih => exact ih (publishB_live hl r.1 r.2)

theorem runB_foreign {c : Cfg} {n : Node} (hl : Live c n) (hf : c.signerAddr ≠ c.proposerAddr)
    (rs : List (SeqResp × ExecResp)) :
    (runB c n rs).store.height = n.store.height ∧ (runB c n rs).lastState = n.lastState := by
  induction rs generalizing n with
  | nil => exact ⟨rfl, rfl⟩
  | cons r rs ih =>
    obtain ⟨_, h1, h2⟩ := publishB_foreign hl hf r.1 r.2
    obtain ⟨a, b⟩ := ih (publishB_live hl r.1 r.2)
    exact ⟨by rw [← h1]; exact a, by rw [← h2]; exact b⟩

end Producer
