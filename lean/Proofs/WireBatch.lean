import Model.Producer
import Proofs.WireVarint

/-! # C12 helpers: the batch-cursor list codec (`convertBatchDataToBytes` / `bytesToBatchData`) -/
namespace Producer

theorem le_length (k n : Nat) : (Bytes.le k n).length = k := by
  induction k generalizing n with
  | zero => simp [Bytes.le]
  | succ k ih => simp [Bytes.le, ih]

theorem unLe_le (k n : Nat) : Bytes.unLe (Bytes.le k n) = n % 256 ^ k := by
  induction k generalizing n with
  | zero => simp [Bytes.le, Bytes.unLe, Nat.mod_one]
  | succ k ih =>
    simp only [Bytes.le, Bytes.unLe, ih, Wire.toUInt8_toNat (Nat.mod_lt n (by decide : 0 < 256))]
    rw [Nat.pow_succ, Nat.mul_comm (256 ^ k) 256, Nat.mod_mul]

theorem unLe_lt (b : Bytes) : Bytes.unLe b < 256 ^ b.length := by
  induction b with
  | nil => simp [Bytes.unLe]
  | cons x r ih =>
    have := x.toNat_lt
    simp only [Bytes.unLe, List.length_cons, Nat.pow_succ]
    omega

theorem le_unLe (b : Bytes) : Bytes.le b.length (Bytes.unLe b) = b := by
  induction b with
  | nil => simp [Bytes.le]
  | cons x r ih =>
    have hx := x.toNat_lt
    have e1 : (x.toNat + 256 * Bytes.unLe r) % 256 = x.toNat := by omega
    have e2 : (x.toNat + 256 * Bytes.unLe r) / 256 = Bytes.unLe r := by omega
    simp only [List.length_cons, Bytes.le, Bytes.unLe, e1, e2, ih]
    simp [Nat.toUInt8]

theorem batchDataToBytes_cons (d : Bytes) (bd : List Bytes) :
    batchDataToBytes (d :: bd) = Bytes.le 4 d.length ++ (d ++ batchDataToBytes bd) := by
  simp [batchDataToBytes]

theorem batch_aux_enc (bd : List Bytes) (h : ∀ d ∈ bd, d.length < 2 ^ 32) (fuel : Nat) (hf : bd.length ≤ fuel) :
    bytesToBatchDataAux fuel (batchDataToBytes bd) = some bd := by
  induction bd generalizing fuel with
  | nil => cases fuel <;> simp [bytesToBatchDataAux, batchDataToBytes]
  | cons d bd ih =>
    cases fuel with
    | zero => simp at hf
    | succ fuel =>
      have hd := h d (by simp)
      have hl := le_length 4 d.length
      rw [batchDataToBytes_cons]
      have hne : (Bytes.le 4 d.length ++ (d ++ batchDataToBytes bd)).isEmpty = false := by
        cases hh : Bytes.le 4 d.length ++ (d ++ batchDataToBytes bd) with
        | nil => have := congrArg List.length hh; simp [hl] at this
        | cons _ _ => rfl
      have hlen : ¬ (Bytes.le 4 d.length ++ (d ++ batchDataToBytes bd)).length < 4 := by
        simp [hl]
      have htake : (Bytes.le 4 d.length ++ (d ++ batchDataToBytes bd)).take 4 = Bytes.le 4 d.length := by
        rw [List.take_append_of_le_length (by omega)]; exact List.take_of_length_le (by omega)
      have hdrop : (Bytes.le 4 d.length ++ (d ++ batchDataToBytes bd)).drop 4 = d ++ batchDataToBytes bd := by
        rw [List.drop_append_of_le_length (by omega), List.drop_of_length_le (by omega)]; rfl
      have hn : Bytes.unLe (Bytes.le 4 d.length) = d.length := by
        rw [unLe_le]; exact Nat.mod_eq_of_lt (by omega)
      rw [bytesToBatchDataAux, hne]
      simp only [Bool.false_eq_true, ↓reduceIte, hlen, htake, hdrop, hn]
      have hr : ¬ (d ++ batchDataToBytes bd).length < d.length := by simp
      simp only [hr, ↓reduceIte, List.drop_left, List.take_left]
      rw [ih (fun x hx => h x (by simp [hx])) fuel (by simpa using hf)]

theorem batchDataToBytes_length_ge (bd : List Bytes) : bd.length ≤ (batchDataToBytes bd).length := by
  induction bd with
  | nil => simp [batchDataToBytes]
  | cons d bd ih => rw [batchDataToBytes_cons]; simp [le_length]; omega

/-- round trip -/
theorem bytesToBatchData_enc (bd : List Bytes) (h : ∀ d ∈ bd, d.length < 2 ^ 32) :
    bytesToBatchData (batchDataToBytes bd) = some bd :=
  batch_aux_enc bd h _ (batchDataToBytes_length_ge bd)

/-- what the decoder accepts is exactly the encoding of what it returns -/
theorem batch_aux_dec (fuel : Nat) (bs : Bytes) (l : List Bytes) (h : bytesToBatchDataAux fuel bs = some l) :
    batchDataToBytes l = bs ∧ ∀ d ∈ l, d.length < 2 ^ 32 := by
  induction fuel generalizing bs l with
  | zero =>
    simp only [bytesToBatchDataAux] at h
    split at h
    · rename_i he
      simp only [Option.some.injEq] at h; subst h
      simp [batchDataToBytes, List.isEmpty_iff.mp he]
    · simp at h
  | succ fuel ih =>
    simp only [bytesToBatchDataAux] at h
    split at h
    · rename_i he
      simp only [Option.some.injEq] at h; subst h
      simp [batchDataToBytes, List.isEmpty_iff.mp he]
    · split at h
      · simp at h
      · rename_i h4
        split at h
        · simp at h
        · rename_i hn
          split at h
          · rename_i rest heq
            simp only [Option.some.injEq] at h; subst h
            have ⟨i1, i2⟩ := ih _ _ heq
            have htl : (bs.take 4).length = 4 := by simp; omega
            have hlt := unLe_lt (bs.take 4)
            rw [htl] at hlt
            have hdl : (bs.drop 4).length = bs.length - 4 := by simp
            have hlen : ((bs.drop 4).take (Bytes.unLe (bs.take 4))).length = Bytes.unLe (bs.take 4) := by
              simp; omega
            constructor
            · rw [batchDataToBytes_cons, i1, hlen, List.take_append_drop]
              have := le_unLe (bs.take 4)
              rw [htl] at this
              rw [this, List.take_append_drop]
            · intro d hd
              simp only [List.mem_cons] at hd
              rcases hd with rfl | hd
              · rw [hlen]; have : (256:Nat) ^ 4 = 2 ^ 32 := by decide
                omega
              · exact i2 d hd
          · simp at h

theorem bytesToBatchData_dec {bs : Bytes} {l : List Bytes} (h : bytesToBatchData bs = some l) :
    batchDataToBytes l = bs ∧ ∀ d ∈ l, d.length < 2 ^ 32 := batch_aux_dec _ _ _ h

end Producer
