import Proofs.SubmitCrash

/-! A failing write of the watermark (`store.SetMetadata` returns an error inside `setLastSubmittedHeight`):
`Submit.raiseWmF`, `submitLoopF`, `headersIterF`, `dataIterF` against the fault-free functions. -/
namespace Submit
open Wire Chain Producer

theorem ite_pair {α β : Type} (c : Prop) [Decidable c] (x y : α) (z : β) :
    (if c then (x, z) else (y, z)) = (if c then x else y, z) := by split <;> rfl

theorem raiseWmF_false (a : ANode) (d : Bool) (h : Nat) : raiseWmF false a d h = raiseWm a d h := by
  simp [raiseWmF]

/-- without faults the fault-aware loop is the loop -/
theorem submitLoopF_zero (d : Bool) (fuel : Nat) (a : ANode) (rem : List Item) (script : List DAAns) (ws : List SW)
    (calls : List SubmitCall) :
    submitLoopF d fuel 0 a rem script ws calls = (submitLoop d fuel a rem script ws calls, 0) := by
  induction fuel generalizing a rem script ws calls with
  | zero => rfl
  | succ f ih =>
    rw [submitLoopF, submitLoop]
    by_cases hr : rem.isEmpty
    · simp only [hr, if_true]
    · simp only [hr, Bool.false_eq_true, if_false]
      cases script.headD (.ok none) <;>
        simp only [Nat.lt_irrefl, decide_false, Bool.and_false, raiseWmF_false, Bool.false_eq_true, if_false, ih, ite_pair]

theorem headersIterF_zero (a : ANode) (script : List DAAns) : headersIterF 0 a script = (headersIter a script, 0) := by
  unfold headersIterF headersIter
  split
  · rfl
  · split
    · rfl
    · split
      · rfl
      · simp only [submitLoopF_zero]

theorem dataIterF_zero (a : ANode) (script : List DAAns) : dataIterF 0 a script = (dataIter a script, 0) := by
  unfold dataIterF dataIter
  split
  · rfl
  · split
    · rfl
    · split
      · rfl
      · simp only [submitLoopF_zero, Nat.lt_irrefl, decide_false, Bool.and_false, raiseWmF_false, Bool.false_eq_true, if_false, ite_pair]

end Submit

namespace Submit
open Wire Chain Producer

/-- **the raise with a failing persist**: memory exactly as without the fault; the store untouched, nothing written -/
theorem raiseWmF_fail (a : ANode) (d : Bool) (h : Nat) :
    (raiseWmF true a d h).1.n.hdrWm = (raiseWm a d h).1.n.hdrWm ∧
    (raiseWmF true a d h).1.n.dataWm = (raiseWm a d h).1.n.dataWm ∧
    (raiseWmF true a d h).1.n.store = a.n.store ∧ (raiseWmF true a d h).2 = [] ∧
    (raiseWmF true a d h).1.hMarks = a.hMarks ∧ (raiseWmF true a d h).1.dMarks = a.dMarks ∧
    (raiseWmF true a d h).1.daBlobs = a.daBlobs ∧ (raiseWmF true a d h).1.daInc = a.daInc := by
  unfold raiseWmF raiseWm
  cases d <;> simp <;> split <;> simp

/-- the behaviour of seeded change C06-I: a failed persist puts the in-memory value back; the values the in-memory
watermark takes during the call, in order -/
def rollbackTrace (a : ANode) (d : Bool) (h : Nat) : List Nat :=
  let cur := if d then a.n.dataWm else a.n.hdrWm
  if h > cur then [cur, h, cur] else [cur]

/-- and the node it leaves -/
def raiseWmRollback (fail : Bool) (a : ANode) (d : Bool) (h : Nat) : ANode × List SW :=
  if fail then (a, []) else raiseWm a d h

end Submit
