import Model.Shutdown

/-! Proofs about the shutdown protocol model (C13): after cancel every action strictly decreases `μ`;
under the static judgement `allGuarded` no reachable cancelled state short of the finished one is stuck. -/
namespace Shutdown

/-! ### measure -/

theorem wsμ_set (cfg : Cfg) (ws : List W) (i : Nat) (w w' : W) (k : Nat) (h : ws[i]? = some w)
    (hlt : wμ cfg w'.st + k < wμ cfg w.st) : wsμ cfg (ws.set i w') + k < wsμ cfg ws := by
  induction ws generalizing i with
  | nil => simp at h
  | cons x xs ih =>
    cases i with
    | zero =>
      simp at h
      subst h
      simp only [List.set_cons_zero, wsμ]
      omega
    | succ j =>
      simp at h
      have := ih j h
      simp only [List.set_cons_succ, wsμ]
      omega

theorem moveTo_le (cfg : Cfg) (prog : List BP) (avail : Nat) (mv : Move) (st' : WSt)
    (h : moveTo prog avail mv = some st') : wμ cfg st' ≤ 2 * avail + 1 := by
  cases mv with
  | ret => simp [moveTo] at h; subst h; simp [wμ]
  | next q =>
    simp only [moveTo] at h
    split at h
    · split at h
      · rename_i hq
        simp at h; subst h; simp [wμ, hq]
      · split at h
        · rename_i hq hpos
          simp at h; subst h; simp only [wμ, hq, if_false]; split <;> omega
        · simp at h
    · simp at h

theorem after_lt (cfg : Cfg) (prog : List BP) (st st' : WSt) (mv : Move)
    (h : after cfg true prog st mv = some st') : wμ cfg st' + stSpawns st < wμ cfg st := by
  cases st with
  | idle =>
    simp only [after] at h
    have := moveTo_le cfg _ _ _ _ h
    have e : wμ cfg .idle = 2 * cfg.budget + 3 := rfl
    rw [e]; simp only [stSpawns]; omega
  | done => simp [after] at h
  | «at» p left =>
    cases p with
    | errSend => simp [after] at h; subst h; simp [wμ, stSpawns]
    | ctxSelect => simp [after] at h; subst h; simp [wμ, stSpawns]
    | spawn =>
      simp only [after] at h
      have := moveTo_le cfg _ _ _ _ h
      have e : wμ cfg (.at .spawn left) = 2 * left + 3 := by simp [wμ]
      rw [e]; simp only [stSpawns]; omega
    | sleep b =>
      simp only [after] at h
      have := moveTo_le cfg _ _ _ _ h
      have e : wμ cfg (.at (.sleep b) left) = 2 * left + 2 := by simp [wμ]
      rw [e]; simp only [stSpawns]; omega
    | send ch g =>
      simp only [after] at h
      have := moveTo_le cfg _ _ _ _ h
      have e : wμ cfg (.at (.send ch g) left) = 2 * left + 2 := by simp [wμ]
      rw [e]; simp only [stSpawns]; omega
    | recv ch g =>
      simp only [after] at h
      have := moveTo_le cfg _ _ _ _ h
      have e : wμ cfg (.at (.recv ch g) left) = 2 * left + 2 := by simp [wμ]
      rw [e]; simp only [stSpawns]; omega
    | lock m f =>
      simp only [after] at h
      have := moveTo_le cfg _ _ _ _ h
      have e : wμ cfg (.at (.lock m f) left) = 2 * left + 2 := by simp [wμ]
      rw [e]; simp only [stSpawns]; omega
    | join ok =>
      simp only [after] at h
      have := moveTo_le cfg _ _ _ _ h
      have e : wμ cfg (.at (.join ok) left) = 2 * left + 2 := by simp [wμ]
      rw [e]; simp only [stSpawns]; omega

theorem step_cancelled (cfg : Cfg) (s s' : St) (a : Act) (hc : s.cancelled = true)
    (h : step cfg s a = some s') : s'.cancelled = true := by
  cases a with
  | work i mv =>
    simp only [step] at h
    split at h
    · simp at h
    · split at h
      · split at h
        · simp at h
        · simp at h; subst h; exact hc
      · simp at h
  | elapse i mv =>
    simp only [step] at h
    split at h
    · simp at h
    · split at h
      · split at h
        · simp at h
        · simp at h; subst h; exact hc
      · simp at h
  | runErr => simp only [step] at h; split at h <;> simp at h; subst h; rfl
  | runParent => simp only [step] at h; split at h <;> simp at h; subst h; rfl
  | join => simp only [step] at h; split at h <;> simp at h; subst h; exact hc
  | parentCancel => simp only [step] at h; split at h <;> simp at h; subst h; exact hc
  | orphanExit => simp only [step] at h; split at h <;> simp at h; subst h; exact hc

/-- after cancel EVERY action (the environment's included) strictly decreases the measure -/
theorem step_decreases (cfg : Cfg) (s s' : St) (a : Act) (hc : s.cancelled = true)
    (h : step cfg s a = some s') : μ cfg s' < μ cfg s := by
  cases a with
  | work i mv =>
    simp only [step] at h
    split at h
    · simp at h
    · rename_i w hw
      split at h
      · split at h
        · simp at h
        · rename_i st' hst
          simp at h; subst h
          rw [hc] at hst
          have h1 := after_lt cfg _ _ _ _ hst
          have := wsμ_set cfg s.ws i w { w with st := st' } (stSpawns w.st) hw h1
          simp only [μ]; omega
      · simp at h
  | elapse i mv =>
    simp only [step] at h
    split at h
    · simp at h
    · rename_i w hw
      split at h
      · rename_i left hst
        split at h
        · simp at h
        · rename_i st' hmv
          simp at h; subst h
          have h0 := moveTo_le cfg _ _ _ _ hmv
          have h1 : wμ cfg st' + 0 < wμ cfg w.st := by
            have e : wμ cfg (.at (.sleep false) left) = 2 * left + 2 := by simp [wμ]
            rw [hst, e]; omega
          have := wsμ_set cfg s.ws i w { w with st := st' } 0 hw h1
          simp only [μ]; omega
      · simp at h
  | runErr =>
    simp only [step] at h
    split at h
    · rename_i hp
      simp at h; subst h
      simp only [μ, hp.1, phaseμ]; omega
    · simp at h
  | runParent =>
    simp only [step] at h
    split at h
    · rename_i hp
      simp at h; subst h
      simp only [μ, hp.1, phaseμ]; omega
    · simp at h
  | join =>
    simp only [step] at h
    split at h
    · rename_i hp
      simp at h; subst h
      simp only [μ, hp.1, phaseμ]; omega
    · simp at h
  | parentCancel =>
    simp only [step] at h
    split at h
    · rename_i hp
      simp at h; subst h
      simp [μ, hp]
    · simp at h
  | orphanExit =>
    simp only [step] at h
    split at h
    · rename_i hp
      simp at h; subst h
      simp only [μ]; omega
    · simp at h

theorem exec_cancelled (cfg : Cfg) (as : List Act) (s s' : St) (hc : s.cancelled = true)
    (h : exec cfg s as = some s') : s'.cancelled = true := by
  induction as generalizing s with
  | nil => simp [exec] at h; subst h; exact hc
  | cons a as ih =>
    simp only [exec] at h
    split at h
    · simp at h
    · rename_i s1 h1
      exact ih s1 (step_cancelled cfg s s1 a hc h1) h

/-- after cancel every execution is finite: at most `μ s` further actions can happen, whatever the schedule -/
theorem exec_bounded (cfg : Cfg) (as : List Act) (s s' : St) (hc : s.cancelled = true)
    (h : exec cfg s as = some s') : as.length + μ cfg s' ≤ μ cfg s := by
  induction as generalizing s with
  | nil => simp [exec] at h; subst h; simp
  | cons a as ih =>
    simp only [exec] at h
    split at h
    · simp at h
    · rename_i s1 h1
      have hd := step_decreases cfg s s1 a hc h1
      have := ih s1 (step_cancelled cfg s s1 a hc h1) h
      simp only [List.length_cons]; omega

/-! ### static judgement and invariant -/

def noPlainErr (progs : List (List BP)) : Bool := progs.all fun p => !p.contains .errSend
def noSelErr (progs : List (List BP)) : Bool :=
  progs.all fun p => !(p.contains (.send .errCh true) || p.contains (.send .errCh false))

/-- judgement used by the theorems: every point guarded and either nobody writes `errCh` with a plain send, or
`errCh` is written by plain terminal sends only and has room for all of those workers -/
def safeTable (cfg : Cfg) (progs : List (List BP)) : Bool :=
  progs.all (fun p => p.all BP.guarded) &&
  (noPlainErr progs || (noSelErr progs && decide (errSenders progs ≤ cfg.cap .errCh)))

def errLive (ws : List W) : Nat := ws.countP fun w => w.st != .done && w.prog.contains .errSend

structure Inv (cfg : Cfg) (progs : List (List BP)) (s : St) : Prop where
  progsOf : ∀ w ∈ s.ws, w.prog ∈ progs
  atIn : ∀ w ∈ s.ws, ∀ p left, w.st = .at p left → p ∈ w.prog
  phase : s.cancelled = true → s.phase ≠ .waiting
  err : noPlainErr progs = true ∨ errLive s.ws + s.lvl .errCh ≤ cfg.cap .errCh
  orph : s.orphans = 0

theorem errLive_init (progs : List (List BP)) :
    errLive (progs.map fun p => ({ prog := p, st := .idle } : W)) = errSenders progs := by
  induction progs with
  | nil => rfl
  | cons p ps ih =>
    simp only [errLive, errSenders, List.map_cons, List.countP_cons] at ih ⊢
    rw [ih]
    simp

theorem inv_init (cfg : Cfg) (progs : List (List BP)) (hs : safeTable cfg progs = true) :
    Inv cfg progs (initSt progs) := by
  refine ⟨?_, ?_, ?_, ?_, rfl⟩
  · intro w hw
    simp only [initSt, List.mem_map] at hw
    obtain ⟨p, hp, rfl⟩ := hw
    exact hp
  · intro w hw p left hst
    simp only [initSt, List.mem_map] at hw
    obtain ⟨q, _, rfl⟩ := hw
    simp at hst
  · intro h; simp [initSt] at h
  · simp only [safeTable, Bool.and_eq_true, Bool.or_eq_true, decide_eq_true_eq] at hs
    rcases hs.2 with h | h
    · exact Or.inl h
    · right
      simp only [initSt]
      rw [errLive_init]
      omega

theorem moveTo_mem (prog : List BP) (avail : Nat) (mv : Move) (q : BP) (l : Nat)
    (h : moveTo prog avail mv = some (.at q l)) : q ∈ prog := by
  cases mv with
  | ret => simp [moveTo] at h
  | next r =>
    simp only [moveTo] at h
    split at h
    · rename_i hr
      split at h
      · simp at h; rw [← h.1]; exact hr
      · split at h
        · simp at h; rw [← h.1]; exact hr
        · simp at h
    · simp at h

theorem after_mem (cfg : Cfg) (c : Bool) (prog : List BP) (st : WSt) (mv : Move) (q : BP) (l : Nat)
    (h : after cfg c prog st mv = some (.at q l)) : q ∈ prog := by
  cases st with
  | idle => exact moveTo_mem _ _ _ _ _ h
  | done => simp [after] at h
  | «at» p left =>
    cases p with
    | errSend => simp [after] at h
    | ctxSelect =>
      simp only [after] at h
      split at h
      · simp at h
      · exact moveTo_mem _ _ _ _ _ h
    | sleep b => exact moveTo_mem _ _ _ _ _ h
    | send ch g => exact moveTo_mem _ _ _ _ _ h
    | recv ch g => exact moveTo_mem _ _ _ _ _ h
    | lock m f => exact moveTo_mem _ _ _ _ _ h
    | join ok => exact moveTo_mem _ _ _ _ _ h
    | spawn => exact moveTo_mem _ _ _ _ _ h

theorem countP_set_le {α} (p : α → Bool) (l : List α) (i : Nat) (a : α) (hi : i < l.length)
    (h : p a = true → p l[i] = true) : List.countP p (l.set i a) ≤ List.countP p l := by
  rw [List.countP_set hi]
  cases hp : p l[i] with
  | false =>
    have : p a = false := by
      cases ha : p a with
      | false => rfl
      | true => rw [h ha] at hp; exact absurd hp (by simp)
    simp [this]
  | true =>
    have hpos : 0 < List.countP p l := List.countP_pos_iff.mpr ⟨l[i], List.getElem_mem hi, hp⟩
    cases p a <;> simp <;> omega

theorem countP_set_dec {α} (p : α → Bool) (l : List α) (i : Nat) (a : α) (hi : i < l.length)
    (hp : p l[i] = true) (ha : p a = false) : List.countP p (l.set i a) + 1 = List.countP p l := by
  rw [List.countP_set hi]
  have hpos : 0 < List.countP p l := List.countP_pos_iff.mpr ⟨l[i], List.getElem_mem hi, hp⟩
  simp [hp, ha]; omega

def isErrLive (w : W) : Bool := w.st != .done && w.prog.contains .errSend

theorem errLive_eq (ws : List W) : errLive ws = ws.countP isErrLive := rfl

theorem lt_of_getElem? {α} (l : List α) (i : Nat) (a : α) (h : l[i]? = some a) : ∃ hi : i < l.length, l[i] = a := by
  rcases Nat.lt_or_ge i l.length with h' | h'
  · refine ⟨h', ?_⟩
    rw [List.getElem?_eq_getElem h'] at h; simpa using h
  · rw [List.getElem?_eq_none h'] at h; simp at h

theorem errLive_set_le (ws : List W) (i : Nat) (w : W) (st' : WSt) (h : ws[i]? = some w) (hl : w.st ≠ .done) :
    errLive (ws.set i { w with st := st' }) ≤ errLive ws := by
  obtain ⟨hi, hget⟩ := lt_of_getElem? _ _ _ h
  rw [errLive_eq, errLive_eq]
  apply countP_set_le _ _ _ _ hi
  rw [hget]
  intro ha
  unfold isErrLive at ha ⊢
  rw [Bool.and_eq_true] at ha ⊢
  refine ⟨?_, ha.2⟩
  cases hw : w.st with
  | done => exact absurd hw hl
  | idle => rfl
  | «at» p l => rfl

theorem errLive_set_done (ws : List W) (i : Nat) (w : W) (h : ws[i]? = some w) (hl : w.st ≠ .done)
    (hc : .errSend ∈ w.prog) : errLive (ws.set i { w with st := .done }) + 1 = errLive ws := by
  obtain ⟨hi, hget⟩ := lt_of_getElem? _ _ _ h
  rw [errLive_eq, errLive_eq]
  apply countP_set_dec _ _ _ _ hi
  · rw [hget]
    unfold isErrLive
    rw [Bool.and_eq_true]
    refine ⟨?_, List.contains_iff_mem.mpr hc⟩
    cases hw : w.st with
    | done => exact absurd hw hl
    | idle => rfl
    | «at» p l => rfl
  · rfl

theorem mem_of_getElem? {α} (l : List α) (i : Nat) (a : α) (h : l[i]? = some a) : a ∈ l :=
  List.mem_of_getElem? h

/-- an operation other than the plain error send does not raise the level of `errCh` unless it is a select-send
on `errCh` -/
theorem opEffect_err (cfg : Cfg) (lvl : Chan → Nat) (p : BP) (hp : p ≠ .errSend)
    (h1 : p ≠ .send .errCh true) (h2 : p ≠ .send .errCh false) :
    opEffect cfg lvl p .errCh ≤ lvl .errCh := by
  cases p with
  | errSend => exact absurd rfl hp
  | ctxSelect => simp [opEffect]
  | sleep b => simp [opEffect]
  | send ch g =>
    have hch : ch ≠ .errCh := by
      intro h; subst h; cases g
      · exact h2 rfl
      · exact h1 rfl
    simp only [opEffect]
    split
    · simp only [inc]
      split
      · rename_i he; exact absurd he.symm hch
      · exact Nat.le_refl _
    · exact Nat.le_refl _
  | recv ch g =>
    simp only [opEffect]
    split
    · simp only [dec]; split <;> omega
    · exact Nat.le_refl _
  | lock m f => simp [opEffect]
  | join ok => simp [opEffect]
  | spawn => simp [opEffect]

theorem inv_step (cfg : Cfg) (progs : List (List BP)) (hs : safeTable cfg progs = true)
    (s s' : St) (a : Act) (hinv : Inv cfg progs s) (h : step cfg s a = some s') : Inv cfg progs s' := by
  have hsel : noPlainErr progs = true ∨ noSelErr progs = true := by
    simp only [safeTable, Bool.and_eq_true, Bool.or_eq_true] at hs
    rcases hs.2 with h | h
    · exact Or.inl h
    · exact Or.inr h.1
  cases a with
  | work i mv =>
    simp only [step] at h
    split at h
    · simp at h
    · rename_i w hw
      have hwm := mem_of_getElem? _ _ _ hw
      split at h
      · rename_i hen
        split at h
        · simp at h
        · rename_i st' hst
          simp at h; subst h
          refine ⟨?_, ?_, hinv.phase, ?_, ?_⟩
          rotate_right
          · -- no orphan is created: a `spawn` point would be an unguarded point of the table
            simp only
            have h0 : stSpawns w.st = 0 := by
              cases hcur : w.st with
              | idle => rfl
              | done => rfl
              | «at» p left =>
                cases p with
                | spawn =>
                  have hpin := hinv.atIn w hwm _ left hcur
                  have hprog := hinv.progsOf w hwm
                  simp only [safeTable, Bool.and_eq_true, List.all_eq_true] at hs
                  have := hs.1 _ hprog _ hpin
                  simp [BP.guarded] at this
                | _ => rfl
            rw [h0, hinv.orph]
          · intro x hx
            rcases List.mem_or_eq_of_mem_set hx with hx | hx
            · exact hinv.progsOf x hx
            · subst hx; exact hinv.progsOf w hwm
          · intro x hx p left hp
            rcases List.mem_or_eq_of_mem_set hx with hx | hx
            · exact hinv.atIn x hx p left hp
            · subst hx
              simp only at hp
              rw [hp] at hst
              exact after_mem _ _ _ _ _ _ _ hst
          · rcases hinv.err with he | he
            · exact Or.inl he
            · rcases hsel with hn | hn
              · exact Or.inl hn
              · right
                simp only
                have hlive : w.st ≠ .done := by
                  intro hd; rw [hd] at hst; simp [after] at hst
                cases hcur : w.st with
                | idle =>
                  simp only [stEffect]
                  have := errLive_set_le s.ws i w st' hw hlive
                  omega
                | done => exact absurd hcur hlive
                | «at» p left =>
                  simp only [stEffect]
                  have hpin := hinv.atIn w hwm p left hcur
                  by_cases hpe : p = .errSend
                  · subst hpe
                    rw [hcur] at hst
                    simp [after] at hst
                    subst hst
                    have := errLive_set_done s.ws i w hw hlive hpin
                    simp only [opEffect, inc]
                    simp
                    omega
                  · have hle := errLive_set_le s.ws i w st' hw hlive
                    have hprog := hinv.progsOf w hwm
                    simp only [noSelErr, List.all_eq_true] at hn
                    have hnp := hn _ hprog
                    simp only [Bool.not_eq_true', Bool.or_eq_false_iff] at hnp
                    have h1 : p ≠ .send .errCh true := by
                      intro hh; subst hh
                      have : (w.prog.contains (.send .errCh true)) = true := by simpa using hpin
                      rw [this] at hnp; simp at hnp
                    have h2 : p ≠ .send .errCh false := by
                      intro hh; subst hh
                      have : (w.prog.contains (.send .errCh false)) = true := by simpa using hpin
                      rw [this] at hnp; simp at hnp
                    have := opEffect_err cfg s.lvl p hpe h1 h2
                    omega
      · simp at h
  | elapse i mv =>
    simp only [step] at h
    split at h
    · simp at h
    · rename_i w hw
      have hwm := mem_of_getElem? _ _ _ hw
      split at h
      · rename_i left hcur
        split at h
        · simp at h
        · rename_i st' hmv
          simp at h; subst h
          refine ⟨?_, ?_, hinv.phase, ?_, hinv.orph⟩
          · intro x hx
            rcases List.mem_or_eq_of_mem_set hx with hx | hx
            · exact hinv.progsOf x hx
            · subst hx; exact hinv.progsOf w hwm
          · intro x hx p l hp
            rcases List.mem_or_eq_of_mem_set hx with hx | hx
            · exact hinv.atIn x hx p l hp
            · subst hx
              simp only at hp
              rw [hp] at hmv
              exact moveTo_mem _ _ _ _ _ hmv
          · rcases hinv.err with he | he
            · exact Or.inl he
            · right
              have hlive : w.st ≠ .done := by rw [hcur]; simp
              have := errLive_set_le s.ws i w st' hw hlive
              simp only; omega
      · simp at h
  | runErr =>
    simp only [step] at h
    split at h
    · simp at h; subst h
      refine ⟨hinv.progsOf, hinv.atIn, by simp, ?_, hinv.orph⟩
      rcases hinv.err with he | he
      · exact Or.inl he
      · right; simp only [dec]; simp; omega
    · simp at h
  | runParent =>
    simp only [step] at h
    split at h
    · simp at h; subst h
      exact ⟨hinv.progsOf, hinv.atIn, by simp, hinv.err, hinv.orph⟩
    · simp at h
  | join =>
    simp only [step] at h
    split at h
    · simp at h; subst h
      exact ⟨hinv.progsOf, hinv.atIn, by simp, hinv.err, hinv.orph⟩
    · simp at h
  | parentCancel =>
    simp only [step] at h
    split at h
    · simp at h; subst h
      exact ⟨hinv.progsOf, hinv.atIn, hinv.phase, hinv.err, hinv.orph⟩
    · simp at h
  | orphanExit =>
    simp only [step] at h
    split at h
    · rename_i hp
      rw [hinv.orph] at hp
      exact absurd hp (Nat.lt_irrefl 0)
    · simp at h

theorem inv_reach (cfg : Cfg) (progs : List (List BP)) (hs : safeTable cfg progs = true) (s : St)
    (hr : Reach cfg progs s) : Inv cfg progs s := by
  induction hr with
  | init => exact inv_init cfg progs hs
  | step a _ hstep ih => exact inv_step cfg progs hs _ _ a ih hstep

/-! ### progress -/

theorem reach_exec (cfg : Cfg) (progs : List (List BP)) (as : List Act) (s s' : St)
    (hr : Reach cfg progs s) (h : exec cfg s as = some s') : Reach cfg progs s' := by
  induction as generalizing s with
  | nil => simp [exec] at h; subst h; exact hr
  | cons a as ih =>
    simp only [exec] at h
    split at h
    · simp at h
    · rename_i s1 h1
      exact ih s1 (Reach.step a hr h1) h

theorem exists_live (ws : List W) (h : allDone ws = false) :
    ∃ (i : Nat) (w : W), ws[i]? = some w ∧ w.st ≠ WSt.done := by
  induction ws with
  | nil => simp [allDone] at h
  | cons x xs ih =>
    by_cases hx : x.st = .done
    · have : allDone xs = false := by
        simp only [allDone, List.all_cons, hx] at h ⊢
        simpa using h
      obtain ⟨i, w, hi, hw⟩ := ih this
      exact ⟨i + 1, w, by simpa using hi, hw⟩
    · exact ⟨0, x, rfl, hx⟩

theorem after_ret (cfg : Cfg) (prog : List BP) (st : WSt) (h : st ≠ .done) :
    after cfg true prog st .ret = some .done := by
  cases st with
  | idle => rfl
  | done => exact absurd rfl h
  | «at» p left => cases p <;> rfl

/-- under the static judgement, a cancelled reachable state that is not the finished one always has an enabled
action of the node itself: nothing waits for the environment, nothing waits for ever -/
theorem progress (cfg : Cfg) (progs : List (List BP)) (hs : safeTable cfg progs = true) (s : St)
    (hinv : Inv cfg progs s) (hc : s.cancelled = true) (hnf : finished s = false) :
    ∃ a s', a.isEnv = false ∧ step cfg s a = some s' := by
  cases had : allDone s.ws with
  | true =>
    have hph : s.phase = .joining := by
      have h1 := hinv.phase hc
      have h2 : s.phase ≠ .returned := by
        intro h; simp [finished, had, h, hinv.orph] at hnf
      cases hp : s.phase with
      | waiting => exact absurd hp h1
      | joining => rfl
      | returned => exact absurd hp h2
    exact ⟨.join, { s with phase := .returned }, rfl, by simp [step, hph, had]⟩
  | false =>
    obtain ⟨i, w, hi, hw⟩ := exists_live s.ws had
    have hwm := mem_of_getElem? _ _ _ hi
    have hen : stEnabled cfg s.lvl w.st = true := by
      cases hst : w.st with
      | idle => rfl
      | done => exact absurd hst hw
      | «at» p left =>
        have hpin := hinv.atIn w hwm p left hst
        have hprog := hinv.progsOf w hwm
        simp only [safeTable, Bool.and_eq_true, List.all_eq_true] at hs
        have hg : p.guarded = true := hs.1 _ hprog p hpin
        simp only [stEnabled]
        cases p with
        | ctxSelect => rfl
        | sleep b => simp [BP.guarded] at hg
        | send ch g => simp only [BP.guarded] at hg; simp [opEnabled, hg]
        | recv ch g => simp only [BP.guarded] at hg; simp [opEnabled, hg]
        | lock m f => simpa [BP.guarded, opEnabled] using hg
        | join ok => simpa [BP.guarded, opEnabled] using hg
        | spawn => rfl
        | errSend =>
          simp only [opEnabled, decide_eq_true_eq]
          rcases hinv.err with he | he
          · simp only [noPlainErr, List.all_eq_true] at he
            have := he _ hprog
            have hc' : w.prog.contains BP.errSend = true := List.contains_iff_mem.mpr hpin
            rw [hc'] at this; simp at this
          · have hpos : 0 < errLive s.ws := by
              rw [errLive_eq]
              apply List.countP_pos_iff.mpr
              refine ⟨w, hwm, ?_⟩
              unfold isErrLive
              rw [Bool.and_eq_true]
              exact ⟨by rw [hst]; rfl, List.contains_iff_mem.mpr hpin⟩
            omega
    refine ⟨.work i .ret, { s with ws := s.ws.set i { w with st := .done }, lvl := stEffect cfg s.lvl w.st,
                                   orphans := s.orphans + stSpawns w.st }, rfl, ?_⟩
    simp only [step, hi, hen, hc, after_ret cfg w.prog w.st hw]
    rfl

/-- from every cancelled reachable state the node can finish by its own actions alone -/
theorem can_finish (cfg : Cfg) (progs : List (List BP)) (hs : safeTable cfg progs = true) (n : Nat) (s : St)
    (hr : Reach cfg progs s) (hc : s.cancelled = true) (hn : μ cfg s ≤ n) :
    ∃ as s', (∀ a ∈ as, a.isEnv = false) ∧ exec cfg s as = some s' ∧ finished s' = true := by
  induction n generalizing s with
  | zero =>
    cases hf : finished s with
    | true => exact ⟨[], s, by simp, rfl, hf⟩
    | false =>
      obtain ⟨a, s1, _, h1⟩ := progress cfg progs hs s (inv_reach cfg progs hs s hr) hc hf
      have := step_decreases cfg s s1 a hc h1
      omega
  | succ n ih =>
    cases hf : finished s with
    | true => exact ⟨[], s, by simp, rfl, hf⟩
    | false =>
      obtain ⟨a, s1, ha, h1⟩ := progress cfg progs hs s (inv_reach cfg progs hs s hr) hc hf
      have hd := step_decreases cfg s s1 a hc h1
      obtain ⟨as, s2, has, hex, hfin⟩ := ih s1 (Reach.step a hr h1) (step_cancelled cfg s s1 a hc h1) (by omega)
      refine ⟨a :: as, s2, ?_, ?_, hfin⟩
      · intro b hb
        rcases List.mem_cons.mp hb with hb | hb
        · subst hb; exact ha
        · exact has b hb
      · simp [exec, h1, hex]

/-- discipline on the error channel: either nobody does a plain (blocking) `errCh <- err` - all error reports are
non-blocking select-sends - or `errCh` is written by plain terminal sends only.  A mix is unsafe whatever the
capacity: a non-blocking report can take the room a blocking one counted on (`Spec.C13.mixedErr_witness`). -/
def errDisciplined (progs : List (List BP)) : Bool := noPlainErr progs || noSelErr progs

/-- `allGuarded` (the statement of the property's clause) implies the judgement the proofs use -/
theorem safe_of_allGuarded (cfg : Cfg) (progs : List (List BP)) (hd : errDisciplined progs = true)
    (h : allGuarded cfg progs = true) : safeTable cfg progs = true := by
  simp only [allGuarded, Bool.and_eq_true] at h
  simp only [errDisciplined, Bool.or_eq_true] at hd
  simp only [safeTable, Bool.and_eq_true, Bool.or_eq_true]
  rcases hd with hd | hd
  · exact ⟨h.1, Or.inl hd⟩
  · exact ⟨h.1, Or.inr ⟨hd, h.2⟩⟩

/-! ### a worker parked in an unbounded sleep stays there whatever the node does -/

theorem getElem?_set_ne' {α} (l : List α) (i j : Nat) (a : α) (h : j ≠ i) : (l.set j a)[i]? = l[i]? := by
  simp [h]

theorem sleep_parked_step (cfg : Cfg) (s s' : St) (i : Nat) (w : W) (left : Nat) (a : Act)
    (hi : s.ws[i]? = some w) (hst : w.st = .at (.sleep false) left) (ha : a.isEnv = false)
    (h : step cfg s a = some s') : ∃ w', s'.ws[i]? = some w' ∧ w'.st = .at (.sleep false) left := by
  cases a with
  | work j mv =>
    by_cases hj : j = i
    · subst hj
      simp [step, hi, hst, stEnabled, opEnabled] at h
    · simp only [step] at h
      split at h
      · simp at h
      · split at h
        · split at h
          · simp at h
          · simp at h; subst h
            exact ⟨w, by simp only; rw [getElem?_set_ne' _ _ _ _ hj]; exact hi, hst⟩
        · simp at h
  | elapse j mv => simp [Act.isEnv] at ha
  | parentCancel => simp [Act.isEnv] at ha
  | orphanExit => simp [Act.isEnv] at ha
  | runErr =>
    simp only [step] at h
    split at h
    · simp at h; subst h; exact ⟨w, hi, hst⟩
    · simp at h
  | runParent =>
    simp only [step] at h
    split at h
    · simp at h; subst h; exact ⟨w, hi, hst⟩
    · simp at h
  | join =>
    simp only [step] at h
    split at h
    · simp at h; subst h; exact ⟨w, hi, hst⟩
    · simp at h

theorem not_allDone_of_live (ws : List W) (i : Nat) (w : W) (hi : ws[i]? = some w) (hl : w.st ≠ .done) :
    allDone ws = false := by
  cases h : allDone ws with
  | false => rfl
  | true =>
    simp only [allDone, List.all_eq_true] at h
    have := h w (mem_of_getElem? _ _ _ hi)
    simp at this
    exact absurd this hl

/-- **a worker asleep in `time.Sleep(d)` with `d` not tied to the context never returns by the node's own actions:**
no schedule of node actions reaches the finished state -/
theorem sleep_never_returns (cfg : Cfg) (as : List Act) (s s' : St) (i : Nat) (w : W) (left : Nat)
    (hi : s.ws[i]? = some w) (hst : w.st = .at (.sleep false) left)
    (has : ∀ a ∈ as, a.isEnv = false) (h : exec cfg s as = some s') : finished s' = false := by
  induction as generalizing s w with
  | nil =>
    simp [exec] at h; subst h
    have := not_allDone_of_live s.ws i w hi (by rw [hst]; simp)
    simp [finished, this]
  | cons a as ih =>
    simp only [exec] at h
    split at h
    · simp at h
    · rename_i s1 h1
      obtain ⟨w', hi', hst'⟩ := sleep_parked_step cfg s s1 i w left a hi hst (has a (List.mem_cons_self)) h1
      exact ih s1 w' hi' hst' (fun b hb => has b (List.mem_cons_of_mem _ hb)) h

/-! ### lock nesting (round 6) -/
namespace Locks

/-- a ranking of the mutexes along which every nesting edge strictly rises -/
def Ranked (rk : Nat → Nat) (nest : Nest) : Prop := ∀ a b, (a, b) ∈ nest → rk a < rk b

theorem ranked_Ranked (rank : List Nat) (nest : Nest) (h : ranked rank nest = true) : Ranked (pos rank) nest := by
  intro a b hab
  have := (List.all_eq_true.mp h) (a, b) hab
  simp at this
  exact this.1

theorem reach_rises (rk : Nat → Nat) (nest : Nest) (hr : Ranked rk nest) :
    ∀ fuel a b, reach nest fuel a b = true → rk a < rk b := by
  intro fuel
  induction fuel with
  | zero =>
    intro a b h
    simp only [reach, List.any_eq_true, Bool.and_eq_true, beq_iff_eq] at h
    obtain ⟨⟨x, y⟩, hm, h1, h2⟩ := h
    simp at h1 h2; subst h1; subst h2
    exact hr _ _ hm
  | succ n ih =>
    intro a b h
    simp only [reach, List.any_eq_true, Bool.and_eq_true, Bool.or_eq_true, beq_iff_eq] at h
    obtain ⟨⟨x, y⟩, hm, h1, h2⟩ := h
    simp at h1; subst h1
    rcases h2 with h2 | h2
    · simp at h2; subst h2; exact hr _ _ hm
    · have := ih y b h2
      have := hr _ _ hm
      omega

/-- a ranked relation has no mutex on a cycle (in particular no self edge) -/
theorem ranked_acyclic (rk : Nat → Nat) (nest : Nest) (hr : Ranked rk nest) (m : Nat) : onCycle nest m = false := by
  cases h : onCycle nest m with
  | false => rfl
  | true => exact absurd (reach_rises rk nest hr _ m m h) (Nat.lt_irrefl _)

/-- invariant of the lock sub-model: the mutex a worker waits for ranks above everything it holds -/
def LInv (rk : Nat → Nat) (ws : List LW) : Prop :=
  ∀ w ∈ ws, ∀ m, w.want = some m → ∀ h ∈ w.held, rk h < rk m

theorem mem_set_cases {α} (l : List α) (i : Nat) (x y : α) (h : y ∈ l.set i x) : y = x ∨ y ∈ l := by
  induction l generalizing i with
  | nil => simp at h
  | cons a as ih =>
    cases i with
    | zero => simp at h; rcases h with h | h <;> simp [h]
    | succ j =>
      simp at h
      rcases h with h | h
      · simp [h]
      · rcases ih j h with h | h <;> simp [h]

theorem linv_step (rk : Nat → Nat) (nest : Nest) (hr : Ranked rk nest) (ws ws' : List LW) (a : LAct)
    (hi : LInv rk ws) (hs : lstep nest ws a = some ws') : LInv rk ws' := by
  cases a with
  | acquire i m =>
    simp only [lstep] at hs
    split at hs
    · simp at hs
    · rename_i w hw
      split at hs
      · rename_i hc
        simp at hs; subst hs
        intro w' hw' m' hm' h hh
        rcases mem_set_cases _ _ _ _ hw' with e | e
        · subst e
          simp at hm'; subst hm'
          have := (List.all_eq_true.mp hc.2.2) h hh
          simp at this
          exact hr _ _ this
        · exact hi w' e m' hm' h hh
      · simp at hs
  | grant i =>
    simp only [lstep] at hs
    split at hs
    · simp at hs
    · rename_i w hw
      split at hs
      · simp at hs
      · split at hs
        · simp at hs
        · simp at hs; subst hs
          intro w' hw' m' hm' h hh
          rcases mem_set_cases _ _ _ _ hw' with e | e
          · subst e; simp at hm'
          · exact hi w' e m' hm' h hh
  | release i =>
    simp only [lstep] at hs
    split at hs
    · simp at hs
    · rename_i w hw
      split at hs
      · rename_i x rest hwant hheld
        simp at hs; subst hs
        intro w' hw' m' hm' h hh
        rcases mem_set_cases _ _ _ _ hw' with e | e
        · subst e; simp at hm'; rw [hwant] at hm'; simp at hm'
        · exact hi w' e m' hm' h hh
      · simp at hs

theorem linv_reach (rk : Nat → Nat) (nest : Nest) (hr : Ranked rk nest) (init ws : List LW)
    (h0 : fresh init = true) (h : LReach nest init ws) : LInv rk ws := by
  induction h with
  | init =>
    intro w hw m hm
    have := (List.all_eq_true.mp h0) w hw
    simp [hm] at this
  | step a _ hs ih => exact linv_step rk nest hr _ _ a ih hs

/-- a list has an element of maximal `f` -/
theorem exists_max {α} (f : α → Nat) : ∀ l : List α, l ≠ [] → ∃ x ∈ l, ∀ y ∈ l, f y ≤ f x := by
  intro l
  induction l with
  | nil => intro h; exact absurd rfl h
  | cons a as ih =>
    intro _
    cases as with
    | nil => exact ⟨a, by simp, by simp⟩
    | cons b bs =>
      obtain ⟨x, hx, hmax⟩ := ih (by simp)
      by_cases hle : f x ≤ f a
      · refine ⟨a, by simp, ?_⟩
        intro y hy
        simp at hy
        rcases hy with rfl | hy
        · exact Nat.le_refl _
        · have := hmax y (by simpa using hy); omega
      · refine ⟨x, List.mem_cons_of_mem _ hx, ?_⟩
        intro y hy
        simp at hy
        rcases hy with rfl | hy
        · omega
        · exact hmax y (by simpa using hy)

theorem release_enabled (nest : Nest) (ws : List LW) (i : Nat) (w : LW) (hw : ws[i]? = some w)
    (hwant : w.want = none) (hheld : w.held ≠ []) : (lstep nest ws (.release i)).isSome = true := by
  simp only [lstep, hw]
  cases hh : w.held with
  | nil => exact absurd hh hheld
  | cons x rest => simp [hwant]

theorem grant_enabled (nest : Nest) (ws : List LW) (i : Nat) (w : LW) (m : Nat) (hw : ws[i]? = some w)
    (hwant : w.want = some m) (hfree : heldBy ws m = false) : (lstep nest ws (.grant i)).isSome = true := by
  simp [lstep, hw, hwant, hfree]

/-- wanted rank + 1 (0 = wants nothing) -/
def wantRk (rk : Nat → Nat) (w : LW) : Nat := match w.want with | some m => rk m + 1 | none => 0

/-- **deadlock freedom under a lock order:** in a state satisfying the invariant, if anybody holds or wants a mutex, the
runtime can grant a request or a holder can release -/
theorem progress_of_inv (rk : Nat → Nat) (nest : Nest) (ws : List LW) (hi : LInv rk ws) (hq : quiet ws = false) :
    canMove nest ws := by
  have hne : ws ≠ [] := by intro h; subst h; simp [quiet] at hq
  obtain ⟨w, hw, hmax⟩ := exists_max (wantRk rk) ws hne
  obtain ⟨i, hi', hget⟩ := List.mem_iff_getElem.mp hw
  have hwi : ws[i]? = some w := by simp [List.getElem?_eq_getElem hi', hget]
  cases hwant : w.want with
  | none =>
    -- nobody wants anything: somebody holds with nothing wanted -> release
    have hall : ∀ y ∈ ws, y.want = none := by
      intro y hy
      have := hmax y hy
      cases hyw : y.want with
      | none => rfl
      | some m => simp [wantRk, hyw, hwant] at this
    have : ∃ y ∈ ws, y.held ≠ [] := by
      false_or_by_contra
      rename_i hcon
      have : quiet ws = true := by
        apply List.all_eq_true.mpr
        intro y hy
        have h1 := hall y hy
        have h2 : y.held = [] := by
          false_or_by_contra
          rename_i h2; exact hcon ⟨y, hy, h2⟩
        simp [h1, h2]
      rw [this] at hq; exact Bool.noConfusion hq
    obtain ⟨y, hy, hyh⟩ := this
    obtain ⟨j, hj, hgj⟩ := List.mem_iff_getElem.mp hy
    exact ⟨j, Or.inr (release_enabled nest ws j y (by simp [List.getElem?_eq_getElem hj, hgj]) (hall y hy) hyh)⟩
  | some m =>
    cases hb : heldBy ws m with
    | false => exact ⟨i, Or.inl (grant_enabled nest ws i w m hwi hwant hb)⟩
    | true =>
      simp only [heldBy, List.any_eq_true, List.contains_iff_mem] at hb
      obtain ⟨y, hy, hym⟩ := hb
      obtain ⟨j, hj, hgj⟩ := List.mem_iff_getElem.mp hy
      have hyj : ws[j]? = some y := by simp [List.getElem?_eq_getElem hj, hgj]
      cases hyw : y.want with
      | none =>
        exact ⟨j, Or.inr (release_enabled nest ws j y hyj hyw (by intro h; rw [h] at hym; simp at hym))⟩
      | some m' =>
        have h1 := hi y hy m' hyw m (by simpa using hym)
        have h2 := hmax y hy
        simp [wantRk, hyw, hwant] at h2
        omega

theorem lμ_set (ws : List LW) (i : Nat) (w w' : LW) (h : ws[i]? = some w) (hlt : lwμ w' < lwμ w) :
    lμ (ws.set i w') < lμ ws := by
  induction ws generalizing i with
  | nil => simp at h
  | cons x xs ih =>
    cases i with
    | zero => simp at h; subst h; simp only [List.set_cons_zero, lμ]; omega
    | succ j => simp at h; have := ih j h; simp only [List.set_cons_succ, lμ]; omega

/-- every step of the lock sub-model (the workers' `acquire` included) strictly decreases `lμ` -/
theorem lstep_decreases (nest : Nest) (ws ws' : List LW) (a : LAct) (hs : lstep nest ws a = some ws') :
    lμ ws' < lμ ws := by
  cases a with
  | acquire i m =>
    simp only [lstep] at hs
    split at hs
    · simp at hs
    · rename_i w hw
      split at hs
      · rename_i hc
        simp at hs; subst hs
        apply lμ_set _ _ w _ hw
        have := hc.1; have := hc.2.1
        simp [lwμ, *]; omega
      · simp at hs
  | grant i =>
    simp only [lstep] at hs
    split at hs
    · simp at hs
    · rename_i w hw
      split at hs
      · simp at hs
      · rename_i m hm
        split at hs
        · simp at hs
        · simp at hs; subst hs
          apply lμ_set _ _ w _ hw
          simp [lwμ, hm]
          omega
  | release i =>
    simp only [lstep] at hs
    split at hs
    · simp at hs
    · rename_i w hw
      split at hs
      · rename_i x rest hwant hheld
        simp at hs; subst hs
        apply lμ_set _ _ w _ hw
        simp [lwμ, hwant, hheld]
      · simp at hs

theorem lexec_bounded (nest : Nest) : ∀ (as : List LAct) (ws ws' : List LW), lexec nest ws as = some ws' →
    as.length + lμ ws' ≤ lμ ws := by
  intro as
  induction as with
  | nil => intro ws ws' h; simp [lexec] at h; subst h; simp
  | cons a as ih =>
    intro ws ws' h
    simp only [lexec] at h
    split at h
    · simp at h
    · rename_i ws1 h1
      have := ih ws1 ws' h
      have := lstep_decreases nest ws ws1 a h1
      simp only [List.length_cons]; omega

theorem lreach_lexec (nest : Nest) (init : List LW) : ∀ (as : List LAct) (ws ws' : List LW),
    LReach nest init ws → lexec nest ws as = some ws' → LReach nest init ws' := by
  intro as
  induction as with
  | nil => intro ws ws' hr h; simp [lexec] at h; subst h; exact hr
  | cons a as ih =>
    intro ws ws' hr h
    simp only [lexec] at h
    split at h
    · simp at h
    · rename_i ws1 h1
      exact ih ws1 ws' (LReach.step a hr h1) h

end Locks

end Shutdown
