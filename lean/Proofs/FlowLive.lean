import Proofs.FlowExec

/-!
# C11 helpers (8): progress — successful production steps drain the block waiting at `height + 1` and the queue
-/
namespace Flow
open Wire Chain Producer

/-- with a block waiting at `height + 1` the step does not look at the sequencing layer's answer -/
theorem publish_pending_irrel {c : Producer.Cfg} {n : Producer.Node} {pb : Block}
    (hpb : n.store.getBlock (n.store.height + 1) = some pb) (r1 r2 : SeqResp) (ex : ExecResp) :
    publish c n r1 ex = publish c n r2 ex := by
  unfold publish
  split
  · rfl
  · split
    · rfl
    · simp only [hpb]

/-- what is still to be committed: the block waiting at `height + 1` (one step) and every queued batch (one step each) -/
def need (n : Node) : Nat :=
  (if (n.prod.store.getBlock (n.prod.store.height + 1)).isSome then 1 else 0) + n.q.mem.length

/-- the liveness hypotheses of the producer (C01): a non-empty proposer address (otherwise no header validates) and no
limit on blocks pending DA submission (that limit is C08's subject) -/
structure LiveCfg (c : Cfg) : Prop extends CfgOK c where
  proposer : c.p.proposerAddr ≠ []
  noLimit : c.p.maxPending = 0

/-- **one successful production step makes progress**: it commits the block waiting at `height + 1`, or — when none
waits — takes the head of the queue and commits it in the same step; afterwards nothing waits at `height + 1` -/
theorem produce_progress {c : Cfg} {σ : RunSt} {g : Ghost} (hc : LiveCfg c) (h : FInv c σ g) :
    (produce c σ.n).1.prod.store.getBlock ((produce c σ.n).1.prod.store.height + 1) = none ∧
    (if (σ.n.prod.store.getBlock (σ.n.prod.store.height + 1)).isSome then (produce c σ.n).1.q.mem = σ.n.q.mem
     else (produce c σ.n).1.q.mem = σ.n.q.mem.tail) := by
  have hl := h.live
  have hi := hl.toInv
  have hτ : σ.n.prod.lastState.lastTime ≤ stamp c σ.n .real :=
    Nat.le_trans (lastTime_le (c := c) hi h.tb) (bound_mono c _)
  have habove : σ.n.prod.store.getBlock (σ.n.prod.store.height + 2) = none := hi.above _ (by omega)
  cases hpb : σ.n.prod.store.getBlock (σ.n.prod.store.height + 1) with
  | some pb =>
    have hask : asksSequencer c σ.n = false := by unfold asksSequencer; rw [hpb]; simp
    rw [produce_noask c σ.n .ok .real hask]
    simp only [Option.isSome_some, ↓reduceIte, and_true]
    obtain ⟨_, hh⟩ := live_commits hl hc.noLimit hc.signer hc.proposer [] _ [] hτ
    rw [← publish_pending_irrel hpb .absent] at hh
    rcases (publish_tx hi hc.signer [] _ (Nat.le_refl _) .ok).1 pb hpb .absent with ⟨a1, _⟩ | ⟨_, fb, st, _, _, _, b4, b5⟩
    · rw [a1] at hh; omega
    · show (publish c.p σ.n.prod .absent .ok).1.store.getBlock ((publish c.p σ.n.prod .absent .ok).1.store.height + 1) = none
      rw [hh, b5, b4]
      simp only [commit3, Store.applyAll, List.foldl_cons, List.foldl_nil, getBlock_setHeight, getBlock_updateState]
      rw [getBlock_saveBlock_other _ _ _ _ (by omega)]; exact habove
  | none =>
    have hnr : pendingRefuses c.p σ.n.prod = false := by simp [pendingRefuses, hc.noLimit]
    have hprev : (prevInfo c.p σ.n.prod.store).isSome = true := by
      unfold prevInfo
      by_cases hfirst : σ.n.prod.store.height + 1 ≤ c.p.initialHeight
      · rw [if_pos hfirst]; rfl
      · obtain ⟨b, hb, _⟩ := hi.tip (by omega)
        rw [if_neg hfirst, hb]; rfl
    have hask : asksSequencer c σ.n = true := by
      unfold asksSequencer; rw [hnr, hprev, hpb]; rfl
    rw [produce_ask c σ.n .ok .real hask]
    simp only [Option.isSome_none, Bool.false_eq_true, ↓reduceIte]
    constructor
    · obtain ⟨_, hh⟩ := live_commits hl hc.noLimit hc.signer hc.proposer
        (batchOf (Queue.getNext key c.qc σ.n.q c.qc.id).2) _ [] hτ
      obtain ⟨v, eb, _, _, hsh, hst⟩ := (publish_tx hi hc.signer (batchOf (Queue.getNext key c.qc σ.n.q c.qc.id).2) _ hτ .ok).2
        hpb hnr hprev
      generalize publish c.p σ.n.prod (.batch (batchOf (Queue.getNext key c.qc σ.n.q c.qc.id).2)
        (stamp c σ.n .real) []) .ok = r at hh hsh hst
      show r.1.store.getBlock (r.1.store.height + 1) = none
      rcases hsh with hsh | ⟨_, fb, st, _, _, _, hsh⟩
      · exfalso
        rw [hst, hsh] at hh
        simp [Store.applyAll] at hh
      · rw [hh, hst, hsh]
        simp only [commit3, Store.applyAll, List.cons_append, List.nil_append, List.foldl_cons, List.foldl_nil,
          getBlock_setHeight, getBlock_updateState]
        rw [getBlock_saveBlock_other _ _ _ _ (by omega), getBlock_saveBlock_other _ _ _ _ (by omega)]
        exact habove
    · have hg : Queue.getNext key c.qc σ.n.q c.qc.id = Queue.nextBatch key σ.n.q := by
        unfold Queue.getNext; simp
      show (Queue.getNext key c.qc σ.n.q c.qc.id).1.mem = _
      rw [hg]
      rcases Queue.nextBatch_cases key σ.n.q with ⟨e, hm⟩ | ⟨b, r, e, hm⟩
      · rw [e, hm]; rfl
      · rw [e, hm]; rfl

theorem need_step {c : Cfg} {σ : RunSt} {g : Ghost} (hc : LiveCfg c) (h : FInv c σ g) :
    need (produce c σ.n).1 = need σ.n - 1 := by
  obtain ⟨h1, h2⟩ := produce_progress hc h
  unfold need
  rw [h1]
  simp only [Option.isSome_none, Bool.false_eq_true, ↓reduceIte, Nat.zero_add]
  split at h2
  · rename_i hs
    rw [h2, if_pos hs]; omega
  · rename_i hs
    rw [h2, if_neg hs, List.length_tail]; omega

theorem gstep_produce_ghost {c : Cfg} {σ : RunSt} {g : Ghost} :
    (gstep c σ g .produce).handed = g.handed ∧ (gstep c σ g .produce).lost = g.lost ∧
    (gstep c σ g .produce).ever = g.ever ∧ (gstep c σ g .produce).crashed = g.crashed := by
  simp only [gstep]; split <;> exact ⟨rfl, rfl, rfl, rfl⟩

/-- **`k` successful production steps** from a state satisfying the invariant: the node is still fine, the ghost of
hand-overs and losses is unchanged, and what is still to be committed went down by `k` -/
theorem run_produce {c : Cfg} {σ : RunSt} {g : Ghost} (hc : LiveCfg c) (h : FInv c σ g) (k : Nat) :
    ∃ σ' g', runG c σ g (List.replicate k .produce) = some (σ', g') ∧ FInv c σ' g' ∧
      need σ'.n = need σ.n - k ∧ g'.handed = g.handed ∧ g'.lost = g.lost ∧ g'.ever = g.ever ∧ g'.crashed = g.crashed := by
  induction k generalizing σ g with
  | zero => exact ⟨σ, g, rfl, h, rfl, rfl, rfl, rfl, rfl⟩
  | succ k ih =>
    obtain ⟨σ1, h1, h2⟩ := step_inv hc.toCfgOK h .produce
    have hn1 : σ1.n = (produce c σ.n).1 := by
      simp only [opStep, Option.some.injEq] at h1; rw [← h1]
    obtain ⟨e1, e2, e3, e4⟩ := gstep_produce_ghost (c := c) (σ := σ) (g := g)
    obtain ⟨σ', g', r1, r2, r3, r4, r5, r6, r7⟩ := ih h2
    refine ⟨σ', g', ?_, r2, ?_, by rw [r4, e1], by rw [r5, e2], by rw [r6, e3], by rw [r7, e4]⟩
    · simp only [List.replicate_succ, runG, h1]; exact r1
    · rw [r3, hn1, need_step hc h]; omega

/-- nothing left to commit: the queue is empty and nothing waits at `height + 1` -/
theorem need_zero {n : Node} (h : need n = 0) : queued n = [] ∧ pendingTxs n.prod.store = [] := by
  unfold need at h
  have hm : n.q.mem = [] := List.eq_nil_of_length_eq_zero (by omega)
  have hp : (n.prod.store.getBlock (n.prod.store.height + 1)).isSome = false := by
    cases hs : (n.prod.store.getBlock (n.prod.store.height + 1)).isSome with
    | false => rfl
    | true => rw [hs] at h; simp at h
  constructor
  · unfold queued; rw [hm]; rfl
  · unfold pendingTxs blockTxs
    cases hg : n.prod.store.getBlock (n.prod.store.height + 1) with
    | none => rfl
    | some b => rw [hg] at hp; cases hp

end Flow
