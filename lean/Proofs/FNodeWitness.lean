import Proofs.FNodeInc
import Proofs.SyncWitness

/-!
# A concrete full node syncing from the DA layer (non-vacuity of `Spec/FNode.lean`)

A three-block chain built by the **producer model** whose proposer address is the address of an Ed25519 key
(so that the DA classifier, which recomputes the address from the key bytes, accepts its blobs), the blobs of its
parts as `FullNode.hdrBlob` / `FullNode.datBlob` build them, placed on the DA layer out of order together with
junk and forged material, a crash in the middle of a block application, the missing part arriving later.
All concrete facts are established by kernel evaluation.
-/
namespace FullNode
open Wire Chain Sync Retrieve

/-- decidable form of `BlobOK` -/
def blobOKb (C : Cfg) (ch : PChain) (b : Bytes × Oracle) : Bool :=
  match classify b.2 C.sync.proposerAddr b.1 with
  | .hdrAccepted w =>
    match ch w.header.height with
    | some blk => decide (toSH C.key w = blk.sh)
    | none => false
  | .dataAccepted sd =>
    match sd.data.metadata with
    | some m =>
      match ch m.height with
      | some blk => decide (sd.data = blk.data)
      | none => false
    | none => false
  | _ => true

theorem blobOK_of_check {C : Cfg} {ch : PChain} {b : Bytes × Oracle} (h : blobOKb C ch b = true) : BlobOK C ch b := by
  unfold blobOKb at h
  constructor
  · intro w hc
    rw [hc] at h
    simp only at h
    split at h
    · rename_i blk hb; exact ⟨blk, hb, by simpa using h⟩
    · cases h
  · intro sd hc
    rw [hc] at h
    simp only at h
    split at h
    · rename_i m hm
      split at h
      · rename_i blk hb; exact ⟨m, blk, hm, hb, by simpa using h⟩
      · cases h
    · cases h

/-! ## the witness -/

def fRaw : Bytes := List.replicate 32 7
/-- a marshalled libp2p Ed25519 public key: `{Type: Ed25519, Data: raw}` -/
def fPk : Bytes := [8, 1, 18, 32] ++ fRaw
def fRaw2 : Bytes := List.replicate 32 9
def fPk2 : Bytes := [8, 1, 18, 32] ++ fRaw2
/-- `types.KeyAddress` of that key -/
def fAddr : Bytes := sha256 fRaw

def fP : Producer.Cfg :=
  { chainId := "w", initialHeight := 1, genesisTime := 100, proposerAddr := fAddr, key := 1, signerAddr := fAddr }
/-- a full node of the same genesis whose DA scan starts at DA height 1 -/
def fC : Cfg :=
  { sync := { chainId := "w", initialHeight := 1, genesisTime := 100, proposerAddr := fAddr }, daStart := 1, key := 1 }

/-- the sequencer node after three blocks: block 1 empty, blocks 2 and 3 with different transaction lists -/
def fProd : Producer.Node := Producer.run fP (Producer.freshNode fP)
  [(.batch [] 150 [], .ok), (.batch [[7]] 200 [], .ok), (.batch [[8]] 300 [], .ok)]

def fch : PChain := clip 1 3 fProd.store.getBlock

def fH (k : Nat) : Bytes := ((fch k).map fun b => hdrBlob fPk [1] b.sh).getD []
def fD (k : Nat) : Bytes := ((fch k).map fun b => datBlob fPk [1] fAddr b.data).getD []
/-- header of block 2 with another state root, signed by a foreign key under the proposer's address -/
def fForged : Bytes := ((fch 2).map fun b =>
  SignedHeader.encode { header := { b.sh.hdr with appHash := [1, 2, 3] }, signature := [1],
                        signer := { address := fAddr, pubKey := fPk2 } }).getD []

/-- DA layer: height 0 (below the DA start height) holds the header of block 3 - never read; height 1: data of
block 2, then the header of block 1; height 2: header of block 3, a forged header, junk; height 3: header of
block 2, an empty blob.  Data of block 3 is not there yet. -/
def fOps1 : List HOp :=
  [.place 0 (fH 3) oHdr,
   .place 1 (fD 2) oDat, .place 1 (fH 1) oHdr,
   .place 2 (fH 3) oHdr, .place 2 fForged oHdr, .place 2 [1, 2, 3] oNone,
   .place 3 (fH 2) oHdr, .place 3 [] oNone,
   .run]

/-- the data of block 3 is included at DA height 4; then the process dies after 4 of the 6 writes of that run
(block 1 applied, block 2 saved, its state not), is restarted, and runs again -/
def fOps2 : List HOp := [.place 4 (fD 3) oDat]

/-- decidable form of `EvOK` -/
def evOKb (C : Cfg) (ch : PChain) : Event → Bool
  | .hdr w _ =>
    match ch w.header.height with
    | some blk => decide (toSH C.key w = blk.sh)
    | none => false
  | .dat sd _ =>
    match sd.data.metadata with
    | some m =>
      match ch m.height with
      | some blk => decide (sd.data = blk.data)
      | none => false
    | none => false

theorem evOK_of_check {C : Cfg} {ch : PChain} {e : Event} (h : evOKb C ch e = true) : EvOK C ch e := by
  cases e with
  | hdr w da =>
    simp only [evOKb] at h
    split at h
    · rename_i blk hb; exact ⟨blk, hb, by simpa using h⟩
    · cases h
  | dat sd da =>
    simp only [evOKb] at h
    split at h
    · rename_i m hm
      split at h
      · rename_i blk hb; exact ⟨m, blk, hm, hb, by simpa using h⟩
      · cases h
    · cases h

/-- decidable forms of `HdrItemOK` / `DatItemOK` -/
def hdrItemOKb (C : Cfg) (ch : PChain) (wo : SignedHeader × Oracle) : Bool :=
  !p2pAdmit wo.2 C.sync.proposerAddr wo.1 ||
    match ch wo.1.header.height with
    | some blk => decide (toSH C.key wo.1 = blk.sh)
    | none => false

def datItemOKb (ch : PChain) (d : Data) : Bool :=
  match d.metadata with
  | some m =>
    match ch m.height with
    | some blk => decide (d = blk.data)
    | none => false
  | none => false

theorem hdrItemOK_of_check {C : Cfg} {ch : PChain} {wo : SignedHeader × Oracle} (h : hdrItemOKb C ch wo = true) :
    HdrItemOK C ch wo := by
  intro ha
  unfold hdrItemOKb at h
  rw [ha] at h
  simp only [Bool.not_true, Bool.false_or] at h
  split at h
  · rename_i blk hb; exact ⟨blk, hb, by simpa using h⟩
  · cases h

theorem datItemOK_of_check {ch : PChain} {d : Data} (h : datItemOKb ch d = true) : DatItemOK ch d := by
  unfold datItemOKb at h
  split at h
  · rename_i m hm
    split at h
    · rename_i blk hb; exact ⟨m, blk, hm, hb, by simpa using h⟩
    · cases h
  · cases h

/-- decidable form of `OpOK` -/
def opOKb (C : Cfg) (ch : PChain) : HOp → Bool
  | .place _ b o => blobOKb C ch (b, o)
  | .p2p es => es.all (evOKb C ch)
  | .p2pstore hs ds _ => hs.all (hdrItemOKb C ch) && ds.all (datItemOKb ch)
  | .p2padd hs ds => hs.all (hdrItemOKb C ch) && ds.all (datItemOKb ch)
  | _ => true

theorem opOK_of_check {C : Cfg} {ch : PChain} {op : HOp} (h : opOKb C ch op = true) : OpOK C ch op := by
  cases op with
  | place da b o => exact blobOK_of_check h
  | p2p es => exact fun e he => evOK_of_check (List.all_eq_true.mp h e he)
  | p2pstore hs ds hf =>
    simp only [opOKb, Bool.and_eq_true] at h
    exact ⟨fun wo hm => hdrItemOK_of_check (List.all_eq_true.mp h.1 wo hm), fun d hm => datItemOK_of_check (List.all_eq_true.mp h.2 d hm)⟩
  | p2padd hs ds =>
    simp only [opOKb, Bool.and_eq_true] at h
    exact ⟨fun wo hm => hdrItemOK_of_check (List.all_eq_true.mp h.1 wo hm), fun d hm => datItemOK_of_check (List.all_eq_true.mp h.2 d hm)⟩
  | _ => trivial

/-- the header of block `k` as the node's P2P header store holds it; a forged one (foreign key under the proposer's
address) -/
def fSH (k : Nat) : List (SignedHeader × Oracle) :=
  ((fch k).map fun b => [({ header := b.sh.hdr, signature := [1], signer := { address := b.sh.signer.addr, pubKey := fPk } }, oHdr)]).getD []
def fSForged : List (SignedHeader × Oracle) :=
  ((fch 2).map fun b => [({ header := { b.sh.hdr with appHash := [1, 2, 3] }, signature := [1], signer := { address := fAddr, pubKey := fPk2 } }, oHdr)]).getD []
def fSD (k : Nat) : List Data := ((fch k).map fun b => [b.data]).getD []

/-- **the P2P stores only**: block 1 arrives in the stores and is polled; the node is killed; blocks 2 and 3 arrive
while it is down (header store: heights 2, 3; data store: the data of blocks 1 (empty), 2, 3 at heights 1, 2, 3); it is restarted and polls: the
store loops start at the node's height 1 and hand over everything above it -/
def fOps4 : List HOp :=
  [.p2pstore (fSH 1) (fSD 1) true, .crash 1, .p2padd (fSH 2 ++ fSH 3) (fSD 2 ++ fSD 3)]

/-- the events the P2P store loops hand over for the header / data of block `k` -/
def fPH (k : Nat) : List Event :=
  ((fch k).map fun b => [Event.hdr { header := b.sh.hdr, signature := [1], signer := { address := b.sh.signer.addr, pubKey := fPk } } 0]).getD []
def fPD (k : Nat) : List Event :=
  ((fch k).map fun b => [Event.dat { data := b.data, signature := [1], signer := { address := fAddr, pubKey := fPk } } 0]).getD []

/-- **applied first, observed later**: blocks 1 and 2 arrive over P2P and are applied; only then their blobs are
included in the DA layer (data 2 and header 1 at DA 1, header 2 at DA 2) and scanned -/
def fOps3 : List HOp :=
  [.p2p (fPH 1 ++ fPD 2 ++ fPH 2), .place 1 (fD 2) oDat, .place 1 (fH 1) oHdr, .place 2 (fH 2) oHdr]

def holdsF (s : Store) : Bool := holdsBlock fch s 1 && holdsBlock fch s 2 && holdsBlock fch s 3

set_option maxRecDepth 100000 in
theorem fChainFacts :
    (∀ k, k ≤ 3 → fC.sync.initialHeight ≤ k → CheckBlock fC.sync fch k) ∧ CheckDistinct fch 3 ∧
    (fOps1 ++ fOps2).all (opOKb fC fch) = true := by
  decide +kernel

/-- what the node looks like after a history: chain height, DA cursor, DA height of the persisted state, number of
durable writes of the last operation, does it hold the whole chain (1/0), alive (1/0), DA-included height -/
def summary (s : HSt) : List Nat :=
  [s.nd.full.store.height, s.nd.cursor, (s.nd.full.store.state.map (·.daHeight)).getD 99, s.ws.length,
   if holdsF s.nd.full.store then 1 else 0, if s.nd.full.alive then 1 else 0, s.daInc]

set_option maxRecDepth 100000 in
theorem fRunFacts :
    summary (hrun fC fOps1) = [2, 4, 1, 12, 0, 1, 2] ∧
    summary (hrun fC (fOps1 ++ fOps2 ++ [.crash 4])) = [1, 1, 1, 0, 0, 1, 0] ∧
    summary (hrun fC (fOps1 ++ fOps2 ++ [.crash 4, .run])) = [3, 5, 1, 15, 1, 1, 3] ∧
    (hrun fC (fOps1 ++ fOps2 ++ [.crash 4])).v.top = 5 ∧
    (hrun fC (fOps1 ++ fOps2 ++ [.crash 4])).v.scripts.all (fun p => p.2.isEmpty) = true := by
  decide +kernel

set_option maxRecDepth 100000 in
theorem fIncFacts :
    fOps3.all (opOKb fC fch) = true ∧
    summary (hrun fC fOps3) = [2, 1, 1, 6, 0, 1, 0] ∧
    summary (hrun fC (fOps3 ++ [.run])) = [2, 3, 1, 6, 0, 1, 2] ∧
    summary (hrun fC (fOps3 ++ [.run, .crash 2])) = [2, 1, 1, 0, 0, 1, 0] ∧
    summary (hrun fC (fOps3 ++ [.run, .crash 2, .run])) = [2, 3, 1, 6, 0, 1, 2] ∧
    (hrun fC (fOps3 ++ [.run, .crash 2])).v.top = 3 ∧
    (hrun fC (fOps3 ++ [.run, .crash 2])).v.scripts.all (fun p => p.2.isEmpty) = true := by
  decide +kernel

/-- decidable form of `InStores` -/
def inStoresB (C : Cfg) (ch : PChain) (s : HSt) (k : Nat) : Bool :=
  match ch k with
  | none => false
  | some b =>
    (match s.hStore[k - C.sync.initialHeight]? with
     | some (w, o) => p2pAdmit o C.sync.proposerAddr w && decide (toSH C.key w = b.sh)
     | none => false) &&
    (decide (IsEmpty b) || decide (s.dStore[k - C.sync.initialHeight]? = some b.data))

theorem inStores_of_check {C : Cfg} {ch : PChain} {s : HSt} {k : Nat} (h : inStoresB C ch s k = true) :
    InStores C ch s k := by
  unfold inStoresB at h
  split at h
  · cases h
  · rename_i b hb
    simp only [Bool.and_eq_true, Bool.or_eq_true, decide_eq_true_eq] at h
    obtain ⟨h1, h2⟩ := h
    refine ⟨b, hb, ?_, h2⟩
    split at h1
    · rename_i w o hw
      simp only [Bool.and_eq_true, decide_eq_true_eq] at h1
      exact ⟨w, o, hw, h1.1, h1.2⟩
    · cases h1

set_option maxRecDepth 100000 in
theorem fStoreFacts :
    fOps4.all (opOKb fC fch) = true ∧
    summary (hrun fC [fOps4.head!]) = [1, 1, 1, 3, 0, 1, 0] ∧
    summary (hrun fC fOps4) = [0, 1, 99, 1, 0, 1, 0] ∧
    summary (hrun fC (fOps4 ++ [.p2pstore [] [] true])) = [3, 1, 1, 9, 1, 1, 0] ∧
    [1, 2, 3].all (inStoresB fC fch (hrun fC (fOps4 ++ [.p2pstore [] [] true]))) = true := by
  decide +kernel

/-- no fetch script is pending at any DA height -/
theorem scriptAt_nil_of_all_empty {v : DAView} (h : v.scripts.all (fun p => p.2.isEmpty) = true) (a : Nat) :
    v.scriptAt a = [] := by
  unfold DAView.scriptAt
  cases hf : v.scripts.find? (·.1 = a) with
  | none => rfl
  | some p =>
    have hm := List.mem_of_find?_eq_some hf
    have := List.all_eq_true.mp h p hm
    simp only [Option.map_some, Option.getD_some]
    exact List.isEmpty_iff.mp this

end FullNode
