import Proofs.Producer

/-!
# Crash recovery of the producer (C04): the disk invariant

`DInv c d` is a predicate on *durable images* (`Chain.Store`).  This file proves
* `dinv_empty`            : the empty disk satisfies it,
* `dinv_of_node`          : the image of a running node (at a step boundary) satisfies it,
* `dinv_of_window`        : so does an image in which the new state is saved and the chain height is still one
                            below it (the window between `updateState` and `setHeight` of a committing step),
* `publish_shape`         : the durable writes of one production step are a list of *harmless* writes (batch
                            cursor, (re)save of the block waiting at `height + 1`), optionally followed by
                            `updateState st'`, `setHeight (height+1)`,
* `publish_prefix`        : **every** prefix image of a step satisfies `DInv`.
(`Proofs/CrashStart.lean`: `Producer.start` on an image satisfying it never fails, … .)
-/
namespace Producer
open Wire Chain

/-! ## small facts about the abstract store -/

theorem applyAll_append (s : Store) (a b : List SW) : s.applyAll (a ++ b) = (s.applyAll a).applyAll b := by
  simp [Store.applyAll, List.foldl_append]

theorem applyAll_nil (s : Store) : s.applyAll [] = s := rfl
theorem applyAll_cons (s : Store) (w : SW) (l : List SW) : s.applyAll (w :: l) = (s.apply w).applyAll l := rfl

theorem applyPrefix_zero (s : Store) (ws : List SW) : s.applyPrefix 0 ws = s := by
  simp [Store.applyPrefix, Store.applyAll]

theorem applyPrefix_all (s : Store) (ws : List SW) (k : Nat) (hk : ws.length ≤ k) :
    s.applyPrefix k ws = s.applyAll ws := by
  simp [Store.applyPrefix, List.take_of_length_le hk]

/-! ## watermark metadata -/

/-- both submission watermarks parse (`NewPendingHeaders` / `NewPendingData` fail otherwise) -/
def WmOK (d : Store) : Prop := (∃ w, wmOf d hdrWmKey = some w) ∧ (∃ w, wmOf d dataWmKey = some w)

theorem wmOf_congr {d d' : Store} (h : d'.kv = d.kv) (k : String) : wmOf d' k = wmOf d k := by
  simp [wmOf, Store.getMeta, h]

/-- a write after which the watermarks still parse: it is not a metadata write, or it writes the batch cursor, or
it writes eight bytes (the node writes the watermark keys only at start-up, little-endian 64 bit) -/
def WmSafe : SW → Prop
  | .setMeta k v => k = lastBatchDataKey ∨ v.length = 8
  | _ => True

theorem kv_apply_of_not_meta (d : Store) (w : SW) (h : ∀ k v, w ≠ .setMeta k v) : (d.apply w).kv = d.kv := by
  cases w with
  | setMeta k v => exact absurd rfl (h k v)
  | setHeight h => simp only [Store.apply]; split <;> rfl
  | saveBlock h b => rfl
  | updateState s => rfl

theorem wmOf_apply {d : Store} {w : SW} (hw : WmSafe w) (k : String) (hk : k ≠ lastBatchDataKey)
    (h : ∃ x, wmOf d k = some x) : ∃ x, wmOf (d.apply w) k = some x := by
  cases w with
  | setMeta k' v =>
    by_cases hkk : k' = k
    · subst hkk
      rcases hw with h1 | h1
      · exact absurd h1 hk
      · exact ⟨Bytes.unLe v, by simp [wmOf, Store.getMeta, Store.apply, h1]⟩
    · have : wmOf (d.apply (.setMeta k' v)) k = wmOf d k := by
        simp [wmOf, Store.getMeta, Store.apply, hkk]
      rw [this]; exact h
  | setHeight h' => rw [wmOf_congr (kv_apply_of_not_meta d _ (by intro k v h; cases h)) k]; exact h
  | saveBlock h' b => exact h
  | updateState s => exact h

theorem wmOK_apply {d : Store} {w : SW} (hw : WmSafe w) (h : WmOK d) : WmOK (d.apply w) :=
  ⟨wmOf_apply hw _ (by decide) h.1, wmOf_apply hw _ (by decide) h.2⟩

theorem wmOK_applyAll {d : Store} {l : List SW} (hl : ∀ w ∈ l, WmSafe w) (h : WmOK d) : WmOK (d.applyAll l) := by
  induction l generalizing d with
  | nil => exact h
  | cons w l ih =>
    rw [applyAll_cons]
    exact ih (fun w' hw' => hl w' (List.mem_cons_of_mem _ hw')) (wmOK_apply (hl w (List.mem_cons_self ..)) h)

/-! ## the disk invariant -/

/-- `Inv` only looks at the store and the last state -/
theorem Inv.congr {c : Cfg} {n n' : Node} (hi : Inv c n) (hs : n'.store = n.store) (hl : n'.lastState = n.lastState) :
    Inv c n' := by
  obtain ⟨a1, a2, a3, a4, a5, a6, a7, a8, a9⟩ := hi
  refine ⟨a1, ?_, ?_, ?_, ?_, ?_, ?_, ?_, ?_⟩
  all_goals (try rw [hs]); (try rw [hl]); assumption

/-- the image with the recorded chain height raised to the height of the saved state `s` — the first thing
`start` does (`block/manager.go:310-318`); the identity when the height is already there -/
def raised (d : Store) (s : State) : Store := d.applyAll (setHeightW d s.lastHeight)

theorem raised_facts (d : Store) (s : State) :
    (raised d s).height = (if s.lastHeight > d.height then s.lastHeight else d.height) ∧
    (∀ k, (raised d s).getBlock k = d.getBlock k) ∧ (raised d s).state = d.state ∧ (raised d s).kv = d.kv :=
  applyAll_setHeightW d s.lastHeight

theorem raised_level {d : Store} {s : State} (h : s.lastHeight ≤ d.height) : raised d s = d := by
  have : ¬ s.lastHeight > d.height := by omega
  simp [raised, setHeightW, this, Store.applyAll]

/-- **Disk invariant**: what a durable image must satisfy for a restart to succeed and continue the chain.
* the two submission watermarks parse;
* no state saved yet: nothing is committed (`height < initialHeight`) and nothing is stored above the initial
  height (the restart re-saves the genesis block *at* the initial height);
* a state `s` is saved: it is not below the genesis, the recorded chain height is the state's height **or one
  below it** (the window between `updateState` and `setHeight` of a committing step), and with the chain height
  raised to the state's height the image is that of a node satisfying the production invariant `Live` ⊇ `Inv`
  (chain height = state height; a valid, linked, signed chain up to it — in the window this includes the block of
  the state's height, stored and well-shaped —; state = result of the tip; at most a block waiting at `height+1`,
  which will validate; nothing above). -/
structure DInv (c : Cfg) (d : Store) : Prop where
  ihPos : 1 ≤ c.initialHeight
  wm : WmOK d
  noState : d.state = none → d.height < c.initialHeight ∧ ∀ h, h > c.initialHeight → d.getBlock h = none
  withState : ∀ s, d.state = some s → c.initialHeight ≤ s.lastHeight ∧ s.lastHeight ≤ d.height + 1 ∧
    Live c { store := raised d s, lastState := s }

/-- (a) the empty disk -/
theorem dinv_empty (c : Cfg) (hpos : 1 ≤ c.initialHeight) : DInv c {} := by
  refine ⟨hpos, ⟨⟨0, rfl⟩, ⟨0, rfl⟩⟩, ?_, ?_⟩
  · intro _; exact ⟨hpos, fun _ _ => rfl⟩
  · intro s hs; cases hs

/-- the recorded height is never above the saved state's height -/
theorem DInv.height_le {c : Cfg} {d : Store} (hd : DInv c d) {s : State} (hs : d.state = some s) :
    d.height ≤ s.lastHeight := by
  obtain ⟨_, _, hl⟩ := hd.withState s hs
  have h1 : (raised d s).height = s.lastHeight := hl.hs
  rw [(raised_facts d s).1] at h1
  split at h1 <;> omega

/-- the level case: chain height = state height; the image itself is that of a `Live` node -/
theorem DInv.level {c : Cfg} {d : Store} (hd : DInv c d) {s : State} (hs : d.state = some s)
    (hh : s.lastHeight = d.height) : Live c { store := d, lastState := s } := by
  obtain ⟨_, _, hl⟩ := hd.withState s hs
  rw [raised_level (by omega)] at hl
  exact hl

/-- the durable view of the node is in sync with its memory: the saved state is the node's last state (and is not
below the genesis: `getInitialState` refuses such a state), or no state was saved yet and the node holds the
genesis state -/
def Synced (c : Cfg) (n : Node) : Prop :=
  (n.store.state = some n.lastState ∧ c.initialHeight ≤ n.lastState.lastHeight) ∨
  (n.store.state = none ∧ n.lastState = genesisState c)

/-- the image of a node at a step boundary -/
theorem dinv_of_node {c : Cfg} {n : Node} (hi : Live c n) (hs : Synced c n) (hw : WmOK n.store) : DInv c n.store := by
  refine ⟨hi.ihPos, hw, ?_, ?_⟩
  · intro hnone
    rcases hs with ⟨h1, _⟩ | ⟨_, h2⟩
    · rw [hnone] at h1; cases h1
    · have hh := hi.hs
      rw [h2] at hh
      have hpos := hi.ihPos
      simp only [genesisState] at hh
      refine ⟨by omega, fun h hgt => hi.above h (by omega)⟩
  · intro s hsome
    rcases hs with ⟨h1, h2⟩ | ⟨h1, _⟩
    · rw [hsome] at h1
      have : s = n.lastState := by simpa using h1
      subst this
      have hh := hi.hs
      refine ⟨h2, by omega, ?_⟩
      rw [raised_level (by omega)]
      exact hi.congr rfl rfl
    · rw [hsome] at h1; cases h1

/-- **the window between `updateState` and `setHeight`**: a state is saved whose height is one above the recorded
chain height, and raising the height gives the image of a `Live` node (so the block of that height is stored,
linked and signed) -/
theorem dinv_of_window {c : Cfg} {d : Store} {s : State} (hw : WmOK d) (hs : d.state = some s)
    (hge : c.initialHeight ≤ s.lastHeight) (hh : s.lastHeight = d.height + 1)
    (hl : Live c { store := d.apply (.setHeight s.lastHeight), lastState := s }) : DInv c d := by
  refine ⟨hl.ihPos, hw, fun hn => (by rw [hn] at hs; cases hs), ?_⟩
  intro s' hs'
  rw [hs] at hs'
  have : s = s' := by simpa using hs'
  subst this
  refine ⟨hge, by omega, ?_⟩
  have : raised d s = d.apply (.setHeight s.lastHeight) := by
    have hgt : s.lastHeight > d.height := by omega
    simp [raised, setHeightW, hgt, Store.applyAll]
  rw [this]; exact hl

/-- a change of the image that keeps height, blocks and saved state (metadata only) keeps the disk invariant -/
theorem dinv_of_same {c : Cfg} {d d' : Store} (hd : DInv c d) (hh : d'.height = d.height)
    (hb : ∀ k, d'.getBlock k = d.getBlock k) (hs : d'.state = d.state) (hw : WmOK d') : DInv c d' := by
  refine ⟨hd.ihPos, hw, ?_, ?_⟩
  · intro hn
    rw [hs] at hn
    obtain ⟨a, b⟩ := hd.noState hn
    exact ⟨by rw [hh]; exact a, fun h hgt => by rw [hb]; exact b h hgt⟩
  · intro s hsome
    rw [hs] at hsome
    obtain ⟨a, b, hl⟩ := hd.withState s hsome
    refine ⟨a, by rw [hh]; exact b, ?_⟩
    obtain ⟨r1, r2, _, _⟩ := raised_facts d s
    obtain ⟨r1', r2', _, _⟩ := raised_facts d' s
    refine hl.of_same ?_ (fun k => ?_) rfl
    · show (raised d' s).height = (raised d s).height
      rw [r1, r1', hh]
    · show (raised d' s).getBlock k = (raised d s).getBlock k
      rw [r2, r2', hb]

/-! ## harmless writes -/

theorem PendingOK.congr {c : Cfg} {d d' : Store} {b : Block} (h : PendingOK c d b) (hh : d'.height = d.height)
    (hb : d'.getBlock d.height = d.getBlock d.height) : PendingOK c d' b := by
  refine ⟨by rw [hh]; exact h.height, h.signer, ?_⟩
  rw [hh]
  intro hgt
  obtain ⟨p, hp, r⟩ := h.link hgt
  exact ⟨p, by rw [hb]; exact hp, r⟩

/-- a write of a running node that cannot hurt a restart: the batch cursor, or a (re)save of a well-shaped block
that will validate at `height + 1` -/
inductive Harmless (c : Cfg) (n : Node) : SW → Prop
  | cursor (v : Bytes) : Harmless c n (.setMeta lastBatchDataKey v)
  | pending (b : Block) (h : PendingOK c n.store b) (hv : PendValid c n.lastState b) :
      Harmless c n (.saveBlock (n.store.height + 1) b)

theorem Harmless.wmSafe {c : Cfg} {n : Node} {w : SW} (hw : Harmless c n w) : WmSafe w := by
  cases hw <;> simp [WmSafe]

theorem Harmless.facts {c : Cfg} {n : Node} {w : SW} (hw : Harmless c n w) :
    (n.store.apply w).height = n.store.height ∧
    (∀ k, k ≠ n.store.height + 1 → (n.store.apply w).getBlock k = n.store.getBlock k) ∧
    (n.store.apply w).state = n.store.state := by
  cases hw with
  | cursor v => exact ⟨rfl, fun _ _ => rfl, rfl⟩
  | pending b h hv => exact ⟨rfl, fun k hk => getBlock_saveBlock_other _ _ _ _ (Ne.symm hk), rfl⟩

/-- the node with a different store -/
def Node.withStore (n : Node) (s : Store) : Node := { n with store := s }

@[simp] theorem Node.withStore_store (n : Node) (s : Store) : (n.withStore s).store = s := rfl
@[simp] theorem Node.withStore_lastState (n : Node) (s : Store) : (n.withStore s).lastState = n.lastState := rfl

theorem Harmless.mono {c : Cfg} {n : Node} {w w' : SW} (hw : Harmless c n w) (hw' : Harmless c n w') :
    Harmless c (n.withStore (n.store.apply w)) w' := by
  obtain ⟨f1, f2, _⟩ := hw.facts
  cases hw' with
  | cursor v => exact .cursor v
  | pending b h hv =>
    have : n.store.height + 1 = (n.withStore (n.store.apply w)).store.height + 1 := by
      rw [Node.withStore_store, f1]
    rw [this]
    exact .pending b (h.congr f1 (f2 _ (by omega))) hv

theorem harmless_live {c : Cfg} {n : Node} (hl : Live c n) {w : SW} (hw : Harmless c n w) :
    Live c (n.withStore (n.store.apply w)) := by
  cases hw with
  | cursor v => exact (live_setMeta hl lastBatchDataKey v []).congr rfl rfl
  | pending b h hv => exact (live_early hl b.sh b.data h.height h.signer h.link b.savedSig hv).congr rfl rfl

/-- harmless writes keep the node `Live` and change neither the height, nor the saved state, nor any block other
than the one at `height + 1` -/
theorem harmless_applyAll {c : Cfg} {n : Node} {l : List SW} (hl : Live c n) (hws : ∀ w ∈ l, Harmless c n w) :
    Live c (n.withStore (n.store.applyAll l)) ∧ (n.store.applyAll l).height = n.store.height ∧
    (∀ k, k ≠ n.store.height + 1 → (n.store.applyAll l).getBlock k = n.store.getBlock k) ∧
    (n.store.applyAll l).state = n.store.state := by
  induction l generalizing n with
  | nil => exact ⟨hl.congr rfl rfl, rfl, fun _ _ => rfl, rfl⟩
  | cons w l ih =>
    have hw := hws w (List.mem_cons_self ..)
    obtain ⟨f1, f2, f3⟩ := hw.facts
    obtain ⟨a, b, e, f⟩ := ih (n := n.withStore (n.store.apply w)) (harmless_live hl hw)
      (fun w' hw' => hw.mono (hws w' (List.mem_cons_of_mem _ hw')))
    simp only [Node.withStore_store] at a b e f
    rw [applyAll_cons]
    refine ⟨a.congr rfl rfl, by rw [b, f1], fun k hk => ?_, by rw [f, f3]⟩
    rw [e k (by rw [f1]; exact hk), f2 k hk]

/-- … hence the image after them satisfies the disk invariant -/
theorem harmless_dinv {c : Cfg} {n : Node} {l : List SW} (hl : Live c n) (hs : Synced c n) (hw : WmOK n.store)
    (hws : ∀ w ∈ l, Harmless c n w) : DInv c (n.store.applyAll l) := by
  obtain ⟨a, _, _, f⟩ := harmless_applyAll hl hws
  have hs' : Synced c (n.withStore (n.store.applyAll l)) := by
    unfold Synced
    simp only [Node.withStore_store, Node.withStore_lastState, f]
    exact hs
  exact dinv_of_node a hs' (wmOK_applyAll (fun w hw' => (hws w hw').wmSafe) hw)

/-! ## shape of the durable writes of one production step -/

theorem finish_ws (c : Cfg) (n : Node) (ws0 : List SW) (sh : SHeader) (d : Data) (ldh : Bytes) (ex : ExecResp) :
    finish c n ws0 sh d ldh ex =
      ((finish c n [] sh d ldh ex).1, ws0 ++ (finish c n [] sh d ldh ex).2.1, (finish c n [] sh d ldh ex).2.2) := by
  unfold finish
  cases ex with
  | fail => simp
  | ok => simp only; split <;> simp

/-- the tail of a committing step: **the new state first, then the chain height** -/
def commitTail (h : Nat) (st' : State) : List SW := [.updateState st', .setHeight (h + 1)]

/-- the writes of a step are harmless writes `pre`, and, iff the step commits, `updateState st'` and
`setHeight (height+1)` after them; the node's store is its old store with exactly these writes applied -/
def Shape (c : Cfg) (n : Node) (p : Node × List SW × Outcome) : Prop :=
  ∃ pre, (∀ w ∈ pre, Harmless c n w) ∧
    ((p.2.1 = pre ∧ p.1.store = n.store.applyAll pre ∧ p.1.lastState = n.lastState ∧ p.2.2 ≠ .ok) ∨
     (∃ st', st'.lastHeight = n.store.height + 1 ∧ p.2.1 = pre ++ commitTail n.store.height st' ∧
        p.1.store = n.store.applyAll (pre ++ commitTail n.store.height st') ∧ p.1.lastState = st' ∧ p.2.2 = .ok))

theorem shape_idle (c : Cfg) (n : Node) (o : Outcome) (ho : o ≠ .ok) : Shape c n (n, [], o) :=
  ⟨[], by simp, Or.inl ⟨rfl, rfl, rfl, ho⟩⟩

theorem finish_shape {c : Cfg} {n : Node} (hi : Live c n) {pb : Block}
    (hpb : n.store.getBlock (n.store.height + 1) = some pb) (ldh : Bytes) (ex : ExecResp) :
    ((finish c n [] pb.sh pb.data ldh ex).1 = n ∧ (finish c n [] pb.sh pb.data ldh ex).2.1 = [] ∧
      (finish c n [] pb.sh pb.data ldh ex).2.2 ≠ .ok) ∨
    (∃ fb st', PendingOK c n.store fb ∧ PendValid c n.lastState fb ∧ st'.lastHeight = n.store.height + 1 ∧
      (finish c n [] pb.sh pb.data ldh ex).2.1 = .saveBlock (n.store.height + 1) fb :: commitTail n.store.height st' ∧
      (finish c n [] pb.sh pb.data ldh ex).1.store =
        n.store.applyAll (.saveBlock (n.store.height + 1) fb :: commitTail n.store.height st') ∧
      (finish c n [] pb.sh pb.data ldh ex).1.lastState = st' ∧ (finish c n [] pb.sh pb.data ldh ex).2.2 = .ok) := by
  have hpo := hi.pend pb hpb
  have hpv := hi.pendValid pb hpb
  unfold finish
  cases ex with
  | fail => exact Or.inl ⟨rfl, rfl, by simp⟩
  | ok =>
    simp only
    split
    · exact Or.inl ⟨rfl, rfl, by simp⟩
    · rename_i hv
      have hH : pb.sh.hdr.height = n.store.height + 1 := hpo.height
      refine Or.inr ⟨Block.mk (signed c pb.sh) (withMeta pb.data pb.sh.hdr ldh) (signed c pb.sh).sig,
        { nextState n.lastState pb.sh.hdr (execRoot n.lastState.appHash pb.data.txs) with daHeight := n.daHeight },
        ⟨hpo.height, hpo.signer, hpo.link⟩, ⟨hpv.chainId, hpv.appHash, hpv.proposer, hpv.dataHash, hpv.time⟩,
        ?_, ?_, ?_, rfl, rfl⟩
      · simp [nextState, hH]
      · simp [signed, hH, setHeightW, commitTail]
      · simp [signed, hH, setHeightW, commitTail, Store.applyAll]

theorem buildAndFinish_shape {c : Cfg} {n n0 : Node} (v : Bytes) (h0 : Live c n0)
    (e1 : n0.store = n.store.apply (.setMeta lastBatchDataKey v)) (e2 : n0.lastState = n.lastState)
    (ls : Sig) (lhh ldh : Bytes)
    (hl : n.store.height + 1 > c.initialHeight → ∃ p, n.store.getBlock n.store.height = some p ∧ lhh = p.sh.hdr.hash)
    (txs : List Bytes) (ts : Nat) (hts : n.store.height + 1 > 1 → n.lastState.lastTime ≤ ts) (ex : ExecResp) :
    Shape c n (buildAndFinish c n0 (.setMeta lastBatchDataKey v) ls lhh ldh txs ts ex) := by
  unfold buildAndFinish
  simp only
  have e3 : n0.store.height = n.store.height := by rw [e1]; rfl
  obtain ⟨f1, f2, f3, _⟩ := createBlock_facts c n0.lastState (n0.store.height + 1) ls lhh txs ts
  have fv := createBlock_pendValid (c := c) (st := n0.lastState) h0.cid (n0.store.height + 1) ls lhh txs ts
    (by rw [e3, e2]; exact hts) .none
  generalize createBlock c n0.lastState (n0.store.height + 1) ls lhh txs ts = blk at f1 f2 f3 fv ⊢
  have hl0 : n0.store.height + 1 > c.initialHeight → ∃ p, n0.store.getBlock n0.store.height = some p ∧
      blk.1.hdr.lastHeaderHash = p.sh.hdr.hash := by
    intro hgt
    rw [e3] at hgt
    obtain ⟨p, hp, hq⟩ := hl hgt
    exact ⟨p, by rw [e3, e1]; exact hp, by rw [f3]; exact hq⟩
  have h1 := live_early h0 blk.1 blk.2 f1 f2 hl0 .none fv
  generalize hn1 : ({ n0 with store := n0.store.apply (.saveBlock (n0.store.height + 1) (Block.mk blk.1 blk.2 .none)) } : Node) = n1 at h1 ⊢
  have g1 : n1.store = n0.store.apply (.saveBlock (n0.store.height + 1) (Block.mk blk.1 blk.2 .none)) := by rw [← hn1]
  have g2 : n1.lastState = n.lastState := by rw [← hn1]; exact e2
  have g3 : n1.store.height = n.store.height := by rw [g1]; exact e3
  have hpb : n1.store.getBlock (n1.store.height + 1) = some (Block.mk blk.1 blk.2 .none) := by
    rw [g3, g1, e3]; simp
  -- the two harmless writes before `finish`
  have hw0 : Harmless c n (.setMeta lastBatchDataKey v) := .cursor v
  have hpe : PendingOK c n.store (Block.mk blk.1 blk.2 .none) := by
    refine ⟨by rw [← e3]; exact f1, f2, ?_⟩
    intro hgt
    obtain ⟨p, hp, hq⟩ := hl hgt
    exact ⟨p, hp, by show blk.1.hdr.lastHeaderHash = _; rw [f3]; exact hq⟩
  have hw1 : Harmless c n (.saveBlock (n0.store.height + 1) (Block.mk blk.1 blk.2 .none)) := by
    rw [e3]; exact .pending _ hpe (by rw [← e2]; exact fv)
  have hst1 : n1.store = n.store.applyAll [.setMeta lastBatchDataKey v, .saveBlock (n0.store.height + 1) (Block.mk blk.1 blk.2 .none)] := by
    rw [g1, e1]; rfl
  have hget : n1.store.getBlock n.store.height = n.store.getBlock n.store.height := by
    rw [g1, e1]
    rw [getBlock_saveBlock_other _ _ _ _ (by show n.store.height + 1 ≠ n.store.height; omega)]; rfl
  rw [finish_ws]
  rcases finish_shape h1 (pb := Block.mk blk.1 blk.2 .none) hpb ldh ex with ⟨a1, a2, a3⟩ | ⟨fb, st', b1, bv, b2, b3, b4, b5, b6⟩
  · refine ⟨[.setMeta lastBatchDataKey v, .saveBlock (n0.store.height + 1) (Block.mk blk.1 blk.2 .none)], ?_, Or.inl ⟨?_, ?_, ?_, a3⟩⟩
    · intro w hw
      simp only [List.mem_cons, List.mem_nil_iff, or_false] at hw
      rcases hw with rfl | rfl
      · exact hw0
      · exact hw1
    · simp only [a2, List.append_nil]
    · simp only [a1]; exact hst1
    · simp only [a1]; exact g2
  · rw [g3] at b2 b3 b4
    refine ⟨[.setMeta lastBatchDataKey v, .saveBlock (n0.store.height + 1) (Block.mk blk.1 blk.2 .none),
        .saveBlock (n.store.height + 1) fb], ?_, Or.inr ⟨st', b2, ?_, ?_, b5, b6⟩⟩
    · intro w hw
      simp only [List.mem_cons, List.mem_nil_iff, or_false] at hw
      rcases hw with rfl | rfl | rfl
      · exact hw0
      · exact hw1
      · exact .pending fb (b1.congr g3.symm (by rw [g3]; exact hget.symm)) (by rw [← g2]; exact bv)
    · simp only [b3]; simp
    · simp only [b4, hst1]
      rw [← applyAll_append]; simp

/-- **the durable writes of every production step have the shape `harmless* (updateState setHeight)?`** -/
theorem publish_shape {c : Cfg} {n : Node} (hi : Live c n) (resp : SeqResp) (ex : ExecResp) :
    Shape c n (publish c n resp ex) := by
  unfold publish
  split
  · exact shape_idle c n _ (by simp)
  · split
    · exact shape_idle c n _ (by simp)
    · rename_i ls lhh ldh lht hprev
      split
      · rename_i pb hpb
        rcases finish_shape hi hpb ldh ex with ⟨a1, a2, a3⟩ | ⟨fb, st', b1, bv, b2, b3, b4, b5, b6⟩
        · exact ⟨[], by simp, Or.inl ⟨a2, by rw [a1]; rfl, by rw [a1], a3⟩⟩
        · refine ⟨[.saveBlock (n.store.height + 1) fb], ?_, Or.inr ⟨st', b2, b3, b4, b5, b6⟩⟩
          intro w hw
          simp only [List.mem_cons, List.mem_nil_iff, or_false] at hw
          subst hw
          exact .pending fb b1 bv
      · rename_i hnone
        obtain ⟨_, htime⟩ := fresh_branch hi hnone hprev
        unfold fresh
        cases resp with
        | err => exact shape_idle c n _ (by simp)
        | absent => exact shape_idle c n _ (by simp)
        | batch txs ts bd =>
          simp only
          have hcur : Shape c n ({ n with store := n.store.apply (.setMeta lastBatchDataKey (batchDataToBytes bd)), lastBatchData := bd },
              [.setMeta lastBatchDataKey (batchDataToBytes bd)], .errTime) ∧
              Shape c n ({ n with store := n.store.apply (.setMeta lastBatchDataKey (batchDataToBytes bd)), lastBatchData := bd },
              [.setMeta lastBatchDataKey (batchDataToBytes bd)], .errSigner) := by
            constructor <;>
            · refine ⟨[.setMeta lastBatchDataKey (batchDataToBytes bd)], ?_, Or.inl ⟨rfl, rfl, rfl, by simp⟩⟩
              intro w hw
              simp only [List.mem_cons, List.mem_nil_iff, or_false] at hw
              subst hw
              exact .cursor _
          split
          · exact hcur.1
          · rename_i hreg
            split
            · exact hcur.2
            · exact buildAndFinish_shape _ (live_setMeta hi lastBatchDataKey _ bd) rfl rfl ls lhh ldh (prevInfo_link hprev)
                txs ts (fun _ => htime ts (by simpa using hreg)) ex

/-! ## crash points of a step -/

/-- how a later durable image relates to an earlier one: the chain height does not decrease, rises by at most one
(above the genesis), and no block at or below the earlier chain height differs -/
def Adv (c : Cfg) (d d' : Store) : Prop :=
  d.height ≤ d'.height ∧ d'.height ≤ max d.height (c.initialHeight - 1) + 1 ∧
  ∀ h, h ≤ d.height → d'.getBlock h = d.getBlock h

theorem Adv.refl (c : Cfg) (d : Store) : Adv c d d := ⟨Nat.le_refl _, by omega, fun _ _ => rfl⟩

theorem commitTail_take (d1 : Store) (h : Nat) (st' : State) (hh : d1.height = h) (j : Nat) :
    d1.height ≤ (d1.applyAll ((commitTail h st').take j)).height ∧
    (d1.applyAll ((commitTail h st').take j)).height ≤ d1.height + 1 ∧
    ∀ k, (d1.applyAll ((commitTail h st').take j)).getBlock k = d1.getBlock k := by
  subst hh
  match j with
  | 0 => simp [Store.applyAll]
  | 1 => simp [commitTail, Store.applyAll]
  | j+2 => simp [commitTail, Store.applyAll, height_setHeight]

theorem commitTail_state (d1 : Store) (h : Nat) (st' : State) :
    (d1.applyAll (commitTail h st')).state = some st' := by
  simp [commitTail, Store.applyAll]

theorem commitTail_wmSafe (h : Nat) (st' : State) : ∀ w ∈ commitTail h st', WmSafe w := by
  intro w hw
  simp only [commitTail, List.mem_cons, List.mem_nil_iff, or_false] at hw
  rcases hw with rfl | rfl <;> simp [WmSafe]

/-- a step keeps the node in sync with its durable image, and its store is the old store with exactly the
reported writes applied -/
theorem publish_synced {c : Cfg} {n : Node} (hi : Live c n) (hs : Synced c n) (hw : WmOK n.store)
    (r : SeqResp) (e : ExecResp) :
    Synced c (publish c n r e).1 ∧ WmOK (publish c n r e).1.store ∧
    (publish c n r e).1.store = n.store.applyAll (publish c n r e).2.1 := by
  obtain ⟨pre, hpre, hsh⟩ := publish_shape hi r e
  obtain ⟨_, _, _, a4⟩ := harmless_applyAll hi hpre
  rcases hsh with ⟨b1, b2, b3, _⟩ | ⟨st', b1, b2, b3, b4, _⟩
  · refine ⟨?_, ?_, by rw [b2, b1]⟩
    · unfold Synced
      rw [b2, b3, a4]; exact hs
    · rw [b2]; exact wmOK_applyAll (fun w hw' => (hpre w hw').wmSafe) hw
  · refine ⟨Or.inl ⟨?_, ?_⟩, ?_, by rw [b3, b2]⟩
    · rw [b3, b4, applyAll_append, commitTail_state]
    · rw [b4, b1]; exact hi.low
    · rw [b3]
      refine wmOK_applyAll (fun w hw' => ?_) hw
      rcases List.mem_append.mp hw' with h | h
      · exact (hpre w h).wmSafe
      · exact commitTail_wmSafe _ _ w h

/-- **(c) every crash point of every step leaves an image satisfying the disk invariant**, leaves the committed
blocks alone and raises the height by ≤ 1 -/
theorem publish_prefix {c : Cfg} {n : Node} (hi : Live c n) (hs : Synced c n) (hw : WmOK n.store)
    (r : SeqResp) (e : ExecResp) (k : Nat) :
    Adv c n.store (n.store.applyPrefix k (publish c n r e).2.1) ∧
    DInv c (n.store.applyPrefix k (publish c n r e).2.1) := by
  obtain ⟨hsy, hwm', hstore⟩ := publish_synced hi hs hw r e
  have hlive' := publish_live hi r e
  obtain ⟨pre, hpre, hsh⟩ := publish_shape hi r e
  have htk : ∀ w ∈ pre.take k, Harmless c n w := fun w hw' => hpre w (List.mem_of_mem_take hw')
  obtain ⟨_, a2, a3, a4⟩ := harmless_applyAll hi htk
  have a1 := harmless_dinv hi hs hw htk
  rcases hsh with ⟨b1, _, _, _⟩ | ⟨st', bh, b2, b3, b4, _⟩
  · rw [b1]
    unfold Store.applyPrefix
    exact ⟨⟨by omega, by omega, fun h hh => a3 h (by omega)⟩, a1⟩
  · rw [b2]
    unfold Store.applyPrefix
    rw [List.take_append, applyAll_append]
    obtain ⟨t1, t2, t3⟩ := commitTail_take (n.store.applyAll (pre.take k)) n.store.height st' a2 (k - pre.length)
    refine ⟨⟨by omega, by omega, fun h hh => by rw [t3, a3 h (by omega)]⟩, ?_⟩
    by_cases h1 : k ≤ pre.length
    · have : k - pre.length = 0 := by omega
      rw [this]; exact a1
    · have e1 : pre.take k = pre := List.take_of_length_le (by omega)
      rw [e1] at a2 a4 ⊢
      by_cases h2 : k = pre.length + 1
      · -- the window: the new state is saved, the chain height is not yet raised
        have e2 : (commitTail n.store.height st').take (k - pre.length) = [.updateState st'] := by
          have : k - pre.length = 1 := by omega
          rw [this]; rfl
        rw [e2]
        have himg : (n.store.applyAll pre).applyAll [.updateState st'] = (n.store.applyAll pre).apply (.updateState st') := rfl
        rw [himg]
        have hpost : (publish c n r e).1.store =
            ((n.store.applyAll pre).apply (.updateState st')).apply (.setHeight st'.lastHeight) := by
          rw [b3, applyAll_append, bh]; rfl
        refine dinv_of_window (s := st') ?_ rfl ?_ ?_ ?_
        · exact wmOK_apply (by simp [WmSafe]) (wmOK_applyAll (fun w hw' => (hpre w hw').wmSafe) hw)
        · rw [bh]; exact hi.low
        · rw [bh]; show _ = (n.store.applyAll pre).height + 1; rw [a2]
        · exact hlive'.congr hpost.symm b4.symm
      · have hk : (pre ++ commitTail n.store.height st').length ≤ k := by simp [commitTail]; omega
        have e2 : (commitTail n.store.height st').take (k - pre.length) = commitTail n.store.height st' :=
          List.take_of_length_le (by simp [commitTail]; omega)
        rw [e2, ← applyAll_append, ← b3]
        exact dinv_of_node hlive' hsy hwm'

end Producer
