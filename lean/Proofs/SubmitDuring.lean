import Proofs.SubmitLive

/-! A block committed while a submission body runs (C06, C13): the body works on the pending list it read, the production
step on the node as it was; for the current code this is the same as the submission tick followed by the production step. -/
namespace Submit
open Wire Chain Producer

/-- the node with other metadata and other watermarks -/
def reMeta (n : Node) (kv : List (String × Bytes)) (hw dw : Nat) : Node :=
  { n with store := { n.store with kv := kv }, hdrWm := hw, dataWm := dw }

theorem finish_reMeta (c : Cfg) (n : Node) (kv : List (String × Bytes)) (hw dw : Nat) (ws : List SW) (sh : SHeader)
    (d : Data) (ldh : Bytes) (ex : ExecResp) :
    finish c (reMeta n kv hw dw) ws sh d ldh ex =
      (reMeta (finish c n ws sh d ldh ex).1 kv hw dw, (finish c n ws sh d ldh ex).2) ∧
    (finish c n ws sh d ldh ex).1.store.kv = n.store.kv ∧
    (finish c n ws sh d ldh ex).1.hdrWm = n.hdrWm ∧ (finish c n ws sh d ldh ex).1.dataWm = n.dataWm := by
  unfold finish
  cases ex with
  | fail => exact ⟨rfl, rfl, rfl, rfl⟩
  | ok =>
    simp only [reMeta]
    split
    · exact ⟨rfl, rfl, rfl, rfl⟩
    · simp only [Store.apply, setHeightW, Store.applyAll]
      by_cases hgt : (signed c sh).hdr.height > n.store.height
      · simp [hgt, List.foldl, Store.apply]
      · simp [hgt, List.foldl]

/-- **a production step does not look at the metadata of the store, nor at the watermarks beyond the refusal test**: on a
node that differs only there it makes the same decisions, issues the same writes and yields the same node, with the
metadata it wrote (`M`: the batch cursor) in front of the other metadata -/
theorem publish_reMeta (c : Cfg) (n : Node) (kv : List (String × Bytes)) (hw dw : Nat) (r : SeqResp) (e : ExecResp)
    (hr : pendingRefuses c (reMeta n kv hw dw) = pendingRefuses c n) :
    ∃ M, (∀ x ∈ M, x.1 = lastBatchDataKey) ∧ (publish c n r e).1.store.kv = M ++ n.store.kv ∧
      publish c (reMeta n kv hw dw) r e = (reMeta (publish c n r e).1 (M ++ kv) hw dw, (publish c n r e).2) := by
  unfold publish
  rw [hr]
  split
  · exact ⟨[], by simp, rfl, rfl⟩
  · have hp : prevInfo c (reMeta n kv hw dw).store = prevInfo c n.store := rfl
    rw [hp]
    split
    · exact ⟨[], by simp, rfl, rfl⟩
    · have hg : (reMeta n kv hw dw).store.getBlock ((reMeta n kv hw dw).store.height + 1) =
          n.store.getBlock (n.store.height + 1) := rfl
      rw [hg]
      split
      · rename_i pb _
        obtain ⟨q1, q2, _, _⟩ := finish_reMeta c n kv hw dw [] pb.sh pb.data (by assumption) e
        exact ⟨[], by simp, by rw [q2]; rfl, by rw [q1]; rfl⟩
      · unfold fresh
        cases r with
        | err => exact ⟨[], by simp, rfl, rfl⟩
        | absent => exact ⟨[], by simp, rfl, rfl⟩
        | batch txs ts bd =>
          simp only
          split
          · exact ⟨[(lastBatchDataKey, batchDataToBytes bd)], by simp, rfl, rfl⟩
          · split
            · exact ⟨[(lastBatchDataKey, batchDataToBytes bd)], by simp, rfl, rfl⟩
            · unfold buildAndFinish
              refine ⟨[(lastBatchDataKey, batchDataToBytes bd)], by simp, ?_, ?_⟩
              · rw [(finish_reMeta c _ kv hw dw _ _ _ _ e).2.1]; rfl
              · exact (finish_reMeta c
                  { store := (n.store.apply (SW.setMeta lastBatchDataKey (batchDataToBytes bd))).apply
                      (SW.saveBlock (n.store.height + 1) _),
                    lastState := n.lastState, lastBatchData := bd, hdrWm := n.hdrWm, dataWm := n.dataWm,
                    daHeight := n.daHeight }
                  ((lastBatchDataKey, batchDataToBytes bd) :: kv) hw dw _ _ _ _ e).1

/-- the metadata a list of metadata writes pushes, latest first -/
def metaPairs : List SW → List (String × Bytes)
  | [] => []
  | .setMeta k v :: l => metaPairs l ++ [(k, v)]
  | _ :: l => metaPairs l

theorem applyAll_metaOnly_kv {l : List SW} (hl : MetaOnly l) (s : Store) :
    s.applyAll l = { s with kv := metaPairs l ++ s.kv } := by
  induction l generalizing s with
  | nil => rfl
  | cons w l ih =>
    obtain ⟨k, v, rfl⟩ := hl _ (List.mem_cons_self ..)
    show (s.apply (.setMeta k v)).applyAll l = _
    rw [ih (fun w hw => hl w (List.mem_cons_of_mem _ hw))]
    simp [Store.apply, metaPairs]

theorem metaPairs_keys {l : List SW} {key : String} (h : ∀ w ∈ l, ∃ v, w = SW.setMeta key v) :
    ∀ x ∈ metaPairs l, x.1 = key := by
  induction l with
  | nil => intro x hx; cases hx
  | cons w l ih =>
    obtain ⟨v, rfl⟩ := h _ (List.mem_cons_self ..)
    intro x hx
    simp only [metaPairs, List.mem_append, List.mem_cons, List.mem_nil_iff, or_false] at hx
    rcases hx with hx | rfl
    · exact ih (fun w hw => h w (List.mem_cons_of_mem _ hw)) x hx
    · rfl

theorem find_skip {α : Type} (p : α → Bool) (l1 l2 : List α) (h : ∀ x ∈ l1, p x = false) :
    (l1 ++ l2).find? p = l2.find? p := by
  rw [List.find?_append, List.find?_eq_none.mpr (fun x hx => by simp [h x hx])]; rfl

theorem find_skip_mid {α : Type} (p : α → Bool) (l1 l2 l3 : List α) (h : ∀ x ∈ l2, p x = false) :
    (l1 ++ (l2 ++ l3)).find? p = (l1 ++ l3).find? p := by
  have e1 : (l1 ++ (l2 ++ l3)).find? p = (l1.find? p).or ((l2 ++ l3).find? p) := List.find?_append
  have e2 : (l1 ++ l3).find? p = (l1.find? p).or (l3.find? p) := List.find?_append
  rw [e1, e2, find_skip p l2 l3 h]

/-- two lists of metadata under different keys commute in front of a store's metadata, as far as lookups go -/
theorem getMeta_swap (K M X : List (String × Bytes)) (kk km : String) (hne : kk ≠ km)
    (hK : ∀ x ∈ K, x.1 = kk) (hM : ∀ x ∈ M, x.1 = km) (key : String) :
    ((K ++ (M ++ X)).find? (·.1 = key)).map (·.2) = ((M ++ (K ++ X)).find? (·.1 = key)).map (·.2) := by
  by_cases h1 : key = kk
  · subst h1
    have hM' : ∀ x ∈ M, (decide (x.1 = key)) = false := fun x hx => by rw [hM x hx]; simp [Ne.symm hne]
    rw [find_skip _ M (K ++ X) hM', find_skip_mid _ K M X hM']
  · have hK' : ∀ x ∈ K, (decide (x.1 = key)) = false := fun x hx => by rw [hK x hx]; simp [Ne.symm h1]
    rw [find_skip _ K (M ++ X) hK', find_skip_mid _ M K X hK']

/-- **the commutation lemma.**  Let a submission tick of kind `d` take the node `a` to `a2` with the durable writes `ws2`, and
let the refusal test of a production step give the same answer before and after it (in particular: no pending limit, or a
step that is refused / not refused either way).  Then the node reached when the block is committed WHILE the tick runs —
`mergeDuring`: the tick on the pending list it read, the production step on the node as it was — and the node reached by
the tick followed by the production step have the same production outcome and writes and agree in every component; the
stores hold the same blocks, height, state and the same metadata under every key (the two orders push the watermark and the
batch cursor in different order). -/
theorem during_commutes {c : Cfg} {d : Bool} {a a2 : ANode} {items : List Item} {ws2 : List SW}
    (hi : IterInv d a items a2 ws2) (r : SeqResp) (e : ExecResp)
    (hr : pendingRefuses c a2.n = pendingRefuses c a.n) :
    (publish c a2.n r e).2 = (publish c a.n r e).2 ∧
    (mergeDuring a2 (publish c a.n r e).1 ws2).n.lastState = (publish c a2.n r e).1.lastState ∧
    (mergeDuring a2 (publish c a.n r e).1 ws2).n.lastBatchData = (publish c a2.n r e).1.lastBatchData ∧
    (mergeDuring a2 (publish c a.n r e).1 ws2).n.hdrWm = (publish c a2.n r e).1.hdrWm ∧
    (mergeDuring a2 (publish c a.n r e).1 ws2).n.dataWm = (publish c a2.n r e).1.dataWm ∧
    (mergeDuring a2 (publish c a.n r e).1 ws2).n.daHeight = (publish c a2.n r e).1.daHeight ∧
    (mergeDuring a2 (publish c a.n r e).1 ws2).n.store.blocks = (publish c a2.n r e).1.store.blocks ∧
    (mergeDuring a2 (publish c a.n r e).1 ws2).n.store.height = (publish c a2.n r e).1.store.height ∧
    (mergeDuring a2 (publish c a.n r e).1 ws2).n.store.state = (publish c a2.n r e).1.store.state ∧
    ∀ key, (mergeDuring a2 (publish c a.n r e).1 ws2).n.store.getMeta key = (publish c a2.n r e).1.store.getMeta key := by
  have hmo : MetaOnly ws2 := fun w hw => by obtain ⟨v, hv, _⟩ := hi.writes w hw; exact ⟨_, _, hv⟩
  have hkeys : ∀ x ∈ metaPairs ws2, x.1 = wmKey d :=
    metaPairs_keys (fun w hw => by obtain ⟨v, hv, _⟩ := hi.writes w hw; exact ⟨_, hv⟩)
  have hst : a2.n.store = { a.n.store with kv := metaPairs ws2 ++ a.n.store.kv } := by
    rw [hi.store]; exact applyAll_metaOnly_kv hmo _
  have hn : a2.n = reMeta a.n (metaPairs ws2 ++ a.n.store.kv) a2.n.hdrWm a2.n.dataWm := by
    have h1 := hi.frame.lastState
    have h2 := hi.frame.lastBatchData
    have h3 := hi.frame.daHeight
    cases hn2 : a2.n with
    | mk st ls lbd hw dw dah =>
      rw [hn2] at hst h1 h2 h3
      simp only at hst h1 h2 h3
      simp [reMeta, hst, h1, h2, h3]
  have hr' : pendingRefuses c (reMeta a.n (metaPairs ws2 ++ a.n.store.kv) a2.n.hdrWm a2.n.dataWm) =
      pendingRefuses c a.n := by rw [← hn]; exact hr
  obtain ⟨M, hM, hkv, hp⟩ := publish_reMeta c a.n (metaPairs ws2 ++ a.n.store.kv) a2.n.hdrWm a2.n.dataWm r e hr'
  rw [← hn] at hp
  have hms : (mergeDuring a2 (publish c a.n r e).1 ws2).n.store =
      { (publish c a.n r e).1.store with kv := metaPairs ws2 ++ (publish c a.n r e).1.store.kv } :=
    applyAll_metaOnly_kv hmo _
  rw [hp]
  refine ⟨rfl, rfl, rfl, rfl, rfl, rfl, ?_, ?_, ?_, fun key => ?_⟩
  · rw [hms]; rfl
  · rw [hms]; rfl
  · rw [hms]; rfl
  · rw [hms]
    show (((metaPairs ws2 ++ (publish c a.n r e).1.store.kv).find? (·.1 = key)).map (·.2)) =
      (((M ++ (metaPairs ws2 ++ a.n.store.kv)).find? (·.1 = key)).map (·.2))
    rw [hkv]
    exact getMeta_swap _ _ _ (wmKey d) lastBatchDataKey (by cases d <;> decide) hkeys hM key

end Submit
