import Proofs.SubmitFault

/-! A whole submission tick with failing watermark persists (`Submit.submitLoopF`, `headersIterF`, `dataIterF`) against the
fault-free tick: the same node, writes aside — the image is the old one with a SUBLIST of the fault-free writes applied
(the failed persists are missing). -/
namespace Submit
open Wire Chain Producer

theorem applyAll_append (s : Store) (l1 l2 : List SW) : s.applyAll (l1 ++ l2) = (s.applyAll l1).applyAll l2 := by
  simp [Store.applyAll, List.foldl_append]

/-- the bookkeeping step on a node whose image lags -/
theorem raiseWmF_withStore (fail : Bool) (a : ANode) (s : Store) (d : Bool) (h : Nat) :
    raiseWmF fail (a.withStore s) d h =
      ((raiseWm a d h).1.withStore (s.applyAll (if fail then [] else (raiseWm a d h).2)),
       if fail then [] else (raiseWm a d h).2) := by
  unfold raiseWmF raiseWm ANode.withStore
  cases fail <;> cases d <;> simp <;> split <;> simp [Store.applyAll]

/-- an accepted, acknowledged chunk, the persist failing or not -/
def okStepF (fail : Bool) (d : Bool) (a : ANode) (sub : List Item) : ANode × List SW :=
  let r := raiseWmF fail (withMarks a d sub) d (lastH sub)
  ({ r.1 with daH := a.daH + 1, daBlobs := blobsOf a.daH d sub ++ r.1.daBlobs,
              daBytes := bytesOf a.daH d sub ++ r.1.daBytes }, r.2)

def failNow (d : Bool) (nf : Nat) (a : ANode) (sub : List Item) : Bool :=
  raises (withMarks a d sub) d (lastH sub) && decide (nf > 0)

/-- one attempt with `nf` armed faults: new node, new remainder, durable writes, the call record, faults left -/
def stepF (d : Bool) (nf : Nat) (a : ANode) (rem : List Item) (ans : DAAns) :
    ANode × List Item × List SW × SubmitCall × Nat :=
  let hs := rem.map (·.height)
  match ans with
  | .ok k =>
    if cnt rem k = 0 then (a, rem, [], ⟨d, hs, ans, a.daH, 0⟩, nf)
    else ((okStepF (failNow d nf a (rem.take (cnt rem k))) d a (rem.take (cnt rem k))).1, rem.drop (cnt rem k),
          (okStepF (failNow d nf a (rem.take (cnt rem k))) d a (rem.take (cnt rem k))).2,
          ⟨d, hs, ans, a.daH, cnt rem k⟩, if failNow d nf a (rem.take (cnt rem k)) then nf - 1 else nf)
  | .lost k =>
    (if cnt rem k = 0 then a else daStore a d (rem.take (cnt rem k)), rem, [], ⟨d, hs, ans, a.daH, cnt rem k⟩, nf)
  | _ => (a, rem, [], ⟨d, hs, ans, a.daH, 0⟩, nf)

theorem submitLoopF_succ (d : Bool) (fuel nf : Nat) (a : ANode) (rem : List Item) (script : List DAAns) (ws : List SW)
    (calls : List SubmitCall) :
    submitLoopF d (fuel+1) nf a rem script ws calls =
      if rem.isEmpty then ((a, ws, calls, true), nf)
      else if script.headD (.ok none) = .canceled then
        ((a, ws, calls ++ [(stepF d nf a rem .canceled).2.2.2.1], false), nf)
      else submitLoopF d fuel (stepF d nf a rem (script.headD (.ok none))).2.2.2.2
             (stepF d nf a rem (script.headD (.ok none))).1
             (stepF d nf a rem (script.headD (.ok none))).2.1 script.tail
             (ws ++ (stepF d nf a rem (script.headD (.ok none))).2.2.1)
             (calls ++ [(stepF d nf a rem (script.headD (.ok none))).2.2.2.1]) := by
  rw [submitLoopF]
  split
  · rfl
  · generalize script.headD (.ok none) = ans
    cases ans with
    | ok k =>
      cases k with
      | none =>
        simp only [stepF, okStepF, failNow, withMarks, addMarks, blobsOf, bytesOf, lastH, cnt, reduceCtorEq, ↓reduceIte]
        by_cases hc : rem.length = 0
        · simp only [hc, ↓reduceIte, List.append_nil]
        · simp only [hc, ↓reduceIte]
          rfl
      | some k =>
        simp only [stepF, okStepF, failNow, withMarks, addMarks, blobsOf, bytesOf, lastH, cnt, reduceCtorEq, ↓reduceIte]
        by_cases hc : min k rem.length = 0
        · simp only [hc, ↓reduceIte, List.append_nil]
        · simp only [hc, ↓reduceIte]
          rfl
    | lost k =>
      cases k <;> simp [stepF, daStore, blobsOf, bytesOf, cnt]
    | canceled => simp [stepF]
    | notIncluded => simp [stepF]
    | inMempool => simp [stepF]
    | tooBig => simp [stepF]
    | error => simp [stepF]


theorem withMarks_withStore (a : ANode) (s : Store) (d : Bool) (sub : List Item) :
    withMarks (a.withStore s) d sub = (withMarks a d sub).withStore s := by
  cases d <;> rfl

theorem failNow_withStore (d : Bool) (nf : Nat) (a : ANode) (s : Store) (sub : List Item) :
    failNow d nf (a.withStore s) sub = failNow d nf a sub := by
  cases d <;> rfl

theorem okStepF_withStore (fail : Bool) (d : Bool) (a : ANode) (s : Store) (sub : List Item) :
    okStepF fail d (a.withStore s) sub =
      ((okStep d a sub).1.withStore (s.applyAll (if fail then [] else (okStep d a sub).2)),
       if fail then [] else (okStep d a sub).2) := by
  unfold okStepF okStep
  rw [withMarks_withStore, raiseWmF_withStore]
  rfl

theorem raises_writes {a : ANode} {d : Bool} {h : Nat} (hr : raises a d h = true) : (raiseWm a d h).2.length = 1 := by
  unfold raises at hr
  unfold raiseWm
  cases d <;> simp at hr <;> simp [hr]

theorem failNow_writes {d : Bool} {nf : Nat} {a : ANode} {sub : List Item} (hf : failNow d nf a sub = true) :
    (okStep d a sub).2.length = 1 ∧ 0 < nf := by
  unfold failNow at hf
  simp only [Bool.and_eq_true, decide_eq_true_eq] at hf
  exact ⟨raises_writes hf.1, hf.2⟩

/-- one attempt on a node whose image lags, against the fault-free attempt -/
theorem stepF_withStore (d : Bool) (nf : Nat) (a : ANode) (s : Store) (rem : List Item) (ans : DAAns) :
    (stepF d nf (a.withStore s) rem ans).1 =
      (step d a rem ans).1.withStore (s.applyAll (stepF d nf (a.withStore s) rem ans).2.2.1) ∧
    (stepF d nf (a.withStore s) rem ans).2.1 = (step d a rem ans).2.1 ∧
    (stepF d nf (a.withStore s) rem ans).2.2.2.1 = (step d a rem ans).2.2.2 ∧
    (stepF d nf (a.withStore s) rem ans).2.2.2.2 ≤ nf ∧
    (stepF d nf (a.withStore s) rem ans).2.2.1.Sublist (step d a rem ans).2.2.1 ∧
    (step d a rem ans).2.2.1.length =
      (stepF d nf (a.withStore s) rem ans).2.2.1.length + (nf - (stepF d nf (a.withStore s) rem ans).2.2.2.2) := by
  cases ans with
  | ok k =>
    unfold stepF step
    by_cases hc : cnt rem k = 0
    · simp only [hc, if_true]
      refine ⟨?_, ?_, ?_, ?_, ?_, ?_⟩ <;>
        first | trivial | rfl | exact Nat.le_refl _ | exact List.Sublist.refl _ | (simp; done)
    · simp only [hc, if_false, failNow_withStore, okStepF_withStore]
      by_cases hf : failNow d nf a (List.take (cnt rem k) rem) = true
      · obtain ⟨h1, h2⟩ := failNow_writes hf
        simp only [hf, if_true]
        refine ⟨?_, ?_, ?_, ?_, ?_, ?_⟩ <;>
          first | trivial | rfl | omega | exact List.nil_sublist _ | (simp [h1]; omega)
      · simp only [hf, Bool.false_eq_true, if_false]
        refine ⟨?_, ?_, ?_, ?_, ?_, ?_⟩ <;>
          first | trivial | rfl | exact Nat.le_refl _ | exact List.Sublist.refl _ | (simp; done)
  | lost k =>
    unfold stepF step
    refine ⟨?_, rfl, rfl, Nat.le_refl _, List.Sublist.refl _, by simp⟩
    simp only
    split <;> rfl
  | canceled => exact ⟨rfl, rfl, rfl, Nat.le_refl _, List.Sublist.refl _, by simp [stepF, step]⟩
  | notIncluded => exact ⟨rfl, rfl, rfl, Nat.le_refl _, List.Sublist.refl _, by simp [stepF, step]⟩
  | inMempool => exact ⟨rfl, rfl, rfl, Nat.le_refl _, List.Sublist.refl _, by simp [stepF, step]⟩
  | tooBig => exact ⟨rfl, rfl, rfl, Nat.le_refl _, List.Sublist.refl _, by simp [stepF, step]⟩
  | error => exact ⟨rfl, rfl, rfl, Nat.le_refl _, List.Sublist.refl _, by simp [stepF, step]⟩


/-- the result `rF` of a run with `nf` armed faults on the image `s` against the result `r` of the fault-free run: the same
node, calls and outcome; the writes issued are a sublist `l` of the fault-free writes `lf`, the image is `s` with `l`
applied, and exactly one fault was consumed per missing write -/
def Sim (s : Store) (ws wsF : List SW) (nf : Nat) (r : ANode × List SW × List SubmitCall × Bool)
    (rF : (ANode × List SW × List SubmitCall × Bool) × Nat) : Prop :=
  ∃ l lf, l.Sublist lf ∧ r.2.1 = ws ++ lf ∧ rF.2 ≤ nf ∧ lf.length = l.length + (nf - rF.2) ∧
    rF.1 = (r.1.withStore (s.applyAll l), wsF ++ l, r.2.2.1, r.2.2.2)

theorem Sim.stop (s : Store) (ws wsF : List SW) (nf : Nat) (a : ANode) (calls : List SubmitCall) (b : Bool) :
    Sim s ws wsF nf (a, ws, calls, b) ((a.withStore s, wsF, calls, b), nf) :=
  ⟨[], [], List.Sublist.refl _, by simp, Nat.le_refl _, by simp, by simp [Store.applyAll]⟩

theorem Sim.lift {s : Store} {ws wsF w w' : List SW} {nf nf' : Nat} {r : ANode × List SW × List SubmitCall × Bool}
    {rF : (ANode × List SW × List SubmitCall × Bool) × Nat}
    (h : Sim (s.applyAll w') (ws ++ w) (wsF ++ w') nf' r rF) (hs : w'.Sublist w) (hn : nf' ≤ nf)
    (hl : w.length = w'.length + (nf - nf')) : Sim s ws wsF nf r rF := by
  obtain ⟨l, lf, h1, h2, h3, h4, h5⟩ := h
  refine ⟨w' ++ l, w ++ lf, hs.append h1, by rw [h2, List.append_assoc], by omega, ?_, ?_⟩
  · simp only [List.length_append]; omega
  · rw [h5, applyAll_append, List.append_assoc]

/-- **the retry loop with failing persists is the retry loop, up to the image** -/
theorem submitLoopF_sim (d : Bool) (fuel : Nat) : ∀ (nf : Nat) (a : ANode) (s : Store) (rem : List Item)
    (script : List DAAns) (ws wsF : List SW) (calls : List SubmitCall),
    Sim s ws wsF nf (submitLoop d fuel a rem script ws calls)
      (submitLoopF d fuel nf (a.withStore s) rem script wsF calls) := by
  induction fuel with
  | zero => intro nf a s rem script ws wsF calls; exact Sim.stop s ws wsF nf a calls _
  | succ f ih =>
    intro nf a s rem script ws wsF calls
    rw [submitLoop_succ, submitLoopF_succ]
    by_cases he : rem.isEmpty
    · rw [if_pos he, if_pos he]; exact Sim.stop s ws wsF nf a calls _
    · rw [if_neg he, if_neg he]
      by_cases hc : script.headD (.ok none) = .canceled
      · rw [if_pos hc, if_pos hc]; exact Sim.stop s ws wsF nf a _ _
      · rw [if_neg hc, if_neg hc]
        obtain ⟨e1, e2, e3, e4, e5, e6⟩ := stepF_withStore d nf a s rem (script.headD (.ok none))
        rw [e1, e2, e3]
        exact (ih _ _ _ _ _ _ _ _).lift e5 e4 e6


/-- the result `rF` of a tick with `nf` armed faults against the result `r` of the fault-free tick on the same node `a`:
the same node (watermarks in memory, marks, DA double, DA-included height, …), calls and outcome; the writes issued are a
sublist `l` of the fault-free writes, the image is the old image with `l` applied, one fault consumed per missing write -/
def TickSim (a : ANode) (nf : Nat) (r : ANode × List SW × List SubmitCall × IterOut)
    (rF : (ANode × List SW × List SubmitCall × IterOut) × Nat) : Prop :=
  ∃ l, l.Sublist r.2.1 ∧ rF.2 ≤ nf ∧ r.2.1.length = l.length + (nf - rF.2) ∧
    rF.1 = (r.1.withStore (a.n.store.applyAll l), l, r.2.2.1, r.2.2.2)

theorem TickSim.same (a : ANode) (nf : Nat) (o : IterOut) : TickSim a nf (a, [], [], o) ((a, [], [], o), nf) :=
  ⟨[], List.Sublist.refl _, Nat.le_refl _, by simp, rfl⟩

theorem Sim.tick {a : ANode} {nf : Nat} {r : ANode × List SW × List SubmitCall × Bool}
    {rF : (ANode × List SW × List SubmitCall × Bool) × Nat} (h : Sim a.n.store [] [] nf r rF) :
    TickSim a nf (r.1, r.2.1, r.2.2.1, if r.2.2.2 then .done else .incomplete)
      ((rF.1.1, rF.1.2.1, rF.1.2.2.1, if rF.1.2.2.2 then .done else .incomplete), rF.2) := by
  obtain ⟨l, lf, h1, h2, h3, h4, h5⟩ := h
  rw [List.nil_append] at h2
  refine ⟨l, by rw [h2]; exact h1, h3, by rw [h2]; exact h4, ?_⟩
  rw [h5]; simp

theorem withStore_self (a : ANode) : a.withStore a.n.store = a := rfl

/-- **a header tick with failing persists is the header tick, up to the image** -/
theorem headersIterF_sim (nf : Nat) (a : ANode) (script : List DAAns) :
    TickSim a nf (headersIter a script) (headersIterF nf a script) := by
  unfold headersIter headersIterF
  by_cases h1 : a.n.store.height = a.n.hdrWm
  · rw [if_pos h1, if_pos h1]; exact TickSim.same a nf _
  · rw [if_neg h1, if_neg h1]
    by_cases h2 : a.n.hdrWm > a.n.store.height
    · rw [if_pos h2, if_pos h2]; exact TickSim.same a nf _
    · rw [if_neg h2, if_neg h2]
      cases hp : pendingBlocks a.n.store a.n.hdrWm with
      | none => exact TickSim.same a nf _
      | some bs =>
        have := submitLoopF_sim false maxSubmitAttempts nf a a.n.store
          (bs.map fun b => ({ height := b.sh.hdr.height, key := b.sh.hdr.hash, blob := hdrBlob b } : Item)) script [] [] []
        rw [withStore_self] at this
        exact this.tick

/-- **a data tick with failing persists is the data tick, up to the image** -/
theorem dataIterF_sim (nf : Nat) (a : ANode) (script : List DAAns) :
    TickSim a nf (dataIter a script) (dataIterF nf a script) := by
  unfold dataIter dataIterF
  by_cases h1 : a.n.store.height = a.n.dataWm
  · rw [if_pos h1, if_pos h1]; exact TickSim.same a nf _
  · rw [if_neg h1, if_neg h1]
    by_cases h2 : a.n.dataWm > a.n.store.height
    · rw [if_pos h2, if_pos h2]; exact TickSim.same a nf _
    · rw [if_neg h2, if_neg h2]
      cases hp : pendingBlocks a.n.store a.n.dataWm with
      | none => exact TickSim.same a nf _
      | some bs =>
        simp only
        split
        · generalize ((bs.getLast?.map fun b => (b.data.metadata.map (·.height)).getD 0).getD 0) = h
          have e := raiseWmF_withStore (raises a true h && decide (nf > 0)) a a.n.store true h
          rw [withStore_self] at e
          by_cases hf : (raises a true h && decide (nf > 0)) = true
          · simp only [Bool.and_eq_true, decide_eq_true_eq] at hf
            have hw := raises_writes hf.1
            refine ⟨[], List.nil_sublist _, ?_, ?_, ?_⟩
            · simp only [hf.1, hf.2, decide_true, Bool.and_self, if_true]; omega
            · simp only [hf.1, hf.2, decide_true, Bool.and_self, if_true]
              show (raiseWm a true h).2.length = _
              rw [hw]; simp; omega
            · rw [e]; simp [hf.1, hf.2]
          · have hf' : (raises a true h && decide (nf > 0)) = false := by simpa using hf
            rw [hf'] at e ⊢
            refine ⟨(raiseWm a true h).2, List.Sublist.refl _, Nat.le_refl _, by simp, ?_⟩
            rw [e]; rfl
        · have := submitLoopF_sim true maxSubmitAttempts nf a a.n.store
            ((bs.filter fun b => !b.data.txs.isEmpty).map fun b =>
              ({ height := (b.data.metadata.map (·.height)).getD 0, key := b.data.daCommitment, blob := dataBlob b } : Item))
            script [] [] []
          rw [withStore_self] at this
          exact this.tick

end Submit
