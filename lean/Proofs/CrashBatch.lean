import Proofs.CrashRun

/-!
# Every committed block is the block of one batch of the history (C01 "commits to exactly the transactions of the
batch it was built from (in order)", C04 across crashes)

Ghost history: nothing is added to the model.  For a history `ops` (steps and crashes) an index function
`f : height → position in ops` is maintained *in the proof*: whenever a step finds nothing stored at `height + 1` and
builds a block there, `f (height+1)` becomes the position of that step.  The invariant `Src` says that every block
stored above the initial height — in the durable image before the last operation, in the writes of the last
operation, hence in every crash image and in the node's store — has exactly the transactions (in order) and the
timestamp of the batch answered at position `f h`, and that `f` is strictly increasing along the stored heights.
Blocks that are re-used ("using pending block": after an execution failure, after a restart, after a crash) keep
their source: the final save re-writes the same transactions and time.  At the initial height the stored block is
the genesis block (empty, genesis time): the first block consumes no batch.
-/
namespace Producer
open Wire Chain

/-! ## where the blocks a step saves come from -/

/-- what `finish` saves: the block it was given (same transactions, same time), signed and with metadata -/
theorem finish_saves (c : Cfg) (n : Node) (ws0 : List SW) (sh : SHeader) (d : Data) (ldh : Bytes) (ex : ExecResp)
    (h : Nat) (b : Block) (hm : SW.saveBlock h b ∈ (finish c n ws0 sh d ldh ex).2.1) :
    SW.saveBlock h b ∈ ws0 ∨ (h = sh.hdr.height ∧ b.data.txs = d.txs ∧ b.sh.hdr.time = sh.hdr.time) := by
  unfold finish at hm
  cases ex with
  | fail => exact Or.inl hm
  | ok =>
    simp only at hm
    split at hm
    · exact Or.inl hm
    · simp only [List.mem_append, List.mem_cons, List.mem_nil_iff, or_false] at hm
      rcases hm with (hm | hm | hm) | hm
      · exact Or.inl hm
      · right
        simp only [SW.saveBlock.injEq] at hm
        obtain ⟨rfl, rfl⟩ := hm
        exact ⟨rfl, rfl, rfl⟩
      · cases hm
      · exfalso
        unfold setHeightW at hm
        split at hm
        · simp at hm
        · cases hm

/-- **where the transactions and the time of a saved block come from**: a step saves blocks only at `height + 1`;
either a block was already stored there and the saved block has its transactions and time ("using pending block"),
or nothing was stored there, the sequencing layer answered a batch, and the saved block has exactly the batch's
transactions, in order, and the batch's timestamp -/
def SaveSrc (n : Node) (r : SeqResp) (h : Nat) (b : Block) : Prop :=
  h = n.store.height + 1 ∧
  ((∃ pb, n.store.getBlock h = some pb ∧ b.data.txs = pb.data.txs ∧ b.sh.hdr.time = pb.sh.hdr.time) ∨
   (n.store.getBlock h = none ∧ ∃ txs bd, r = .batch txs b.sh.hdr.time bd ∧ b.data.txs = txs))

theorem publish_saves {c : Cfg} {n : Node} (hi : Inv c n) (r : SeqResp) (e : ExecResp) (h : Nat) (b : Block)
    (hm : SW.saveBlock h b ∈ (publish c n r e).2.1) : SaveSrc n r h b := by
  unfold publish at hm
  split at hm
  · cases hm
  · split at hm
    · cases hm
    · rename_i ls lhh ldh lht hprev
      split at hm
      · rename_i pb hpb
        rcases finish_saves c n [] pb.sh pb.data ldh e h b hm with h0 | ⟨h1, h2, h3⟩
        · cases h0
        · have hH := (hi.pend pb hpb).height
          have : h = n.store.height + 1 := by rw [h1, hH]
          exact ⟨this, Or.inl ⟨pb, by rw [this]; exact hpb, h2, h3⟩⟩
      · rename_i hnone
        unfold fresh at hm
        cases r with
        | err => cases hm
        | absent => cases hm
        | batch txs ts bd =>
          simp only at hm
          split at hm
          · simp at hm
          · split at hm
            · simp at hm
            · unfold buildAndFinish at hm
              simp only at hm
              obtain ⟨f1, _, _, f4, _, _, _, f8, _⟩ := createBlock_facts c n.lastState
                ((n.store.apply (.setMeta lastBatchDataKey (batchDataToBytes bd))).height + 1) ls lhh txs ts
              generalize createBlock c n.lastState
                ((n.store.apply (.setMeta lastBatchDataKey (batchDataToBytes bd))).height + 1) ls lhh txs ts = blk
                at hm f1 f4 f8
              have hh0 : (n.store.apply (.setMeta lastBatchDataKey (batchDataToBytes bd))).height = n.store.height := rfl
              rw [hh0] at f1
              have hfresh : ∀ b', (b'.data.txs = blk.2.txs ∧ b'.sh.hdr.time = blk.1.hdr.time) →
                  SaveSrc n (.batch txs ts bd) (n.store.height + 1) b' := by
                intro b' hb'
                exact ⟨rfl, Or.inr ⟨hnone, txs, bd, by rw [hb'.2, f4], by rw [hb'.1, f8]⟩⟩
              rcases finish_saves _ _ _ _ _ _ _ h b hm with h0 | ⟨h1, h2, h3⟩
              · simp only [List.mem_cons, List.mem_nil_iff, or_false] at h0
                rcases h0 with h0 | h0
                · cases h0
                · simp only [SW.saveBlock.injEq] at h0
                  obtain ⟨rfl, rfl⟩ := h0
                  exact hfresh _ ⟨rfl, rfl⟩
              · rw [f1] at h1
                subst h1
                exact hfresh b ⟨h2, h3⟩

/-! ## stored blocks along lists of writes -/

theorem getBlock_apply_cases (s : Store) (w : SW) (h : Nat) :
    (s.apply w).getBlock h = s.getBlock h ∨ ∃ b, w = .saveBlock h b ∧ (s.apply w).getBlock h = some b := by
  cases w with
  | saveBlock h' b =>
    by_cases hh : h' = h
    · subst hh; exact Or.inr ⟨b, rfl, getBlock_saveBlock_same _ _ _⟩
    · exact Or.inl (getBlock_saveBlock_other _ _ _ _ hh)
  | setHeight h' => exact Or.inl (getBlock_setHeight _ _ _)
  | updateState st => exact Or.inl rfl
  | setMeta k v => exact Or.inl rfl

/-- a block of the store after a list of writes is a block of the store before, or one of the writes -/
theorem getBlock_applyAll_cases (s : Store) (l : List SW) (h : Nat) (b : Block)
    (hb : (s.applyAll l).getBlock h = some b) : s.getBlock h = some b ∨ SW.saveBlock h b ∈ l := by
  induction l generalizing s with
  | nil => exact Or.inl hb
  | cons w l ih =>
    rw [applyAll_cons] at hb
    rcases ih (s.apply w) hb with h1 | h1
    · rcases getBlock_apply_cases s w h with h2 | ⟨b', h2, h3⟩
      · rw [h2] at h1; exact Or.inl h1
      · rw [h3] at h1
        simp only [Option.some.injEq] at h1
        subst h1
        exact Or.inr (by rw [h2]; exact List.mem_cons_self ..)
    · exact Or.inr (List.mem_cons_of_mem _ h1)

/-- a height that holds a block keeps holding one -/
theorem stored_apply (s : Store) (w : SW) (h : Nat) (hs : s.getBlock h ≠ none) : (s.apply w).getBlock h ≠ none := by
  rcases getBlock_apply_cases s w h with h1 | ⟨b, _, h1⟩
  · rw [h1]; exact hs
  · rw [h1]; simp

theorem stored_applyAll (s : Store) (l : List SW) (h : Nat) (hs : s.getBlock h ≠ none) :
    (s.applyAll l).getBlock h ≠ none := by
  induction l generalizing s with
  | nil => exact hs
  | cons w l ih => rw [applyAll_cons]; exact ih _ (stored_apply s w h hs)

theorem stored_prefix (s : Store) (l : List SW) (k : Nat) (h : Nat) (hs : (s.applyPrefix k l).getBlock h ≠ none) :
    (s.applyAll l).getBlock h ≠ none := by
  have : s.applyAll l = (s.applyAll (l.take k)).applyAll (l.drop k) := by
    rw [← applyAll_append, List.take_append_drop]
  rw [this]
  exact stored_applyAll _ _ _ hs

/-! ## the ghost invariant -/

/-- block `b` is the block of the batch answered at position `i` of the history: `ops[i]` is a production step whose
sequencing-layer answer is a batch with exactly `b`'s transactions, in order, and `b`'s timestamp -/
def FromBatch (ops : List Op) (i : Nat) (b : Block) : Prop :=
  ∃ txs bd e, ops[i]? = some (.step (.batch txs b.sh.hdr.time bd) e) ∧ b.data.txs = txs

/-- the block stored at the initial height is the genesis block as far as its content goes: no transactions,
genesis time (the first block consumes no batch) -/
def GenesisLike (c : Cfg) (b : Block) : Prop := b.data.txs = [] ∧ b.sh.hdr.time = c.genesisTime

theorem FromBatch.lt {ops : List Op} {i : Nat} {b : Block} (h : FromBatch ops i b) : i < ops.length := by
  obtain ⟨_, _, _, h1, _⟩ := h
  exact (List.getElem?_eq_some_iff.mp h1).1

theorem FromBatch.snoc {ops : List Op} {i : Nat} {b : Block} (h : FromBatch ops i b) (op : Op) :
    FromBatch (ops ++ [op]) i b := by
  have hlt := h.lt
  obtain ⟨txs, bd, e, h1, h2⟩ := h
  exact ⟨txs, bd, e, by rw [List.getElem?_append_left hlt]; exact h1, h2⟩

theorem FromBatch.congr {ops : List Op} {i : Nat} {b b' : Block} (h : FromBatch ops i b)
    (ht : b'.data.txs = b.data.txs) (hh : b'.sh.hdr.time = b.sh.hdr.time) : FromBatch ops i b' := by
  obtain ⟨txs, bd, e, h1, h2⟩ := h
  exact ⟨txs, bd, e, by rw [hh]; exact h1, by rw [ht]; exact h2⟩

/-- the ghost invariant of a history `ops` ending in the state `σ`, with index function `f` -/
structure Src (c : Cfg) (ops : List Op) (σ : RunSt) (f : Nat → Nat) : Prop where
  base : ∀ h b, c.initialHeight < h → σ.base.getBlock h = some b → FromBatch ops (f h) b
  ws : ∀ h b, SW.saveBlock h b ∈ σ.ws → c.initialHeight < h → FromBatch ops (f h) b
  base0 : ∀ b, σ.base.getBlock c.initialHeight = some b → GenesisLike c b
  ws0 : ∀ b, SW.saveBlock c.initialHeight b ∈ σ.ws → GenesisLike c b
  mono : ∀ h h', c.initialHeight < h → h < h' → σ.node.store.getBlock h' ≠ none → f h < f h'

/-- every crash image (in particular the image after all writes = the node's store) has sourced blocks only -/
theorem Src.image {c : Cfg} {ops : List Op} {σ : RunSt} {f : Nat → Nat} (hs : Src c ops σ f) (k : Nat) :
    (∀ h b, c.initialHeight < h → (σ.base.applyPrefix k σ.ws).getBlock h = some b → FromBatch ops (f h) b) ∧
    (∀ b, (σ.base.applyPrefix k σ.ws).getBlock c.initialHeight = some b → GenesisLike c b) := by
  refine ⟨fun h b hgt hb => ?_, fun b hb => ?_⟩
  · rcases getBlock_applyAll_cases _ _ _ _ hb with h1 | h1
    · exact hs.base h b hgt h1
    · exact hs.ws h b (List.mem_of_mem_take h1) hgt
  · rcases getBlock_applyAll_cases _ _ _ _ hb with h1 | h1
    · exact hs.base0 b h1
    · exact hs.ws0 b (List.mem_of_mem_take h1)

theorem Src.node {c : Cfg} {ops : List Op} {σ : RunSt} {f : Nat → Nat} (hs : Src c ops σ f) (hg : Good c σ) :
    (∀ h b, c.initialHeight < h → σ.node.store.getBlock h = some b → FromBatch ops (f h) b) ∧
    (∀ b, σ.node.store.getBlock c.initialHeight = some b → GenesisLike c b) := by
  have := hs.image σ.ws.length
  rw [applyPrefix_all _ _ _ (Nat.le_refl _), ← hg.store] at this
  exact this

theorem src_init (c : Cfg) (f : Nat → Nat) : Src c [] (initSt c) f := by
  have hw : ∀ h b, SW.saveBlock h b ∈ (initSt c).ws → h = c.initialHeight ∧ b = genesisBlock c := by
    intro h b hm
    simp only [initSt, freshWrites, List.mem_append, List.mem_cons, List.mem_nil_iff, or_false] at hm
    rcases hm with ((hm | hm) | hm) | hm
    · simp only [SW.saveBlock.injEq] at hm; exact hm
    · exfalso
      unfold setHeightW at hm
      split at hm
      · simp at hm
      · cases hm
    · exfalso; unfold wmWrite at hm; split at hm <;> simp at hm
    · exfalso; unfold wmWrite at hm; split at hm <;> simp at hm
  refine ⟨fun h b _ hb => (by cases hb), fun h b hm hgt => ?_, fun b hb => (by cases hb), fun b hm => ?_,
    fun h h' h1 h2 hst => ?_⟩
  · have := (hw h b hm).1; omega
  · rw [(hw _ b hm).2]; exact ⟨rfl, rfl⟩
  · exfalso
    apply hst
    show (freshDisk c).getBlock h' = none
    rw [(freshDisk_facts c).2.1, if_neg (by omega)]

/-- **one operation keeps the ghost invariant**; a step that builds a fresh block at `height + 1` makes its own
position the source of that height -/
theorem opStep_src {c : Cfg} {ops : List Op} {σ : RunSt} {f : Nat → Nat} (hg : Good c σ) (hs : Src c ops σ f) (op : Op) :
    ∃ σ' f', opStep c σ op = .ok σ' ∧ Good c σ' ∧ Src c (ops ++ [op]) σ' f' := by
  obtain ⟨hn, hn0⟩ := hs.node hg
  cases op with
  | step r e =>
    obtain ⟨σ', hop, hg', _⟩ := opStep_good hg (.step r e)
    simp only [opStep, Except.ok.injEq] at hop
    subst hop
    have hi := hg.inv
    have hsave := fun h b => publish_saves hi r e h b
    -- blocks of the new store: old ones, or saved at `height + 1`
    have hstored : ∀ h', (publish c σ.node r e).1.store.getBlock h' ≠ none →
        σ.node.store.getBlock h' ≠ none ∨ h' = σ.node.store.height + 1 := by
      intro h' hne
      cases hb : (publish c σ.node r e).1.store.getBlock h' with
      | none => exact absurd hb hne
      | some b =>
        rw [hg'.store] at hb
        rcases getBlock_applyAll_cases _ _ _ _ hb with h1 | h1
        · left; show σ.node.store.getBlock h' ≠ none; rw [h1]; simp
        · exact Or.inr (hsave h' b h1).1
    cases hpend : σ.node.store.getBlock (σ.node.store.height + 1) with
    | some pb =>
      -- "using pending block": same source
      refine ⟨_, f, rfl, hg', ?_⟩
      refine ⟨fun h b hgt hb => (hn h b hgt hb).snoc _, fun h b hm hgt => ?_, fun b hb => hn0 b hb, fun b hm => ?_,
        fun h h' h1 h2 hst => ?_⟩
      · obtain ⟨hH, hsrc⟩ := hsave h b hm
        rcases hsrc with ⟨pb', hp', t1, t2⟩ | ⟨hnone, _⟩
        · exact ((hn h pb' hgt hp').congr t1 t2).snoc _
        · rw [hH, hpend] at hnone; cases hnone
      · obtain ⟨hH, hsrc⟩ := hsave _ b hm
        rcases hsrc with ⟨pb', hp', t1, t2⟩ | ⟨hnone, _⟩
        · obtain ⟨g1, g2⟩ := hn0 pb' hp'
          exact ⟨by rw [t1]; exact g1, by rw [t2]; exact g2⟩
        · rw [hH, hpend] at hnone; cases hnone
      · refine hs.mono h h' h1 h2 ?_
        rcases hstored h' hst with h3 | h3
        · exact h3
        · rw [h3, hpend]; simp
    | none =>
      -- nothing stored at `height + 1`: a block saved there is built from this step's batch
      have hH : σ.node.store.height + 1 > c.initialHeight := by
        have := hi.low
        by_cases heq : σ.node.store.height + 1 = c.initialHeight
        · obtain ⟨pb, hpb⟩ := hg.live.firstStored heq
          rw [← heq, hpend] at hpb; cases hpb
        · omega
      refine ⟨_, fun h => if h = σ.node.store.height + 1 then ops.length else f h, rfl, hg', ?_⟩
      refine ⟨fun h b hgt hb => ?_, fun h b hm hgt => ?_, fun b hb => hn0 b hb, fun b hm => ?_, fun h h' h1 h2 hst => ?_⟩
      · have hne : h ≠ σ.node.store.height + 1 := by
          intro heq; rw [heq, hpend] at hb; cases hb
        simp only [hne, ↓reduceIte]
        exact (hn h b hgt hb).snoc _
      · obtain ⟨hHh, hsrc⟩ := hsave h b hm
        rcases hsrc with ⟨pb', hp', _, _⟩ | ⟨_, txs, bd, hr, ht⟩
        · rw [hHh, hpend] at hp'; cases hp'
        · simp only [hHh, ↓reduceIte]
          exact ⟨txs, bd, e, by rw [List.getElem?_append_right (Nat.le_refl _)]; simp [hr], ht⟩
      · exfalso
        have := (hsave _ b hm).1
        omega
      · show (if h = σ.node.store.height + 1 then ops.length else f h) <
            (if h' = σ.node.store.height + 1 then ops.length else f h')
        rcases hstored h' hst with h3 | h3
        · -- an old block: both heights keep their source
          have hne' : h' ≠ σ.node.store.height + 1 := by intro heq; rw [heq] at h3; exact h3 hpend
          have hne : h ≠ σ.node.store.height + 1 := by
            intro heq
            apply h3
            exact hi.above h' (by omega)
          simp only [hne, hne', ↓reduceIte]
          exact hs.mono h h' h1 h2 h3
        · have hne : h ≠ σ.node.store.height + 1 := by omega
          simp only [hne, h3, ↓reduceIte]
          obtain ⟨b, hb, _⟩ := hi.chain h (by omega) (by omega)
          exact (hn h b h1 hb).lt
  | crash k =>
    obtain ⟨n, ws, hst, hl, hsy, hwm, hstore, hcuts, hadv, _, hblk, _⟩ := start_of_dinv' (hg.cuts k)
    refine ⟨{ base := σ.base.applyPrefix k σ.ws, ws := ws, node := n }, f, by simp only [opStep, hst],
      ⟨hl, hsy, hwm, hstore, hcuts, hadv⟩, ?_⟩
    obtain ⟨im, im0⟩ := hs.image k
    refine ⟨fun h b hgt hb => (im h b hgt hb).snoc _, fun h b hm hgt => ?_, im0, fun b hm => ?_, fun h h' h1 h2 hstd => ?_⟩
    · have := (hblk h b hm).1; omega
    · rw [(hblk _ b hm).2]; exact ⟨rfl, rfl⟩
    · refine hs.mono h h' h1 h2 ?_
      rw [hg.store]
      apply stored_prefix _ _ k
      cases hb : n.store.getBlock h' with
      | none => exact absurd hb hstd
      | some b =>
        rw [hstore] at hb
        rcases getBlock_applyAll_cases _ _ _ _ hb with h3 | h3
        · rw [h3]; simp
        · have := (hblk h' b h3).1; omega

/-- **every history keeps the ghost invariant** -/
theorem runOps_src {c : Cfg} {pre : List Op} {σ : RunSt} {f : Nat → Nat} (hg : Good c σ) (hs : Src c pre σ f)
    (ops : List Op) : ∃ σ' f', runOps c σ ops = .ok σ' ∧ Good c σ' ∧ Src c (pre ++ ops) σ' f' := by
  induction ops generalizing pre σ f with
  | nil => exact ⟨σ, f, rfl, hg, by rw [List.append_nil]; exact hs⟩
  | cons op ops ih =>
    obtain ⟨σ1, f1, hop, hg1, hs1⟩ := opStep_src hg hs op
    obtain ⟨σ2, f2, hr, hg2, hs2⟩ := ih hg1 hs1
    refine ⟨σ2, f2, by simp only [runOps, hop]; exact hr, hg2, ?_⟩
    have : pre ++ op :: ops = pre ++ [op] ++ ops := by simp
    rw [this]; exact hs2

/-- a history of steps only is a run of C01 -/
theorem runOps_steps (c : Cfg) (σ : RunSt) (rs : List (SeqResp × ExecResp)) :
    ∃ σ', runOps c σ (rs.map fun r => Op.step r.1 r.2) = .ok σ' ∧ σ'.node = run c σ.node rs := by
  induction rs generalizing σ with
  | nil => exact ⟨σ, rfl, rfl⟩
  | cons r rs ih =>
    obtain ⟨σ', h1, h2⟩ := ih { base := σ.node.store, ws := (publish c σ.node r.1 r.2).2.1, node := (publish c σ.node r.1 r.2).1 }
    exact ⟨σ', by simp only [List.map_cons, runOps, opStep]; exact h1, h2⟩

end Producer
