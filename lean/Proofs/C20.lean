import Model.Based

/-! Helper lemmas for `Spec.C20`: size accounting of the pop / scan loops. -/
namespace Based

theorem bytesOf_nil : bytesOf [] = 0 := rfl
theorem bytesOf_cons (a : Item) (l : List Item) : bytesOf (a :: l) = a.tx.length + bytesOf l := by
  simp [bytesOf]
theorem bytesOf_append (a b : List Item) : bytesOf (a ++ b) = bytesOf a + bytesOf b := by
  simp [bytesOf, List.map_append, List.sum_append]

/-- the inner pop loop: what is taken is a prefix, is accounted exactly and stays within the limit -/
theorem popItems_spec (max : Nat) (items : List Item) (size : Nat) :
    (popItems max items size).1 ++ (popItems max items size).2.2 = items ∧
    (popItems max items size).2.1 = size + bytesOf (popItems max items size).1 ∧
    (size ≤ max → (popItems max items size).2.1 ≤ max) := by
  induction items generalizing size with
  | nil => simp [popItems, bytesOf]
  | cons it r ih =>
    simp only [popItems]
    split
    · simp [bytesOf]
    · rename_i h
      have := ih (size + it.tx.length)
      refine ⟨?_, ?_, ?_⟩
      · simp [this.1]
      · simp only [bytesOf_cons]; omega
      · intro _; exact this.2.2 (by omega)

theorem scanItems_spec (max : Nat) (items : List Item) (size : Nat) :
    (scanItems max items size).1 ++ (scanItems max items size).2.2 = items ∧
    (scanItems max items size).2.1 = size + bytesOf (scanItems max items size).1 ∧
    (size ≤ max → (scanItems max items size).2.1 ≤ max) := by
  induction items generalizing size with
  | nil => simp [scanItems, bytesOf]
  | cons it r ih =>
    simp only [scanItems]
    split
    · simp [bytesOf]
    · rename_i h
      have := ih (size + it.tx.length)
      refine ⟨?_, ?_, ?_⟩
      · simp [this.1]
      · simp only [bytesOf_cons]; omega
      · intro _; exact this.2.2 (by omega)

theorem popQueue_spec (max : Nat) (q : List Entry) (size ts : Nat) :
    (popQueue max q size ts).size = size + bytesOf (popQueue max q size ts).taken ∧
    (size ≤ max → (popQueue max q size ts).size ≤ max) := by
  induction q generalizing size ts with
  | nil => simp [popQueue, bytesOf]
  | cons e q ih =>
    simp only [popQueue]
    have hp := popItems_spec max e.items size
    split
    · have := ih (popItems max e.items size).2.1 e.ts
      refine ⟨?_, ?_⟩
      · simp only [bytesOf_append]; omega
      · intro h; exact this.2 (hp.2.2 h)
    · exact ⟨hp.2.1, hp.2.2⟩

/-- pop conserves the queue: taken ++ what stays = what was queued (nothing dropped or reordered) -/
theorem popQueue_flat (max : Nat) (q : List Entry) (size ts : Nat) :
    (popQueue max q size ts).taken ++ flat (popQueue max q size ts).queue = flat q := by
  induction q generalizing size ts with
  | nil => simp [popQueue, flat]
  | cons e q ih =>
    simp only [popQueue]
    have hp := popItems_spec max e.items size
    split
    · rename_i h
      have := ih (popItems max e.items size).2.1 e.ts
      have h2 : (popItems max e.items size).2.2 = [] := by simpa using h
      rw [h2, List.append_nil] at hp
      simp only [flat, List.flatMap_cons, List.append_assoc] at *
      rw [this, hp.1]
    · simp only [flat, List.flatMap_cons] at *
      rw [← List.append_assoc, hp.1]

theorem scan_spec (drift : Nat) (da : Nat → Fetch) (max lastDA fuel next size ts : Nat) :
    (scan drift da max lastDA fuel next size ts).size = size + bytesOf (scan drift da max lastDA fuel next size ts).taken ∧
    (size ≤ max → (scan drift da max lastDA fuel next size ts).size ≤ max) := by
  induction fuel generalizing next size ts with
  | zero => simp [scan, bytesOf]
  | succ fuel ih =>
    simp only [scan]
    split
    · simp [bytesOf]
    · split
      · simp [bytesOf]
      · split
        · simp [bytesOf]
        · exact ih _ _ _
        · simp [bytesOf]
        · rename_i items hts _
          split
          · exact ih _ _ _
          · have hp := scanItems_spec max items size
            split
            · have := ih (next + 1) (scanItems max items size).2.1 hts
              refine ⟨?_, ?_⟩
              · simp only [bytesOf_append]; omega
              · intro h; exact this.2 (hp.2.2 h)
            · exact ⟨hp.2.1, hp.2.2⟩

end Based

namespace Based

theorem scanQ_spec (q : List Entry) (drift : Nat) (da : Nat → Fetch) (max lastDA fuel next size ts : Nat) :
    (scanQ q drift da max lastDA fuel next size ts).size = size + bytesOf (scanQ q drift da max lastDA fuel next size ts).taken ∧
    (size ≤ max → (scanQ q drift da max lastDA fuel next size ts).size ≤ max) := by
  unfold scanQ
  split
  · exact scan_spec ..
  · simp [bytesOf]

/-! ## DA order as a specification independent of the scan loop -/

/-- what the DA layer holds: the (immutable) content of every height, in position order -/
abbrev Content := Nat → List Item

/-- the DA stream: the items of `n` consecutive heights from `lo`, by height then position -/
def stream (c : Content) (lo : Nat) : Nat → List Item
  | 0 => []
  | n+1 => c lo ++ stream c (lo+1) n

/-- one call's view of the DA layer is consistent with its content: a height answers with its
content, or as empty when it has none, or with a retrieval error, or as not yet reached -/
def Answers (c : Content) (da : Nat → Fetch) : Prop :=
  ∀ h, match da h with
    | .ok items _ => items = c h
    | .empty => c h = []
    | .future => True
    | .error => True

/-- the content a fixed answer function shows -/
def contentOf (da : Nat → Fetch) : Content := fun h =>
  match da h with
  | .ok items _ => items
  | _ => []

theorem answers_contentOf (da : Nat → Fetch) : Answers (contentOf da) da := by
  intro h
  unfold contentOf
  split <;> simp_all

def pushedItems : Option Entry → List Item
  | some e => e.items
  | none => []

theorem stream_add (c : Content) (lo a b : Nat) :
    stream c lo (a + b) = stream c lo a ++ stream c (lo + a) b := by
  induction a generalizing lo with
  | zero => simp [stream]
  | succ a ih =>
    have e : a + 1 + b = (a + b) + 1 := by omega
    rw [e]
    simp only [stream, List.append_assoc]
    rw [ih]
    have e2 : lo + 1 + a = lo + (a + 1) := by omega
    rw [e2]

theorem mem_stream (c : Content) (lo n : Nat) (it : Item) :
    it ∈ stream c lo n ↔ ∃ h, lo ≤ h ∧ h < lo + n ∧ it ∈ c h := by
  induction n generalizing lo with
  | zero => simp only [stream, List.not_mem_nil, false_iff]; rintro ⟨h, h1, h2, _⟩; omega
  | succ n ih =>
    simp only [stream, List.mem_append, ih]
    constructor
    · rintro (h | ⟨h, h1, h2, h3⟩)
      · exact ⟨lo, by omega, by omega, h⟩
      · exact ⟨h, by omega, by omega, h3⟩
    · rintro ⟨h, h1, h2, h3⟩
      by_cases e : h = lo
      · left; rw [← e]; exact h3
      · right; exact ⟨h, by omega, by omega, h3⟩

/-- one scan releases / pushes back exactly the DA-ordered content of the `n` heights it consumed,
and its new position is exactly past them (also after a push-back) -/
theorem scan_stream (c : Content) (da : Nat → Fetch) (hA : Answers c da) (drift max lastDA fuel next size ts : Nat) :
    ∃ n, (scan drift da max lastDA fuel next size ts).taken ++ pushedItems (scan drift da max lastDA fuel next size ts).pushed
          = stream c next n ∧
      (scan drift da max lastDA fuel next size ts).next = next + n := by
  induction fuel generalizing next size ts with
  | zero => exact ⟨0, by simp [scan, stream, pushedItems]⟩
  | succ fuel ih =>
    simp only [scan]
    split
    · exact ⟨0, by simp [stream, pushedItems]⟩
    · split
      · exact ⟨0, by simp [stream, pushedItems]⟩
      · have hh := hA next
        split
        · exact ⟨0, by simp [stream, pushedItems]⟩
        · rename_i hda
          rw [hda] at hh
          obtain ⟨n, h1, h2⟩ := ih (next+1) size ts
          refine ⟨n+1, ?_, ?_⟩
          · simp only [stream, hh, List.nil_append]; exact h1
          · omega
        · exact ⟨0, by simp [stream, pushedItems]⟩
        · rename_i items hts hda
          rw [hda] at hh
          simp only at hh
          split
          · rename_i hemp
            have he : items = [] := by simpa using hemp
            obtain ⟨n, h1, h2⟩ := ih (next+1) size ts
            refine ⟨n+1, ?_, ?_⟩
            · simp only [stream, ← hh, he, List.nil_append]; exact h1
            · omega
          · have hp := scanItems_spec max items size
            split
            · rename_i hrest
              have hr : (scanItems max items size).2.2 = [] := by simpa using hrest
              rw [hr, List.append_nil] at hp
              obtain ⟨n, h1, h2⟩ := ih (next+1) (scanItems max items size).2.1 hts
              refine ⟨n+1, ?_, ?_⟩
              · simp only [stream, ← hh, List.append_assoc]; rw [h1, hp.1]
              · simp only at h2 ⊢; omega
            · refine ⟨1, ?_, ?_⟩
              · simp [stream, ← hh, pushedItems, hp.1]
              · rfl

/-- the scan position never moves backwards … -/
theorem scan_next_ge (drift : Nat) (da : Nat → Fetch) (max lastDA fuel next size ts : Nat) :
    next ≤ (scan drift da max lastDA fuel next size ts).next := by
  induction fuel generalizing next size ts with
  | zero => simp [scan]
  | succ fuel ih =>
    simp only [scan]
    split
    · simp
    · split
      · simp
      · split
        · simp
        · have := ih (next+1) size ts; omega
        · simp
        · split
          · have := ih (next+1) size ts; omega
          · split
            · rename_i items hts _ _ _
              have := ih (next+1) (scanItems max items size).2.1 hts; simp only at this ⊢; omega
            · simp

/-- … and never moves past a height whose retrieval failed or which the DA has not reached -/
theorem scan_stops_at (drift : Nat) (da : Nat → Fetch) (max lastDA fuel next size ts h : Nat)
    (hb : da h = .error ∨ da h = .future) (hn : next ≤ h) :
    (scan drift da max lastDA fuel next size ts).next ≤ h := by
  induction fuel generalizing next size ts with
  | zero => simpa [scan] using hn
  | succ fuel ih =>
    simp only [scan]
    have hne : ∀ {x}, da next = x → x ≠ .error → x ≠ .future → next + 1 ≤ h := by
      intro x hx h1 h2
      have : next ≠ h := by
        rintro rfl
        rcases hb with hb | hb <;> rw [hb] at hx <;> simp_all
      omega
    split
    · exact hn
    · split
      · exact hn
      · split
        · exact hn
        · rename_i hda
          exact ih _ _ _ (hne hda (by simp) (by simp))
        · exact hn
        · rename_i items hts hda
          have := hne hda (by simp) (by simp)
          split
          · exact ih _ _ _ this
          · split
            · exact ih _ _ _ this
            · exact this

/-- with room in the batch, the window open and the first height answering (with content or as
empty), the scan consumes at least that height -/
theorem scan_progress (drift : Nat) (da : Nat → Fetch) (max lastDA fuel next size ts : Nat)
    (hs : size < max) (hw : next ≤ lastDA + drift) (hg : da next ≠ .error ∧ da next ≠ .future) :
    next + 1 ≤ (scan drift da max lastDA (fuel+1) next size ts).next := by
  simp only [scan]
  have h1 : ¬ ¬ size < max := by omega
  have h2 : ¬ next > lastDA + drift := by omega
  simp only [h1, h2, if_false]
  split
  · simp_all
  · exact scan_next_ge ..
  · simp_all
  · split
    · exact scan_next_ge ..
    · split
      · exact scan_next_ge ..
      · simp

theorem daStart_le_pos (cfg : Cfg) (s : St) : cfg.daStart ≤ persistedPos cfg s := by
  unfold persistedPos; split <;> (try split) <;> omega

theorem pos_of_scanP (cfg : Cfg) (s : St) (v : Nat) (h : s.scanP = some v) (hv : cfg.daStart ≤ v) :
    persistedPos cfg s = v := by
  unfold persistedPos
  rw [h]
  simp only
  split
  · rfl
  · omega

/-! ## The carry-over pop and the head of the queue -/

theorem flat_cons (e : Entry) (q : List Entry) : flat (e :: q) = e.items ++ flat q := by
  simp [flat]

/-- a head that fits is taken first -/
theorem popQueue_head_fits (max : Nat) (q : List Entry) (ts : Nat) (y : Item) (ys : List Item)
    (hq : flat q = y :: ys) (hy : y.tx.length ≤ max) :
    ∃ rest, (popQueue max q 0 ts).taken = y :: rest := by
  induction q generalizing ts with
  | nil => simp [flat] at hq
  | cons e q ih =>
    rw [flat_cons] at hq
    simp only [popQueue]
    cases hi : e.items with
    | nil =>
      rw [hi, List.nil_append] at hq
      obtain ⟨rest, hr⟩ := ih e.ts hq
      simp [popItems, hr]
    | cons a r =>
      rw [hi] at hq
      have ha : a = y := by simpa using (List.cons.inj hq).1
      subst ha
      have hng : ¬ (0 + a.tx.length > max) := by omega
      simp only [popItems, hng, if_false]
      split
      · exact ⟨_, List.cons_append ..⟩
      · exact ⟨_, rfl⟩

/-- a head larger than the limit blocks the pop: nothing is taken, the queue keeps its content -/
theorem popQueue_head_blocks (max : Nat) (q : List Entry) (ts : Nat) (y : Item) (ys : List Item)
    (hq : flat q = y :: ys) (hy : max < y.tx.length) :
    (popQueue max q 0 ts).taken = [] ∧ (popQueue max q 0 ts).queue ≠ [] ∧
      flat (popQueue max q 0 ts).queue = flat q ∧ (popQueue max q 0 ts).size = 0 := by
  induction q generalizing ts with
  | nil => simp [flat] at hq
  | cons e q ih =>
    rw [flat_cons] at hq
    simp only [popQueue]
    cases hi : e.items with
    | nil =>
      rw [hi, List.nil_append] at hq
      have := ih e.ts hq
      simp [popItems, this, flat_cons, hi]
    | cons a r =>
      rw [hi] at hq
      have ha : a = y := by simpa using (List.cons.inj hq).1
      subst ha
      have hg : 0 + a.tx.length > max := by omega
      simp [popItems, hy, flat_cons, hi]

/-- a queue without content pops to the empty queue -/
theorem popQueue_flat_nil (max : Nat) (q : List Entry) (size ts : Nat) (hq : flat q = []) :
    (popQueue max q size ts).taken = [] ∧ (popQueue max q size ts).queue = [] ∧
      (popQueue max q size ts).size = size := by
  induction q generalizing ts with
  | nil => simp [popQueue]
  | cons e q ih =>
    rw [flat_cons] at hq
    have h1 : e.items = [] := (List.append_eq_nil_iff.mp hq).1
    have h2 : flat q = [] := (List.append_eq_nil_iff.mp hq).2
    have := ih e.ts h2
    simp [popQueue, h1, popItems, this]

/-! ## One call -/

theorem items_ite (l : List Item) (ts : Nat) :
    (if l.isEmpty then Resp.nil else Resp.batch l ts).items = l := by
  cases l <;> simp [Resp.items]

theorem flat_pushQ (q : List Entry) (o : Option Entry) : flat (pushQ q o) = flat q ++ pushedItems o := by
  cases o <;> simp [pushQ, pushedItems, flat]

/-- the caller's echo is not ahead of the scan position (what `block.Manager` sends: the ids of a
batch it received; every released id lies below the position) -/
def EchoOk (cfg : Cfg) (s : St) (last : List Bytes) : Prop :=
  ∀ id, last.getLast? = some id → ∃ e, splitHeight id = some e ∧ e ≤ persistedPos cfg s

theorem echoOk_nil (cfg : Cfg) (s : St) : EchoOk cfg s [] := by
  intro id h; simp at h

/-- such an echo changes nothing: the call is the call without `LastBatchData` -/
theorem gnb_norm (cfg : Cfg) (da : Nat → Fetch) (s : St) (r : Req) (hid : r.idOk = true)
    (he : EchoOk cfg s r.last) :
    getNextBatch cfg da s r = getNextBatch cfg da s { max := r.max } := by
  cases hl : r.last.getLast? with
  | none => simp [getNextBatch, hid, hl]
  | some id =>
    obtain ⟨e, h2, h3⟩ := he id hl
    have h4 : ¬ e > persistedPos cfg s := by omega
    simp [getNextBatch, hid, hl, h2, h4]

/-- the scan of a call without echo -/
def callScan (cfg : Cfg) (da : Nat → Fetch) (s : St) (m : Nat) : Scanned :=
  scanQ (popQueue (effMax m) s.queue 0 0).queue cfg.drift da (effMax m) (persistedPos cfg s) (cfg.drift + 2)
    (persistedPos cfg s) (popQueue (effMax m) s.queue 0 0).size (popQueue (effMax m) s.queue 0 0).ts

theorem gnb_items (cfg : Cfg) (da : Nat → Fetch) (s : St) (m : Nat) :
    (getNextBatch cfg da s { max := m }).resp.items =
      (popQueue (effMax m) s.queue 0 0).taken ++ (callScan cfg da s m).taken := by
  simp only [getNextBatch, Bool.not_true, Bool.false_eq_true, if_false, List.getLast?_nil, callScan]
  exact items_ite _ _

theorem gnb_queue (cfg : Cfg) (da : Nat → Fetch) (s : St) (m : Nat) :
    (getNextBatch cfg da s { max := m }).st.queue =
      pushQ (popQueue (effMax m) s.queue 0 0).queue (callScan cfg da s m).pushed := by
  simp [getNextBatch, callScan]

theorem gnb_scanP (cfg : Cfg) (da : Nat → Fetch) (s : St) (m : Nat) :
    (getNextBatch cfg da s { max := m }).st.scanP = some (callScan cfg da s m).next := by
  simp [getNextBatch, callScan]

theorem callScan_next_ge (cfg : Cfg) (da : Nat → Fetch) (s : St) (m : Nat) :
    persistedPos cfg s ≤ (callScan cfg da s m).next := by
  unfold callScan scanQ
  split
  · exact scan_next_ge ..
  · simp

theorem gnb_pos (cfg : Cfg) (da : Nat → Fetch) (s : St) (m : Nat) :
    persistedPos cfg (getNextBatch cfg da s { max := m }).st = (callScan cfg da s m).next := by
  apply pos_of_scanP _ _ _ (gnb_scanP ..)
  have := callScan_next_ge cfg da s m
  have := daStart_le_pos cfg s
  omega

/-- **one call, as a step on the DA stream**: what it releases, followed by what it leaves in the
carry-over, is the old carry-over followed by the content of the `n` heights it consumed from the
scan position; the new scan position is exactly past them -/
theorem call_stream (c : Content) (cfg : Cfg) (da : Nat → Fetch) (hA : Answers c da) (s : St) (m : Nat) :
    ∃ n, (getNextBatch cfg da s { max := m }).resp.items ++ flat (getNextBatch cfg da s { max := m }).st.queue
          = flat s.queue ++ stream c (persistedPos cfg s) n ∧
      persistedPos cfg (getNextBatch cfg da s { max := m }).st = persistedPos cfg s + n := by
  rw [gnb_items, gnb_queue, gnb_pos, flat_pushQ]
  have hp := popQueue_flat (effMax m) s.queue 0 0
  unfold callScan scanQ
  split
  · rename_i hq
    have hq' : (popQueue (effMax m) s.queue 0 0).queue = [] := by simpa using hq
    obtain ⟨n, h1, h2⟩ := scan_stream c da hA cfg.drift (effMax m) (persistedPos cfg s) (cfg.drift + 2)
      (persistedPos cfg s) (popQueue (effMax m) s.queue 0 0).size (popQueue (effMax m) s.queue 0 0).ts
    refine ⟨n, ?_, h2⟩
    rw [hq'] at hp ⊢
    simp only [flat, List.flatMap_nil, List.append_nil, List.nil_append] at hp ⊢
    rw [List.append_assoc, h1, hp]
  · refine ⟨0, ?_, rfl⟩
    simp [pushedItems, stream, hp]

theorem gnb_resp (cfg : Cfg) (da : Nat → Fetch) (s : St) (m : Nat) :
    (getNextBatch cfg da s { max := m }).resp =
      if ((popQueue (effMax m) s.queue 0 0).taken ++ (callScan cfg da s m).taken).isEmpty then .nil
      else .batch ((popQueue (effMax m) s.queue 0 0).taken ++ (callScan cfg da s m).taken) (callScan cfg da s m).ts := by
  simp only [getNextBatch, Bool.not_true, Bool.false_eq_true, if_false, List.getLast?_nil, callScan]
  rfl

/-- while un-popped carry-over remains the scan is not entered -/
theorem callScan_skip (cfg : Cfg) (da : Nat → Fetch) (s : St) (m : Nat)
    (h : (popQueue (effMax m) s.queue 0 0).queue ≠ []) :
    (callScan cfg da s m).taken = [] ∧ (callScan cfg da s m).pushed = none ∧
      (callScan cfg da s m).next = persistedPos cfg s := by
  unfold callScan scanQ
  have : ¬ (popQueue (effMax m) s.queue 0 0).queue.isEmpty = true := by simpa using h
  simp [this]

theorem effMax_pos (m : Nat) : 0 < effMax m := by
  unfold effMax defaultMax; split <;> omega

/-- **the carry-over head**: if it fits the limit it is the first tx of the batch; if it is larger
than the limit the call releases nothing and stays put (carry-over content and scan position
unchanged) -/
theorem call_head (cfg : Cfg) (da : Nat → Fetch) (s : St) (m : Nat) (y : Item) (ys : List Item)
    (hq : flat s.queue = y :: ys) :
    (y.tx.length ≤ effMax m → ∃ rest, (getNextBatch cfg da s { max := m }).resp.items = y :: rest) ∧
    (effMax m < y.tx.length → (getNextBatch cfg da s { max := m }).resp = .nil ∧
      flat (getNextBatch cfg da s { max := m }).st.queue = flat s.queue ∧
      persistedPos cfg (getNextBatch cfg da s { max := m }).st = persistedPos cfg s) := by
  constructor
  · intro hy
    obtain ⟨rest, hr⟩ := popQueue_head_fits (effMax m) s.queue 0 y ys hq hy
    exact ⟨rest ++ (callScan cfg da s m).taken, by rw [gnb_items, hr]; rfl⟩
  · intro hy
    obtain ⟨h1, h2, h3, _⟩ := popQueue_head_blocks (effMax m) s.queue 0 y ys hq hy
    obtain ⟨g1, g2, g3⟩ := callScan_skip cfg da s m h2
    refine ⟨?_, ?_, ?_⟩
    · rw [gnb_resp, h1, g1]; rfl
    · rw [gnb_queue, flat_pushQ, g2, h3]; simp [pushedItems]
    · rw [gnb_pos, g3]

/-- whatever the limit: the next tx released after a call that found `y` at the head of the
carry-over is `y` — either in this batch, or the call releases nothing and keeps `y` at the head -/
theorem call_first (cfg : Cfg) (da : Nat → Fetch) (s : St) (m : Nat) (y : Item) (ys : List Item)
    (hq : flat s.queue = y :: ys) :
    (∃ rest, (getNextBatch cfg da s { max := m }).resp.items = y :: rest) ∨
    ((getNextBatch cfg da s { max := m }).resp.items = [] ∧
      flat (getNextBatch cfg da s { max := m }).st.queue = flat s.queue) := by
  have h := call_head cfg da s m y ys hq
  by_cases hy : y.tx.length ≤ effMax m
  · exact .inl (h.1 hy)
  · have := h.2 (by omega)
    exact .inr ⟨by rw [this.1]; rfl, this.2.1⟩

/-- with an empty carry-over and a first height that answers, the scan position advances -/
theorem call_progress_scan (cfg : Cfg) (da : Nat → Fetch) (s : St) (m : Nat) (hq : flat s.queue = [])
    (hg : da (persistedPos cfg s) ≠ .error ∧ da (persistedPos cfg s) ≠ .future) :
    persistedPos cfg s + 1 ≤ persistedPos cfg (getNextBatch cfg da s { max := m }).st := by
  rw [gnb_pos]
  obtain ⟨_, h2, h3⟩ := popQueue_flat_nil (effMax m) s.queue 0 0 hq
  unfold callScan scanQ
  rw [h2, h3]
  simp only [List.isEmpty_nil, if_true]
  exact scan_progress cfg.drift da (effMax m) (persistedPos cfg s) (cfg.drift + 1) (persistedPos cfg s) 0 _
    (effMax_pos m) (by omega) hg

/-- **retrieval errors and heights from the future**: a call never moves the scan position past a
height whose retrieval failed or which the DA layer has not reached yet -/
theorem call_stops_at (cfg : Cfg) (da : Nat → Fetch) (s : St) (m h : Nat)
    (hb : da h = .error ∨ da h = .future) (hn : persistedPos cfg s ≤ h) :
    persistedPos cfg (getNextBatch cfg da s { max := m }).st ≤ h := by
  rw [gnb_pos]
  unfold callScan scanQ
  split
  · exact scan_stops_at _ _ _ _ _ _ _ _ h hb hn
  · exact hn

/-! ## The carry-over never holds more than one entry -/

theorem popQueue_length_le (max : Nat) (q : List Entry) (size ts : Nat) :
    (popQueue max q size ts).queue.length ≤ q.length := by
  induction q generalizing size ts with
  | nil => simp [popQueue]
  | cons e q ih =>
    simp only [popQueue]
    split
    · have := ih (popItems max e.items size).2.1 e.ts
      simp only [List.length_cons]; omega
    · simp

theorem scanQ_pushed (q : List Entry) (drift : Nat) (da : Nat → Fetch) (max lastDA fuel next size ts : Nat)
    (h : q ≠ []) : (scanQ q drift da max lastDA fuel next size ts).pushed = none := by
  unfold scanQ
  have : ¬ q.isEmpty = true := by simpa using h
  simp [this]

theorem pushQ_length_le_one (q : List Entry) (o : Option Entry) (hq : q.length ≤ 1)
    (h : q ≠ [] → o = none) : (pushQ q o).length ≤ 1 := by
  cases o with
  | none => simpa [pushQ] using hq
  | some e =>
    have : q = [] := by
      cases q with
      | nil => rfl
      | cons a r => simpa using h (by simp)
    simp [pushQ, this]

/-- a push-back only happens when the pop has emptied the queue: one entry at most, for every
caller (any echo, any chain id) -/
theorem gnb_queue_le_one (cfg : Cfg) (da : Nat → Fetch) (s : St) (r : Req) (h : s.queue.length ≤ 1) :
    (getNextBatch cfg da s r).st.queue.length ≤ 1 := by
  have hp : (popQueue (effMax r.max) s.queue 0 0).queue.length ≤ 1 :=
    Nat.le_trans (popQueue_length_le ..) h
  unfold getNextBatch
  split
  · exact h
  · split
    · split
      · exact hp
      · exact pushQ_length_le_one _ _ hp (fun hne => scanQ_pushed _ _ _ _ _ _ _ _ _ hne)
    · exact pushQ_length_le_one _ _ hp (fun hne => scanQ_pushed _ _ _ _ _ _ _ _ _ hne)

end Based
