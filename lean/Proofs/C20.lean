import Model.Based

/-! Helper lemmas for `Spec.C20`: size accounting of the pop / scan loops. -/
namespace Based

theorem bytesOf_nil : bytesOf [] = 0 := rfl
theorem bytesOf_cons (a : Item) (l : List Item) : bytesOf (a :: l) = a.tx.length + bytesOf l := by
  simp [bytesOf]
theorem bytesOf_append (a b : List Item) : bytesOf (a ++ b) = bytesOf a + bytesOf b := by
  simp [bytesOf, List.map_append, List.sum_append]

/-- the inner pop loop: what is taken is a prefix, is accounted exactly and stays within the limit -/
theorem popItems_spec (max : Nat) (items : List Item) (size : Nat) :
    (popItems max items size).1 ++ (popItems max items size).2.2 = items ∧
    (popItems max items size).2.1 = size + bytesOf (popItems max items size).1 ∧
    (size ≤ max → (popItems max items size).2.1 ≤ max) := by
  induction items generalizing size with
  | nil => simp [popItems, bytesOf]
  | cons it r ih =>
    simp only [popItems]
    split
    · simp [bytesOf]
    · rename_i h
      have := ih (size + it.tx.length)
      refine ⟨?_, ?_, ?_⟩
      · simp [this.1]
      · simp only [bytesOf_cons]; omega
      · intro _; exact this.2.2 (by omega)

theorem scanItems_spec (max : Nat) (items : List Item) (size : Nat) :
    (scanItems max items size).1 ++ (scanItems max items size).2.2 = items ∧
    (scanItems max items size).2.1 = size + bytesOf (scanItems max items size).1 ∧
    (size ≤ max → (scanItems max items size).2.1 ≤ max) := by
  induction items generalizing size with
  | nil => simp [scanItems, bytesOf]
  | cons it r ih =>
    simp only [scanItems]
    split
    · simp [bytesOf]
    · rename_i h
      have := ih (size + it.tx.length)
      refine ⟨?_, ?_, ?_⟩
      · simp [this.1]
      · simp only [bytesOf_cons]; omega
      · intro _; exact this.2.2 (by omega)

theorem popQueue_spec (max : Nat) (q : List Entry) (size ts : Nat) :
    (popQueue max q size ts).size = size + bytesOf (popQueue max q size ts).taken ∧
    (size ≤ max → (popQueue max q size ts).size ≤ max) := by
  induction q generalizing size ts with
  | nil => simp [popQueue, bytesOf]
  | cons e q ih =>
    simp only [popQueue]
    have hp := popItems_spec max e.items size
    split
    · have := ih (popItems max e.items size).2.1 e.ts
      refine ⟨?_, ?_⟩
      · simp only [bytesOf_append]; omega
      · intro h; exact this.2 (hp.2.2 h)
    · exact ⟨hp.2.1, hp.2.2⟩

/-- pop conserves the queue: taken ++ what stays = what was queued (nothing dropped or reordered) -/
theorem popQueue_flat (max : Nat) (q : List Entry) (size ts : Nat) :
    (popQueue max q size ts).taken ++ flat (popQueue max q size ts).queue = flat q := by
  induction q generalizing size ts with
  | nil => simp [popQueue, flat]
  | cons e q ih =>
    simp only [popQueue]
    have hp := popItems_spec max e.items size
    split
    · rename_i h
      have := ih (popItems max e.items size).2.1 e.ts
      have h2 : (popItems max e.items size).2.2 = [] := by simpa using h
      rw [h2, List.append_nil] at hp
      simp only [flat, List.flatMap_cons, List.append_assoc] at *
      rw [this, hp.1]
    · simp only [flat, List.flatMap_cons] at *
      rw [← List.append_assoc, hp.1]

theorem scan_spec (drift : Nat) (da : Nat → Fetch) (max lastDA fuel next size ts : Nat) :
    (scan drift da max lastDA fuel next size ts).size = size + bytesOf (scan drift da max lastDA fuel next size ts).taken ∧
    (size ≤ max → (scan drift da max lastDA fuel next size ts).size ≤ max) := by
  induction fuel generalizing next size ts with
  | zero => simp [scan, bytesOf]
  | succ fuel ih =>
    simp only [scan]
    split
    · simp [bytesOf]
    · split
      · simp [bytesOf]
      · split
        · simp [bytesOf]
        · exact ih _ _ _
        · exact ih _ _ _
        · rename_i items hts _
          split
          · exact ih _ _ _
          · have hp := scanItems_spec max items size
            split
            · have := ih (next + 1) (scanItems max items size).2.1 hts
              refine ⟨?_, ?_⟩
              · simp only [bytesOf_append]; omega
              · intro h; exact this.2 (hp.2.2 h)
            · exact ⟨hp.2.1, hp.2.2⟩

end Based

namespace Based

/-- DA order, as a specification independent of the scan loop: the items of `n` consecutive
heights from `lo`, by height then position (heights that do not answer `ok` contribute nothing) -/
def daItems (da : Nat → Fetch) (lo : Nat) : Nat → List Item
  | 0 => []
  | n+1 => (match da lo with | .ok items _ => items | _ => []) ++ daItems da (lo+1) n

def pushedItems : Option Entry → List Item
  | some e => e.items
  | none => []

/-- one scan releases/pushes back exactly the DA-ordered content of the heights it consumed -/
theorem scan_da_order (drift : Nat) (da : Nat → Fetch) (max lastDA fuel next size ts : Nat) :
    ∃ n, (scan drift da max lastDA fuel next size ts).taken ++ pushedItems (scan drift da max lastDA fuel next size ts).pushed
          = daItems da next n ∧
      ((scan drift da max lastDA fuel next size ts).pushed = none → (scan drift da max lastDA fuel next size ts).next = next + n) ∧
      ((scan drift da max lastDA fuel next size ts).pushed ≠ none → (scan drift da max lastDA fuel next size ts).next + 1 = next + n) := by
  induction fuel generalizing next size ts with
  | zero => exact ⟨0, by simp [scan, daItems, pushedItems]⟩
  | succ fuel ih =>
    simp only [scan]
    split
    · exact ⟨0, by simp [daItems, pushedItems]⟩
    · split
      · exact ⟨0, by simp [daItems, pushedItems]⟩
      · split
        · exact ⟨0, by simp [daItems, pushedItems]⟩
        · rename_i hda
          obtain ⟨n, h1, h2, h3⟩ := ih (next+1) size ts
          refine ⟨n+1, ?_, ?_, ?_⟩
          · simp only [daItems, hda, List.nil_append]; exact h1
          · intro h; have := h2 h; omega
          · intro h; have := h3 h; omega
        · rename_i hda
          obtain ⟨n, h1, h2, h3⟩ := ih (next+1) size ts
          refine ⟨n+1, ?_, ?_, ?_⟩
          · simp only [daItems, hda, List.nil_append]; exact h1
          · intro h; have := h2 h; omega
          · intro h; have := h3 h; omega
        · rename_i items hts hda
          split
          · rename_i hemp
            have he : items = [] := by simpa using hemp
            obtain ⟨n, h1, h2, h3⟩ := ih (next+1) size ts
            refine ⟨n+1, ?_, ?_, ?_⟩
            · simp only [daItems, hda, he, List.nil_append]; exact h1
            · intro h; have := h2 h; omega
            · intro h; have := h3 h; omega
          · have hp := scanItems_spec max items size
            split
            · rename_i hrest
              have hr : (scanItems max items size).2.2 = [] := by simpa using hrest
              rw [hr, List.append_nil] at hp
              obtain ⟨n, h1, h2, h3⟩ := ih (next+1) (scanItems max items size).2.1 hts
              refine ⟨n+1, ?_, ?_, ?_⟩
              · simp only [daItems, hda, List.append_assoc, hp.1]; rw [h1]
              · intro h; have := h2 h; simp only at this ⊢; omega
              · intro h; have := h3 h; simp only at this ⊢; omega
            · refine ⟨1, ?_, ?_, ?_⟩
              · simp [daItems, hda, pushedItems, hp.1]
              · intro h; simp at h
              · intro _; rfl

theorem daItems_add (da : Nat → Fetch) (lo a b : Nat) :
    daItems da lo (a + b) = daItems da lo a ++ daItems da (lo + a) b := by
  induction a generalizing lo with
  | zero => simp [daItems]
  | succ a ih =>
    have e : a + 1 + b = (a + b) + 1 := by omega
    rw [e]
    simp only [daItems, List.append_assoc]
    rw [ih]
    have e2 : lo + 1 + a = lo + (a + 1) := by omega
    rw [e2]

theorem daStart_le_pos (cfg : Cfg) (s : St) : cfg.daStart ≤ persistedPos cfg s := by
  unfold persistedPos; split <;> (try split) <;> omega

theorem pos_of_scanP (cfg : Cfg) (s : St) (v : Nat) (h : s.scanP = some v) (hv : cfg.daStart ≤ v) :
    persistedPos cfg s = v := by
  unfold persistedPos
  rw [h]
  simp only
  split
  · rfl
  · omega

end Based
