import Proofs.FlowRun

/-!
# C11 helpers (7): the execution layer fails while a block freshly built from a batch is produced
-/
namespace Flow
open Wire Chain Producer

/-- a step whose execution fails commits nothing: the chain height and every committed block stay -/
theorem publish_fail_frame {c : Producer.Cfg} {n : Producer.Node} (resp : SeqResp) :
    (publish c n resp .fail).1.store.height = n.store.height ∧
    ∀ k, k ≤ n.store.height → (publish c n resp .fail).1.store.getBlock k = n.store.getBlock k := by
  unfold publish
  split
  · exact ⟨rfl, fun _ _ => rfl⟩
  · split
    · exact ⟨rfl, fun _ _ => rfl⟩
    · split
      · exact ⟨rfl, fun _ _ => rfl⟩
      · unfold fresh
        cases resp with
        | err => exact ⟨rfl, fun _ _ => rfl⟩
        | absent => exact ⟨rfl, fun _ _ => rfl⟩
        | batch txs ts bd =>
          simp only
          split
          · exact ⟨rfl, fun _ _ => rfl⟩
          · split
            · exact ⟨rfl, fun _ _ => rfl⟩
            · unfold buildAndFinish finish
              refine ⟨rfl, fun k hk => ?_⟩
              show ((n.store.apply _).apply (.saveBlock (n.store.height + 1) _)).getBlock k = _
              rw [getBlock_saveBlock_other _ _ _ _ (by omega)]; rfl

/-- every batch ever accepted is non-empty -/
def EverNe (g : Ghost) : Prop := ∀ b ∈ g.ever, b ≠ []

theorem cut_ever (g : Ghost) (ws : List FW) (k : Nat) : (g.cut ws k).ever = g.ever := by
  unfold Ghost.cut
  split
  · split <;> rfl
  · split
    · rfl
    · split <;> rfl
  · rfl

theorem gstep_everNe {c : Cfg} {σ : RunSt} {g : Ghost} (h : EverNe g) (op : Op) : EverNe (gstep c σ g op) := by
  cases op with
  | mempool _ => exact h
  | mempoolDrain _ => exact h
  | produce => simp only [gstep]; split <;> exact h
  | produceFail => simp only [gstep]; split <;> exact h
  | produceSame => simp only [gstep]; split <;> exact h
  | produceCancelled _ => simp only [gstep]; split <;> exact h
  | reapPutFails => exact h
  | restart => intro b hb; rw [show (gstep c σ g .restart).ever = g.ever from cut_ever _ _ _] at hb; exact h b hb
  | crash k => intro b hb; rw [show (gstep c σ g (.crash k)).ever = g.ever from cut_ever _ _ _] at hb; exact h b hb
  | reap =>
    rcases reap_cases c σ.n σ.mempool with h0 | ⟨hne, _, h1⟩
    · have e2 : gstep c σ g .reap = g := by unfold gstep; rw [h0]
      rw [e2]; exact h
    · have e2 : gstep c σ g .reap = accG g (newTxs σ.n σ.mempool) := by unfold gstep; rw [h1]; rfl
      rw [e2]
      intro b hb
      have hb' : b ∈ g.ever ++ [newTxs σ.n σ.mempool] := hb
      rcases List.mem_append.1 hb' with hb' | hb'
      · exact h b hb'
      · simp only [List.mem_singleton] at hb'; rw [hb']; exact hne

theorem run_everNe {c : Cfg} {σ σ' : RunSt} {g g' : Ghost} {ops : List Op} (h : EverNe g)
    (hr : runG c σ g ops = some (σ', g')) : EverNe g' := by
  induction ops generalizing σ g with
  | nil => simp only [runG, Option.some.injEq, Prod.mk.injEq] at hr; rw [← hr.2]; exact h
  | cons op rest ih =>
    simp only [runG] at hr
    split at hr
    · cases hr
    · exact ih (gstep_everNe h op) hr

/-- a write list that starts with the queue delete is not a list of store writes -/
theorem qdel_ne_st {b : Queue.Batch} {rest : List FW} {sws : List SW} (h : sws.map FW.st = FW.qdel b :: rest) : False := by
  cases sws with
  | nil => cases h
  | cons w sws => simp only [List.map_cons, List.cons.injEq] at h; cases h.1

/-- **the execution layer fails (or the node dies in `ExecuteTxs`) while the block built from the freshly taken batch
`b` is produced**: the chain is untouched and the block waiting at `height + 1` holds exactly `b` -/
theorem execFail_pending {c : Cfg} {σ : RunSt} {g : Ghost} (hc : CfgOK c) (h : FInv c σ g) {b : Queue.Batch} {rest : List FW}
    (htook : (produce c σ.n .fail).2.1 = FW.qdel b :: rest) :
    pendingTxs (produce c σ.n .fail).1.prod.store = b ∧
    chainTxs (produce c σ.n .fail).1.prod.store = chainTxs σ.n.prod.store ∧ b ∈ σ.n.q.mem := by
  have hask : asksSequencer c σ.n = true := by
    cases ha : asksSequencer c σ.n with
    | true => rfl
    | false =>
      exfalso
      rw [produce_noask c σ.n .fail .real ha] at htook
      exact qdel_ne_st htook
  have hnone : σ.n.prod.store.getBlock (σ.n.prod.store.height + 1) = none := by
    unfold asksSequencer at hask
    simp only [Bool.and_eq_true, Bool.not_eq_true', Option.isNone_iff_eq_none] at hask
    exact hask.2
  obtain ⟨P', sws, pre, q', T, e1, e2, f1, f2, f3, _, _, _, hcase, _, f8, _⟩ :=
    produce_cases hc.signer h.live h.synced h.wm h.first h.tb .fail .real (by decide)
  have hP : (produce c σ.n .fail).1.prod = P' := by rw [e1]
  rcases hcase with ⟨rfl, _, _⟩ | ⟨b', rest', rfl, hm, _, rfl, h2⟩
  · exfalso
    rw [e2] at htook
    exact qdel_ne_st htook
  · rw [e2] at htook
    simp only [List.cons_append, List.nil_append, List.cons.injEq, FW.qdel.injEq] at htook
    obtain ⟨rfl, _⟩ := htook
    have hfr : P'.store.height = σ.n.prod.store.height ∧
        ∀ k, k ≤ σ.n.prod.store.height → P'.store.getBlock k = σ.n.prod.store.getBlock k := by
      rw [← hP, produce_ask c σ.n .fail .real hask]
      exact publish_fail_frame _
    have hchain : chainTxs P'.store = chainTxs σ.n.prod.store := by
      unfold chainTxs; rw [hfr.1]; exact chainUpTo_congr hfr.2
    have hpend0 : pendingTxs σ.n.prod.store = [] := by
      unfold pendingTxs blockTxs; rw [hnone]
    have hall := f8 sws.length h2
    rw [List.take_length, ← f1, node_durAll f2.toInv f3, node_durAll h.live.toInv h.synced, hchain, hpend0,
      List.append_nil] at hall
    rw [hP]
    exact ⟨List.append_cancel_left hall, hchain, by rw [hm]; simp⟩

/-- … and the retry takes nothing further from the queue and either writes nothing or commits exactly `b` -/
theorem execFail_retry {c : Cfg} {σ : RunSt} {g : Ghost} (hc : CfgOK c) (h : FInv c σ g) {b : Queue.Batch}
    (hpend : pendingTxs σ.n.prod.store = b) (hne : b ≠ []) (ex : ExecResp) :
    (produce c σ.n ex).1.q = σ.n.q ∧
    ((produce c σ.n ex).1.prod = σ.n.prod ∨
     (ex = .ok ∧ chainTxs (produce c σ.n ex).1.prod.store = chainTxs σ.n.prod.store ++ b ∧
      pendingTxs (produce c σ.n ex).1.prod.store = [])) := by
  have hi := h.live.toInv
  obtain ⟨pb, hpb⟩ : ∃ pb, σ.n.prod.store.getBlock (σ.n.prod.store.height + 1) = some pb := by
    cases hg : σ.n.prod.store.getBlock (σ.n.prod.store.height + 1) with
    | none => exfalso; apply hne; rw [← hpend]; unfold pendingTxs blockTxs; rw [hg]
    | some pb => exact ⟨pb, rfl⟩
  have hT : pb.data.txs = b := by
    rw [← hpend]; unfold pendingTxs blockTxs; rw [hpb]
  have hask : asksSequencer c σ.n = false := by
    unfold asksSequencer; rw [hpb]; simp
  rw [produce_noask c σ.n ex .real hask]
  refine ⟨rfl, ?_⟩
  rcases (publish_tx hi hc.signer [] _ (Nat.le_refl _) ex).1 pb hpb .absent with ⟨a1, _⟩ | ⟨hex, fb, st, b1, _, _, b4, b5⟩
  · exact Or.inl a1
  · right
    refine ⟨hex, ?_, ?_⟩
    · show chainTxs (publish c.p σ.n.prod .absent ex).1.store = _
      rw [b5, b4]
      have hh : (σ.n.prod.store.applyAll (commit3 σ.n.prod.store.height fb st)).height = σ.n.prod.store.height + 1 := by
        simp [commit3, Store.applyAll, height_setHeight]
      unfold chainTxs
      rw [hh]
      simp only [chainUpTo]
      have e1 : chainUpTo (σ.n.prod.store.applyAll (commit3 σ.n.prod.store.height fb st)) σ.n.prod.store.height =
          chainUpTo σ.n.prod.store σ.n.prod.store.height := by
        refine chainUpTo_congr (fun k hk => ?_)
        simp only [commit3, Store.applyAll, List.foldl_cons, List.foldl_nil, getBlock_setHeight, getBlock_updateState]
        exact getBlock_saveBlock_other _ _ _ _ (by omega)
      have e2 : blockTxs (σ.n.prod.store.applyAll (commit3 σ.n.prod.store.height fb st)) (σ.n.prod.store.height + 1) = b := by
        unfold blockTxs
        simp only [commit3, Store.applyAll, List.foldl_cons, List.foldl_nil, getBlock_setHeight, getBlock_updateState,
          getBlock_saveBlock_same]
        rw [b1, hT]
      rw [e1, e2]
    · show pendingTxs (publish c.p σ.n.prod .absent ex).1.store = _
      rw [b5, b4]
      have hh : (σ.n.prod.store.applyAll (commit3 σ.n.prod.store.height fb st)).height = σ.n.prod.store.height + 1 := by
        simp [commit3, Store.applyAll, height_setHeight]
      unfold pendingTxs blockTxs
      rw [hh]
      simp only [commit3, Store.applyAll, List.foldl_cons, List.foldl_nil, getBlock_setHeight, getBlock_updateState]
      rw [getBlock_saveBlock_other _ _ _ _ (by omega), hi.above _ (by omega)]

/-- **a production step whose sequencing-layer clock did not step backwards keeps every queued transaction**: afterwards
it is in the chain, in the block waiting at `height + 1`, or still queued -/
theorem produce_keeps_queued {c : Cfg} {σ : RunSt} {g : Ghost} (hc : CfgOK c) (h : FInv c σ g) (ex : ExecResp) (clk : Clock)
    (hclk : clk ≠ .back) {t : Bytes} (ht : t ∈ σ.n.q.mem.flatten) :
    t ∈ chainTxs (produce c σ.n ex clk).1.prod.store ++ pendingTxs (produce c σ.n ex clk).1.prod.store ++
        (produce c σ.n ex clk).1.q.mem.flatten := by
  obtain ⟨P', sws, pre, q', T, e1, _, f1, f2, f3, _, _, _, hcase, _, f8, _⟩ :=
    produce_cases hc.signer h.live h.synced h.wm h.first h.tb ex clk hclk
  rw [e1]
  show t ∈ chainTxs P'.store ++ pendingTxs P'.store ++ q'.mem.flatten
  rcases hcase with ⟨_, rfl, _⟩ | ⟨b, rest, _, hm, rfl, rfl, h2⟩
  · exact List.mem_append_right _ ht
  · rw [hm] at ht
    simp only [List.flatten_cons, List.mem_append] at ht
    rcases ht with ht | ht
    · refine List.mem_append_left _ ?_
      have hall := f8 sws.length h2
      rw [List.take_length, ← f1, node_durAll f2.toInv f3] at hall
      rw [hall]
      exact List.mem_append_right _ ht
    · exact List.mem_append_right _ ht

/-- **the batch a production step took is in the chain or in the block waiting at `height + 1` afterwards** — whatever
the execution layer answers, with every clock that did not step backwards -/
theorem taken_batch_kept {c : Cfg} {σ : RunSt} {g : Ghost} (hc : CfgOK c) (h : FInv c σ g) (ex : ExecResp) (clk : Clock)
    (hclk : clk ≠ .back) {b : Queue.Batch} {rest : List FW} (htook : (produce c σ.n ex clk).2.1 = FW.qdel b :: rest) :
    ∀ t ∈ b, t ∈ chainTxs (produce c σ.n ex clk).1.prod.store ++ pendingTxs (produce c σ.n ex clk).1.prod.store := by
  obtain ⟨P', sws, pre, q', T, e1, e2, f1, f2, f3, _, _, _, hcase, _, f8, _⟩ :=
    produce_cases hc.signer h.live h.synced h.wm h.first h.tb ex clk hclk
  rw [e1]
  show ∀ t ∈ b, t ∈ chainTxs P'.store ++ pendingTxs P'.store
  rcases hcase with ⟨rfl, _, _⟩ | ⟨b', rest', rfl, _, _, rfl, h2⟩
  · exfalso
    rw [e2] at htook
    exact qdel_ne_st htook
  · rw [e2] at htook
    simp only [List.cons_append, List.nil_append, List.cons.injEq, FW.qdel.injEq] at htook
    obtain ⟨rfl, _⟩ := htook
    intro t ht
    have hall := f8 sws.length h2
    rw [List.take_length, ← f1, node_durAll f2.toInv f3] at hall
    rw [hall]
    exact List.mem_append_right _ ht

end Flow
