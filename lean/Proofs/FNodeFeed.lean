import Proofs.FNodeStore
import Proofs.SyncRun

/-!
# The sync loop draining the events of a DA scan (`FullNode.feed`)

Every event a scan emits from a blob of the proposer's chain is a genuine delivery in the sense of
`Proofs/SyncBase.deliver`; the invariants of C02 / C05 therefore hold along `feed`, its writes are the writes of
applying consecutive blocks, and all of it commutes with the erasure of the DA height.
-/
namespace FullNode
open Wire Chain Sync

variable {C : Cfg} {ch : PChain} {top h0 : Nat}

/-! ## generic facts about `feed` -/

theorem stepEv_erase (C : Cfg) (n : FNode) (e : Retrieve.Event) :
    stepEv C (eraseN n) e = (eraseN (stepEv C n e).1, (stepEv C n e).2.map eraseW) := by
  cases e with
  | hdr w da => exact onHeader_erase n _
  | dat sd da => exact onData_erase n _

theorem feed_erase (C : Cfg) : ∀ (es : List Retrieve.Event) (n : FNode),
    feed C (eraseN n) es = (eraseN (feed C n es).1, (feed C n es).2.map eraseW) := by
  intro es
  induction es with
  | nil => intro n; rfl
  | cons e rest ih =>
    intro n
    simp only [feed]
    rw [stepEv_erase]
    simp only
    rw [ih]
    simp

theorem stepEv_store (C : Cfg) (n : FNode) (e : Retrieve.Event) :
    (stepEv C n e).1.store = n.store.applyAll (stepEv C n e).2 := by
  cases e with
  | hdr w da => exact onHeader_store n _
  | dat sd da => exact onData_store n _

theorem feed_store (C : Cfg) : ∀ (es : List Retrieve.Event) (n : FNode),
    (feed C n es).1.store = n.store.applyAll (feed C n es).2 := by
  intro es
  induction es with
  | nil => intro n; rfl
  | cons e rest ih =>
    intro n
    simp only [feed]
    rw [ih, stepEv_store, applyAll_append]

theorem stepEv_da (C : Cfg) (n : FNode) (e : Retrieve.Event) :
    (stepEv C n e).1.lastState.daHeight = n.lastState.daHeight ∧
    ∀ s, SW.updateState s ∈ (stepEv C n e).2 → s.daHeight = n.lastState.daHeight := by
  cases e with
  | hdr w da => exact onHeader_da n _
  | dat sd da => exact onData_da n _

/-- **the sync loop keeps the DA height of the state** while it drains any list of events: in memory and in
every state it persists -/
theorem feed_da (C : Cfg) : ∀ (es : List Retrieve.Event) (n : FNode),
    (feed C n es).1.lastState.daHeight = n.lastState.daHeight ∧
    ∀ s, SW.updateState s ∈ (feed C n es).2 → s.daHeight = n.lastState.daHeight := by
  intro es
  induction es with
  | nil => intro n; exact ⟨rfl, fun s hs => by simp [feed] at hs⟩
  | cons e rest ih =>
    intro n
    simp only [feed]
    obtain ⟨a1, a2⟩ := stepEv_da C n e
    obtain ⟨b1, b2⟩ := ih (stepEv C n e).1
    refine ⟨by rw [b1, a1], fun s hs => ?_⟩
    rcases List.mem_append.mp hs with hs | hs
    · exact a2 s hs
    · rw [b2 s hs, a1]

/-! ## events that come from the proposer's chain -/

/-- the height an event claims -/
def absEv : Retrieve.Event → Ev
  | .hdr w _ => .hdr w.header.height
  | .dat sd _ => .dat ((sd.data.metadata.map (·.height)).getD 0)

/-- the event carries a part of the proposer's chain: the header (as the sync loop sees it) of the block at the
height it names, or the data of the block its metadata names -/
def EvOK (C : Cfg) (ch : PChain) : Retrieve.Event → Prop
  | .hdr w _ => ∃ blk, ch w.header.height = some blk ∧ toSH C.key w = blk.sh
  | .dat sd _ => ∃ m blk, sd.data.metadata = some m ∧ ch m.height = some blk ∧ sd.data = blk.data

theorem stepEv_deliver {n : FNode} {e : Retrieve.Event} (h : EvOK C ch e) :
    stepEv C n e = deliver ch n (absEv e) := by
  cases e with
  | hdr w da =>
    obtain ⟨blk, hb, hs⟩ := h
    simp only [stepEv, absEv, deliver, hb, hs]
  | dat sd da =>
    obtain ⟨m, blk, hm, hb, hd⟩ := h
    have e : (sd.data.metadata.map (·.height)).getD 0 = m.height := by rw [hm]; rfl
    show onData n sd.data = deliver ch n (.dat ((sd.data.metadata.map (·.height)).getD 0))
    rw [e]
    simp only [deliver, hb]
    rw [hd]

theorem appliedWrites_append {c : Sync.Cfg} {h h' h'' : Nat} {ws ws' : List SW}
    (a : AppliedWrites c ch h ws h') (b : AppliedWrites c ch h' ws' h'') : AppliedWrites c ch h (ws ++ ws') h'' := by
  induction a with
  | nil => exact b
  | cons hb hsb _ ih => exact .cons hb hsb (ih b)

/-- **C02's safety invariant holds along `feed`**, and the writes of a whole scan are the writes of applying
consecutive blocks of the chain -/
theorem feed_safe (g : GoodChain C.sync ch top) : ∀ (es : List Retrieve.Event) (evs : List Ev) (n : FNode),
    Safe C.sync ch h0 evs n → (∀ e ∈ es, EvOK C ch e) →
    Safe C.sync ch h0 (evs ++ es.map absEv) (feed C n es).1 ∧
    AppliedWrites C.sync ch n.store.height (feed C n es).2 (feed C n es).1.store.height := by
  intro es
  induction es with
  | nil => intro evs n hs _; simp only [feed, List.map_nil, List.append_nil]; exact ⟨hs, .nil _⟩
  | cons e rest ih =>
    intro evs n hs hok
    simp only [feed]
    have he := hok e (by simp)
    rw [stepEv_deliver he]
    obtain ⟨a1, a2⟩ := deliver_safe g hs (absEv e)
    obtain ⟨b1, b2⟩ := ih (evs ++ [absEv e]) (deliver ch n (absEv e)).1 a1 (fun x hx => hok x (List.mem_cons_of_mem _ hx))
    refine ⟨by simpa using b1, appliedWrites_append a2 b2⟩

/-- **C02's full invariant holds along `feed`** when commitments are distinct -/
theorem feed_inv (g : GoodChain C.sync ch top) (dc : DistinctCommitments ch) :
    ∀ (es : List Retrieve.Event) (evs : List Ev) (n : FNode),
    Inv C.sync ch h0 evs n → (∀ e ∈ es, EvOK C ch e) →
    Inv C.sync ch h0 (evs ++ es.map absEv) (feed C n es).1 := by
  intro es
  induction es with
  | nil => intro evs n hi _; simpa [feed] using hi
  | cons e rest ih =>
    intro evs n hi hok
    simp only [feed]
    have he := hok e (by simp)
    rw [stepEv_deliver he]
    have a1 := deliver_inv g dc hi (absEv e)
    have b1 := ih (evs ++ [absEv e]) (deliver ch n (absEv e)).1 a1 (fun x hx => hok x (List.mem_cons_of_mem _ hx))
    simpa using b1

end FullNode
