import Model.FullNode
import Proofs.SyncCrash

/-!
# The DA height in the state of a syncing node

1. The sync loop never changes `lastState.daHeight`, and every state it persists carries that value
   (`applyNext_da`, `trySync_da`, `onHeader_da`, `onData_da`).
2. *Erasure*: the sync loop and start-up behave identically up to the value of that field
   (`onHeader_erase`, `onData_erase`, `start_erase`): a node whose state carries the configured DA start height
   `D` (what `NewManager` builds when `config.DA.StartHeight = D`) is, with the field set to `0`, a node the
   theorems of `Proofs/Sync*.lean` speak about (their `stateAt` has `daHeight = 0`).
-/
namespace Sync
open Wire Chain

/-! ## 1. the field is never written -/

theorem nextState_da (st : State) (h : Header) (r : Bytes) : (nextState st h r).daHeight = st.daHeight := rfl

theorem applyBlock_da {n n' : FNode} {sh : SHeader} {d : Data} {ws : List SW} {cont : Bool}
    (h : applyBlock n sh d .ok = (n', ws, cont)) :
    n'.lastState.daHeight = n.lastState.daHeight ∧
    ∀ s, SW.updateState s ∈ ws → s.daHeight = n.lastState.daHeight := by
  simp only [applyBlock, Prod.mk.injEq] at h
  obtain ⟨rfl, rfl, _⟩ := h
  refine ⟨rfl, fun s hs => ?_⟩
  simp only [List.cons_append, List.nil_append, List.mem_cons, SW.updateState.injEq, reduceCtorEq, false_or] at hs
  rcases hs with rfl | hs
  · rfl
  · have := mem_setHeightW hs
    cases this

theorem dropMismatch_da {n n' : FNode} {sh : SHeader} {ws : List SW} {cont : Bool}
    (h : dropMismatch n sh .ok = (n', ws, cont)) :
    n'.lastState.daHeight = n.lastState.daHeight ∧
    ∀ s, SW.updateState s ∈ ws → s.daHeight = n.lastState.daHeight := by
  unfold dropMismatch at h
  simp only at h
  split at h
  · simp only [Prod.mk.injEq] at h
    obtain ⟨rfl, rfl, _⟩ := h
    exact ⟨rfl, fun s hs => by simp at hs⟩
  · split at h
    · simp only [Prod.mk.injEq] at h
      obtain ⟨rfl, rfl, _⟩ := h
      exact ⟨rfl, fun s hs => by simp at hs⟩
    · split at h
      · have := applyBlock_da h
        exact this
      · simp only [Prod.mk.injEq] at h
        obtain ⟨rfl, rfl, _⟩ := h
        exact ⟨rfl, fun s hs => by simp at hs⟩

theorem applyNext_da {n n' : FNode} {ws : List SW} {cont : Bool}
    (h : applyNext n .ok = some (n', ws, cont)) :
    n'.lastState.daHeight = n.lastState.daHeight ∧
    ∀ s, SW.updateState s ∈ ws → s.daHeight = n.lastState.daHeight := by
  cases hH : getH n (n.store.height + 1) with
  | none => rw [applyNext_none (Or.inl hH)] at h; cases h
  | some sh =>
    cases hD : getD n (n.store.height + 1) with
    | none => rw [applyNext_none (Or.inr hD)] at h; cases h
    | some d =>
      cases hv : execValidate n.lastState sh d with
      | some e =>
        simp only [applyNext, hH, hD, hv] at h
        split at h
        · simp only [Option.some.injEq] at h
          exact dropMismatch_da h
        · simp only [Option.some.injEq, Prod.mk.injEq] at h
          obtain ⟨rfl, rfl, _⟩ := h
          exact ⟨rfl, fun s hs => by simp at hs⟩
      | none =>
        simp only [applyNext, hH, hD, hv, Option.some.injEq] at h
        exact applyBlock_da h

theorem trySync_da (d : Nat) : ∀ (fuel : Nat) (n : FNode) (ws0 : List SW),
    n.lastState.daHeight = d → (∀ s, SW.updateState s ∈ ws0 → s.daHeight = d) →
    (trySync fuel n ws0).1.lastState.daHeight = d ∧
    ∀ s, SW.updateState s ∈ (trySync fuel n ws0).2 → s.daHeight = d := by
  intro fuel
  induction fuel with
  | zero => intro n ws0 h1 h2; exact ⟨h1, h2⟩
  | succ f ih =>
    intro n ws0 h1 h2
    unfold trySync
    cases ha : applyNext n .ok with
    | none => exact ⟨h1, h2⟩
    | some r =>
      obtain ⟨n', ws', cont⟩ := r
      obtain ⟨a1, a2⟩ := applyNext_da ha
      have h2' : ∀ s, SW.updateState s ∈ ws0 ++ ws' → s.daHeight = d := by
        intro s hs
        rcases List.mem_append.mp hs with hs | hs
        · exact h2 s hs
        · rw [a2 s hs, h1]
      cases cont with
      | true => simp only [↓reduceIte]; exact ih n' _ (by rw [a1, h1]) h2'
      | false => simp only [Bool.false_eq_true, ↓reduceIte]; exact ⟨by rw [a1, h1], h2'⟩

theorem cacheH_lastState (n : FNode) (sh : SHeader) : (cacheH n sh).lastState = n.lastState := by
  unfold cacheH; simp only; split <;> rfl

theorem syncAfter_da (n : FNode) :
    (syncAfter n).1.lastState.daHeight = n.lastState.daHeight ∧
    ∀ s, SW.updateState s ∈ (syncAfter n).2 → s.daHeight = n.lastState.daHeight :=
  trySync_da _ _ n [] rfl (fun s hs => by simp at hs)

/-- **the header case of the sync loop keeps the DA height of the state**, in memory and in every state it
persists -/
theorem onHeader_da (n : FNode) (sh : SHeader) :
    (onHeader n sh).1.lastState.daHeight = n.lastState.daHeight ∧
    ∀ s, SW.updateState s ∈ (onHeader n sh).2 → s.daHeight = n.lastState.daHeight := by
  rw [onHeader_eq]
  have h := syncAfter_da (cacheH n sh)
  rw [cacheH_lastState] at h
  split
  · exact ⟨rfl, fun s hs => by simp at hs⟩
  · split
    · exact ⟨rfl, fun s hs => by simp at hs⟩
    · split
      · exact ⟨h.1, h.2⟩
      · exact h

/-- **the data case of the sync loop keeps the DA height of the state** -/
theorem onData_da (n : FNode) (d : Data) :
    (onData n d).1.lastState.daHeight = n.lastState.daHeight ∧
    ∀ s, SW.updateState s ∈ (onData n d).2 → s.daHeight = n.lastState.daHeight := by
  rw [onData_eq]
  split
  · exact ⟨rfl, fun s hs => by simp at hs⟩
  · split
    · exact ⟨rfl, fun s hs => by simp at hs⟩
    · rename_i m _
      have h := syncAfter_da (cacheD n m.height d)
      split
      · exact ⟨rfl, fun s hs => by simp at hs⟩
      · split
        · exact ⟨rfl, fun s hs => by simp at hs⟩
        · split
          · exact ⟨rfl, fun s hs => by simp at hs⟩
          · exact h

/-! ## 2. erasure of the field -/

def eraseS (s : State) : State := { s with daHeight := 0 }
def eraseStore (d : Store) : Store := { d with state := d.state.map eraseS }
def eraseN (n : FNode) : FNode := { n with store := eraseStore n.store, lastState := eraseS n.lastState }
def eraseW : SW → SW
  | .updateState s => .updateState (eraseS s)
  | w => w

@[simp] theorem eraseStore_height (d : Store) : (eraseStore d).height = d.height := rfl
@[simp] theorem eraseStore_blocks (d : Store) : (eraseStore d).blocks = d.blocks := rfl
@[simp] theorem eraseStore_kv (d : Store) : (eraseStore d).kv = d.kv := rfl
theorem eraseStore_getBlock (d : Store) (k : Nat) : (eraseStore d).getBlock k = d.getBlock k := rfl
theorem eraseStore_state (d : Store) : (eraseStore d).state = d.state.map eraseS := rfl
theorem eraseS_idem (s : State) : eraseS (eraseS s) = eraseS s := rfl

theorem eraseStore_apply (d : Store) (w : SW) : (eraseStore d).apply (eraseW w) = eraseStore (d.apply w) := by
  cases w with
  | saveBlock h b => rfl
  | setHeight h =>
    show (if h > d.height then ({ (eraseStore d) with height := h } : Store) else eraseStore d)
      = eraseStore (if h > d.height then { d with height := h } else d)
    by_cases hh : h > d.height
    · rw [if_pos hh, if_pos hh]; rfl
    · rw [if_neg hh, if_neg hh]
  | updateState s => rfl
  | setMeta k v => rfl

theorem eraseStore_applyAll (ws : List SW) : ∀ (d : Store),
    (eraseStore d).applyAll (ws.map eraseW) = eraseStore (d.applyAll ws) := by
  induction ws with
  | nil => intro d; rfl
  | cons w rest ih =>
    intro d
    simp only [Store.applyAll, List.map_cons, List.foldl_cons] at ih ⊢
    rw [eraseStore_apply, ih]

theorem eraseW_setHeightW (d : Store) (h : Nat) : (setHeightW d h).map eraseW = setHeightW d h := by
  unfold setHeightW; split <;> rfl

theorem eraseStore_applyPrefix (ws : List SW) (d : Store) (k : Nat) :
    (eraseStore d).applyPrefix k (ws.map eraseW) = eraseStore (d.applyPrefix k ws) := by
  unfold Store.applyPrefix
  rw [← List.map_take, eraseStore_applyAll]

theorem execValidate_erase (st : State) (sh : SHeader) (d : Data) :
    execValidate (eraseS st) sh d = execValidate st sh d := rfl

theorem getH_erase (n : FNode) (k : Nat) : getH (eraseN n) k = getH n k := rfl
theorem getD_erase (n : FNode) (k : Nat) : getD (eraseN n) k = getD n k := rfl

/-- applying a validated block on the erased node is the erased application -/
theorem applyBlock_erase (n : FNode) (sh : SHeader) (d : Data) :
    applyBlock (eraseN n) sh d .ok =
      (eraseN (applyBlock n sh d .ok).1, (applyBlock n sh d .ok).2.1.map eraseW, (applyBlock n sh d .ok).2.2) := by
  simp only [applyBlock]
  simp only [Prod.mk.injEq, List.map_append, List.map_cons, List.map_nil, eraseW_setHeightW]
  refine ⟨?_, rfl, trivial⟩
  simp only [eraseN]
  congr 1
  rw [← eraseStore_applyAll, eraseW_setHeightW]
  rfl

theorem dropMismatch_erase (n : FNode) (sh : SHeader) :
    dropMismatch (eraseN n) sh .ok =
      (eraseN (dropMismatch n sh .ok).1, (dropMismatch n sh .ok).2.1.map eraseW, (dropMismatch n sh .ok).2.2) := by
  unfold dropMismatch
  simp only
  have he : emptyDataFor { eraseN n with datCache := (eraseN n).datCache.filter (·.1 ≠ (eraseN n).store.height + 1) } sh.hdr
      = emptyDataFor { n with datCache := n.datCache.filter (·.1 ≠ n.store.height + 1) } sh.hdr := rfl
  rw [he]
  cases emptyDataFor { n with datCache := n.datCache.filter (·.1 ≠ n.store.height + 1) } sh.hdr with
  | none => rfl
  | some d' =>
    simp only
    have hg : getD { eraseN n with datCache := (sh.hdr.height, d') :: (eraseN n).datCache.filter (·.1 ≠ (eraseN n).store.height + 1) }
          ((eraseN n).store.height + 1)
        = getD { n with datCache := (sh.hdr.height, d') :: n.datCache.filter (·.1 ≠ n.store.height + 1) } (n.store.height + 1) := rfl
    rw [hg]
    cases getD { n with datCache := (sh.hdr.height, d') :: n.datCache.filter (·.1 ≠ n.store.height + 1) } (n.store.height + 1) with
    | none => rfl
    | some d2 =>
      simp only
      have hv : execValidate (eraseN n).lastState sh d2 = execValidate n.lastState sh d2 := rfl
      rw [hv]
      cases execValidate n.lastState sh d2 with
      | none =>
        simp only
        exact applyBlock_erase { n with datCache := (sh.hdr.height, d') :: n.datCache.filter (·.1 ≠ n.store.height + 1) } sh d2
      | some e => rfl

/-- one loop iteration on the erased node is the erased iteration -/
theorem applyNext_erase (n : FNode) :
    applyNext (eraseN n) .ok = (applyNext n .ok).map fun r => (eraseN r.1, r.2.1.map eraseW, r.2.2) := by
  cases hH : getH n (n.store.height + 1) with
  | none =>
    rw [applyNext_none (Or.inl hH), applyNext_none (Or.inl (by rw [getH_erase]; exact hH))]; rfl
  | some sh =>
    cases hD : getD n (n.store.height + 1) with
    | none =>
      rw [applyNext_none (Or.inr hD), applyNext_none (Or.inr (by rw [getD_erase]; exact hD))]; rfl
    | some d =>
      have hH' : getH (eraseN n) ((eraseN n).store.height + 1) = some sh := hH
      have hD' : getD (eraseN n) ((eraseN n).store.height + 1) = some d := hD
      cases hv : execValidate n.lastState sh d with
      | some e =>
        have hv' : execValidate (eraseN n).lastState sh d = some e := hv
        simp only [applyNext, hH, hD, hv, hH', hD', hv']
        by_cases hc : validateBasic sh = none ∧ validateData sh d ≠ none
        · rw [if_pos hc, if_pos hc, Option.map_some, dropMismatch_erase]
        · rw [if_neg hc, if_neg hc]; rfl
      | none =>
        have hv' : execValidate (eraseN n).lastState sh d = none := hv
        simp only [applyNext, hH, hD, hv, hH', hD', hv', Option.map_some]
        rw [applyBlock_erase]

theorem trySync_erase : ∀ (fuel : Nat) (n : FNode) (ws : List SW),
    trySync fuel (eraseN n) (ws.map eraseW) = (eraseN (trySync fuel n ws).1, (trySync fuel n ws).2.map eraseW) := by
  intro fuel
  induction fuel with
  | zero => intro n ws; rfl
  | succ f ih =>
    intro n ws
    unfold trySync
    rw [applyNext_erase]
    cases applyNext n .ok with
    | none => rfl
    | some r =>
      obtain ⟨n', ws', cont⟩ := r
      simp only [Option.map_some]
      cases cont with
      | true =>
        simp only [↓reduceIte]
        rw [← List.map_append, ih]
      | false =>
        simp only [Bool.false_eq_true, ↓reduceIte, List.map_append]

theorem emptyDataFor_erase (n : FNode) (h : Header) : emptyDataFor (eraseN n) h = emptyDataFor n h := rfl

theorem cacheH_erase (n : FNode) (sh : SHeader) : cacheH (eraseN n) sh = eraseN (cacheH n sh) := by
  unfold cacheH
  simp only
  have e : emptyDataFor { eraseN n with hdrCache := (sh.hdr.height, sh) :: (eraseN n).hdrCache } sh.hdr
      = emptyDataFor { n with hdrCache := (sh.hdr.height, sh) :: n.hdrCache } sh.hdr := rfl
  rw [e]
  cases emptyDataFor { n with hdrCache := (sh.hdr.height, sh) :: n.hdrCache } sh.hdr <;> rfl

theorem syncAfter_erase (n : FNode) :
    syncAfter (eraseN n) = (eraseN (syncAfter n).1, (syncAfter n).2.map eraseW) := by
  unfold syncAfter
  exact trySync_erase _ n []

/-- **the header case on the erased node is the erased header case** -/
theorem onHeader_erase (n : FNode) (sh : SHeader) :
    onHeader (eraseN n) sh = (eraseN (onHeader n sh).1, (onHeader n sh).2.map eraseW) := by
  rw [onHeader_eq, onHeader_eq, cacheH_erase, syncAfter_erase]
  show (if !n.alive then (eraseN n, []) else
    if sh.hdr.height ≤ n.store.height ∨ sh.hdr.hash ∈ n.seenH then (eraseN n, [])
    else if (syncAfter (cacheH n sh)).1.alive then
      (markH (eraseN (syncAfter (cacheH n sh)).1) sh.hdr.hash, (syncAfter (cacheH n sh)).2.map eraseW)
    else (eraseN (syncAfter (cacheH n sh)).1, (syncAfter (cacheH n sh)).2.map eraseW)) = _
  split
  · rfl
  · split
    · rfl
    · split <;> rfl

/-- **the data case on the erased node is the erased data case** -/
theorem onData_erase (n : FNode) (d : Data) :
    onData (eraseN n) d = (eraseN (onData n d).1, (onData n d).2.map eraseW) := by
  rw [onData_eq, onData_eq]
  cases hm : d.metadata with
  | none =>
    simp only
    have a : (eraseN n).alive = n.alive := rfl
    rw [a]
    cases n.alive <;> rfl
  | some m =>
    simp only
    have e : cacheD (eraseN n) m.height d = eraseN (cacheD n m.height d) := rfl
    rw [e, syncAfter_erase]
    show (if !n.alive then (eraseN n, []) else
      if d.txs.isEmpty then (eraseN n, [])
      else if d.daCommitment ∈ n.seenD then (eraseN n, [])
      else if m.height ≤ n.store.height then (eraseN n, [])
      else (eraseN (syncAfter (cacheD n m.height d)).1, (syncAfter (cacheD n m.height d)).2.map eraseW)) = _
    split
    · rfl
    · split
      · rfl
      · split
        · rfl
        · split <;> rfl

/-! ### start-up -/

theorem eraseW_wmW (c : Cfg) (key : String) (w : Nat) : (wmW c key w).map eraseW = wmW c key w := by
  unfold wmW; split <;> rfl

theorem wmOf_erase (d : Store) (k : String) : Producer.wmOf (eraseStore d) k = Producer.wmOf d k := rfl

theorem finishStart_erase (c : Cfg) (caches : FNode) (s : State) (d2 : Store) (ws : List SW) :
    finishStart c caches (eraseS s) (eraseStore d2) ws = (finishStart c caches s d2 ws).map fun r => (eraseN r.1, r.2) := by
  unfold finishStart
  rw [wmOf_erase, wmOf_erase]
  cases h1 : Producer.wmOf d2 Producer.hdrWmKey with
  | none => rfl
  | some hw =>
    cases h2 : Producer.wmOf d2 Producer.dataWmKey with
    | none => rfl
    | some dw =>
      simp only [Option.map_some, Option.some.injEq, Prod.mk.injEq, and_true]
      have e : ((eraseStore d2).applyAll (wmW c Producer.hdrWmKey hw)).applyAll (wmW c Producer.dataWmKey dw)
          = eraseStore ((d2.applyAll (wmW c Producer.hdrWmKey hw)).applyAll (wmW c Producer.dataWmKey dw)) := by
        rw [← eraseStore_applyAll, ← eraseStore_applyAll, eraseW_wmW, eraseW_wmW]
      rw [e]
      rfl

theorem start_fails (c : Cfg) (d : Store) (caches : FNode) {s : State} (hst : d.state = some s)
    (hgt : c.initialHeight > s.lastHeight) : start c d caches = none := by
  unfold start
  simp only [hst, hgt, ↓reduceIte]

/-- **start-up on the erased image is the erased start-up** -/
theorem start_erase (c : Cfg) (d : Store) (caches : FNode) :
    start c (eraseStore d) caches = (start c d caches).map fun r => (eraseN r.1, r.2) := by
  cases hst : d.state with
  | none =>
    have hst' : (eraseStore d).state = none := by rw [eraseStore_state, hst]; rfl
    rw [start_none c d caches hst, start_none c (eraseStore d) caches hst', ← finishStart_erase]
    have e1 : (eraseStore d).apply (.saveBlock c.initialHeight (genesisBlock c))
        = eraseStore (d.apply (.saveBlock c.initialHeight (genesisBlock c))) := rfl
    rw [e1]
    have e2 : setHeightW (eraseStore (d.apply (.saveBlock c.initialHeight (genesisBlock c)))) (c.initialHeight - 1)
        = setHeightW (d.apply (.saveBlock c.initialHeight (genesisBlock c))) (c.initialHeight - 1) := rfl
    rw [e2]
    conv => lhs; rw [← eraseW_setHeightW, eraseStore_applyAll, eraseW_setHeightW]
    rfl
  | some s =>
    have hst' : (eraseStore d).state = some (eraseS s) := by rw [eraseStore_state, hst]; rfl
    by_cases hle : c.initialHeight ≤ s.lastHeight
    · rw [start_some c d caches hst hle, start_some c (eraseStore d) caches hst' hle, ← finishStart_erase]
      have e2 : setHeightW (eraseStore d) (eraseS s).lastHeight = setHeightW d s.lastHeight := rfl
      rw [e2]
      conv => lhs; rw [← eraseW_setHeightW, eraseStore_applyAll, eraseW_setHeightW]
    · rw [start_fails c d caches hst (by omega), start_fails c (eraseStore d) caches hst' (by show _ > s.lastHeight; omega)]
      rfl

end Sync
