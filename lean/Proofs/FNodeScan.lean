import Proofs.FNodeFeed
import Proofs.RetrieveEnd

/-!
# What a DA scan of the full node hands to its sync loop

* `ViewOK`: every blob on the DA layer that the classifier accepts is a part of the proposer's chain (the
  conclusion of C03's admission theorems), and blobs lie below the head of the DA layer;
* `scan_events_ok`: every event of a scan is then a genuine delivery, from a blob at or above the cursor;
* `scan_delivers_hdr/dat`: every accepted blob at a DA height the scan passed is handed over, unless its hash
  is already in the seen-set (`scan_handoff`);
* shape of the trace (`trace_ge`, `trace_passed`, `trace_final_ge`).
-/
namespace FullNode
open Wire Chain Sync Retrieve

variable {C : Cfg} {ch : PChain}

/-- a blob the classifier accepts is a part of the proposer's chain: an accepted header is, as the sync loop sees
it, the signed header of the chain's block at the height it names; accepted data is the data of the block its
metadata names -/
def BlobOK (C : Cfg) (ch : PChain) (b : Bytes × Oracle) : Prop :=
  (∀ w, classify b.2 C.sync.proposerAddr b.1 = .hdrAccepted w →
    ∃ blk, ch w.header.height = some blk ∧ toSH C.key w = blk.sh) ∧
  (∀ sd, classify b.2 C.sync.proposerAddr b.1 = .dataAccepted sd →
    ∃ m blk, sd.data.metadata = some m ∧ ch m.height = some blk ∧ sd.data = blk.data)

structure ViewOK (C : Cfg) (ch : PChain) (v : DAView) : Prop where
  blobs : ∀ p ∈ v.placed, BlobOK C ch p.2
  below : ∀ p ∈ v.placed, p.1 < v.top

/-- the header of block `k` is on the DA layer at or above the configured DA start height -/
def HdrOnDA (C : Cfg) (v : DAView) (k : Nat) : Prop :=
  ∃ p ∈ v.placed, C.daStart ≤ p.1 ∧ ∃ w, classify p.2.2 C.sync.proposerAddr p.2.1 = .hdrAccepted w ∧ w.header.height = k

/-- the data of block `k` is on the DA layer at or above the configured DA start height -/
def DatOnDA (C : Cfg) (v : DAView) (k : Nat) : Prop :=
  ∃ p ∈ v.placed, C.daStart ≤ p.1 ∧
    ∃ sd m, classify p.2.2 C.sync.proposerAddr p.2.1 = .dataAccepted sd ∧ sd.data.metadata = some m ∧ m.height = k

/-- both parts of block `k` are on the DA layer (an empty block needs no data) -/
def OnDA (C : Cfg) (ch : PChain) (v : DAView) (k : Nat) : Prop :=
  ∃ blk, ch k = some blk ∧ HdrOnDA C v k ∧ (IsEmpty blk ∨ DatOnDA C v k)

def EvOnDA (C : Cfg) (v : DAView) : Ev → Prop
  | .hdr k => HdrOnDA C v k
  | .dat k => DatOnDA C v k

theorem mem_blobsAt {v : DAView} {h : Nat} {b : Bytes × Oracle} :
    b ∈ v.blobsAt h ↔ ∃ p ∈ v.placed, p.1 = h ∧ p.2 = b := by
  unfold DAView.blobsAt
  simp only [List.mem_map, List.mem_filter, decide_eq_true_eq]
  constructor
  · rintro ⟨p, ⟨hp, hh⟩, rfl⟩; exact ⟨p, hp, hh, rfl⟩
  · rintro ⟨p, hp, hh, rfl⟩; exact ⟨p, ⟨hp, hh⟩, rfl⟩

/-! ## the trace of a scan -/

theorem trace_ge {start final : Nat} {tr : List (Nat × Nat × Bool)} (t : TraceOK start final tr)
    {e : Nat × Nat × Bool} (hm : e ∈ tr) : start ≤ e.1 := by
  obtain ⟨i, hi, rfl⟩ := List.mem_iff_getElem.mp hm
  rw [t.consecutive i hi]; omega

theorem trace_last {start final : Nat} {tr : List (Nat × Nat × Bool)} (t : TraceOK start final tr)
    (hne : tr ≠ []) :
    ∃ e, tr[tr.length - 1]'(by have := List.length_pos_iff.mpr hne; omega) = e ∧
      final = if e.2.2 then e.1 + 1 else e.1 := by
  have hl := List.length_pos_iff.mpr hne
  refine ⟨_, rfl, ?_⟩
  have hc := t.cursor
  rw [List.getLast?_eq_getElem?, List.getElem?_eq_getElem (by omega)] at hc
  exact hc

theorem trace_final_ge {start final : Nat} {tr : List (Nat × Nat × Bool)} (t : TraceOK start final tr) :
    start ≤ final := by
  by_cases hne : tr = []
  · have := t.cursor; rw [hne] at this; simp at this; omega
  · obtain ⟨e, he, hf⟩ := trace_last t hne
    have hl := List.length_pos_iff.mpr hne
    have h1 := t.consecutive (tr.length - 1) (by omega)
    rw [he] at h1
    rw [hf]; split <;> omega

/-- every height from the start of the scan up to (excluding) the final cursor was passed -/
theorem trace_passed {start final : Nat} {tr : List (Nat × Nat × Bool)} (t : TraceOK start final tr)
    {a : Nat} (h1 : start ≤ a) (h2 : a < final) : ∃ k, (a, k, true) ∈ tr := by
  by_cases hne : tr = []
  · have := t.cursor; rw [hne] at this; simp at this; omega
  · obtain ⟨e, he, hf⟩ := trace_last t hne
    have hl := List.length_pos_iff.mpr hne
    have hc := t.consecutive (tr.length - 1) (by omega)
    rw [he] at hc
    have hi : a - start < tr.length := by
      rw [hf] at h2; split at h2 <;> omega
    have hp : (tr[a - start]).2.2 = true := by
      by_cases hlast : a - start + 1 < tr.length
      · exact t.passed_but_last _ hlast
      · have hidx : a - start = tr.length - 1 := by omega
        have : tr[a - start] = e := by rw [← he]; congr 1
        rw [this]
        rw [hf] at h2
        cases hb : e.2.2 with
        | true => rfl
        | false => rw [hb] at h2; simp at h2; omega
    refine ⟨(tr[a - start]).2.1, ?_⟩
    have hx : tr[a - start] = (a, (tr[a - start]).2.1, true) := by
      have h3 := t.consecutive (a - start) hi
      apply Prod.ext
      · simp only; omega
      · apply Prod.ext
        · rfl
        · exact hp
    rw [← hx]
    exact List.getElem_mem hi

/-- a scan leaves the contents and the head of the DA layer alone (it consumes fetch scripts only) -/
theorem scan_view (p : Bytes) : ∀ (fuel : Nat) (n : RNode) (v : DAView) (evs : List Event) (tr : List (Nat × Nat × Bool)),
    (scan p fuel n v evs tr).2.1.placed = v.placed ∧ (scan p fuel n v evs tr).2.1.top = v.top := by
  intro fuel
  induction fuel with
  | zero => intro n v evs tr; exact ⟨rfl, rfl⟩
  | succ f ih =>
    intro n v evs tr
    rw [scan]
    generalize processNext p n (v.blobsAt n.daHeight) dAFetcherRetries (v.effective n.daHeight) 0 = r
    simp only
    split
    · obtain ⟨a, b⟩ := ih { r.1 with daHeight := n.daHeight + 1 }
        (v.setScript n.daHeight ((v.scriptAt n.daHeight).drop r.2.2.2)) (evs ++ r.2.1)
        (tr ++ [(n.daHeight, r.2.2.2, r.2.2.1)])
      exact ⟨a, b⟩
    · exact ⟨rfl, rfl⟩

/-! ## the scan of the full node -/

/-- the scan `FullNode.run` performs -/
def scanOf (C : Cfg) (nd : Node) (v : DAView) : RNode × DAView × List Event × List (Nat × Nat × Bool) :=
  scan C.sync.proposerAddr (scanFuel nd.cursor v.top) (rnodeOf nd) v [] []

theorem scanOf_trace (C : Cfg) (nd : Node) (v : DAView) :
    TraceOK nd.cursor (scanOf C nd v).1.daHeight (scanOf C nd v).2.2.2 := by
  obtain ⟨new, h1, _, h3⟩ := scan_trace_spec C.sync.proposerAddr (scanFuel nd.cursor v.top) (rnodeOf nd) v [] []
  simp only [List.nil_append] at h1
  unfold scanOf
  rw [h1]
  exact h3

theorem eventOf_some {p : Bytes} {sH sD : List Bytes} {da : Nat} {b : Bytes × Oracle} {ev : Event}
    (h : eventOf p sH sD da b = some ev) :
    (∃ w, classify b.2 p b.1 = .hdrAccepted w ∧ ev = .hdr w da) ∨
    (∃ sd, classify b.2 p b.1 = .dataAccepted sd ∧ ev = .dat sd da) := by
  unfold eventOf at h
  split at h
  · rename_i w hc
    split at h
    · cases h
    · simp only [Option.some.injEq] at h; exact Or.inl ⟨w, hc, h.symm⟩
  · rename_i sd hc
    split at h
    · cases h
    · simp only [Option.some.injEq] at h; exact Or.inr ⟨sd, hc, h.symm⟩
  · cases h

/-- **every event of a scan is a genuine delivery**, and comes from a blob at or above the cursor -/
theorem scan_events_ok (hv : ViewOK C ch v) (nd : Node) :
    ∀ ev ∈ (scanOf C nd v).2.2.1, EvOK C ch ev ∧ (C.daStart ≤ nd.cursor → EvOnDA C v (absEv ev)) := by
  intro ev hev
  obtain ⟨h, k, htr, hin⟩ := scan_events_sound C.sync.proposerAddr (scanFuel nd.cursor v.top) (rnodeOf nd) v
    nd.full.seenH nd.full.seenD rfl rfl ev hev
  have hge : nd.cursor ≤ h := trace_ge (scanOf_trace C nd v) htr
  obtain ⟨b, hb, he⟩ := List.mem_filterMap.mp hin
  obtain ⟨p, hp, hph, rfl⟩ := mem_blobsAt.mp hb
  have hok := hv.blobs p hp
  rcases eventOf_some he with ⟨w, hc, rfl⟩ | ⟨sd, hc, rfl⟩
  · exact ⟨hok.1 w hc, fun hd => ⟨p, hp, by omega, w, hc, rfl⟩⟩
  · obtain ⟨m, blk, hm, hbk, hd⟩ := hok.2 sd hc
    refine ⟨⟨m, blk, hm, hbk, hd⟩, fun hds => ?_⟩
    show DatOnDA C v ((sd.data.metadata.map (·.height)).getD 0)
    rw [hm]
    exact ⟨p, hp, by omega, sd, m, hc, hm, rfl⟩

/-- an accepted header blob at a DA height the scan passed is handed to the sync loop unless its hash is seen -/
theorem scan_delivers_hdr (nd : Node) (v : DAView) {a : Nat} (h1 : nd.cursor ≤ a) (h2 : a < (scanOf C nd v).1.daHeight)
    (hnf : Fetch.notFound ∉ v.scriptAt a) {p : Nat × Bytes × Oracle} (hp : p ∈ v.placed) (hpa : p.1 = a)
    {w : SignedHeader} (hc : classify p.2.2 C.sync.proposerAddr p.2.1 = .hdrAccepted w) :
    w.header.hash ∈ nd.full.seenH ∨ Event.hdr w a ∈ (scanOf C nd v).2.2.1 := by
  by_cases hs : w.header.hash ∈ nd.full.seenH
  · exact Or.inl hs
  · right
    obtain ⟨k, hk⟩ := trace_passed (scanOf_trace C nd v) h1 h2
    have := (scan_handoff C.sync.proposerAddr (scanFuel nd.cursor v.top) (rnodeOf nd) v a k
      nd.full.seenH nd.full.seenD rfl rfl hk hnf).1
    apply this
    refine List.mem_filterMap.mpr ⟨p.2, mem_blobsAt.mpr ⟨p, hp, hpa, rfl⟩, ?_⟩
    unfold eventOf
    rw [hc]
    simp [hs]

/-- accepted signed data at a DA height the scan passed is handed to the sync loop unless its commitment is seen -/
theorem scan_delivers_dat (nd : Node) (v : DAView) {a : Nat} (h1 : nd.cursor ≤ a) (h2 : a < (scanOf C nd v).1.daHeight)
    (hnf : Fetch.notFound ∉ v.scriptAt a) {p : Nat × Bytes × Oracle} (hp : p ∈ v.placed) (hpa : p.1 = a)
    {sd : SignedData} (hc : classify p.2.2 C.sync.proposerAddr p.2.1 = .dataAccepted sd) :
    sd.data.daCommitment ∈ nd.full.seenD ∨ Event.dat sd a ∈ (scanOf C nd v).2.2.1 := by
  by_cases hs : sd.data.daCommitment ∈ nd.full.seenD
  · exact Or.inl hs
  · right
    obtain ⟨k, hk⟩ := trace_passed (scanOf_trace C nd v) h1 h2
    have := (scan_handoff C.sync.proposerAddr (scanFuel nd.cursor v.top) (rnodeOf nd) v a k
      nd.full.seenH nd.full.seenD rfl rfl hk hnf).1
    apply this
    refine List.mem_filterMap.mpr ⟨p.2, mem_blobsAt.mpr ⟨p, hp, hpa, rfl⟩, ?_⟩
    unfold eventOf
    rw [hc]
    simp [hs]

end FullNode
