import Proofs.FlowRun

/-!
# C11 helpers (6): without crashes and with duplicate-free mempool responses no transaction is handed over twice
-/
namespace Flow
open Wire Chain Producer

/-- the mempool response of this operation (if it is one) has no duplicates -/
def Op.dupFree : Op → Prop
  | .mempool txs => txs.Nodup
  | .mempoolDrain txs => txs.Nodup
  | _ => True

theorem newTxs_not_seen {n : Node} {mempool : List Bytes} {t : Bytes} (h : t ∈ newTxs n mempool) : t ∉ n.seen := by
  unfold newTxs at h
  have := (List.mem_filter.1 h).2
  simpa using this

theorem step_once {c : Cfg} {σ σ' : RunSt} {g : Ghost} (hi : FInv c σ g) (hcr : g.crashed = false)
    (hm : σ.mempool.Nodup) (hn : g.handed.flatten.Nodup) (op : Op) (hop : op.isRestart = false) (hd : op.dupFree)
    (hs : opStep c σ op = some σ') : σ'.mempool.Nodup ∧ (gstep c σ g op).handed.flatten.Nodup := by
  cases op with
  | mempool txs =>
    simp only [opStep, Option.some.injEq] at hs
    subst hs
    exact ⟨hd, hn⟩
  | mempoolDrain txs =>
    simp only [opStep, Option.some.injEq] at hs
    subst hs
    exact ⟨hd, hn⟩
  | produce =>
    simp only [opStep, Option.some.injEq] at hs
    subst hs
    refine ⟨hm, ?_⟩
    simp only [gstep]; split <;> exact hn
  | produceFail =>
    simp only [opStep, Option.some.injEq] at hs
    subst hs
    refine ⟨hm, ?_⟩
    simp only [gstep]; split <;> exact hn
  | produceSame =>
    simp only [opStep, Option.some.injEq] at hs
    subst hs
    refine ⟨hm, ?_⟩
    simp only [gstep]; split <;> exact hn
  | produceCancelled _ =>
    simp only [opStep, Option.some.injEq] at hs
    subst hs
    refine ⟨hm, ?_⟩
    simp only [gstep]; split <;> exact hn
  | reapPutFails =>
    simp only [opStep, Option.some.injEq] at hs
    subst hs
    have hm' : (if σ.drain = true then [] else σ.mempool).Nodup := by
      split
      · exact List.nodup_nil
      · exact hm
    exact ⟨hm', hn⟩
  | restart => cases hop
  | crash _ => cases hop
  | reap =>
    simp only [opStep, Option.some.injEq] at hs
    subst hs
    have hm' : (if σ.drain = true then [] else σ.mempool).Nodup := by
      split
      · exact List.nodup_nil
      · exact hm
    refine ⟨hm', ?_⟩
    rcases reap_cases c σ.n σ.mempool with h0 | ⟨_, _, h1⟩
    · have e2 : gstep c σ g .reap = g := by unfold gstep; rw [h0]
      rw [e2]; exact hn
    · have e2 : gstep c σ g .reap = accG g (newTxs σ.n σ.mempool) := by unfold gstep; rw [h1]; rfl
      rw [e2]
      show (g.handed ++ [newTxs σ.n σ.mempool]).flatten.Nodup
      rw [List.flatten_append, List.nodup_append]
      refine ⟨hn, ?_, ?_⟩
      · simp only [List.flatten_cons, List.flatten_nil, List.append_nil]
        exact List.Nodup.sublist List.filter_sublist hm
      · intro a ha b hb hab
        subst hab
        simp only [List.flatten_cons, List.flatten_nil, List.append_nil] at hb
        obtain ⟨x, hx, hax⟩ := List.mem_flatten.1 ha
        exact newTxs_not_seen hb ((hi.exact hcr).2.2.1 x hx a hax)

theorem run_once {c : Cfg} {σ σ' : RunSt} {g g' : Ghost} (hc : CfgOK c) (hi : FInv c σ g) (hcr : g.crashed = false)
    (hm : σ.mempool.Nodup) (hn : g.handed.flatten.Nodup) (ops : List Op) (hop : ∀ op ∈ ops, op.isRestart = false)
    (hd : ∀ op ∈ ops, op.dupFree) (h : runG c σ g ops = some (σ', g')) : g'.handed.flatten.Nodup := by
  induction ops generalizing σ g with
  | nil => simp only [runG, Option.some.injEq, Prod.mk.injEq] at h; rw [← h.2]; exact hn
  | cons op rest ih =>
    simp only [runG] at h
    obtain ⟨σ1, h1, h2⟩ := step_inv hc hi op
    rw [h1] at h
    obtain ⟨a1, a2⟩ := step_once hi hcr hm hn op (hop op (by simp)) (hd op (by simp)) h1
    exact ih h2 (by rw [gstep_crashed (hop op (by simp))]; exact hcr) a1 a2
      (fun o ho => hop o (by simp [ho])) (fun o ho => hd o (by simp [ho])) h

end Flow
