import Model.Retrieve

/-!
# Helper lemmas for C09 (4): the hand-off of one DA height's blobs to sync (`handleBlobs`)
-/

namespace Retrieve
open Wire Chain

/-- the event one blob contributes: one per accepted header not already seen, one per accepted signed data not
already seen; nothing otherwise -/
def eventOf (p : Bytes) (seenH seenD : List Bytes) (da : Nat) (b : Bytes × Oracle) : Option Event :=
  match classify b.2 p b.1 with
  | .hdrAccepted sh => if sh.header.hash ∈ seenH then none else some (.hdr sh da)
  | .dataAccepted sd => if sd.data.daCommitment ∈ seenD then none else some (.dat sd da)
  | _ => none

/-- the DA-inclusion mark an accepted header gets -/
def hMarkOf (p : Bytes) (da : Nat) (b : Bytes × Oracle) : Option (Bytes × Nat) :=
  match classify b.2 p b.1 with
  | .hdrAccepted sh => some (sh.header.hash, da)
  | _ => none

/-- the DA-inclusion mark accepted signed data gets -/
def dMarkOf (p : Bytes) (da : Nat) (b : Bytes × Oracle) : Option (Bytes × Nat) :=
  match classify b.2 p b.1 with
  | .dataAccepted sd => some (sd.data.daCommitment, da)
  | _ => none

/-- a blob is handed on or marked only when it is classified as an accepted header or accepted data -/
def accepting : BlobClass → Bool
  | .hdrAccepted _ => true
  | .dataAccepted _ => true
  | _ => false

theorem accepting_eq_false_iff (c : BlobClass) :
    accepting c = false ↔ (∀ sh, c ≠ .hdrAccepted sh) ∧ (∀ sd, c ≠ .dataAccepted sd) := by
  cases c <;> simp [accepting]

/-- **complete description of the hand-off** -/
theorem handleBlobs_eq (p : Bytes) (da : Nat) :
    ∀ (bs : List (Bytes × Oracle)) (n : RNode) (evs : List Event),
      handleBlobs p n da bs evs =
        ({ n with hMarks := (bs.filterMap (hMarkOf p da)).reverse ++ n.hMarks,
                  dMarks := (bs.filterMap (dMarkOf p da)).reverse ++ n.dMarks },
         evs ++ bs.filterMap (eventOf p n.seenH n.seenD da)) := by
  intro bs
  induction bs with
  | nil => intro n evs; simp [handleBlobs]
  | cons b rest ih =>
    intro n evs
    obtain ⟨b, o⟩ := b
    rw [handleBlobs]
    cases hc : classify o p b with
    | hdrAccepted sh =>
      simp only [ih, List.filterMap_cons, hMarkOf, dMarkOf, eventOf, hc]
      by_cases hm : sh.header.hash ∈ n.seenH <;> simp [hm]
    | dataAccepted sd =>
      simp only [ih, List.filterMap_cons, hMarkOf, dMarkOf, eventOf, hc]
      by_cases hm : sd.data.daCommitment ∈ n.seenD <;> simp [hm]
    | empty => simp only [ih, List.filterMap_cons, hMarkOf, dMarkOf, eventOf, hc]
    | hdrFromProtoErr => simp only [ih, List.filterMap_cons, hMarkOf, dMarkOf, eventOf, hc]
    | hdrUnexpectedSequencer => simp only [ih, List.filterMap_cons, hMarkOf, dMarkOf, eventOf, hc]
    | ignored => simp only [ih, List.filterMap_cons, hMarkOf, dMarkOf, eventOf, hc]

theorem eventOf_none_of_not_accepting (p : Bytes) (sH sD : List Bytes) (da : Nat) (b : Bytes × Oracle)
    (h : accepting (classify b.2 p b.1) = false) : eventOf p sH sD da b = none := by
  unfold eventOf; cases hc : classify b.2 p b.1 <;> simp_all [accepting]

theorem hMarkOf_none_of_not_accepting (p : Bytes) (da : Nat) (b : Bytes × Oracle)
    (h : accepting (classify b.2 p b.1) = false) : hMarkOf p da b = none := by
  unfold hMarkOf; cases hc : classify b.2 p b.1 <;> simp_all [accepting]

theorem dMarkOf_none_of_not_accepting (p : Bytes) (da : Nat) (b : Bytes × Oracle)
    (h : accepting (classify b.2 p b.1) = false) : dMarkOf p da b = none := by
  unfold dMarkOf; cases hc : classify b.2 p b.1 <;> simp_all [accepting]

/-- a blob that is not accepted changes nothing, wherever it sits among the others -/
theorem handleBlobs_drop_unaccepted (p : Bytes) (n : RNode) (da : Nat) (bs₁ bs₂ : List (Bytes × Oracle))
    (b : Bytes × Oracle) (evs : List Event) (h : accepting (classify b.2 p b.1) = false) :
    handleBlobs p n da (bs₁ ++ [b] ++ bs₂) evs = handleBlobs p n da (bs₁ ++ bs₂) evs := by
  rw [handleBlobs_eq, handleBlobs_eq]
  simp [List.filterMap_append, eventOf_none_of_not_accepting _ _ _ _ _ h,
    hMarkOf_none_of_not_accepting _ _ _ h, dMarkOf_none_of_not_accepting _ _ _ h]

/-- any amount of unaccepted material, anywhere: only the accepted blobs matter -/
theorem handleBlobs_filter_accepted (p : Bytes) (n : RNode) (da : Nat) (bs : List (Bytes × Oracle))
    (evs : List Event) :
    handleBlobs p n da bs evs =
      handleBlobs p n da (bs.filter fun b => accepting (classify b.2 p b.1)) evs := by
  rw [handleBlobs_eq, handleBlobs_eq]
  have e : ∀ (α : Type) (f : Bytes × Oracle → Option α),
      (∀ b, accepting (classify b.2 p b.1) = false → f b = none) →
      bs.filterMap f = (bs.filter fun b => accepting (classify b.2 p b.1)).filterMap f := by
    intro α f hf
    induction bs with
    | nil => rfl
    | cons b rest ih =>
      cases hb : accepting (classify b.2 p b.1) with
      | true => simp [List.filterMap_cons, hb, ih]
      | false => simp [hb, ih, hf b hb]
  rw [← e _ _ (hMarkOf_none_of_not_accepting p da), ← e _ _ (dMarkOf_none_of_not_accepting p da),
    ← e _ _ (eventOf_none_of_not_accepting p n.seenH n.seenD da)]

end Retrieve
