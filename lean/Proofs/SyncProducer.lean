import Proofs.Producer

/-!
# Every block the producer commits carries metadata (needed to connect `Spec.C01` chains to `Sync.GoodChain`:
a data event without metadata is dropped by the sync loop)
-/
namespace Producer
open Wire Chain

theorem finish_meta {c : Cfg} {n : Node} (ws : List SW) (sh : SHeader) (d : Data) (ldh : Bytes) (ex : ExecResp)
    (hh : sh.hdr.height = n.store.height + 1) :
    (finish c n ws sh d ldh ex).1.store.height = n.store.height ∨
    ∃ b, (finish c n ws sh d ldh ex).1.store.getBlock (n.store.height + 1) = some b ∧ b.data.metadata ≠ none := by
  unfold finish
  cases ex with
  | fail => exact Or.inl rfl
  | ok =>
    simp only [signed, withMeta]
    split
    · exact Or.inl rfl
    · simp only [hh]
      right
      generalize hb : (Block.mk _ _ _ : Block) = nb
      generalize hs1 : n.store.apply (.saveBlock (n.store.height + 1) nb) = s1
      generalize hs2 : s1.apply (.updateState _) = s2
      obtain ⟨_, a2, _, _⟩ := applyAll_setHeightW s2 (n.store.height + 1)
      refine ⟨nb, ?_, ?_⟩
      · show (Store.applyAll _ _).getBlock _ = _
        rw [a2, ← hs2, getBlock_updateState, ← hs1]
        exact getBlock_saveBlock_same _ _ _
      · rw [← hb]; simp

theorem buildAndFinish_meta {c : Cfg} {n0 : Node} (w0 : SW) (ls : Sig) (lhh ldh : Bytes)
    (txs : List Bytes) (ts : Nat) (ex : ExecResp) :
    (buildAndFinish c n0 w0 ls lhh ldh txs ts ex).1.store.height = n0.store.height ∨
    ∃ b, (buildAndFinish c n0 w0 ls lhh ldh txs ts ex).1.store.getBlock (n0.store.height + 1) = some b ∧
      b.data.metadata ≠ none := by
  unfold buildAndFinish
  obtain ⟨f1, _⟩ := createBlock_facts c n0.lastState (n0.store.height + 1) ls lhh txs ts
  generalize createBlock c n0.lastState (n0.store.height + 1) ls lhh txs ts = blk at f1
  exact finish_meta (c := c)
    (n := { n0 with store := n0.store.apply (.saveBlock (n0.store.height + 1) (Block.mk blk.1 blk.2 .none)) })
    [w0, .saveBlock (n0.store.height + 1) (Block.mk blk.1 blk.2 .none)] blk.1 blk.2 ldh ex f1

theorem publish_meta {c : Cfg} {n : Node} (hi : Inv c n) (resp : SeqResp) (ex : ExecResp) :
    (publish c n resp ex).1.store.height = n.store.height ∨
    ∃ b, (publish c n resp ex).1.store.getBlock (n.store.height + 1) = some b ∧ b.data.metadata ≠ none := by
  unfold publish
  split
  · exact Or.inl rfl
  · split
    · exact Or.inl rfl
    · split
      · rename_i pb hpb
        exact finish_meta [] pb.sh pb.data _ ex (hi.pend pb hpb).height
      · unfold fresh
        cases resp with
        | err => exact Or.inl rfl
        | absent => exact Or.inl rfl
        | batch txs ts bd =>
          simp only
          split
          · exact Or.inl rfl
          · split
            · exact Or.inl rfl
            · exact buildAndFinish_meta (n0 := { n with store := n.store.apply (.setMeta lastBatchDataKey (batchDataToBytes bd)), lastBatchData := bd }) _ _ _ _ txs ts ex

/-- every committed block carries metadata -/
def MetaInv (c : Cfg) (n : Node) : Prop :=
  ∀ k b, c.initialHeight ≤ k → k ≤ n.store.height → n.store.getBlock k = some b → b.data.metadata ≠ none

theorem publish_metaInv {c : Cfg} {n : Node} (hi : Inv c n) (hm : MetaInv c n) (resp : SeqResp) (ex : ExecResp) :
    MetaInv c (publish c n resp ex).1 := by
  obtain ⟨hh, hk⟩ := publish_store hi resp ex
  intro k b h1 h2 hb
  by_cases hle : k ≤ n.store.height
  · rw [hk k hle] at hb; exact hm k b h1 hle hb
  · rcases publish_meta hi resp ex with h | ⟨b', hb', hmeta⟩
    · omega
    · have : k = n.store.height + 1 := by rcases hh with h | h <;> omega
      subst this
      rw [hb'] at hb; cases hb; exact hmeta

theorem run_metaInv {c : Cfg} {n : Node} (hi : Inv c n) (hm : MetaInv c n) (rs : List (SeqResp × ExecResp)) :
    MetaInv c (run c n rs) := by
  induction rs generalizing n with
  | nil => exact hm
  | cons r rs ih => exact ih (publish_inv hi r.1 r.2) (publish_metaInv hi hm r.1 r.2)

theorem freshNode_metaInv (c : Cfg) (_hpos : 1 ≤ c.initialHeight) : MetaInv c (freshNode c) := by
  intro k b h1 h2 _
  have : (freshNode c).store.height = c.initialHeight - 1 := (freshDisk_facts c).1
  omega

end Producer
