import Proofs.SubmitPending
import Proofs.WireTyped

/-! The blobs themselves (C06): what the model hands to the DA layer is the wire encoding of the committed signed header /
of the committed data signed with the node's key. -/
namespace Submit
open Wire Chain Producer

/-- the summary `daBlobs` keeps of an entry of `daBytes` -/
def bproj (e : Nat × Bool × Nat × Bytes) : Nat × Bool × Nat := (e.1, e.2.1, e.2.2.1)

theorem bytesOf_proj (dh : Nat) (d : Bool) (sub : List Item) : (bytesOf dh d sub).map bproj = blobsOf dh d sub := by
  simp [bytesOf, blobsOf, bproj, List.map_reverse, Function.comp_def]

theorem raiseWm_daBytes (a : ANode) (d : Bool) (h : Nat) :
    (raiseWm a d h).1.daBytes = a.daBytes ∧ (raiseWm a d h).1.daBlobs = a.daBlobs := by
  unfold raiseWm
  cases d
  · by_cases hc : h > a.n.hdrWm <;> simp [hc]
  · by_cases hc : h > a.n.dataWm <;> simp [hc]

theorem withMarks_daBytes (a : ANode) (d : Bool) (sub : List Item) :
    (withMarks a d sub).daBytes = a.daBytes ∧ (withMarks a d sub).daBlobs = a.daBlobs := by
  cases d <;> exact ⟨rfl, rfl⟩

/-- the retry loop keeps `daBytes` aligned with `daBlobs`, and every entry it adds is an item of the list, of the kind
being submitted, with that item's height and blob -/
structure BytesInv (d : Bool) (a0 : ANode) (items0 : List Item) (a : ANode) (rem : List Item) : Prop where
  suffix : ∃ pre, items0 = pre ++ rem
  aligned : a0.daBlobs = a0.daBytes.map bproj → a.daBlobs = a.daBytes.map bproj
  entries : ∀ e ∈ a.daBytes, e ∈ a0.daBytes ∨ ∃ it ∈ items0, e.2.1 = d ∧ e.2.2.1 = it.height ∧ e.2.2.2 = it.blob

theorem mem_bytesOf {e : Nat × Bool × Nat × Bytes} {dh : Nat} {d : Bool} {sub : List Item} (h : e ∈ bytesOf dh d sub) :
    ∃ it ∈ sub, e = (dh, d, it.height, it.blob) := by
  simp only [bytesOf, List.mem_reverse, List.mem_map] at h
  obtain ⟨it, hit, rfl⟩ := h
  exact ⟨it, hit, rfl⟩

theorem submitLoop_bytes (d : Bool) (fuel : Nat) (a0 : ANode) (items0 : List Item) (script : List DAAns) :
    ∃ rem, BytesInv d a0 items0 (submitLoop d fuel a0 items0 script [] []).1 rem := by
  obtain ⟨rem, h, _⟩ := submitLoop_inv3 d (fun a rem _ => BytesInv d a0 items0 a rem)
    (fun a rem ws c h c0 c1 => by
      obtain ⟨pre, hpre⟩ := h.suffix
      refine ⟨⟨pre, hpre⟩, fun h0 => ?_, fun e he => ?_⟩
      · show blobsOf a.daH d (rem.take c) ++ a.daBlobs = (bytesOf a.daH d (rem.take c) ++ a.daBytes).map bproj
        rw [List.map_append, bytesOf_proj, h.aligned h0]
      · have he' : e ∈ bytesOf a.daH d (rem.take c) ++ a.daBytes := he
        rcases List.mem_append.mp he' with q | q
        · obtain ⟨it, hit, rfl⟩ := mem_bytesOf q
          exact Or.inr ⟨it, by rw [hpre]; exact List.mem_append_right _ (List.mem_of_mem_take hit), rfl, rfl, rfl⟩
        · exact h.entries e q)
    (fun a rem ws c h c0 c1 => by
      obtain ⟨pre, hpre⟩ := h.suffix
      have hb := (raiseWm_daBytes (withMarks a d (rem.take c)) d (lastH (rem.take c)))
      have hm := withMarks_daBytes a d (rem.take c)
      refine ⟨⟨pre ++ rem.take c, by rw [List.append_assoc, List.take_append_drop]; exact hpre⟩, fun h0 => ?_, fun e he => ?_⟩
      · show blobsOf a.daH d (rem.take c) ++ (raiseWm _ d _).1.daBlobs =
          (bytesOf a.daH d (rem.take c) ++ (raiseWm _ d _).1.daBytes).map bproj
        rw [hb.1, hb.2, hm.1, hm.2, List.map_append, bytesOf_proj, h.aligned h0]
      · have he' : e ∈ bytesOf a.daH d (rem.take c) ++ (raiseWm (withMarks a d (rem.take c)) d (lastH (rem.take c))).1.daBytes := he
        rw [hb.1, hm.1] at he'
        rcases List.mem_append.mp he' with q | q
        · obtain ⟨it, hit, rfl⟩ := mem_bytesOf q
          exact Or.inr ⟨it, by rw [hpre]; exact List.mem_append_right _ (List.mem_of_mem_take hit), rfl, rfl, rfl⟩
        · exact h.entries e q)
    fuel a0 items0 script [] [] ⟨⟨[], rfl⟩, id, fun e he => Or.inl he⟩
  exact ⟨rem, h⟩

/-- an entry of the DA double in bytes is the blob of a stored block: the wire encoding of its signed header, or — for a
block with transactions — of its data signed with the key of its header's signer -/
def IsBlobOf (lo : Nat) (s : Store) (e : Nat × Bool × Nat × Bytes) : Prop :=
  ∃ k b, lo ≤ k ∧ k ≤ s.height ∧ s.getBlock k = some b ∧
    ((e.2.1 = false ∧ e.2.2.1 = b.sh.hdr.height ∧ e.2.2.2 = hdrBlob b) ∨
     (e.2.1 = true ∧ e.2.2.1 = dataHeight b ∧ b.data.txs ≠ [] ∧ e.2.2.2 = dataBlob b))

theorem headersIter_bytes (a : ANode) (script : List DAAns) :
    (a.daBlobs = a.daBytes.map bproj → (headersIter a script).1.daBlobs = (headersIter a script).1.daBytes.map bproj) ∧
    ∀ e ∈ (headersIter a script).1.daBytes, e ∈ a.daBytes ∨ IsBlobOf (a.n.hdrWm + 1) a.n.store e := by
  rcases headersIter_cases a script with ⟨h, _⟩ | ⟨h, _⟩ | ⟨bs, _, hbs, h⟩
  · rw [h]; exact ⟨id, fun e he => Or.inl he⟩
  · rw [h]; exact ⟨id, fun e he => Or.inl he⟩
  · rw [h]
    obtain ⟨rem, hi⟩ := submitLoop_bytes false maxSubmitAttempts a (hdrItems bs) script
    refine ⟨hi.aligned, fun e he => ?_⟩
    rcases hi.entries e he with q | ⟨it, hit, q1, q2, q3⟩
    · exact Or.inl q
    · obtain ⟨k, b, k1, k2, hb, rfl⟩ := hdrItems_mem hbs it hit
      exact Or.inr ⟨k, b, k1, k2, hb, Or.inl ⟨q1, q2, q3⟩⟩

theorem dataIter_bytes (a : ANode) (script : List DAAns) :
    (a.daBlobs = a.daBytes.map bproj → (dataIter a script).1.daBlobs = (dataIter a script).1.daBytes.map bproj) ∧
    ∀ e ∈ (dataIter a script).1.daBytes, e ∈ a.daBytes ∨ IsBlobOf (a.n.dataWm + 1) a.n.store e := by
  rcases dataIter_cases a script with ⟨h, _⟩ | ⟨h, _⟩ | ⟨bs, _, _, _, h⟩ | ⟨bs, _, hbs, _, h⟩
  · rw [h]; exact ⟨id, fun e he => Or.inl he⟩
  · rw [h]; exact ⟨id, fun e he => Or.inl he⟩
  · rw [h]
    have hb := raiseWm_daBytes a true (lastDH bs)
    refine ⟨fun h0 => ?_, fun e he => ?_⟩
    · show (raiseWm a true (lastDH bs)).1.daBlobs = (raiseWm a true (lastDH bs)).1.daBytes.map bproj
      rw [hb.1, hb.2]; exact h0
    · have he' : e ∈ (raiseWm a true (lastDH bs)).1.daBytes := he
      rw [hb.1] at he'; exact Or.inl he'
  · rw [h]
    obtain ⟨rem, hi⟩ := submitLoop_bytes true maxSubmitAttempts a (dataItems bs) script
    refine ⟨hi.aligned, fun e he => ?_⟩
    rcases hi.entries e he with q | ⟨it, hit, q1, q2, q3⟩
    · exact Or.inl q
    · obtain ⟨k, b, k1, k2, hb, hne, rfl⟩ := dataItems_mem hbs it hit
      exact Or.inr ⟨k, b, k1, k2, hb, Or.inr ⟨q1, q2, hne, q3⟩⟩

theorem includerPass_daBytes (fuel : Nat) (a : ANode) (ws : List SW) : (includerPass fuel a ws).1.daBytes = a.daBytes := by
  induction fuel generalizing a ws with
  | zero => rfl
  | succ f ih =>
    rw [includerPass_succ]
    cases h : incNext a with
    | none => rfl
    | some p =>
      obtain ⟨a', w⟩ := p
      obtain ⟨_, hd, dd, _, rfl, _⟩ := incNext_some h
      simp only
      rw [ih]; rfl

/-- the invariant of reachable nodes: the byte view of the DA double is aligned with its summary, and every entry is the
blob of a stored block -/
structure BY (c : Cfg) (a : ANode) : Prop where
  aligned : a.daBlobs = a.daBytes.map bproj
  entries : ∀ e ∈ a.daBytes, IsBlobOf c.initialHeight a.n.store e

theorem IsBlobOf.mono {lo lo' : Nat} {s s' : Store} {e : Nat × Bool × Nat × Bytes} (h : IsBlobOf lo s e) (hl : lo' ≤ lo)
    (hh : s.height ≤ s'.height) (hb : ∀ k, k ≤ s.height → s'.getBlock k = s.getBlock k) : IsBlobOf lo' s' e := by
  obtain ⟨k, b, k0, k1, k2, r⟩ := h
  exact ⟨k, b, by omega, by omega, by rw [hb k k1]; exact k2, r⟩

theorem BY.step {c : Cfg} {a : ANode} (hinv : Inv c a.n) (hlow : c.initialHeight ≤ a.n.hdrWm + 1)
    (hdlow : c.initialHeight ≤ a.n.dataWm + 1) (y : BY c a) (act : Act) : BY c (stepA c a act) := by
  cases act with
  | produce r e =>
    have hs := publish_store hinv r e
    refine ⟨y.aligned, fun x hx => (y.entries x hx).mono (Nat.le_refl _) ?_ hs.2⟩
    show a.n.store.height ≤ (publish c a.n r e).1.store.height
    rcases hs.1 with q | q <;> omega
  | subH s =>
    obtain ⟨_, hi, _⟩ := headersIter_iter a s
    obtain ⟨h1, h2⟩ := headersIter_bytes a s
    refine ⟨h1 y.aligned, fun x hx => ?_⟩
    have tr : ∀ lo, c.initialHeight ≤ lo → IsBlobOf lo a.n.store x → IsBlobOf c.initialHeight (headersIter a s).1.n.store x :=
      fun lo hlo q => q.mono hlo (by rw [hi.frame.height]; exact Nat.le_refl _) (fun k _ => hi.frame.getBlock k)
    rcases h2 x hx with q | q
    · exact tr _ (Nat.le_refl _) (y.entries x q)
    · exact tr _ hlow q
  | subD s =>
    obtain ⟨_, hi, _⟩ := dataIter_iter a s
    obtain ⟨h1, h2⟩ := dataIter_bytes a s
    refine ⟨h1 y.aligned, fun x hx => ?_⟩
    have tr : ∀ lo, c.initialHeight ≤ lo → IsBlobOf lo a.n.store x → IsBlobOf c.initialHeight (dataIter a s).1.n.store x :=
      fun lo hlo q => q.mono hlo (by rw [hi.frame.height]; exact Nat.le_refl _) (fun k _ => hi.frame.getBlock k)
    rcases h2 x hx with q | q
    · exact tr _ (Nat.le_refl _) (y.entries x q)
    · exact tr _ hdlow q
  | incl =>
    have hi : PassInv a (includerIter a).1 (includerIter a).2 :=
      includerPass_inv (a.n.store.height + 1) a a [] (PassInv.init a)
    have hby : (includerIter a).1.daBytes = a.daBytes := includerPass_daBytes _ a []
    have hbl : (includerIter a).1.daBlobs = a.daBlobs := hi.frame.daBlobs
    refine ⟨by show (includerIter a).1.daBlobs = (includerIter a).1.daBytes.map bproj; rw [hby, hbl]; exact y.aligned,
      fun x hx => ?_⟩
    have hx' : x ∈ (includerIter a).1.daBytes := hx
    rw [hby] at hx'
    have hh : a.n.store.height ≤ (includerIter a).1.n.store.height := by rw [hi.frame.height]; exact Nat.le_refl _
    exact (y.entries x hx').mono (Nat.le_refl _) hh (fun k _ => hi.frame.getBlock k)

end Submit
