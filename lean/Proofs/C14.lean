import Proofs.C14Keys

/-! Refinement of `pkg/store` (Model/Store.lean) to a height-indexed map: abstraction map,
invariant, commutation with every operation, reads, monotone height, atomicity under crash
prefixes.  The theorems quoted by `Spec/C14.lean`. -/
namespace Store

theorem Key.str_eq_iff {a b : Key} (ha : a.OK) (hb : b.OK) : a.str = b.str ↔ a = b :=
  ⟨Key.str_inj ha hb, fun h => h ▸ rfl⟩

@[simp] theorem Key.ok_height : Key.height.OK := trivial
@[simp] theorem Key.ok_state : Key.state.OK := trivial
@[simp] theorem Key.ok_header (h : Nat) : (Key.header h).OK := trivial
@[simp] theorem Key.ok_data (h : Nat) : (Key.data h).OK := trivial
@[simp] theorem Key.ok_signature (h : Nat) : (Key.signature h).OK := trivial
@[simp] theorem Key.ok_index (x : Bytes) : (Key.index x).OK := trivial
@[simp] theorem Key.ok_metadata (k : String) : (Key.metadata k).OK ↔ metaKeyOK k = true := Iff.rfl

theorem heightKey_eq : heightKey = Key.height.str := rfl
theorem stateKey_eq : stateKey = Key.state.str := rfl
theorem headerKey_eq (h : Nat) : headerKey h = (Key.header h).str := rfl
theorem dataKey_eq (h : Nat) : dataKey h = (Key.data h).str := rfl
theorem signatureKey_eq (h : Nat) : signatureKey h = (Key.signature h).str := rfl
theorem indexKey_eq (x : Bytes) : indexKey x = (Key.index x).str := rfl
theorem metaKey_eq (k : String) : metaKey k = (Key.metadata k).str := rfl

/-! ### height encoding -/

theorem length_le (n x : Nat) : (Bytes.le n x).length = n := by
  induction n generalizing x with
  | zero => rfl
  | succ n ih => simp [Bytes.le, ih]

theorem unLe_le (n x : Nat) : Bytes.unLe (Bytes.le n x) = x % 256 ^ n := by
  induction n generalizing x with
  | zero => simp [Bytes.le, Bytes.unLe, Nat.mod_one]
  | succ n ih =>
    simp only [Bytes.le, Bytes.unLe, ih, Nat.toUInt8]
    rw [Nat.pow_succ, Nat.mul_comm (256 ^ n) 256, Nat.mod_mul (a := 256) (b := 256 ^ n)]
    simp

theorem decode_encodeHeight {h : Nat} (hh : h < 2 ^ 64) : decodeHeight (encodeHeight h) = some h := by
  have : (256 : Nat) ^ 8 = 2 ^ 64 := by decide
  simp [decodeHeight, encodeHeight, length_le, unLe_le, this, Nat.mod_eq_of_lt hh]

theorem encodeHeight_length (h : Nat) : (encodeHeight h).length = 8 := length_le 8 h

/-! ### the abstract store -/

/-- the height-indexed map the property speaks about.  `index x = some h`: the block last saved under
hash `x` was saved at height `h` and is still the block of that height (`h` was not saved again under
another hash since). -/
structure Abs where
  height : Nat
  blocks : Nat → Option Block
  index : Bytes → Option Nat
  state : Option Bytes
  metadata : String → Option Bytes

def Abs.init : Abs := ⟨0, fun _ => none, fun _ => none, none, fun _ => none⟩

def blockAt (kv : KV) (h : Nat) : Option Block :=
  match kv.get (headerKey h), kv.get (dataKey h), kv.get (signatureKey h) with
  | some a, some b, some c => some ⟨a, b, c⟩
  | _, _, _ => none

/-- abstraction map -/
def abs (kv : KV) : Abs where
  height := match height kv with
    | .ok h => h
    | .error _ => 0
  blocks := blockAt kv
  index := fun x => (kv.get (indexKey x)).bind decodeHeight
  state := kv.get stateKey
  metadata := fun k => if metaKeyOK k then kv.get (metaKey k) else none

/-- the mutating operations of the store, on stored bytes -/
inductive Op
  | setHeight (h : Nat)
  | save (h : Nat) (hash : Bytes) (b : Block)
  | updateState (blob : Bytes)
  | setMetadata (k : String) (v : Bytes)

/-- heights are `uint64`; metadata keys are those `path.Clean` leaves alone (all the node uses); a block
is saved under the hash of the header that is stored (`H` = hash of a stored header record:
`storedHeaderHash keyOk` in the typed operations, where this is the round trip of the wire codec, C12) -/
def Op.OK (H : Bytes → Option Bytes) : Op → Prop
  | .setHeight h => h < 2 ^ 64
  | .save h x b => h < 2 ^ 64 ∧ H b.header = some x
  | .updateState _ => True
  | .setMetadata k _ => metaKeyOK k = true

/-- what each operation means on the abstract store — what the property says: a save makes `b` the
block of height `h` and of hash `x`; every OTHER hash that led to height `h` leads nowhere any more -/
def Abs.step (a : Abs) : Op → Abs
  | .setHeight h => { a with height := if h ≤ a.height then a.height else h }
  | .save h x b =>
    { a with blocks := fun h' => if h' = h then some b else a.blocks h',
             index := fun x' => if x' = x then some h else if a.index x' = some h then none else a.index x' }
  | .updateState s => { a with state := some s }
  | .setMetadata k v => { a with metadata := fun k' => if k' = k then some v else a.metadata k' }

/-- the abstract store as `pkg/store` implemented it before /repo 34bccfd: a stale hash keeps leading to
the height (kept for the witness of the repaired defect) -/
def Abs.stepOld (a : Abs) : Op → Abs
  | .save h x b =>
    { a with blocks := fun h' => if h' = h then some b else a.blocks h',
             index := fun x' => if x' = x then some h else a.index x' }
  | op => a.step op

/-- the atomic writes the real operation issues in state `kv` -/
def writes (H : Bytes → Option Bytes) (kv : KV) : Op → List WriteSet
  | .setHeight h => setHeightW kv h
  | .save h x b => [saveBlobsWS H kv h x b]
  | .updateState s => [updateStateWS s]
  | .setMetadata k v => [setMetadataWS k v]

def step (H : Bytes → Option Bytes) (kv : KV) (op : Op) : KV := applyAll kv (writes H kv op)
def run (H : Bytes → Option Bytes) (kv : KV) (ops : List Op) : KV := ops.foldl (step H) kv
def Abs.run (a : Abs) (ops : List Op) : Abs := ops.foldl Abs.step a

/-- all atomic writes of a history, in order -/
def log (H : Bytes → Option Bytes) : KV → List Op → List WriteSet
  | _, [] => []
  | kv, op :: rest => writes H kv op ++ log H (step H kv op) rest

/-- what holds of every store reached from the empty one -/
structure Inv (H : Bytes → Option Bytes) (kv : KV) : Prop where
  height_ok : ∀ b, kv.get heightKey = some b → b.length = 8
  index_ok : ∀ x b, kv.get (indexKey x) = some b → b.length = 8
  coherent : ∀ h, ((kv.get (headerKey h)).isSome = (kv.get (dataKey h)).isSome) ∧
    ((kv.get (headerKey h)).isSome = (kv.get (signatureKey h)).isSome)
  /-- an index entry leads to a height whose stored header has that hash -/
  index_sound : ∀ x h, (kv.get (indexKey x)).bind decodeHeight = some h →
    ∃ hb, kv.get (headerKey h) = some hb ∧ H hb = some x

theorem inv_empty (H : Bytes → Option Bytes) : Inv H KV.empty := ⟨by simp, by simp, by simp, by simp⟩

theorem blockAt_empty : blockAt KV.empty = fun _ => none := by
  funext h; simp [blockAt]

theorem abs_empty : abs KV.empty = Abs.init := by
  simp [abs, Abs.init, height, blockAt_empty]

/-! ### what each operation does to every key -/

/-- the store after the delete of a block save, before its four puts -/
def pre (H : Bytes → Option Bytes) (kv : KV) (h : Nat) (x : Bytes) : KV := applyWS kv (staleIndexWS H kv h x)

theorem get_pre (H : Bytes → Option Bytes) (kv : KV) (h : Nat) (x : Bytes) (s : String) :
    (pre H kv h x).get s =
      match staleHash H kv h x with
      | some oh => if indexKey oh = s then none else kv.get s
      | none => kv.get s := by
  unfold pre staleIndexWS
  cases staleHash H kv h x <;> simp [applyW, KV.get_del]

/-- the delete touches index keys only -/
theorem get_pre_key (H : Bytes → Option Bytes) (kv : KV) (h : Nat) (x : Bytes) {k : Key} (hk : k.OK)
    (hne : ∀ y, k ≠ .index y) : (pre H kv h x).get k.str = kv.get k.str := by
  rw [get_pre]
  cases staleHash H kv h x with
  | none => rfl
  | some oh =>
    have : ¬ indexKey oh = k.str := by
      rw [indexKey_eq, Key.str_eq_iff (Key.ok_index oh) hk]; exact fun e => hne oh e.symm
    simp [this]

theorem get_pre_height (H : Bytes → Option Bytes) (kv : KV) (h : Nat) (x : Bytes) :
    (pre H kv h x).get heightKey = kv.get heightKey :=
  get_pre_key H kv h x (k := .height) trivial (fun _ => Key.noConfusion)
theorem get_pre_state (H : Bytes → Option Bytes) (kv : KV) (h : Nat) (x : Bytes) :
    (pre H kv h x).get stateKey = kv.get stateKey :=
  get_pre_key H kv h x (k := .state) trivial (fun _ => Key.noConfusion)
theorem get_pre_header (H : Bytes → Option Bytes) (kv : KV) (h : Nat) (x : Bytes) (h' : Nat) :
    (pre H kv h x).get (headerKey h') = kv.get (headerKey h') :=
  get_pre_key H kv h x (k := .header h') trivial (fun _ => Key.noConfusion)
theorem get_pre_data (H : Bytes → Option Bytes) (kv : KV) (h : Nat) (x : Bytes) (h' : Nat) :
    (pre H kv h x).get (dataKey h') = kv.get (dataKey h') :=
  get_pre_key H kv h x (k := .data h') trivial (fun _ => Key.noConfusion)
theorem get_pre_signature (H : Bytes → Option Bytes) (kv : KV) (h : Nat) (x : Bytes) (h' : Nat) :
    (pre H kv h x).get (signatureKey h') = kv.get (signatureKey h') :=
  get_pre_key H kv h x (k := .signature h') trivial (fun _ => Key.noConfusion)
theorem get_pre_meta (H : Bytes → Option Bytes) (kv : KV) (h : Nat) (x : Bytes) {k : String}
    (hk : metaKeyOK k = true) : (pre H kv h x).get (metaKey k) = kv.get (metaKey k) :=
  get_pre_key H kv h x (k := .metadata k) hk (fun _ => Key.noConfusion)

theorem get_save (H : Bytes → Option Bytes) (kv : KV) (h : Nat) (x : Bytes) (b : Block) (s : String) :
    (step H kv (.save h x b)).get s =
      if indexKey x = s then some (encodeHeight h)
      else if signatureKey h = s then some b.signature
      else if dataKey h = s then some b.data
      else if headerKey h = s then some b.header
      else (pre H kv h x).get s := by
  simp [step, writes, saveBlobsWS, savePutsWS, pre, applyWS_append, applyW, KV.get_put]

theorem get_updateState (H : Bytes → Option Bytes) (kv : KV) (blob : Bytes) (s : String) :
    (step H kv (.updateState blob)).get s = if stateKey = s then some blob else kv.get s := by
  simp [step, writes, updateStateWS, applyW, KV.get_put]

theorem get_setMetadata (H : Bytes → Option Bytes) (kv : KV) (k : String) (v : Bytes) (s : String) :
    (step H kv (.setMetadata k v)).get s = if metaKey k = s then some v else kv.get s := by
  simp [step, writes, setMetadataWS, applyW, KV.get_put]

def heightOf (kv : KV) : Nat :=
  match kv.get heightKey with
  | none => 0
  | some b => (decodeHeight b).getD 0

theorem abs_height (kv : KV) : (abs kv).height = heightOf kv := by
  unfold abs height heightOf
  cases kv.get heightKey with
  | none => rfl
  | some b => cases h : decodeHeight b <;> simp [h]

theorem height_of_inv {H : Bytes → Option Bytes} {kv : KV} (hi : Inv H kv) : height kv = .ok (heightOf kv) := by
  unfold height heightOf
  cases hg : kv.get heightKey with
  | none => simp
  | some b => simp [decodeHeight, hi.height_ok b hg]

theorem get_setHeight {H : Bytes → Option Bytes} {kv : KV} (hi : Inv H kv) (h : Nat) (s : String) :
    (step H kv (.setHeight h)).get s =
      if h ≤ heightOf kv then kv.get s
      else if heightKey = s then some (encodeHeight h) else kv.get s := by
  simp only [step, writes, setHeightW, setHeight, height_of_inv hi]
  by_cases hle : h ≤ heightOf kv <;> simp [hle, setHeightWS, applyW, KV.get_put]

theorem Abs.ext' {a b : Abs} (h1 : a.height = b.height) (h2 : ∀ h, a.blocks h = b.blocks h)
    (h3 : ∀ x, a.index x = b.index x) (h4 : a.state = b.state)
    (h5 : ∀ k, a.metadata k = b.metadata k) : a = b := by
  cases a; cases b
  simp only [Abs.mk.injEq]
  exact ⟨h1, funext h2, funext h3, h4, funext h5⟩

/-! ### the delete of a block save removes exactly the other hash that leads to the height -/

theorem index_eq_some {H : Bytes → Option Bytes} {kv : KV} (hi : Inv H kv) (x : Bytes) (h : Nat) :
    (abs kv).index x = some h ↔ indexPointsAt kv x h = true := by
  simp only [abs, indexPointsAt, getHeightByHash]
  cases h1 : kv.get (indexKey x) with
  | none => simp
  | some b => simp [decodeHeight, hi.index_ok x b h1]

/-- under the invariant, for a hash `x'` other than the one saved: `x'` leads to height `h` exactly when
it is the hash whose index entry the save deletes -/
theorem stale_iff {H : Bytes → Option Bytes} {kv : KV} (hi : Inv H kv) (h : Nat) {x x' : Bytes} (hne : x' ≠ x) :
    (abs kv).index x' = some h ↔ staleHash H kv h x = some x' := by
  constructor
  · intro hx
    obtain ⟨hb, hg, hh⟩ := hi.index_sound x' h hx
    have hp := (index_eq_some hi x' h).mp hx
    simp [staleHash, hg, hh, hne, hp]
  · intro hs
    unfold staleHash at hs
    cases hg : kv.get (headerKey h) with
    | none => simp [hg] at hs
    | some ob =>
      cases hh : H ob with
      | none => simp [hg, hh] at hs
      | some oh =>
        simp only [hg, hh] at hs
        split at hs
        · next hc =>
          cases hs
          exact (index_eq_some hi _ h).mpr hc.2
        · cases hs

/-- the index after a block save, for the hashes that were not saved -/
theorem index_pre {H : Bytes → Option Bytes} {kv : KV} (hi : Inv H kv) (h : Nat) {x x' : Bytes} (hne : x' ≠ x) :
    ((pre H kv h x).get (indexKey x')).bind decodeHeight =
      if (abs kv).index x' = some h then none else (abs kv).index x' := by
  rw [get_pre]
  cases hs : staleHash H kv h x with
  | none =>
    have : ¬ (abs kv).index x' = some h := fun c => by
      rw [stale_iff hi h hne, hs] at c; cases c
    simp only [this, if_false]; rfl
  | some oh =>
    by_cases e : oh = x'
    · subst e
      have : (abs kv).index oh = some h := (stale_iff hi h hne).mpr hs
      simp [this]
    · have e' : ¬ indexKey oh = indexKey x' := by
        rw [indexKey_eq, indexKey_eq, Key.str_eq_iff (Key.ok_index _) (Key.ok_index _)]
        intro c; cases c; exact e rfl
      have : ¬ (abs kv).index x' = some h := fun c => by
        rw [stale_iff hi h hne, hs] at c; cases c; exact e rfl
      simp only [e', this, if_false]; rfl

/-- **refinement, writes**: every operation commutes with the abstraction map -/
theorem abs_step {H : Bytes → Option Bytes} {kv : KV} (hi : Inv H kv) {op : Op} (hop : op.OK H) :
    abs (step H kv op) = (abs kv).step op := by
  cases op with
  | setHeight h =>
    have hh : h < 2 ^ 64 := hop
    apply Abs.ext'
    · simp only [Abs.step, abs_height]
      by_cases hle : h ≤ heightOf kv
      · simp only [hle, if_true]
        unfold heightOf
        simp only [get_setHeight hi, hle, if_true]
      · simp only [hle, if_false]
        unfold heightOf
        simp [get_setHeight hi, hle, decode_encodeHeight hh]
    · intro h'
      simp only [abs, Abs.step, blockAt, get_setHeight hi]
      by_cases hle : h ≤ heightOf kv <;>
        simp [hle, heightKey_eq, headerKey_eq, dataKey_eq, signatureKey_eq, Key.str_eq_iff]
    · intro x
      simp only [abs, Abs.step, get_setHeight hi]
      by_cases hle : h ≤ heightOf kv <;>
        simp [hle, heightKey_eq, indexKey_eq, Key.str_eq_iff]
    · simp only [abs, Abs.step, get_setHeight hi]
      by_cases hle : h ≤ heightOf kv <;>
        simp [hle, heightKey_eq, stateKey_eq, Key.str_eq_iff]
    · intro k
      simp only [abs, Abs.step, get_setHeight hi]
      by_cases hk : metaKeyOK k = true <;> by_cases hle : h ≤ heightOf kv <;>
        simp [hk, hle, heightKey_eq, metaKey_eq, Key.str_eq_iff]
  | save h x b =>
    have hh : h < 2 ^ 64 := hop.1
    apply Abs.ext'
    · simp only [Abs.step, abs_height, heightOf, get_save]
      simp [heightKey_eq, headerKey_eq, dataKey_eq, signatureKey_eq, indexKey_eq, Key.str_eq_iff]
      simp [← heightKey_eq, get_pre_height]
    · intro h'
      simp only [abs, Abs.step, blockAt, get_save]
      by_cases e : h' = h
      · subst e
        simp [headerKey_eq, dataKey_eq, signatureKey_eq, indexKey_eq, Key.str_eq_iff]
      · have e' : ¬ h = h' := fun c => e c.symm
        simp [e, e', headerKey_eq, dataKey_eq, signatureKey_eq, indexKey_eq, Key.str_eq_iff]
        simp [← headerKey_eq, ← dataKey_eq, ← signatureKey_eq, get_pre_header, get_pre_data, get_pre_signature]
    · intro x'
      by_cases e : x' = x
      · subst e; simp [abs, Abs.step, get_save, decode_encodeHeight hh]
      · have e' : ¬ x = x' := fun c => e c.symm
        have h1 : (abs (step H kv (.save h x b))).index x' =
            ((pre H kv h x).get (indexKey x')).bind decodeHeight := by
          simp only [abs, get_save]
          simp [e', headerKey_eq, dataKey_eq, signatureKey_eq, indexKey_eq, Key.str_eq_iff]
        rw [h1, index_pre hi h e]
        simp [Abs.step, e]
    · simp only [abs, Abs.step, get_save]
      simp [stateKey_eq, headerKey_eq, dataKey_eq, signatureKey_eq, indexKey_eq, Key.str_eq_iff]
      simp [← stateKey_eq, get_pre_state]
    · intro k
      simp only [abs, Abs.step, get_save]
      by_cases hk : metaKeyOK k = true
      · simp [hk, metaKey_eq, headerKey_eq, dataKey_eq, signatureKey_eq, indexKey_eq, Key.str_eq_iff]
        simp [← metaKey_eq, get_pre_meta, hk]
      · simp [hk]
  | updateState blob =>
    apply Abs.ext'
    · simp only [Abs.step, abs_height, heightOf, get_updateState]
      simp [heightKey_eq, stateKey_eq, Key.str_eq_iff]
    · intro h'
      simp only [abs, Abs.step, blockAt, get_updateState]
      simp [stateKey_eq, headerKey_eq, dataKey_eq, signatureKey_eq, Key.str_eq_iff]
    · intro x
      simp only [abs, Abs.step, get_updateState]
      simp [stateKey_eq, indexKey_eq, Key.str_eq_iff]
    · simp [abs, Abs.step, get_updateState]
    · intro k
      simp only [abs, Abs.step, get_updateState]
      by_cases hk : metaKeyOK k = true <;> simp [hk, stateKey_eq, metaKey_eq, Key.str_eq_iff]
  | setMetadata k v =>
    have hk : metaKeyOK k = true := hop
    apply Abs.ext'
    · simp only [Abs.step, abs_height, heightOf, get_setMetadata]
      simp [hk, heightKey_eq, metaKey_eq, Key.str_eq_iff]
    · intro h'
      simp only [abs, Abs.step, blockAt, get_setMetadata]
      simp [hk, metaKey_eq, headerKey_eq, dataKey_eq, signatureKey_eq, Key.str_eq_iff]
    · intro x
      simp only [abs, Abs.step, get_setMetadata]
      simp [hk, metaKey_eq, indexKey_eq, Key.str_eq_iff]
    · simp only [abs, Abs.step, get_setMetadata]
      simp [hk, metaKey_eq, stateKey_eq, Key.str_eq_iff]
    · intro k'
      simp only [abs, Abs.step, get_setMetadata]
      by_cases hk' : metaKeyOK k' = true
      · by_cases e : k' = k
        · subst e; simp [hk]
        · have e' : ¬ k = k' := fun c => e c.symm
          simp [hk, hk', e, e', metaKey_eq, Key.str_eq_iff]
      · have e : ¬ k' = k := fun c => hk' (c ▸ hk)
        simp [hk', e]

theorem abs_index (kv : KV) (x : Bytes) : (abs kv).index x = (kv.get (indexKey x)).bind decodeHeight := rfl

/-- the invariant is kept by every operation -/
theorem inv_step {H : Bytes → Option Bytes} {kv : KV} (hi : Inv H kv) {op : Op} (hop : op.OK H) :
    Inv H (step H kv op) := by
  have habs := abs_step hi hop
  cases op with
  | setHeight h =>
    by_cases hle : h ≤ heightOf kv
    · have : step H kv (.setHeight h) = kv := by
        simp [step, writes, setHeightW, setHeight, height_of_inv hi, hle]
      rw [this]; exact hi
    · refine ⟨?_, ?_, ?_, ?_⟩
      · intro b
        simp only [get_setHeight hi, hle, if_false, if_true]
        intro hb
        rw [← Option.some.inj hb]; exact encodeHeight_length h
      · intro x b
        simp only [get_setHeight hi, hle, if_false]
        simp only [heightKey_eq, indexKey_eq, Key.str_eq_iff, Key.ok_height, Key.ok_index, reduceCtorEq, if_false]
        exact hi.index_ok x b
      · intro h'
        simp only [get_setHeight hi, hle, if_false]
        simp only [heightKey_eq, headerKey_eq, dataKey_eq, signatureKey_eq, Key.str_eq_iff, Key.ok_height,
          Key.ok_header, Key.ok_data, Key.ok_signature, reduceCtorEq, if_false]
        exact hi.coherent h'
      · intro x h'
        simp only [get_setHeight hi, hle, if_false]
        simp only [heightKey_eq, headerKey_eq, indexKey_eq, Key.str_eq_iff, Key.ok_height,
          Key.ok_header, Key.ok_index, reduceCtorEq, if_false]
        exact hi.index_sound x h'
  | save h x b =>
    refine ⟨?_, ?_, ?_, ?_⟩
    · intro v
      simp only [get_save]
      simp [heightKey_eq, headerKey_eq, dataKey_eq, signatureKey_eq, indexKey_eq, Key.str_eq_iff]
      simp only [← heightKey_eq, get_pre_height]
      exact hi.height_ok v
    · intro x' v
      simp only [get_save]
      by_cases e : x = x'
      · subst e; simp
        intro hv; rw [← hv]; exact encodeHeight_length h
      · simp [e, headerKey_eq, dataKey_eq, signatureKey_eq, indexKey_eq, Key.str_eq_iff]
        simp only [← indexKey_eq, get_pre]
        cases staleHash H kv h x with
        | none => exact hi.index_ok x' v
        | some oh =>
          simp only
          split
          · intro c; cases c
          · exact hi.index_ok x' v
    · intro h'
      simp only [get_save]
      by_cases e : h = h'
      · subst e
        simp [headerKey_eq, dataKey_eq, signatureKey_eq, indexKey_eq, Key.str_eq_iff]
      · simp [e, headerKey_eq, dataKey_eq, signatureKey_eq, indexKey_eq, Key.str_eq_iff]
        simp only [← headerKey_eq, ← dataKey_eq, ← signatureKey_eq, get_pre_header, get_pre_data, get_pre_signature]
        exact hi.coherent h'
    · intro x' h' hx
      rw [← abs_index, habs] at hx
      have hhdr : ∀ h'', (step H kv (.save h x b)).get (headerKey h'') =
          if h'' = h then some b.header else kv.get (headerKey h'') := by
        intro h''
        simp only [get_save]
        by_cases e : h = h''
        · subst e
          simp [headerKey_eq, dataKey_eq, signatureKey_eq, indexKey_eq, Key.str_eq_iff]
        · have e' : ¬ h'' = h := fun c => e c.symm
          simp [e, e', headerKey_eq, dataKey_eq, signatureKey_eq, indexKey_eq, Key.str_eq_iff]
          simp only [← headerKey_eq, get_pre_header]
      rw [hhdr]
      simp only [Abs.step] at hx
      by_cases e : x' = x
      · subst e
        simp only [if_true, Option.some.injEq] at hx
        subst hx
        exact ⟨b.header, by simp, hop.2⟩
      · simp only [e, if_false] at hx
        split at hx
        · cases hx
        · next hne =>
          have hne' : ¬ h' = h := fun c => hne (c ▸ hx)
          simp only [hne', if_false]
          exact hi.index_sound x' h' hx
  | updateState blob =>
    refine ⟨?_, ?_, ?_, ?_⟩
    · intro v
      simp [get_updateState, heightKey_eq, stateKey_eq, Key.str_eq_iff]
      exact hi.height_ok v
    · intro x v
      simp [get_updateState, indexKey_eq, stateKey_eq, Key.str_eq_iff]
      exact hi.index_ok x v
    · intro h'
      simp [get_updateState, headerKey_eq, dataKey_eq, signatureKey_eq, stateKey_eq, Key.str_eq_iff]
      exact hi.coherent h'
    · intro x h'
      simp [get_updateState, headerKey_eq, indexKey_eq, stateKey_eq, Key.str_eq_iff]
      exact hi.index_sound x h'
  | setMetadata k v =>
    have hk : metaKeyOK k = true := hop
    refine ⟨?_, ?_, ?_, ?_⟩
    · intro v
      simp [get_setMetadata, heightKey_eq, metaKey_eq, Key.str_eq_iff, hk]
      exact hi.height_ok v
    · intro x v
      simp [get_setMetadata, indexKey_eq, metaKey_eq, Key.str_eq_iff, hk]
      exact hi.index_ok x v
    · intro h'
      simp [get_setMetadata, headerKey_eq, dataKey_eq, signatureKey_eq, metaKey_eq, Key.str_eq_iff, hk]
      exact hi.coherent h'
    · intro x h'
      simp [get_setMetadata, headerKey_eq, indexKey_eq, metaKey_eq, Key.str_eq_iff, hk]
      exact hi.index_sound x h'

/-! ### reads -/

deriving instance DecidableEq for Except

def Abs.getBlock (a : Abs) (h : Nat) : Except Err (Bytes × Bytes) :=
  match a.blocks h with
  | some b => .ok (b.header, b.data)
  | none => .error .notFound

def Abs.getSignature (a : Abs) (h : Nat) : Except Err Bytes :=
  match a.blocks h with
  | some b => .ok b.signature
  | none => .error .notFound

def Abs.getHeightByHash (a : Abs) (x : Bytes) : Except Err Nat :=
  match a.index x with
  | some h => .ok h
  | none => .error .notFound

def Abs.getBlockByHash (a : Abs) (x : Bytes) : Except Err (Bytes × Bytes) :=
  match a.index x with
  | some h => a.getBlock h
  | none => .error .notFound

def Abs.getSignatureByHash (a : Abs) (x : Bytes) : Except Err Bytes :=
  match a.index x with
  | some h => a.getSignature h
  | none => .error .notFound

def Abs.getState (a : Abs) : Except Err Bytes :=
  match a.state with
  | some s => .ok s
  | none => .error .notFound

def Abs.getMetadata (a : Abs) (k : String) : Except Err Bytes :=
  match a.metadata k with
  | some v => .ok v
  | none => .error .notFound

/-- `UnmarshalBinary` of a stored block -/
def decodeBlock (keyOk : Bytes → Bool) (hb db : Bytes) : Except Err (Wire.SignedHeader × Wire.Data) :=
  match Wire.SignedHeader.decode keyOk hb with
  | none => .error .corrupt
  | some sh =>
    match Wire.Data.decode db with
    | none => .error .corrupt
    | some d => .ok (sh, d)

def Abs.getBlockData (keyOk : Bytes → Bool) (a : Abs) (h : Nat) : Except Err (Wire.SignedHeader × Wire.Data) :=
  match a.blocks h with
  | some b => decodeBlock keyOk b.header b.data
  | none => .error .notFound

def Abs.getBlockDataByHash (keyOk : Bytes → Bool) (a : Abs) (x : Bytes) :
    Except Err (Wire.SignedHeader × Wire.Data) :=
  match a.index x with
  | some h => a.getBlockData keyOk h
  | none => .error .notFound

theorem read_height {H : Bytes → Option Bytes} {kv : KV} (hi : Inv H kv) : height kv = .ok (abs kv).height := by
  rw [abs_height]; exact height_of_inv hi

theorem read_block {H : Bytes → Option Bytes} {kv : KV} (hi : Inv H kv) (h : Nat) : getBlockBlobs kv h = (abs kv).getBlock h := by
  have hc := hi.coherent h
  simp only [getBlockBlobs, getHeaderBlob, getDataBlob, getOr, Abs.getBlock, abs, blockAt]
  cases h1 : kv.get (headerKey h) <;> cases h2 : kv.get (dataKey h) <;>
    cases h3 : kv.get (signatureKey h) <;> simp_all

theorem read_signature {H : Bytes → Option Bytes} {kv : KV} (hi : Inv H kv) (h : Nat) : getSignature kv h = (abs kv).getSignature h := by
  have hc := hi.coherent h
  simp only [getSignature, getOr, Abs.getSignature, abs, blockAt]
  cases h1 : kv.get (headerKey h) <;> cases h2 : kv.get (dataKey h) <;>
    cases h3 : kv.get (signatureKey h) <;> simp_all

theorem read_heightByHash {H : Bytes → Option Bytes} {kv : KV} (hi : Inv H kv) (x : Bytes) :
    getHeightByHash kv x = (abs kv).getHeightByHash x := by
  simp only [getHeightByHash, Abs.getHeightByHash, abs]
  cases h1 : kv.get (indexKey x) with
  | none => simp
  | some b => simp [decodeHeight, hi.index_ok x b h1]

theorem read_blockByHash {H : Bytes → Option Bytes} {kv : KV} (hi : Inv H kv) (x : Bytes) :
    getBlockBlobsByHash kv x = (abs kv).getBlockByHash x := by
  simp only [getBlockBlobsByHash, read_heightByHash hi, Abs.getHeightByHash, Abs.getBlockByHash]
  cases (abs kv).index x <;> simp [read_block hi]

theorem read_signatureByHash {H : Bytes → Option Bytes} {kv : KV} (hi : Inv H kv) (x : Bytes) :
    getSignatureByHash kv x = (abs kv).getSignatureByHash x := by
  simp only [getSignatureByHash, read_heightByHash hi, Abs.getHeightByHash, Abs.getSignatureByHash]
  cases (abs kv).index x <;> simp [read_signature hi]

theorem read_state (kv : KV) : getStateBlob kv = (abs kv).getState := by
  simp only [getStateBlob, getOr, Abs.getState, abs]
  cases kv.get stateKey <;> rfl

theorem read_metadata (kv : KV) {k : String} (hk : metaKeyOK k = true) :
    getMetadata kv k = (abs kv).getMetadata k := by
  simp only [getMetadata, getOr, Abs.getMetadata, abs, hk, if_true]
  cases kv.get (metaKey k) <;> rfl

theorem read_blockData {H : Bytes → Option Bytes} {kv : KV} (hi : Inv H kv) (keyOk : Bytes → Bool) (h : Nat) :
    getBlockData keyOk kv h = (abs kv).getBlockData keyOk h := by
  have hc := hi.coherent h
  simp only [getBlockData, getHeader, getHeaderBlob, getDataBlob, getOr, Abs.getBlockData, abs, blockAt,
    decodeBlock]
  cases h1 : kv.get (headerKey h) <;> cases h2 : kv.get (dataKey h) <;>
    cases h3 : kv.get (signatureKey h) <;> simp_all
  cases Wire.SignedHeader.decode keyOk _ with
  | none => rfl
  | some sh => cases Wire.Data.decode _ <;> rfl

theorem read_blockDataByHash {H : Bytes → Option Bytes} {kv : KV} (hi : Inv H kv) (keyOk : Bytes → Bool) (x : Bytes) :
    getBlockByHash keyOk kv x = (abs kv).getBlockDataByHash keyOk x := by
  simp only [getBlockByHash, read_heightByHash hi, Abs.getHeightByHash, Abs.getBlockDataByHash]
  cases (abs kv).index x <;> simp [read_blockData hi]

/-! ### histories -/

theorem run_cons (H : Bytes → Option Bytes) (kv : KV) (op : Op) (ops : List Op) :
    run H kv (op :: ops) = run H (step H kv op) ops := rfl
theorem Abs.run_cons (a : Abs) (op : Op) (ops : List Op) : a.run (op :: ops) = (a.step op).run ops := rfl

theorem refinement_from {H : Bytes → Option Bytes} {kv : KV} (hi : Inv H kv) (ops : List Op)
    (hops : ∀ op ∈ ops, op.OK H) :
    Inv H (run H kv ops) ∧ abs (run H kv ops) = (abs kv).run ops := by
  induction ops generalizing kv with
  | nil => exact ⟨hi, rfl⟩
  | cons op ops ih =>
    have hop := hops op (List.mem_cons_self ..)
    have := ih (inv_step hi hop) (fun o ho => hops o (List.mem_cons_of_mem _ ho))
    rw [run_cons, Abs.run_cons, ← abs_step hi hop]
    exact this

theorem height_mono_step {H : Bytes → Option Bytes} {kv : KV} (hi : Inv H kv) {op : Op} (hop : op.OK H) :
    (abs kv).height ≤ (abs (step H kv op)).height := by
  rw [abs_step hi hop]
  cases op <;> simp only [Abs.step] <;> try exact Nat.le_refl _
  split <;> omega

theorem height_mono_run {H : Bytes → Option Bytes} {kv : KV} (hi : Inv H kv) (ops : List Op)
    (hops : ∀ op ∈ ops, op.OK H) :
    (abs kv).height ≤ (abs (run H kv ops)).height := by
  induction ops generalizing kv with
  | nil => exact Nat.le_refl _
  | cons op ops ih =>
    have hop := hops op (List.mem_cons_self ..)
    exact Nat.le_trans (height_mono_step hi hop)
      (ih (inv_step hi hop) (fun o ho => hops o (List.mem_cons_of_mem _ ho)))

/-! ### crashes -/

theorem writes_length (H : Bytes → Option Bytes) (kv : KV) (op : Op) : (writes H kv op).length ≤ 1 := by
  cases op with
  | setHeight h =>
    simp only [writes, setHeightW, setHeight]
    cases height kv with
    | error e => simp
    | ok cur => by_cases hle : h ≤ cur <;> simp [hle]
  | _ => simp [writes]

/-- a crash inside an operation: nothing of it or all of it -/
theorem crash_in_op (H : Bytes → Option Bytes) (n : Nat) (kv : KV) (op : Op) :
    applyPrefix n (writes H kv op) kv = kv ∨ applyPrefix n (writes H kv op) kv = step H kv op := by
  have hl := writes_length H kv op
  unfold step
  match hw : writes H kv op with
  | [] => left; simp
  | [ws] => exact applyPrefix_single n ws kv
  | _ :: _ :: _ => rw [hw] at hl; simp at hl

theorem log_cons (H : Bytes → Option Bytes) (kv : KV) (op : Op) (ops : List Op) :
    log H kv (op :: ops) = writes H kv op ++ log H (step H kv op) ops := rfl

/-- a crash anywhere in a history leaves exactly the store some prefix of the history produced -/
theorem crash_is_prefix (H : Bytes → Option Bytes) (ops : List Op) (kv : KV) (n : Nat) :
    ∃ m, m ≤ ops.length ∧ applyPrefix n (log H kv ops) kv = run H kv (ops.take m) := by
  induction ops generalizing kv n with
  | nil => exact ⟨0, Nat.le_refl _, by simp [log, run]⟩
  | cons op ops ih =>
    rw [log_cons, applyPrefix_append]
    split
    · rcases crash_in_op H n kv op with h | h
      · exact ⟨0, Nat.zero_le _, by rw [h]; rfl⟩
      · exact ⟨1, by simp, by rw [h]; rfl⟩
    · obtain ⟨m, hm, he⟩ := ih (step H kv op) (n - (writes H kv op).length)
      refine ⟨m + 1, by simp; omega, ?_⟩
      have : applyAll kv (writes H kv op) = step H kv op := rfl
      rw [this, he]; rfl

/-! ### reading by hash: the abstract index is "the last save under that hash, if it still is the block
of its height" — for EVERY history (no "never saved again under another header" needed any more) -/

/-- ghost state: hash and block of the latest save at each height -/
def savedStep (g : Nat → Option (Bytes × Block)) : Op → Nat → Option (Bytes × Block)
  | .save h x b => fun h' => if h' = h then some (x, b) else g h'
  | _ => g

def lastSaved (ops : List Op) : Nat → Option (Bytes × Block) := ops.foldl savedStep (fun _ => none)

/-- ghost state: the height of the latest save under each hash -/
def underStep (u : Bytes → Option Nat) : Op → Bytes → Option Nat
  | .save h x _ => fun x' => if x' = x then some h else u x'
  | _ => u

def lastUnder (ops : List Op) : Bytes → Option Nat := ops.foldl underStep (fun _ => none)

/-- what the property says a read by hash returns, in terms of the history only: the block of the last
save under `x`, provided the latest save at that height is that save's hash -/
def byHashOf (g : Nat → Option (Bytes × Block)) (u : Bytes → Option Nat) (x : Bytes) : Option Nat :=
  (u x).bind fun h => if (g h).map (·.1) = some x then some h else none

/-- the abstract store against the two ghost maps -/
structure Ghost (a : Abs) (g : Nat → Option (Bytes × Block)) (u : Bytes → Option Nat) : Prop where
  blocks : ∀ h, a.blocks h = (g h).map (·.2)
  index : ∀ x, a.index x = byHashOf g u x

theorem ghost_init : Ghost Abs.init (fun _ => none) (fun _ => none) :=
  ⟨fun _ => rfl, fun _ => rfl⟩

theorem byHash_step_aux (g : Nat → Option (Bytes × Block)) (h0 : Nat) (x0 : Bytes) (b0 : Block) {x : Bytes}
    (e : ¬ x = x0) (o : Option Nat) :
    (if (o.bind fun h => if (g h).map (·.1) = some x then some h else none) = some h0 then none
      else o.bind fun h => if (g h).map (·.1) = some x then some h else none) =
    o.bind fun h => if ((if h = h0 then some (x0, b0) else g h).map (·.1)) = some x then some h else none := by
  have e' : ¬ x0 = x := fun c => e c.symm
  cases o with
  | none => simp
  | some h =>
    simp only [Option.bind_some]
    by_cases eh : h = h0
    · subst eh
      simp only [if_true, Option.map_some, Option.some.injEq, e', if_false]
      split <;> simp
    · simp only [eh, if_false]
      by_cases hc : (g h).map (·.1) = some x
      · simp [hc, eh]
      · simp [hc]

theorem ghost_step {a : Abs} {g : Nat → Option (Bytes × Block)} {u : Bytes → Option Nat} (hg : Ghost a g u)
    (op : Op) : Ghost (a.step op) (savedStep g op) (underStep u op) := by
  cases op with
  | save h0 x0 b0 =>
    refine ⟨?_, ?_⟩
    · intro h
      simp only [Abs.step, savedStep]
      by_cases e : h = h0
      · simp [e]
      · simp [e, hg.blocks h]
    · intro x
      simp only [Abs.step, savedStep, underStep, byHashOf]
      by_cases e : x = x0
      · subst e; simp
      · simp only [e, if_false]
        rw [hg.index x]
        exact byHash_step_aux g h0 x0 b0 e (u x)
  | setHeight _ => exact ⟨hg.blocks, hg.index⟩
  | updateState _ => exact ⟨hg.blocks, hg.index⟩
  | setMetadata _ _ => exact ⟨hg.blocks, hg.index⟩

theorem ghost_run_from {a : Abs} {g : Nat → Option (Bytes × Block)} {u : Bytes → Option Nat} (hg : Ghost a g u)
    (ops : List Op) : Ghost (a.run ops) (ops.foldl savedStep g) (ops.foldl underStep u) := by
  induction ops generalizing a g u with
  | nil => exact hg
  | cons op ops ih => exact ih (ghost_step hg op)

theorem ghost_run (ops : List Op) : Ghost (Abs.init.run ops) (lastSaved ops) (lastUnder ops) :=
  ghost_run_from ghost_init ops

end Store
