import Proofs.C14Keys

/-! Refinement of `pkg/store` (Model/Store.lean) to a height-indexed map: abstraction map,
invariant, commutation with every operation, reads, monotone height, atomicity under crash
prefixes.  The theorems quoted by `Spec/C14.lean`. -/
namespace Store

theorem Key.str_eq_iff {a b : Key} (ha : a.OK) (hb : b.OK) : a.str = b.str ↔ a = b :=
  ⟨Key.str_inj ha hb, fun h => h ▸ rfl⟩

theorem heightKey_eq : heightKey = Key.height.str := rfl
theorem stateKey_eq : stateKey = Key.state.str := rfl
theorem headerKey_eq (h : Nat) : headerKey h = (Key.header h).str := rfl
theorem dataKey_eq (h : Nat) : dataKey h = (Key.data h).str := rfl
theorem signatureKey_eq (h : Nat) : signatureKey h = (Key.signature h).str := rfl
theorem indexKey_eq (x : Bytes) : indexKey x = (Key.index x).str := rfl
theorem metaKey_eq (k : String) : metaKey k = (Key.metadata k).str := rfl

/-! ### height encoding -/

theorem length_le (n x : Nat) : (Bytes.le n x).length = n := by
  induction n generalizing x with
  | zero => rfl
  | succ n ih => simp [Bytes.le, ih]

theorem unLe_le (n x : Nat) : Bytes.unLe (Bytes.le n x) = x % 256 ^ n := by
  induction n generalizing x with
  | zero => simp [Bytes.le, Bytes.unLe, Nat.mod_one]
  | succ n ih =>
    simp only [Bytes.le, Bytes.unLe, ih, Nat.toUInt8]
    rw [Nat.pow_succ, Nat.mul_comm (256 ^ n) 256, Nat.mod_mul (a := 256) (b := 256 ^ n)]
    simp

theorem decode_encodeHeight {h : Nat} (hh : h < 2 ^ 64) : decodeHeight (encodeHeight h) = some h := by
  have : (256 : Nat) ^ 8 = 2 ^ 64 := by decide
  simp [decodeHeight, encodeHeight, length_le, unLe_le, this, Nat.mod_eq_of_lt hh]

theorem encodeHeight_length (h : Nat) : (encodeHeight h).length = 8 := length_le 8 h

/-! ### the abstract store -/

/-- the height-indexed map the property speaks about -/
structure Abs where
  height : Nat
  blocks : Nat → Option Block
  index : Bytes → Option Nat
  state : Option Bytes
  metadata : String → Option Bytes

def Abs.init : Abs := ⟨0, fun _ => none, fun _ => none, none, fun _ => none⟩

def blockAt (kv : KV) (h : Nat) : Option Block :=
  match kv.get (headerKey h), kv.get (dataKey h), kv.get (signatureKey h) with
  | some a, some b, some c => some ⟨a, b, c⟩
  | _, _, _ => none

/-- abstraction map -/
def abs (kv : KV) : Abs where
  height := match height kv with
    | .ok h => h
    | .error _ => 0
  blocks := blockAt kv
  index := fun x => (kv.get (indexKey x)).bind decodeHeight
  state := kv.get stateKey
  metadata := fun k => if metaKeyOK k then kv.get (metaKey k) else none

/-- the mutating operations of the store, on stored bytes -/
inductive Op
  | setHeight (h : Nat)
  | save (h : Nat) (hash : Bytes) (b : Block)
  | updateState (blob : Bytes)
  | setMetadata (k : String) (v : Bytes)

/-- heights are `uint64`; metadata keys are those `path.Clean` leaves alone (all the node uses) -/
def Op.OK : Op → Prop
  | .setHeight h => h < 2 ^ 64
  | .save h _ _ => h < 2 ^ 64
  | .updateState _ => True
  | .setMetadata k _ => metaKeyOK k = true

/-- what each operation means on the abstract store -/
def Abs.step (a : Abs) : Op → Abs
  | .setHeight h => { a with height := if h ≤ a.height then a.height else h }
  | .save h x b =>
    { a with blocks := fun h' => if h' = h then some b else a.blocks h',
             index := fun x' => if x' = x then some h else a.index x' }
  | .updateState s => { a with state := some s }
  | .setMetadata k v => { a with metadata := fun k' => if k' = k then some v else a.metadata k' }

/-- the atomic writes the real operation issues in state `kv` -/
def writes (kv : KV) : Op → List WriteSet
  | .setHeight h => setHeightW kv h
  | .save h x b => [saveBlobsWS h x b]
  | .updateState s => [updateStateWS s]
  | .setMetadata k v => [setMetadataWS k v]

def step (kv : KV) (op : Op) : KV := applyAll kv (writes kv op)
def run (kv : KV) (ops : List Op) : KV := ops.foldl step kv
def Abs.run (a : Abs) (ops : List Op) : Abs := ops.foldl Abs.step a

/-- all atomic writes of a history, in order -/
def log : KV → List Op → List WriteSet
  | _, [] => []
  | kv, op :: rest => writes kv op ++ log (step kv op) rest

/-- what holds of every store reached from the empty one -/
structure Inv (kv : KV) : Prop where
  height_ok : ∀ b, kv.get heightKey = some b → b.length = 8
  index_ok : ∀ x b, kv.get (indexKey x) = some b → b.length = 8
  coherent : ∀ h, ((kv.get (headerKey h)).isSome = (kv.get (dataKey h)).isSome) ∧
    ((kv.get (headerKey h)).isSome = (kv.get (signatureKey h)).isSome)

theorem inv_empty : Inv KV.empty := ⟨by simp, by simp, by simp⟩

theorem blockAt_empty : blockAt KV.empty = fun _ => none := by
  funext h; simp [blockAt]

theorem abs_empty : abs KV.empty = Abs.init := by
  simp [abs, Abs.init, height, blockAt_empty]

/-! ### what each operation does to every key -/

theorem get_save (kv : KV) (h : Nat) (x : Bytes) (b : Block) (s : String) :
    (step kv (.save h x b)).get s =
      if indexKey x = s then some (encodeHeight h)
      else if signatureKey h = s then some b.signature
      else if dataKey h = s then some b.data
      else if headerKey h = s then some b.header
      else kv.get s := by
  simp [step, writes, saveBlobsWS, applyW, KV.get_put]

theorem get_updateState (kv : KV) (blob : Bytes) (s : String) :
    (step kv (.updateState blob)).get s = if stateKey = s then some blob else kv.get s := by
  simp [step, writes, updateStateWS, applyW, KV.get_put]

theorem get_setMetadata (kv : KV) (k : String) (v : Bytes) (s : String) :
    (step kv (.setMetadata k v)).get s = if metaKey k = s then some v else kv.get s := by
  simp [step, writes, setMetadataWS, applyW, KV.get_put]

theorem height_of_inv {kv : KV} (hi : Inv kv) : height kv = .ok (abs kv).height := by
  unfold abs height
  cases hg : kv.get heightKey with
  | none => simp
  | some b => simp [decodeHeight, hi.height_ok b hg]

theorem get_setHeight {kv : KV} (hi : Inv kv) (h : Nat) (s : String) :
    (step kv (.setHeight h)).get s =
      if h ≤ (abs kv).height then kv.get s
      else if heightKey = s then some (encodeHeight h) else kv.get s := by
  simp only [step, writes, setHeightW, setHeight, height_of_inv hi]
  by_cases hle : h ≤ (abs kv).height <;> simp [hle, setHeightWS, applyW, KV.get_put]

end Store
