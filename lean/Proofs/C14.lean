import Proofs.C14Keys

/-! Refinement of `pkg/store` (Model/Store.lean) to a height-indexed map: abstraction map,
invariant, commutation with every operation, reads, monotone height, atomicity under crash
prefixes.  The theorems quoted by `Spec/C14.lean`. -/
namespace Store

theorem Key.str_eq_iff {a b : Key} (ha : a.OK) (hb : b.OK) : a.str = b.str ↔ a = b :=
  ⟨Key.str_inj ha hb, fun h => h ▸ rfl⟩

@[simp] theorem Key.ok_height : Key.height.OK := trivial
@[simp] theorem Key.ok_state : Key.state.OK := trivial
@[simp] theorem Key.ok_header (h : Nat) : (Key.header h).OK := trivial
@[simp] theorem Key.ok_data (h : Nat) : (Key.data h).OK := trivial
@[simp] theorem Key.ok_signature (h : Nat) : (Key.signature h).OK := trivial
@[simp] theorem Key.ok_index (x : Bytes) : (Key.index x).OK := trivial
@[simp] theorem Key.ok_metadata (k : String) : (Key.metadata k).OK ↔ metaKeyOK k = true := Iff.rfl

theorem heightKey_eq : heightKey = Key.height.str := rfl
theorem stateKey_eq : stateKey = Key.state.str := rfl
theorem headerKey_eq (h : Nat) : headerKey h = (Key.header h).str := rfl
theorem dataKey_eq (h : Nat) : dataKey h = (Key.data h).str := rfl
theorem signatureKey_eq (h : Nat) : signatureKey h = (Key.signature h).str := rfl
theorem indexKey_eq (x : Bytes) : indexKey x = (Key.index x).str := rfl
theorem metaKey_eq (k : String) : metaKey k = (Key.metadata k).str := rfl

/-! ### height encoding -/

theorem length_le (n x : Nat) : (Bytes.le n x).length = n := by
  induction n generalizing x with
  | zero => rfl
  | succ n ih => simp [Bytes.le, ih]

theorem unLe_le (n x : Nat) : Bytes.unLe (Bytes.le n x) = x % 256 ^ n := by
  induction n generalizing x with
  | zero => simp [Bytes.le, Bytes.unLe, Nat.mod_one]
  | succ n ih =>
    simp only [Bytes.le, Bytes.unLe, ih, Nat.toUInt8]
    rw [Nat.pow_succ, Nat.mul_comm (256 ^ n) 256, Nat.mod_mul (a := 256) (b := 256 ^ n)]
    simp

theorem decode_encodeHeight {h : Nat} (hh : h < 2 ^ 64) : decodeHeight (encodeHeight h) = some h := by
  have : (256 : Nat) ^ 8 = 2 ^ 64 := by decide
  simp [decodeHeight, encodeHeight, length_le, unLe_le, this, Nat.mod_eq_of_lt hh]

theorem encodeHeight_length (h : Nat) : (encodeHeight h).length = 8 := length_le 8 h

/-! ### the abstract store -/

/-- the height-indexed map the property speaks about -/
structure Abs where
  height : Nat
  blocks : Nat → Option Block
  index : Bytes → Option Nat
  state : Option Bytes
  metadata : String → Option Bytes

def Abs.init : Abs := ⟨0, fun _ => none, fun _ => none, none, fun _ => none⟩

def blockAt (kv : KV) (h : Nat) : Option Block :=
  match kv.get (headerKey h), kv.get (dataKey h), kv.get (signatureKey h) with
  | some a, some b, some c => some ⟨a, b, c⟩
  | _, _, _ => none

/-- abstraction map -/
def abs (kv : KV) : Abs where
  height := match height kv with
    | .ok h => h
    | .error _ => 0
  blocks := blockAt kv
  index := fun x => (kv.get (indexKey x)).bind decodeHeight
  state := kv.get stateKey
  metadata := fun k => if metaKeyOK k then kv.get (metaKey k) else none

/-- the mutating operations of the store, on stored bytes -/
inductive Op
  | setHeight (h : Nat)
  | save (h : Nat) (hash : Bytes) (b : Block)
  | updateState (blob : Bytes)
  | setMetadata (k : String) (v : Bytes)

/-- heights are `uint64`; metadata keys are those `path.Clean` leaves alone (all the node uses) -/
def Op.OK : Op → Prop
  | .setHeight h => h < 2 ^ 64
  | .save h _ _ => h < 2 ^ 64
  | .updateState _ => True
  | .setMetadata k _ => metaKeyOK k = true

/-- what each operation means on the abstract store -/
def Abs.step (a : Abs) : Op → Abs
  | .setHeight h => { a with height := if h ≤ a.height then a.height else h }
  | .save h x b =>
    { a with blocks := fun h' => if h' = h then some b else a.blocks h',
             index := fun x' => if x' = x then some h else a.index x' }
  | .updateState s => { a with state := some s }
  | .setMetadata k v => { a with metadata := fun k' => if k' = k then some v else a.metadata k' }

/-- the atomic writes the real operation issues in state `kv` -/
def writes (kv : KV) : Op → List WriteSet
  | .setHeight h => setHeightW kv h
  | .save h x b => [saveBlobsWS h x b]
  | .updateState s => [updateStateWS s]
  | .setMetadata k v => [setMetadataWS k v]

def step (kv : KV) (op : Op) : KV := applyAll kv (writes kv op)
def run (kv : KV) (ops : List Op) : KV := ops.foldl step kv
def Abs.run (a : Abs) (ops : List Op) : Abs := ops.foldl Abs.step a

/-- all atomic writes of a history, in order -/
def log : KV → List Op → List WriteSet
  | _, [] => []
  | kv, op :: rest => writes kv op ++ log (step kv op) rest

/-- what holds of every store reached from the empty one -/
structure Inv (kv : KV) : Prop where
  height_ok : ∀ b, kv.get heightKey = some b → b.length = 8
  index_ok : ∀ x b, kv.get (indexKey x) = some b → b.length = 8
  coherent : ∀ h, ((kv.get (headerKey h)).isSome = (kv.get (dataKey h)).isSome) ∧
    ((kv.get (headerKey h)).isSome = (kv.get (signatureKey h)).isSome)

theorem inv_empty : Inv KV.empty := ⟨by simp, by simp, by simp⟩

theorem blockAt_empty : blockAt KV.empty = fun _ => none := by
  funext h; simp [blockAt]

theorem abs_empty : abs KV.empty = Abs.init := by
  simp [abs, Abs.init, height, blockAt_empty]

/-! ### what each operation does to every key -/

theorem get_save (kv : KV) (h : Nat) (x : Bytes) (b : Block) (s : String) :
    (step kv (.save h x b)).get s =
      if indexKey x = s then some (encodeHeight h)
      else if signatureKey h = s then some b.signature
      else if dataKey h = s then some b.data
      else if headerKey h = s then some b.header
      else kv.get s := by
  simp [step, writes, saveBlobsWS, applyW, KV.get_put]

theorem get_updateState (kv : KV) (blob : Bytes) (s : String) :
    (step kv (.updateState blob)).get s = if stateKey = s then some blob else kv.get s := by
  simp [step, writes, updateStateWS, applyW, KV.get_put]

theorem get_setMetadata (kv : KV) (k : String) (v : Bytes) (s : String) :
    (step kv (.setMetadata k v)).get s = if metaKey k = s then some v else kv.get s := by
  simp [step, writes, setMetadataWS, applyW, KV.get_put]

def heightOf (kv : KV) : Nat :=
  match kv.get heightKey with
  | none => 0
  | some b => (decodeHeight b).getD 0

theorem abs_height (kv : KV) : (abs kv).height = heightOf kv := by
  unfold abs height heightOf
  cases kv.get heightKey with
  | none => rfl
  | some b => cases h : decodeHeight b <;> simp [h]

theorem height_of_inv {kv : KV} (hi : Inv kv) : height kv = .ok (heightOf kv) := by
  unfold height heightOf
  cases hg : kv.get heightKey with
  | none => simp
  | some b => simp [decodeHeight, hi.height_ok b hg]

theorem get_setHeight {kv : KV} (hi : Inv kv) (h : Nat) (s : String) :
    (step kv (.setHeight h)).get s =
      if h ≤ heightOf kv then kv.get s
      else if heightKey = s then some (encodeHeight h) else kv.get s := by
  simp only [step, writes, setHeightW, setHeight, height_of_inv hi]
  by_cases hle : h ≤ heightOf kv <;> simp [hle, setHeightWS, applyW, KV.get_put]

theorem Abs.ext' {a b : Abs} (h1 : a.height = b.height) (h2 : ∀ h, a.blocks h = b.blocks h)
    (h3 : ∀ x, a.index x = b.index x) (h4 : a.state = b.state)
    (h5 : ∀ k, a.metadata k = b.metadata k) : a = b := by
  cases a; cases b
  simp only [Abs.mk.injEq]
  exact ⟨h1, funext h2, funext h3, h4, funext h5⟩

/-- **refinement, writes**: every operation commutes with the abstraction map -/
theorem abs_step {kv : KV} (hi : Inv kv) {op : Op} (hop : op.OK) :
    abs (step kv op) = (abs kv).step op := by
  cases op with
  | setHeight h =>
    have hh : h < 2 ^ 64 := hop
    apply Abs.ext'
    · simp only [Abs.step, abs_height]
      by_cases hle : h ≤ heightOf kv
      · simp only [hle, if_true]
        unfold heightOf
        simp only [get_setHeight hi, hle, if_true]
      · simp only [hle, if_false]
        unfold heightOf
        simp [get_setHeight hi, hle, decode_encodeHeight hh]
    · intro h'
      simp only [abs, Abs.step, blockAt, get_setHeight hi]
      by_cases hle : h ≤ heightOf kv <;>
        simp [hle, heightKey_eq, headerKey_eq, dataKey_eq, signatureKey_eq, Key.str_eq_iff]
    · intro x
      simp only [abs, Abs.step, get_setHeight hi]
      by_cases hle : h ≤ heightOf kv <;>
        simp [hle, heightKey_eq, indexKey_eq, Key.str_eq_iff]
    · simp only [abs, Abs.step, get_setHeight hi]
      by_cases hle : h ≤ heightOf kv <;>
        simp [hle, heightKey_eq, stateKey_eq, Key.str_eq_iff]
    · intro k
      simp only [abs, Abs.step, get_setHeight hi]
      by_cases hk : metaKeyOK k = true <;> by_cases hle : h ≤ heightOf kv <;>
        simp [hk, hle, heightKey_eq, metaKey_eq, Key.str_eq_iff]
  | save h x b =>
    have hh : h < 2 ^ 64 := hop
    apply Abs.ext'
    · simp only [Abs.step, abs_height, heightOf, get_save]
      simp [heightKey_eq, headerKey_eq, dataKey_eq, signatureKey_eq, indexKey_eq, Key.str_eq_iff]
    · intro h'
      simp only [abs, Abs.step, blockAt, get_save]
      by_cases e : h' = h
      · subst e
        simp [headerKey_eq, dataKey_eq, signatureKey_eq, indexKey_eq, Key.str_eq_iff]
      · have e' : ¬ h = h' := fun c => e c.symm
        simp [e, e', headerKey_eq, dataKey_eq, signatureKey_eq, indexKey_eq, Key.str_eq_iff]
    · intro x'
      simp only [abs, Abs.step, get_save]
      by_cases e : x' = x
      · subst e; simp [decode_encodeHeight hh]
      · have e' : ¬ x = x' := fun c => e c.symm
        simp [e, e', headerKey_eq, dataKey_eq, signatureKey_eq, indexKey_eq, Key.str_eq_iff]
    · simp only [abs, Abs.step, get_save]
      simp [stateKey_eq, headerKey_eq, dataKey_eq, signatureKey_eq, indexKey_eq, Key.str_eq_iff]
    · intro k
      simp only [abs, Abs.step, get_save]
      by_cases hk : metaKeyOK k = true <;>
        simp [hk, metaKey_eq, headerKey_eq, dataKey_eq, signatureKey_eq, indexKey_eq, Key.str_eq_iff]
  | updateState blob =>
    apply Abs.ext'
    · simp only [Abs.step, abs_height, heightOf, get_updateState]
      simp [heightKey_eq, stateKey_eq, Key.str_eq_iff]
    · intro h'
      simp only [abs, Abs.step, blockAt, get_updateState]
      simp [stateKey_eq, headerKey_eq, dataKey_eq, signatureKey_eq, Key.str_eq_iff]
    · intro x
      simp only [abs, Abs.step, get_updateState]
      simp [stateKey_eq, indexKey_eq, Key.str_eq_iff]
    · simp [abs, Abs.step, get_updateState]
    · intro k
      simp only [abs, Abs.step, get_updateState]
      by_cases hk : metaKeyOK k = true <;> simp [hk, stateKey_eq, metaKey_eq, Key.str_eq_iff]
  | setMetadata k v =>
    have hk : metaKeyOK k = true := hop
    apply Abs.ext'
    · simp only [Abs.step, abs_height, heightOf, get_setMetadata]
      simp [hk, heightKey_eq, metaKey_eq, Key.str_eq_iff]
    · intro h'
      simp only [abs, Abs.step, blockAt, get_setMetadata]
      simp [hk, metaKey_eq, headerKey_eq, dataKey_eq, signatureKey_eq, Key.str_eq_iff]
    · intro x
      simp only [abs, Abs.step, get_setMetadata]
      simp [hk, metaKey_eq, indexKey_eq, Key.str_eq_iff]
    · simp only [abs, Abs.step, get_setMetadata]
      simp [hk, metaKey_eq, stateKey_eq, Key.str_eq_iff]
    · intro k'
      simp only [abs, Abs.step, get_setMetadata]
      by_cases hk' : metaKeyOK k' = true
      · by_cases e : k' = k
        · subst e; simp [hk]
        · have e' : ¬ k = k' := fun c => e c.symm
          simp [hk, hk', e, e', metaKey_eq, Key.str_eq_iff]
      · have e : ¬ k' = k := fun c => hk' (c ▸ hk)
        simp [hk', e]

/-- the invariant is kept by every operation -/
theorem inv_step {kv : KV} (hi : Inv kv) {op : Op} (hop : op.OK) : Inv (step kv op) := by
  cases op with
  | setHeight h =>
    by_cases hle : h ≤ heightOf kv
    · have : step kv (.setHeight h) = kv := by
        simp [step, writes, setHeightW, setHeight, height_of_inv hi, hle]
      rw [this]; exact hi
    · refine ⟨?_, ?_, ?_⟩
      · intro b
        simp only [get_setHeight hi, hle, if_false, if_true]
        intro hb
        rw [← Option.some.inj hb]; exact encodeHeight_length h
      · intro x b
        simp only [get_setHeight hi, hle, if_false]
        simp only [heightKey_eq, indexKey_eq, Key.str_eq_iff, Key.ok_height, Key.ok_index, reduceCtorEq, if_false]
        exact hi.index_ok x b
      · intro h'
        simp only [get_setHeight hi, hle, if_false]
        simp only [heightKey_eq, headerKey_eq, dataKey_eq, signatureKey_eq, Key.str_eq_iff, Key.ok_height,
          Key.ok_header, Key.ok_data, Key.ok_signature, reduceCtorEq, if_false]
        exact hi.coherent h'
  | save h x b =>
    refine ⟨?_, ?_, ?_⟩
    · intro v
      simp only [get_save]
      simp [heightKey_eq, headerKey_eq, dataKey_eq, signatureKey_eq, indexKey_eq, Key.str_eq_iff]
      exact hi.height_ok v
    · intro x' v
      simp only [get_save]
      by_cases e : x = x'
      · subst e; simp
        intro hv; rw [← hv]; exact encodeHeight_length h
      · simp [e, headerKey_eq, dataKey_eq, signatureKey_eq, indexKey_eq, Key.str_eq_iff]
        exact hi.index_ok x' v
    · intro h'
      simp only [get_save]
      by_cases e : h = h'
      · subst e
        simp [headerKey_eq, dataKey_eq, signatureKey_eq, indexKey_eq, Key.str_eq_iff]
      · simp [e, headerKey_eq, dataKey_eq, signatureKey_eq, indexKey_eq, Key.str_eq_iff]
        exact hi.coherent h'
  | updateState blob =>
    refine ⟨?_, ?_, ?_⟩
    · intro v
      simp [get_updateState, heightKey_eq, stateKey_eq, Key.str_eq_iff]
      exact hi.height_ok v
    · intro x v
      simp [get_updateState, indexKey_eq, stateKey_eq, Key.str_eq_iff]
      exact hi.index_ok x v
    · intro h'
      simp [get_updateState, headerKey_eq, dataKey_eq, signatureKey_eq, stateKey_eq, Key.str_eq_iff]
      exact hi.coherent h'
  | setMetadata k v =>
    have hk : metaKeyOK k = true := hop
    refine ⟨?_, ?_, ?_⟩
    · intro v
      simp [get_setMetadata, heightKey_eq, metaKey_eq, Key.str_eq_iff, hk]
      exact hi.height_ok v
    · intro x v
      simp [get_setMetadata, indexKey_eq, metaKey_eq, Key.str_eq_iff, hk]
      exact hi.index_ok x v
    · intro h'
      simp [get_setMetadata, headerKey_eq, dataKey_eq, signatureKey_eq, metaKey_eq, Key.str_eq_iff, hk]
      exact hi.coherent h'

/-! ### reads -/

deriving instance DecidableEq for Except

def Abs.getBlock (a : Abs) (h : Nat) : Except Err (Bytes × Bytes) :=
  match a.blocks h with
  | some b => .ok (b.header, b.data)
  | none => .error .notFound

def Abs.getSignature (a : Abs) (h : Nat) : Except Err Bytes :=
  match a.blocks h with
  | some b => .ok b.signature
  | none => .error .notFound

def Abs.getHeightByHash (a : Abs) (x : Bytes) : Except Err Nat :=
  match a.index x with
  | some h => .ok h
  | none => .error .notFound

def Abs.getBlockByHash (a : Abs) (x : Bytes) : Except Err (Bytes × Bytes) :=
  match a.index x with
  | some h => a.getBlock h
  | none => .error .notFound

def Abs.getSignatureByHash (a : Abs) (x : Bytes) : Except Err Bytes :=
  match a.index x with
  | some h => a.getSignature h
  | none => .error .notFound

def Abs.getState (a : Abs) : Except Err Bytes :=
  match a.state with
  | some s => .ok s
  | none => .error .notFound

def Abs.getMetadata (a : Abs) (k : String) : Except Err Bytes :=
  match a.metadata k with
  | some v => .ok v
  | none => .error .notFound

/-- `UnmarshalBinary` of a stored block -/
def decodeBlock (keyOk : Bytes → Bool) (hb db : Bytes) : Except Err (Wire.SignedHeader × Wire.Data) :=
  match Wire.SignedHeader.decode keyOk hb with
  | none => .error .corrupt
  | some sh =>
    match Wire.Data.decode db with
    | none => .error .corrupt
    | some d => .ok (sh, d)

def Abs.getBlockData (keyOk : Bytes → Bool) (a : Abs) (h : Nat) : Except Err (Wire.SignedHeader × Wire.Data) :=
  match a.blocks h with
  | some b => decodeBlock keyOk b.header b.data
  | none => .error .notFound

def Abs.getBlockDataByHash (keyOk : Bytes → Bool) (a : Abs) (x : Bytes) :
    Except Err (Wire.SignedHeader × Wire.Data) :=
  match a.index x with
  | some h => a.getBlockData keyOk h
  | none => .error .notFound

theorem read_height {kv : KV} (hi : Inv kv) : height kv = .ok (abs kv).height := by
  rw [abs_height]; exact height_of_inv hi

theorem read_block {kv : KV} (hi : Inv kv) (h : Nat) : getBlockBlobs kv h = (abs kv).getBlock h := by
  have hc := hi.coherent h
  simp only [getBlockBlobs, getHeaderBlob, getDataBlob, getOr, Abs.getBlock, abs, blockAt]
  cases h1 : kv.get (headerKey h) <;> cases h2 : kv.get (dataKey h) <;>
    cases h3 : kv.get (signatureKey h) <;> simp_all

theorem read_signature {kv : KV} (hi : Inv kv) (h : Nat) : getSignature kv h = (abs kv).getSignature h := by
  have hc := hi.coherent h
  simp only [getSignature, getOr, Abs.getSignature, abs, blockAt]
  cases h1 : kv.get (headerKey h) <;> cases h2 : kv.get (dataKey h) <;>
    cases h3 : kv.get (signatureKey h) <;> simp_all

theorem read_heightByHash {kv : KV} (hi : Inv kv) (x : Bytes) :
    getHeightByHash kv x = (abs kv).getHeightByHash x := by
  simp only [getHeightByHash, Abs.getHeightByHash, abs]
  cases h1 : kv.get (indexKey x) with
  | none => simp
  | some b => simp [decodeHeight, hi.index_ok x b h1]

theorem read_blockByHash {kv : KV} (hi : Inv kv) (x : Bytes) :
    getBlockBlobsByHash kv x = (abs kv).getBlockByHash x := by
  simp only [getBlockBlobsByHash, read_heightByHash hi, Abs.getHeightByHash, Abs.getBlockByHash]
  cases (abs kv).index x <;> simp [read_block hi]

theorem read_signatureByHash {kv : KV} (hi : Inv kv) (x : Bytes) :
    getSignatureByHash kv x = (abs kv).getSignatureByHash x := by
  simp only [getSignatureByHash, read_heightByHash hi, Abs.getHeightByHash, Abs.getSignatureByHash]
  cases (abs kv).index x <;> simp [read_signature hi]

theorem read_state (kv : KV) : getStateBlob kv = (abs kv).getState := by
  simp only [getStateBlob, getOr, Abs.getState, abs]
  cases kv.get stateKey <;> rfl

theorem read_metadata (kv : KV) {k : String} (hk : metaKeyOK k = true) :
    getMetadata kv k = (abs kv).getMetadata k := by
  simp only [getMetadata, getOr, Abs.getMetadata, abs, hk, if_true]
  cases kv.get (metaKey k) <;> rfl

theorem read_blockData {kv : KV} (hi : Inv kv) (keyOk : Bytes → Bool) (h : Nat) :
    getBlockData keyOk kv h = (abs kv).getBlockData keyOk h := by
  have hc := hi.coherent h
  simp only [getBlockData, getHeader, getHeaderBlob, getDataBlob, getOr, Abs.getBlockData, abs, blockAt,
    decodeBlock]
  cases h1 : kv.get (headerKey h) <;> cases h2 : kv.get (dataKey h) <;>
    cases h3 : kv.get (signatureKey h) <;> simp_all
  cases Wire.SignedHeader.decode keyOk _ with
  | none => rfl
  | some sh => cases Wire.Data.decode _ <;> rfl

theorem read_blockDataByHash {kv : KV} (hi : Inv kv) (keyOk : Bytes → Bool) (x : Bytes) :
    getBlockByHash keyOk kv x = (abs kv).getBlockDataByHash keyOk x := by
  simp only [getBlockByHash, read_heightByHash hi, Abs.getHeightByHash, Abs.getBlockDataByHash]
  cases (abs kv).index x <;> simp [read_blockData hi]

/-! ### histories -/

theorem run_cons (kv : KV) (op : Op) (ops : List Op) : run kv (op :: ops) = run (step kv op) ops := rfl
theorem Abs.run_cons (a : Abs) (op : Op) (ops : List Op) : a.run (op :: ops) = (a.step op).run ops := rfl

theorem refinement_from {kv : KV} (hi : Inv kv) (ops : List Op) (hops : ∀ op ∈ ops, op.OK) :
    Inv (run kv ops) ∧ abs (run kv ops) = (abs kv).run ops := by
  induction ops generalizing kv with
  | nil => exact ⟨hi, rfl⟩
  | cons op ops ih =>
    have hop := hops op (List.mem_cons_self ..)
    have := ih (inv_step hi hop) (fun o ho => hops o (List.mem_cons_of_mem _ ho))
    rw [run_cons, Abs.run_cons, ← abs_step hi hop]
    exact this

theorem height_mono_step {kv : KV} (hi : Inv kv) {op : Op} (hop : op.OK) :
    (abs kv).height ≤ (abs (step kv op)).height := by
  rw [abs_step hi hop]
  cases op <;> simp only [Abs.step] <;> try exact Nat.le_refl _
  split <;> omega

theorem height_mono_run {kv : KV} (hi : Inv kv) (ops : List Op) (hops : ∀ op ∈ ops, op.OK) :
    (abs kv).height ≤ (abs (run kv ops)).height := by
  induction ops generalizing kv with
  | nil => exact Nat.le_refl _
  | cons op ops ih =>
    have hop := hops op (List.mem_cons_self ..)
    exact Nat.le_trans (height_mono_step hi hop)
      (ih (inv_step hi hop) (fun o ho => hops o (List.mem_cons_of_mem _ ho)))

/-! ### crashes -/

theorem writes_length (kv : KV) (op : Op) : (writes kv op).length ≤ 1 := by
  cases op with
  | setHeight h =>
    simp only [writes, setHeightW, setHeight]
    cases height kv with
    | error e => simp
    | ok cur => by_cases hle : h ≤ cur <;> simp [hle]
  | _ => simp [writes]

/-- a crash inside an operation: nothing of it or all of it -/
theorem crash_in_op (n : Nat) (kv : KV) (op : Op) :
    applyPrefix n (writes kv op) kv = kv ∨ applyPrefix n (writes kv op) kv = step kv op := by
  have hl := writes_length kv op
  unfold step
  match hw : writes kv op with
  | [] => left; simp
  | [ws] => exact applyPrefix_single n ws kv
  | _ :: _ :: _ => rw [hw] at hl; simp at hl

theorem log_cons (kv : KV) (op : Op) (ops : List Op) :
    log kv (op :: ops) = writes kv op ++ log (step kv op) ops := rfl

/-- a crash anywhere in a history leaves exactly the store some prefix of the history produced -/
theorem crash_is_prefix (ops : List Op) (kv : KV) (n : Nat) :
    ∃ m, m ≤ ops.length ∧ applyPrefix n (log kv ops) kv = run kv (ops.take m) := by
  induction ops generalizing kv n with
  | nil => exact ⟨0, Nat.le_refl _, by simp [log, run]⟩
  | cons op ops ih =>
    rw [log_cons, applyPrefix_append]
    split
    · rcases crash_in_op n kv op with h | h
      · exact ⟨0, Nat.zero_le _, by rw [h]; rfl⟩
      · exact ⟨1, by simp, by rw [h]; rfl⟩
    · obtain ⟨m, hm, he⟩ := ih (step kv op) (n - (writes kv op).length)
      refine ⟨m + 1, by simp; omega, ?_⟩
      have : applyAll kv (writes kv op) = step kv op := rfl
      rw [this, he]; rfl

/-! ### reading by hash when no height is saved again under another header -/

/-- ghost state: hash and block of the latest save at each height -/
def savedStep (g : Nat → Option (Bytes × Block)) : Op → Nat → Option (Bytes × Block)
  | .save h x b => fun h' => if h' = h then some (x, b) else g h'
  | _ => g

def lastSaved (ops : List Op) : Nat → Option (Bytes × Block) := ops.foldl savedStep (fun _ => none)

/-- no height is saved again with a header of another hash -/
def NoResave (g : Nat → Option (Bytes × Block)) : List Op → Prop
  | [] => True
  | op :: rest =>
    (match op with
     | .save h x _ => ∀ y b, g h = some (y, b) → y = x
     | _ => True) ∧ NoResave (savedStep g op) rest

theorem index_sound_run (ops : List Op) (a : Abs) (g : Nat → Option (Bytes × Block))
    (hag : ∀ x h, a.index x = some h → ∃ b, g h = some (x, b) ∧ a.blocks h = some b)
    (hn : NoResave g ops) :
    ∀ x h, (a.run ops).index x = some h →
      ∃ b, (ops.foldl savedStep g) h = some (x, b) ∧ (a.run ops).blocks h = some b := by
  induction ops generalizing a g with
  | nil => exact hag
  | cons op ops ih =>
    rw [Abs.run_cons, List.foldl_cons]
    apply ih _ _ _ hn.2
    intro x h
    cases op with
    | save h0 x0 b0 =>
      simp only [Abs.step, savedStep]
      by_cases ex : x = x0
      · subst ex
        simp only [if_true]
        intro hh; cases hh
        exact ⟨b0, by simp⟩
      · simp only [ex, if_false]
        intro hix
        obtain ⟨b, hg, hb⟩ := hag x h hix
        by_cases eh : h = h0
        · subst eh
          exact absurd (hn.1 x b hg) ex
        · exact ⟨b, by simp [eh, hg], by simp [eh, hb]⟩
    | setHeight _ => exact hag x h
    | updateState _ => exact hag x h
    | setMetadata _ _ => exact hag x h

end Store
