import Proofs.FNodeDA

/-!
# The store of a syncing node is exactly its durable writes applied, in order

`(onHeader n sh).1.store = n.store.applyAll (onHeader n sh).2` and the same for `onData`, for the events of a whole
scan (`FullNode.feed`) and for start-up.  Needed to speak about crash images of a *run* (many events) and about the
state a crash image holds.
-/
namespace Sync
open Wire Chain

theorem applyAll_append (s : Store) (a b : List SW) : s.applyAll (a ++ b) = (s.applyAll a).applyAll b := by
  simp [Store.applyAll, List.foldl_append]

theorem applyAll_nil (s : Store) : s.applyAll [] = s := rfl

theorem applyBlock_store {n n' : FNode} {sh : SHeader} {d : Data} {ws : List SW} {cont : Bool}
    (h : applyBlock n sh d .ok = (n', ws, cont)) : n'.store = n.store.applyAll ws := by
  simp only [applyBlock, Prod.mk.injEq] at h
  obtain ⟨rfl, rfl, _⟩ := h
  simp only [applyAll_append]
  rfl

theorem dropMismatch_store {n n' : FNode} {sh : SHeader} {ws : List SW} {cont : Bool}
    (h : dropMismatch n sh .ok = (n', ws, cont)) : n'.store = n.store.applyAll ws := by
  unfold dropMismatch at h
  simp only at h
  split at h
  · simp only [Prod.mk.injEq] at h
    obtain ⟨rfl, rfl, _⟩ := h
    rfl
  · split at h
    · simp only [Prod.mk.injEq] at h
      obtain ⟨rfl, rfl, _⟩ := h
      rfl
    · split at h
      · have := applyBlock_store h
        exact this
      · simp only [Prod.mk.injEq] at h
        obtain ⟨rfl, rfl, _⟩ := h
        rfl

theorem applyNext_store {n n' : FNode} {ws : List SW} {cont : Bool}
    (h : applyNext n .ok = some (n', ws, cont)) : n'.store = n.store.applyAll ws := by
  cases hH : getH n (n.store.height + 1) with
  | none => rw [applyNext_none (Or.inl hH)] at h; cases h
  | some sh =>
    cases hD : getD n (n.store.height + 1) with
    | none => rw [applyNext_none (Or.inr hD)] at h; cases h
    | some d =>
      cases hv : execValidate n.lastState sh d with
      | some e =>
        simp only [applyNext, hH, hD, hv] at h
        split at h
        · simp only [Option.some.injEq] at h
          exact dropMismatch_store h
        · simp only [Option.some.injEq, Prod.mk.injEq] at h
          obtain ⟨rfl, rfl, _⟩ := h
          rfl
      | none =>
        simp only [applyNext, hH, hD, hv, Option.some.injEq] at h
        exact applyBlock_store h

theorem trySync_store : ∀ (fuel : Nat) (n : FNode),
    (trySync fuel n []).1.store = n.store.applyAll (trySync fuel n []).2 := by
  intro fuel
  induction fuel with
  | zero => intro n; rfl
  | succ f ih =>
    intro n
    cases ha : applyNext n .ok with
    | none => rw [trySync_step_none ha]; rfl
    | some r =>
      obtain ⟨n', ws', cont⟩ := r
      cases cont with
      | true =>
        rw [trySync_step_some ha]
        simp only
        rw [ih n', applyNext_store ha, applyAll_append]
      | false =>
        have e : trySync (f + 1) n [] = (n', ws') := by simp [trySync, ha]
        rw [e]
        exact applyNext_store ha

theorem syncAfter_store (n : FNode) : (syncAfter n).1.store = n.store.applyAll (syncAfter n).2 :=
  trySync_store _ n

theorem onHeader_store (n : FNode) (sh : SHeader) : (onHeader n sh).1.store = n.store.applyAll (onHeader n sh).2 := by
  rw [onHeader_eq]
  have h := syncAfter_store (cacheH n sh)
  rw [cacheH_store] at h
  split
  · rfl
  · split
    · rfl
    · split
      · exact h
      · exact h

theorem onData_store (n : FNode) (d : Data) : (onData n d).1.store = n.store.applyAll (onData n d).2 := by
  rw [onData_eq]
  split
  · rfl
  · split
    · rfl
    · rename_i m _
      have h : (syncAfter (cacheD n m.height d)).1.store = n.store.applyAll (syncAfter (cacheD n m.height d)).2 :=
        syncAfter_store (cacheD n m.height d)
      split
      · rfl
      · split
        · rfl
        · split
          · rfl
          · exact h

/-! ## the state a store holds after some writes -/

/-- the stored state carries DA height `D` (or there is none yet) -/
def DAok (D : Nat) (s : Store) : Prop := ∀ st, s.state = some st → st.daHeight = D

theorem DAok.apply {D : Nat} {s : Store} (h : DAok D s) (w : SW) (hw : ∀ st, w = .updateState st → st.daHeight = D) :
    DAok D (s.apply w) := by
  cases w with
  | saveBlock k b => exact h
  | setHeight k => intro st hst; rw [state_setHeight] at hst; exact h st hst
  | updateState st' =>
    intro st hst
    simp only [Store.apply, Option.some.injEq] at hst
    subst hst
    exact hw _ rfl
  | setMeta k v => exact h

theorem DAok.applyAll {D : Nat} (ws : List SW) : ∀ {s : Store}, DAok D s →
    (∀ st, SW.updateState st ∈ ws → st.daHeight = D) → DAok D (s.applyAll ws) := by
  induction ws with
  | nil => intro s h _; exact h
  | cons w rest ih =>
    intro s h hw
    simp only [Store.applyAll, List.foldl_cons] at ih ⊢
    exact ih (h.apply w (fun st e => hw st (by rw [e]; simp))) (fun st hm => hw st (List.mem_cons_of_mem _ hm))

theorem DAok.applyPrefix {D : Nat} (ws : List SW) {s : Store} (h : DAok D s)
    (hw : ∀ st, SW.updateState st ∈ ws → st.daHeight = D) (k : Nat) : DAok D (s.applyPrefix k ws) :=
  DAok.applyAll _ h (fun st hm => hw st (List.mem_of_mem_take hm))

/-! ## start-up: the store it builds, the state it keeps in memory -/

theorem start_shape (c : Cfg) (d : Store) (caches : FNode) {n : FNode} {ws : List SW}
    (h : start c d caches = some (n, ws)) :
    n.store = d.applyAll ws ∧ (∀ st, SW.updateState st ∉ ws) ∧
    (d.state = some n.lastState ∨ (d.state = none ∧ n.lastState = genesisState c)) := by
  cases hst : d.state with
  | none =>
    rw [start_none c d caches hst] at h
    unfold finishStart at h
    split at h
    · simp only [Option.some.injEq, Prod.mk.injEq] at h
      obtain ⟨rfl, rfl⟩ := h
      refine ⟨?_, ?_, Or.inr ⟨rfl, rfl⟩⟩
      · simp only [applyAll_append]; rfl
      · intro st hm
        simp only [List.mem_append, List.mem_singleton, reduceCtorEq, false_or] at hm
        rcases hm with (hm | hm) | hm
        · have := mem_setHeightW hm; cases this
        · have := mem_wmW hm; cases this
        · have := mem_wmW hm; cases this
    · cases h
  | some s =>
    by_cases hle : c.initialHeight ≤ s.lastHeight
    · rw [start_some c d caches hst hle] at h
      unfold finishStart at h
      split at h
      · simp only [Option.some.injEq, Prod.mk.injEq] at h
        obtain ⟨rfl, rfl⟩ := h
        refine ⟨?_, ?_, Or.inl rfl⟩
        · simp only [applyAll_append]; rfl
        · intro st hm
          simp only [List.nil_append, List.mem_append] at hm
          rcases hm with (hm | hm) | hm
          · have := mem_setHeightW hm; cases this
          · have := mem_wmW hm; cases this
          · have := mem_wmW hm; cases this
      · cases h
    · rw [start_fails c d caches hst (by omega)] at h; cases h

end Sync
