import Proofs.C14Keys

/-! `path.Clean` model: it leaves alone the keys `metaKeyOK` accepts (so `metaKey k = "/m/" ++ k` is
what `GenerateKey` computes), and the node's per-height metadata keys are of that kind for every height. -/
namespace Store

theorem splitSlash_ne_nil : ∀ l : List Char, splitSlash l ≠ []
  | [] => by simp [splitSlash]
  | c :: cs => by
    have := splitSlash_ne_nil cs
    unfold splitSlash
    split
    · simp
    · split <;> simp_all

theorem joinSlash_cons_cons (s t : List Char) (ts : List (List Char)) :
    joinSlash (s :: t :: ts) = s ++ '/' :: joinSlash (t :: ts) := rfl

theorem joinSlash_splitSlash : ∀ l : List Char, joinSlash (splitSlash l) = l
  | [] => rfl
  | c :: cs => by
    have ih := joinSlash_splitSlash cs
    have hne := splitSlash_ne_nil cs
    unfold splitSlash
    by_cases hc : c = '/'
    · simp only [hc, if_true]
      match h : splitSlash cs with
      | [] => exact absurd h hne
      | t :: ts => rw [joinSlash_cons_cons, ← h, ih]; rfl
    · simp only [hc, if_false]
      match h : splitSlash cs with
      | [] => exact absurd h hne
      | [s] => rw [h] at ih; simp only [joinSlash] at ih ⊢; rw [ih]
      | s :: t :: ts =>
        rw [h, joinSlash_cons_cons] at ih
        simp only [joinSlash_cons_cons, List.cons_append, ih]

theorem splitSlash_noslash : ∀ a : List Char, '/' ∉ a → splitSlash a = [a]
  | [], _ => rfl
  | c :: cs, h => by
    have hc : c ≠ '/' := fun e => h (e ▸ List.mem_cons_self ..)
    have ih := splitSlash_noslash cs (fun m => h (List.mem_cons_of_mem _ m))
    simp [splitSlash, hc, ih]

theorem splitSlash_append_slash : ∀ a b : List Char, '/' ∉ a →
    splitSlash (a ++ '/' :: b) = a :: splitSlash b
  | [], b, _ => by simp [splitSlash]
  | c :: cs, b, h => by
    have hc : c ≠ '/' := fun e => h (e ▸ List.mem_cons_self ..)
    have ih := splitSlash_append_slash cs b (fun m => h (List.mem_cons_of_mem _ m))
    simp [splitSlash, hc, ih]

def segOK (s : List Char) : Bool := s ≠ [] && s ≠ ['.'] && s ≠ ['.', '.']

theorem metaKeyOK_eq (k : String) : metaKeyOK k = (splitSlash k.toList).all segOK := rfl

theorem cleanSegs_ok : ∀ (segs acc : List (List Char)), segs.all segOK = true →
    cleanSegs acc segs = acc.reverse ++ segs
  | [], acc, _ => by simp [cleanSegs]
  | s :: rest, acc, h => by
    simp only [List.all_cons, Bool.and_eq_true] at h
    have hs := h.1
    simp only [segOK, Bool.and_eq_true, decide_eq_true_eq] at hs
    have ih := cleanSegs_ok rest (s :: acc) h.2
    simp [cleanSegs, hs.1.1, hs.1.2, hs.2, ih]

/-- for the keys `path.Clean` leaves alone, `GenerateKey(["m", k])` is `"/m/" ++ k`: the two branches
of `metaKey` agree, i.e. `metaKey k = generateKey ["m", k]` for every `k` -/
theorem generateKey_meta {k : String} (hk : metaKeyOK k = true) : generateKey ["m", k] = "/m/" ++ k := by
  have hm : "m".toList = ['m'] := by decide
  have hp : "/m/".toList = ['/', 'm', '/'] := by decide
  apply String.ext
  rw [metaKeyOK_eq] at hk
  simp only [generateKey, String.toList_ofList, String.toList_append, hp, List.map_cons, List.map_nil, hm,
    joinSlash, pathCleanRooted]
  have h1 : splitSlash ('/' :: (['m'] ++ '/' :: k.toList)) = [] :: ['m'] :: splitSlash k.toList := by
    have e : ∀ X : List Char, splitSlash ('/' :: X) = [] :: splitSlash X := by intro X; simp [splitSlash]
    rw [e, splitSlash_append_slash ['m'] k.toList (by decide)]
  rw [h1]
  have h2 : cleanSegs [] ([] :: ['m'] :: splitSlash k.toList) = ['m'] :: splitSlash k.toList := by
    have : cleanSegs [['m']] (splitSlash k.toList) = [['m']].reverse ++ splitSlash k.toList :=
      cleanSegs_ok _ _ hk
    simp [cleanSegs, this]
  rw [h2]
  match h : splitSlash k.toList with
  | [] => exact absurd h (splitSlash_ne_nil _)
  | t :: ts => rw [joinSlash_cons_cons, ← h, joinSlash_splitSlash]; rfl

theorem metaKey_eq_generateKey (k : String) : metaKey k = generateKey ["m", k] := by
  unfold metaKey
  split
  · next h => exact (generateKey_meta h).symm
  · rfl

/-! ### the node's per-height metadata keys, for every height -/

theorem repr_digits (n : Nat) : ∀ c ∈ (Nat.repr n).toList, c.isDigit = true := by
  rw [Nat.toList_repr]
  intro c hc
  exact Nat.isDigit_of_mem_toDigits (by decide) (by decide) hc

theorem repr_noslash (n : Nat) : '/' ∉ (Nat.repr n).toList := fun h => by
  have := repr_digits n _ h
  revert this; decide

theorem repr_segOK (n : Nat) : segOK (Nat.repr n).toList = true := by
  have hd := repr_digits n
  have hne : (Nat.repr n).toList ≠ [] := by
    intro h
    have := Nat.length_repr_pos (n := n)
    rw [← String.length_toList, h] at this
    simp at this
  simp only [segOK, Bool.and_eq_true, decide_eq_true_eq]
  refine ⟨⟨hne, ?_⟩, ?_⟩
  · intro h; rw [h] at hd; have := hd '.' (by simp); revert this; decide
  · intro h; rw [h] at hd; have := hd '.' (by simp); revert this; decide

theorem rhb_ok (n : Nat) (tail : String) (ht : '/' ∉ tail.toList) (hs : segOK tail.toList = true) :
    metaKeyOK ("rhb/" ++ Nat.repr n ++ "/" ++ tail) = true := by
  have h1 : "rhb/".toList = ['r', 'h', 'b'] ++ ['/'] := by decide
  have h2 : "/".toList = ['/'] := by decide
  rw [metaKeyOK_eq]
  have e : ("rhb/" ++ Nat.repr n ++ "/" ++ tail).toList =
      ['r', 'h', 'b'] ++ '/' :: ((Nat.repr n).toList ++ '/' :: tail.toList) := by
    simp [String.toList_append, h1, h2]
  rw [e, splitSlash_append_slash _ _ (by decide), splitSlash_append_slash _ _ (repr_noslash n),
    splitSlash_noslash _ ht]
  simp only [List.all_cons, List.all_nil, repr_segOK, hs, Bool.and_true]
  decide

theorem rhbHeaderKey_ok (n : Nat) : metaKeyOK (rhbHeaderKey n) = true := by
  have : rhbHeaderKey n = "rhb/" ++ Nat.repr n ++ "/" ++ "h" := by
    simp [rhbHeaderKey, String.append_assoc]
  rw [this]; exact rhb_ok n "h" (by decide) (by decide)

theorem rhbDataKey_ok (n : Nat) : metaKeyOK (rhbDataKey n) = true := by
  have : rhbDataKey n = "rhb/" ++ Nat.repr n ++ "/" ++ "d" := by
    simp [rhbDataKey, String.append_assoc]
  rw [this]; exact rhb_ok n "d" (by decide) (by decide)

end Store
