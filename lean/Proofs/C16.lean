import Model.DAProxy

/-! Helper lemmas for `Spec.C16`: the size filter of the JSON-RPC client (induction on the blob list),
DummyDA's size rule, the node's submit helper. -/
namespace Proofs.C16
open DAProxy

/-- total size of a list of blobs -/
def total {α} (size : α → Nat) : List α → Nat
  | [] => 0
  | b :: bs => size b + total size bs

theorem total_append {α} (size : α → Nat) (a b : List α) : total size (a ++ b) = total size a + total size b := by
  induction a with
  | nil => simp [total]
  | cons x xs ih => simp [total, ih]; omega

/-! ## `scan` -/

variable {α : Type} (size : α → Nat) (max : Nat)

theorem scan_nil (cur : Nat) : scan size max cur [] = ([], 0) := rfl

theorem scan_over (cur : Nat) (b : α) (bs : List α) (h : size b > max) :
    scan size max cur (b :: bs) = ((scan size max cur bs).1, (scan size max cur bs).2 + 1) := by
  simp [scan, h]

theorem scan_break (cur : Nat) (b : α) (bs : List α) (h1 : ¬ size b > max) (h2 : cur + size b > max) :
    scan size max cur (b :: bs) = ([], 0) := by
  simp [scan, h1, h2]

theorem scan_take (cur : Nat) (b : α) (bs : List α) (h1 : ¬ size b > max) (h2 : ¬ cur + size b > max) :
    scan size max cur (b :: bs) = (b :: (scan size max (cur + size b) bs).1, (scan size max (cur + size b) bs).2) := by
  simp [scan, h1, h2]

/-- the blobs kept never exceed the limit -/
theorem scan_fits : ∀ (blobs : List α) (cur : Nat), cur ≤ max → cur + total size (scan size max cur blobs).1 ≤ max := by
  intro blobs
  induction blobs with
  | nil => intro cur h; simp [scan, total]; exact h
  | cons b bs ih =>
    intro cur h
    by_cases h1 : size b > max
    · rw [scan_over size max cur b bs h1]; exact ih cur h
    · by_cases h2 : cur + size b > max
      · rw [scan_break size max cur b bs h1 h2]; simp [total]; exact h
      · rw [scan_take size max cur b bs h1 h2]
        have := ih (cur + size b) (by omega)
        simp [total]; omega

/-- without an oversize blob in the examined part, what is kept is a prefix and the next blob does not fit -/
theorem scan_prefix : ∀ (blobs : List α) (cur : Nat), (scan size max cur blobs).2 = 0 →
    ∃ rest, blobs = (scan size max cur blobs).1 ++ rest ∧
      ∀ r rest', rest = r :: rest' → cur + total size (scan size max cur blobs).1 + size r > max := by
  intro blobs
  induction blobs with
  | nil => intro cur _; exact ⟨[], by simp [scan], by intro r rest' h; cases h⟩
  | cons b bs ih =>
    intro cur h
    by_cases h1 : size b > max
    · rw [scan_over size max cur b bs h1] at h; simp at h
    · by_cases h2 : cur + size b > max
      · rw [scan_break size max cur b bs h1 h2]
        refine ⟨b :: bs, by simp, ?_⟩
        intro r rest' hr
        cases hr
        simp [total]; omega
      · rw [scan_take size max cur b bs h1 h2] at h ⊢
        obtain ⟨rest, hrest, hnext⟩ := ih (cur + size b) h
        refine ⟨rest, by simp; exact hrest, ?_⟩
        intro r rest' hr
        have := hnext r rest' hr
        simp [total]; omega

/-- an oversize blob is counted exactly when one is reached while everything before it fits -/
theorem scan_oversize_iff : ∀ (blobs : List α) (cur : Nat), cur ≤ max →
    ((scan size max cur blobs).2 > 0 ↔
      ∃ pre r rest, blobs = pre ++ r :: rest ∧ cur + total size pre ≤ max ∧ size r > max) := by
  intro blobs
  induction blobs with
  | nil =>
    intro cur _
    simp [scan]
  | cons b bs ih =>
    intro cur hc
    by_cases h1 : size b > max
    · rw [scan_over size max cur b bs h1]
      constructor
      · intro _
        exact ⟨[], b, bs, by simp, by simp [total]; exact hc, h1⟩
      · intro _; omega
    · by_cases h2 : cur + size b > max
      · rw [scan_break size max cur b bs h1 h2]
        constructor
        · intro h; simp at h
        · rintro ⟨pre, r, rest, heq, hfit, hov⟩
          cases pre with
          | nil => simp at heq; obtain ⟨rfl, _⟩ := heq; exact absurd hov h1
          | cons p ps =>
            simp at heq; obtain ⟨rfl, _⟩ := heq
            simp [total] at hfit; omega
      · rw [scan_take size max cur b bs h1 h2]
        constructor
        · intro h
          obtain ⟨pre, r, rest, heq, hfit, hov⟩ := (ih (cur + size b) (by omega)).1 h
          exact ⟨b :: pre, r, rest, by simp [heq], by simp [total]; omega, hov⟩
        · rintro ⟨pre, r, rest, heq, hfit, hov⟩
          cases pre with
          | nil => simp at heq; obtain ⟨rfl, _⟩ := heq; exact absurd hov h1
          | cons p ps =>
            simp at heq; obtain ⟨rfl, rfl⟩ := heq
            exact (ih _ (by omega)).2 ⟨ps, r, rest, rfl, by simp [total] at hfit; omega, hov⟩

/-! ## DummyDA's rule is the client's rule -/

theorem dummyScan_eq_scan : ∀ (blobs : List α) (cur : Nat),
    dummyScan size max cur blobs =
      if (scan size max cur blobs).2 > 0 then none else some (scan size max cur blobs).1.length := by
  intro blobs
  induction blobs with
  | nil => intro cur; simp [dummyScan, scan]
  | cons b bs ih =>
    intro cur
    by_cases h1 : size b > max
    · rw [scan_over size max cur b bs h1]; simp [dummyScan, h1]
    · by_cases h2 : cur + size b > max
      · rw [scan_break size max cur b bs h1 h2]; simp [dummyScan, h1, h2]
      · rw [scan_take size max cur b bs h1 h2]
        simp only [dummyScan, h1, h2, if_false, ih (cur + size b)]
        by_cases h3 : (scan size max (cur + size b) bs).2 > 0 <;> simp [h3]

theorem dummyScan_all_fit : ∀ (bs : List α) (cur : Nat), cur + total size bs ≤ max →
    dummyScan size max cur bs = some bs.length := by
  intro bs
  induction bs with
  | nil => intro cur _; simp [dummyScan]
  | cons b bs ih =>
    intro cur h
    simp [total] at h
    have h1 : ¬ size b > max := by omega
    have h2 : ¬ cur + size b > max := by omega
    simp [dummyScan, h1, h2, ih (cur + size b) (by omega)]

/-! ## `filterBlobs` in the property's words -/

theorem filter_tooBig_iff (blobs : List α) :
    filterBlobs size max blobs = .tooBig ↔
      ∃ pre r rest, blobs = pre ++ r :: rest ∧ total size pre ≤ max ∧ size r > max := by
  have hov := scan_oversize_iff size max blobs 0 (Nat.zero_le _)
  simp only [Nat.zero_add] at hov
  constructor
  · intro h
    by_cases h2 : (scan size max 0 blobs).2 > 0
    · exact hov.1 h2
    · have h20 : (scan size max 0 blobs).2 = 0 := by omega
      obtain ⟨rest, hrest, hnext⟩ := scan_prefix size max blobs 0 h20
      by_cases h1 : (scan size max 0 blobs).1.isEmpty
      · have h1' : (scan size max 0 blobs).1 = [] := by simpa using h1
        rw [h1'] at hrest hnext
        cases rest with
        | nil =>
          simp at hrest
          subst hrest
          simp [filterBlobs, scan] at h
        | cons r rest' =>
          have := hnext r rest' rfl
          simp [total] at this
          exact ⟨[], r, rest', by simpa using hrest, by simp [total], this⟩
      · simp [filterBlobs, h2, h1] at h
  · intro h
    have := hov.2 h
    simp [filterBlobs, this]

theorem filter_nothing_iff (blobs : List α) : filterBlobs size max blobs = .nothing ↔ blobs = [] := by
  constructor
  · intro h
    unfold filterBlobs at h
    simp only at h
    split at h
    · cases h
    · split at h
      · split at h
        · simpa using ‹blobs.isEmpty = true›
        · cases h
      · cases h
  · rintro rfl
    simp [filterBlobs, scan]

/-- what is sent is the longest prefix that fits -/
theorem filter_send (blobs bs : List α) (h : filterBlobs size max blobs = .send bs) :
    bs ≠ [] ∧ (scan size max 0 blobs).2 = 0 ∧ ∃ rest, blobs = bs ++ rest ∧ total size bs ≤ max ∧
      ∀ r rest', rest = r :: rest' → total size bs + size r > max := by
  unfold filterBlobs at h
  simp only at h
  split at h
  · cases h
  · rename_i h2
    split at h
    · split at h <;> cases h
    · rename_i h1
      have hbs : (scan size max 0 blobs).1 = bs := by injection h
      have h20 : (scan size max 0 blobs).2 = 0 := by omega
      obtain ⟨rest, hrest, hnext⟩ := scan_prefix size max blobs 0 h20
      have hfit := scan_fits size max blobs 0 (Nat.zero_le _)
      rw [hbs] at hrest hnext hfit h1
      refine ⟨by intro hb; simp [hb] at h1, h20, rest, hrest, by omega, ?_⟩
      intro r rest' hr
      have := hnext r rest' hr
      omega

/-- the longest fitting prefix is unique: two prefixes that fit and whose next blob does not are equal -/
theorem longest_prefix_unique_aux (a : List α) : ∀ (cur : Nat) (blobs b ra rb : List α),
    blobs = a ++ ra → blobs = b ++ rb →
    cur + total size a ≤ max → cur + total size b ≤ max →
    (∀ r rest', ra = r :: rest' → cur + total size a + size r > max) →
    (∀ r rest', rb = r :: rest' → cur + total size b + size r > max) → a = b := by
  induction a with
  | nil =>
    intro cur blobs b ra rb ha hb fa fb na nb
    cases b with
    | nil => rfl
    | cons y ys =>
      simp at ha
      subst ha
      have := na y (ys ++ rb) (by simpa using hb)
      simp [total] at this fb
      omega
  | cons x xs ih =>
    intro cur blobs b ra rb ha hb fa fb na nb
    cases b with
    | nil =>
      simp at hb
      subst hb
      have := nb x (xs ++ ra) (by simpa using ha)
      simp [total] at this fa
      omega
    | cons y ys =>
      subst ha
      simp at hb
      obtain ⟨rfl, hb⟩ := hb
      simp [total] at fa fb na nb
      have := ih (cur + size x) (xs ++ ra) ys ra rb rfl hb (by omega) (by omega)
        (by intro r rest' hr; have := na r rest' hr; omega)
        (by intro r rest' hr; have := nb r rest' hr; omega)
      rw [this]

theorem longest_prefix_unique (blobs a b ra rb : List α)
    (ha : blobs = a ++ ra) (hb : blobs = b ++ rb)
    (fa : total size a ≤ max) (fb : total size b ≤ max)
    (na : ∀ r rest', ra = r :: rest' → total size a + size r > max)
    (nb : ∀ r rest', rb = r :: rest' → total size b + size r > max) : a = b :=
  longest_prefix_unique_aux size max a 0 blobs b ra rb ha hb (by omega) (by omega)
    (by intro r rest' hr; have := na r rest' hr; omega) (by intro r rest' hr; have := nb r rest' hr; omega)

/-! ## two calls in flight on one client (`Calls`) -/

/-- the invariant of two calls in flight on one client: a call holds the batch the size filter made of *its own*
input, and its request carried that batch -/
def CallsOwn {α} (size : α → Nat) (max : Nat) (inA inB : List α) (s : Calls α) : Prop :=
  (∀ f, s.batchA = some f → f = filterBlobs size max inA) ∧ (∀ f, s.batchB = some f → f = filterBlobs size max inB) ∧
  (∀ l, s.wireA = some l → filterBlobs size max inA = .send l) ∧ (∀ l, s.wireB = some l → filterBlobs size max inB = .send l)

theorem batch_some {α} (f : FilterOutcome α) (l : List α) (h : f.batch = some l) : f = .send l := by
  cases f <;> simp [FilterOutcome.batch] at h
  subst h; rfl

theorem callsOwn_step {α} (size : α → Nat) (max : Nat) (inA inB : List α) (s : Calls α) (e : Phase)
    (hs : CallsOwn size max inA inB s) : CallsOwn size max inA inB (s.step size max inA inB e) := by
  obtain ⟨h1, h2, h3, h4⟩ := hs
  cases e with
  | pack c =>
    cases c
    · exact ⟨fun f hf => by simp [Calls.step] at hf; exact hf.symm, h2, h3, h4⟩
    · exact ⟨h1, fun f hf => by simp [Calls.step] at hf; exact hf.symm, h3, h4⟩
  | send c =>
    cases c
    · refine ⟨h1, h2, fun l hl => ?_, h4⟩
      simp only [Calls.step] at hl
      cases hb : s.batchA with
      | none => simp [hb] at hl
      | some f =>
        simp [hb] at hl
        rw [← h1 f hb]; exact batch_some f l hl
    · refine ⟨h1, h2, h3, fun l hl => ?_⟩
      simp only [Calls.step] at hl
      cases hb : s.batchB with
      | none => simp [hb] at hl
      | some f =>
        simp [hb] at hl
        rw [← h2 f hb]; exact batch_some f l hl

theorem callsOwn_foldl {α} (size : α → Nat) (max : Nat) (inA inB : List α) (sched : List Phase) :
    ∀ s, CallsOwn size max inA inB s → CallsOwn size max inA inB (sched.foldl (Calls.step size max inA inB) s) := by
  induction sched with
  | nil => intro s hs; exact hs
  | cons e rest ih => intro s hs; exact ih _ (callsOwn_step size max inA inB s e hs)

end Proofs.C16
