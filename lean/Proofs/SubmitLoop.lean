import Proofs.Submit

/-! The invariant of the retry loop `Submit.submitLoop` (C06): watermark monotone, frame, writes, DA double only
grows, marks ⊆ accepted blobs, soundness of the watermark. -/
namespace Submit
open Wire Chain Producer

theorem mem_blobsOf {e : Nat × Bool × Nat} {dh : Nat} {d : Bool} {sub : List Item} :
    e ∈ blobsOf dh d sub ↔ ∃ it ∈ sub, e = (dh, d, it.height) := by
  simp [blobsOf, eq_comm]

theorem lastH_append (pre sub : List Item) (h : sub ≠ []) : lastH (pre ++ sub) = lastH sub := by
  unfold lastH
  rw [List.getLast?_append]
  cases hs : sub.getLast? with
  | none => exact absurd (List.getLast?_eq_none_iff.mp hs) h
  | some l => rfl

theorem lastH_mem {sub : List Item} (h : sub ≠ []) : ∃ l ∈ sub, lastH sub = l.height := by
  unfold lastH
  cases hs : sub.getLast? with
  | none => exact absurd (List.getLast?_eq_none_iff.mp hs) h
  | some l => exact ⟨l, List.mem_of_getLast? hs, rfl⟩

/-- the loop invariant, relative to the node `a0` and the item list `items0` the loop started with;
`pre` = the items accepted and acknowledged so far, `rem` = the remainder still to submit, `ws` = durable writes -/
structure LoopInv (d : Bool) (a0 : ANode) (items0 : List Item) (a : ANode) (rem : List Item) (ws : List SW)
    (pre : List Item) : Prop where
  split : items0 = pre ++ rem
  frame : Frame d a0 a
  store : a.n.store = a0.n.store.applyAll ws
  writes : ∀ w ∈ ws, ∃ v, w = SW.setMeta (wmKey d) (le64 v) ∧ wm d a0 < v ∧ v ≤ wm d a
  lastWrite : (ws = [] ∧ wm d a = wm d a0) ∨ ws.getLast? = some (SW.setMeta (wmKey d) (le64 (wm d a)))
  wmMono : wm d a0 ≤ wm d a
  daH : a0.daH ≤ a.daH
  blobs : ∃ new, a.daBlobs = new ++ a0.daBlobs ∧
    ∀ e ∈ new, a0.daH ≤ e.1 ∧ e.1 < a.daH ∧ e.2.1 = d ∧ ∃ it ∈ items0, it.height = e.2.2
  marksNew : ∃ nm, marks d a = nm ++ marks d a0 ∧
    ∀ e ∈ nm, ∃ it ∈ pre, e.1 = it.key ∧ a0.daH ≤ e.2 ∧ e.2 < a.daH ∧ (e.2, d, it.height) ∈ a.daBlobs
  sound : ∀ it ∈ pre, ∃ dh, a0.daH ≤ dh ∧ dh < a.daH ∧ (dh, d, it.height) ∈ a.daBlobs ∧ (it.key, dh) ∈ marks d a
  wmFrom : wm d a = wm d a0 ∨ ∃ l ∈ pre, wm d a = l.height
  wmLast : lastH pre ≤ wm d a

theorem LoopInv.init (d : Bool) (a0 : ANode) (items0 : List Item) : LoopInv d a0 items0 a0 items0 [] [] :=
  { split := rfl, frame := Frame.refl d a0, store := rfl, writes := by simp, lastWrite := Or.inl ⟨rfl, rfl⟩,
    wmMono := Nat.le_refl _, daH := Nat.le_refl _, blobs := ⟨[], rfl, by simp⟩, marksNew := ⟨[], rfl, by simp⟩,
    sound := by simp, wmFrom := Or.inl rfl, wmLast := by simp [lastH] }

theorem LoopInv.lost {d : Bool} {a0 : ANode} {items0 : List Item} {a : ANode} {rem : List Item} {ws : List SW}
    {pre : List Item} (h : LoopInv d a0 items0 a rem ws pre) (c : Nat) :
    LoopInv d a0 items0 (daStore a d (rem.take c)) rem ws pre := by
  have hwm : ∀ e, wm e (daStore a d (rem.take c)) = wm e a := fun _ => rfl
  have hmk : marks d (daStore a d (rem.take c)) = marks d a := by cases d <;> rfl
  have hsub : ∀ e ∈ a.daBlobs, e ∈ (daStore a d (rem.take c)).daBlobs := by
    intro e he; simp [daStore, he]
  refine { split := h.split, frame := h.frame.trans (daStore_frame d a _), store := h.store, writes := ?_,
           lastWrite := ?_, wmMono := ?_, daH := ?_, blobs := ?_, marksNew := ?_, sound := ?_, wmFrom := ?_, wmLast := ?_ }
  · simpa [hwm] using h.writes
  · simpa [hwm] using h.lastWrite
  · simpa [hwm] using h.wmMono
  · have := h.daH; simp [daStore]; omega
  · obtain ⟨new, hn, hall⟩ := h.blobs
    refine ⟨blobsOf a.daH d (rem.take c) ++ new, by simp [daStore, hn], ?_⟩
    intro e he
    rcases List.mem_append.mp he with he | he
    · obtain ⟨it, hit, rfl⟩ := mem_blobsOf.mp he
      refine ⟨h.daH, by simp [daStore], rfl, it, ?_, rfl⟩
      rw [h.split]; exact List.mem_append_right _ (List.mem_of_mem_take hit)
    · obtain ⟨e1, e2, e3, e4⟩ := hall e he
      exact ⟨e1, by simp [daStore]; omega, e3, e4⟩
  · obtain ⟨nm, hn, hall⟩ := h.marksNew
    refine ⟨nm, by rw [hmk, hn], ?_⟩
    intro e he
    obtain ⟨it, hit, e1, e2, e3, e4⟩ := hall e he
    exact ⟨it, hit, e1, e2, by simp [daStore]; omega, hsub _ e4⟩
  · intro it hit
    obtain ⟨dh, e1, e2, e3, e4⟩ := h.sound it hit
    exact ⟨dh, e1, by simp [daStore]; omega, hsub _ e3, by rw [hmk]; exact e4⟩
  · simpa [hwm] using h.wmFrom
  · simpa [hwm] using h.wmLast

theorem LoopInv.ok {d : Bool} {a0 : ANode} {items0 : List Item} {a : ANode} {rem : List Item} {ws : List SW}
    {pre : List Item} (h : LoopInv d a0 items0 a rem ws pre) (c : Nat) (c0 : 0 < c) (c1 : c ≤ rem.length) :
    LoopInv d a0 items0 (okStep d a (rem.take c)).1 (rem.drop c) (ws ++ (okStep d a (rem.take c)).2)
      (pre ++ rem.take c) := by
  obtain ⟨s1, s2, s3, s4, s5, s6, s7⟩ := okStep_spec d a (rem.take c)
  have hne : rem.take c ≠ [] := by
    intro he
    have := congrArg List.length he
    simp only [List.length_take, List.length_nil] at this; omega
  have hsub : ∀ e ∈ a.daBlobs, e ∈ (okStep d a (rem.take c)).1.daBlobs := by
    intro e he; rw [s2]; exact List.mem_append_right _ he
  have hmsub : ∀ e ∈ marks d a, e ∈ marks d (okStep d a (rem.take c)).1 := by
    intro e he; rw [s3]; exact List.mem_append_right _ he
  refine { split := ?_, frame := h.frame.trans s7, store := ?_, writes := ?_,
           lastWrite := ?_, wmMono := ?_, daH := ?_, blobs := ?_, marksNew := ?_, sound := ?_, wmFrom := ?_, wmLast := ?_ }
  · rw [h.split, List.append_assoc, List.take_append_drop]
  · rw [s5, h.store]; simp [Store.applyAll]
  · intro w hw
    rcases List.mem_append.mp hw with hw | hw
    · obtain ⟨v, e1, e2, e3⟩ := h.writes w hw
      exact ⟨v, e1, e2, by rw [s4]; omega⟩
    · rw [s6] at hw
      split at hw
      · rename_i hgt
        simp only [List.mem_singleton] at hw
        exact ⟨_, hw, by have := h.wmMono; omega, by rw [s4]; omega⟩
      · simp at hw
  · rw [s6]
    split
    · rename_i hgt
      right
      rw [List.getLast?_append]; simp only [List.getLast?_singleton, Option.some_or]
      rw [s4, Nat.max_eq_right (by omega)]
    · rename_i hle
      rw [List.append_nil, s4, Nat.max_eq_left (by omega)]
      exact h.lastWrite
  · rw [s4]; have := h.wmMono; omega
  · rw [s1]; have := h.daH; omega
  · obtain ⟨new, hn, hall⟩ := h.blobs
    refine ⟨blobsOf a.daH d (rem.take c) ++ new, by rw [s2, hn, List.append_assoc], ?_⟩
    intro e he
    rcases List.mem_append.mp he with he | he
    · obtain ⟨it, hit, rfl⟩ := mem_blobsOf.mp he
      refine ⟨h.daH, by rw [s1]; exact Nat.lt_succ_self _, rfl, it, ?_, rfl⟩
      rw [h.split]; exact List.mem_append_right _ (List.mem_of_mem_take hit)
    · obtain ⟨e1, e2, e3, e4⟩ := hall e he
      exact ⟨e1, by rw [s1]; omega, e3, e4⟩
  · obtain ⟨nm, hn, hall⟩ := h.marksNew
    refine ⟨((rem.take c).map fun it => (it.key, a.daH)).reverse ++ nm, by rw [s3, hn, List.append_assoc], ?_⟩
    intro e he
    rcases List.mem_append.mp he with he | he
    · simp only [List.mem_reverse, List.mem_map] at he
      obtain ⟨it, hit, rfl⟩ := he
      refine ⟨it, List.mem_append_right _ hit, rfl, h.daH, by rw [s1]; exact Nat.lt_succ_self _, ?_⟩
      rw [s2]; exact List.mem_append_left _ (mem_blobsOf.mpr ⟨it, hit, rfl⟩)
    · obtain ⟨it, hit, e1, e2, e3, e4⟩ := hall e he
      exact ⟨it, List.mem_append_left _ hit, e1, e2, by rw [s1]; omega, hsub _ e4⟩
  · intro it hit
    rcases List.mem_append.mp hit with hit | hit
    · obtain ⟨dh, e1, e2, e3, e4⟩ := h.sound it hit
      exact ⟨dh, e1, by rw [s1]; omega, hsub _ e3, hmsub _ e4⟩
    · refine ⟨a.daH, h.daH, by rw [s1]; exact Nat.lt_succ_self _, ?_, ?_⟩
      · rw [s2]; exact List.mem_append_left _ (mem_blobsOf.mpr ⟨it, hit, rfl⟩)
      · rw [s3]; apply List.mem_append_left
        simp only [List.mem_reverse, List.mem_map]
        exact ⟨it, hit, rfl⟩
  · rw [s4]
    by_cases hgt : lastH (rem.take c) > wm d a
    · right
      obtain ⟨l, hl, he⟩ := lastH_mem hne
      exact ⟨l, List.mem_append_right _ hl, by rw [Nat.max_eq_right (by omega), he]⟩
    · rw [Nat.max_eq_left (by omega)]
      rcases h.wmFrom with e | ⟨l, hl, e⟩
      · exact Or.inl e
      · exact Or.inr ⟨l, List.mem_append_left _ hl, e⟩
  · rw [lastH_append _ _ hne, s4]; omega

/-- **the loop invariant holds of the result**, for every fuel, script and item list -/
theorem submitLoop_loopInv (d : Bool) (fuel : Nat) (a0 : ANode) (items0 : List Item) (script : List DAAns)
    (calls : List SubmitCall) :
    ∃ rem pre, LoopInv d a0 items0 (submitLoop d fuel a0 items0 script [] calls).1 rem
        (submitLoop d fuel a0 items0 script [] calls).2.1 pre ∧
      (submitLoop d fuel a0 items0 script [] calls).2.2.2 = rem.isEmpty := by
  obtain ⟨rem, ⟨pre, hp⟩, hall⟩ := submitLoop_inv3 d (fun a rem ws => ∃ pre, LoopInv d a0 items0 a rem ws pre)
    (fun a rem ws c ⟨pre, hp⟩ _ _ => ⟨pre, hp.lost c⟩)
    (fun a rem ws c ⟨pre, hp⟩ c0 c1 => ⟨_, hp.ok c c0 c1⟩)
    fuel a0 items0 script [] calls ⟨[], LoopInv.init d a0 items0⟩
  exact ⟨rem, pre, hp, hall⟩

/-! ### the call log -/

/-- at most one `Submit` call per unit of fuel (`maxSubmitAttempts` in the two iterations) -/
theorem submitLoop_calls_length (d : Bool) (fuel : Nat) (a : ANode) (rem : List Item) (script : List DAAns)
    (ws : List SW) (calls : List SubmitCall) :
    (submitLoop d fuel a rem script ws calls).2.2.1.length ≤ calls.length + fuel := by
  induction fuel generalizing a rem script ws calls with
  | zero => simp [submitLoop_zero]
  | succ n ih =>
    rw [submitLoop_succ]
    split
    · simp
    · split
      · simp
      · refine Nat.le_trans (ih _ _ _ _ _) ?_
        simp; omega

/-- every call carries the kind being submitted and **exactly the current remainder**, which is a suffix of the
original item list; the calls already logged are kept -/
theorem submitLoop_calls (d : Bool) (fuel : Nat) (a0 : ANode) (items0 : List Item) (script : List DAAns)
    (ws : List SW) (calls0 : List SubmitCall) :
    ∃ new, (submitLoop d fuel a0 items0 script ws calls0).2.2.1 = calls0 ++ new ∧
      ∀ c ∈ new, c.isData = d ∧ (∃ k, k < items0.length ∧ c.heights = (items0.drop k).map (·.height)) ∧
        c.accepted ≤ c.heights.length := by
  have := submitLoop_inv d
    (fun _ rem _ calls => (∃ k, rem = items0.drop k) ∧ ∃ new, calls = calls0 ++ new ∧
      ∀ c ∈ new, c.isData = d ∧ (∃ k, k < items0.length ∧ c.heights = (items0.drop k).map (·.height)) ∧
        c.accepted ≤ c.heights.length)
    ?_ fuel a0 items0 script ws calls0 ⟨⟨0, rfl⟩, [], by simp, by simp⟩
  · obtain ⟨_, ⟨_, h⟩, _⟩ := this
    exact h
  · intro a rem ws calls ans ⟨⟨k, hk⟩, new, hnew, hall⟩ hne
    obtain ⟨c1, c2, c3, c4, c5⟩ := step_call d a rem ans
    refine ⟨?_, new ++ [(step d a rem ans).2.2.2], by rw [hnew, List.append_assoc], ?_⟩
    · rcases step_cases d a rem ans with ⟨_, h2, _⟩ | ⟨c, _, _, _, h2, _⟩ | ⟨c, _, _, _, h2, _⟩
      · exact ⟨k, by rw [h2, hk]⟩
      · exact ⟨k, by rw [h2, hk]⟩
      · exact ⟨k + c, by rw [h2, hk, List.drop_drop]⟩
    · intro c hc
      rcases List.mem_append.mp hc with hc | hc
      · exact hall c hc
      · simp only [List.mem_singleton] at hc
        subst hc
        refine ⟨c1, ⟨k, ?_, by rw [c2, hk]⟩, by rw [c2, List.length_map]; exact c5⟩
        apply Classical.byContradiction
        intro hge
        apply hne
        rw [hk]; exact List.drop_eq_nil_of_le (by omega)

/-! ### retry until accepted -/

theorem submitLoop_nil (d : Bool) (fuel : Nat) (a : ANode) (script : List DAAns) (ws : List SW)
    (calls : List SubmitCall) : submitLoop d fuel a [] script ws calls = (a, ws, calls, true) := by
  cases fuel <;> simp [submitLoop]

/-- after any prefix `fails` of answers (errors, time-outs, partial acceptance, lost acknowledgements — anything but a
cancellation) shorter than the attempt bound, an answer "all accepted" completes the submission -/
theorem submitLoop_retry (d : Bool) (fails tail : List DAAns) (htail : tail.headD (.ok none) = .ok none)
    (hnc : DAAns.canceled ∉ fails) (fuel : Nat) (hf : fails.length < fuel)
    (a : ANode) (rem : List Item) (ws : List SW) (calls : List SubmitCall) :
    (submitLoop d fuel a rem (fails ++ tail) ws calls).2.2.2 = true := by
  induction fails generalizing a rem fuel ws calls with
  | nil =>
    obtain ⟨n, rfl⟩ : ∃ n, fuel = n + 1 := ⟨fuel - 1, by simp at hf; omega⟩
    rw [submitLoop_succ]
    split
    · rfl
    · rename_i hne
      simp only [List.nil_append, htail, reduceCtorEq, ↓reduceIte]
      have : (step d a rem (.ok none)).2.1 = [] := by
        have hl : rem.length ≠ 0 := by
          intro h0; apply hne; simp [List.eq_nil_of_length_eq_zero h0]
        simp [step, cnt, hl]
      rw [this, submitLoop_nil]
  | cons f fs ih =>
    obtain ⟨n, rfl⟩ : ∃ n, fuel = n + 1 := ⟨fuel - 1, by simp at hf; omega⟩
    rw [submitLoop_succ]
    split
    · rfl
    · have hfc : f ≠ .canceled := by
        intro h; apply hnc; simp [h]
      simp only [List.cons_append, List.headD_cons, hfc, ↓reduceIte, List.tail_cons]
      exact ih (by intro h; apply hnc; simp [h]) n (by simp at hf; omega) _ _ _ _

/-- when the whole list was accepted, the watermark is at least the last item's height; and it is never above the
old watermark and all item heights -/
theorem submitLoop_wm_all (d : Bool) (fuel : Nat) (a0 : ANode) (items0 : List Item) (script : List DAAns)
    (calls : List SubmitCall) :
    ((submitLoop d fuel a0 items0 script [] calls).2.2.2 = true →
        lastH items0 ≤ wm d (submitLoop d fuel a0 items0 script [] calls).1) ∧
    (wm d (submitLoop d fuel a0 items0 script [] calls).1 = wm d a0 ∨
      ∃ l ∈ items0, wm d (submitLoop d fuel a0 items0 script [] calls).1 = l.height) := by
  obtain ⟨rem, pre, hi, hall⟩ := submitLoop_loopInv d fuel a0 items0 script calls
  constructor
  · intro ht
    rw [ht] at hall
    have : rem = [] := by simpa using hall.symm
    have hs := hi.split
    rw [this, List.append_nil] at hs
    have := hi.wmLast
    rw [← hs] at this; exact this
  · rcases hi.wmFrom with e | ⟨l, hl, e⟩
    · exact Or.inl e
    · exact Or.inr ⟨l, by rw [hi.split]; exact List.mem_append_left _ hl, e⟩

/-- **soundness of the watermark**: with the items in increasing height order, every item the watermark moved past
was stored by the DA double in an accepting call of this loop, and is marked with that DA height -/
theorem submitLoop_sound (d : Bool) (fuel : Nat) (a0 : ANode) (items0 : List Item) (script : List DAAns)
    (calls : List SubmitCall) (hsorted : items0.Pairwise (fun x y => x.height < y.height)) :
    ∀ it ∈ items0, wm d a0 < it.height → it.height ≤ wm d (submitLoop d fuel a0 items0 script [] calls).1 →
      ∃ dh, a0.daH ≤ dh ∧ dh < (submitLoop d fuel a0 items0 script [] calls).1.daH ∧
        (dh, d, it.height) ∈ (submitLoop d fuel a0 items0 script [] calls).1.daBlobs ∧
        (it.key, dh) ∈ marks d (submitLoop d fuel a0 items0 script [] calls).1 := by
  obtain ⟨rem, pre, hi, _⟩ := submitLoop_loopInv d fuel a0 items0 script calls
  intro it hit hlo hhi
  have hs := hi.split
  rw [hs] at hit hsorted
  rcases List.mem_append.mp hit with hp | hr
  · exact hi.sound it hp
  · exfalso
    rcases hi.wmFrom with e | ⟨l, hl, e⟩
    · omega
    · have := (List.pairwise_append.mp hsorted).2.2 l hl it hr
      omega

end Submit
