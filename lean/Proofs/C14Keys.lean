import Model.Store
import Std.Data.String.ToNat

/-! Key layout of `pkg/store`: the seven key families are injective and pairwise disjoint
(real `String`s; `Nat.repr_inj` from the toolchain's `Std.Data.String.ToNat`). -/
namespace Store

/-- a datastore key of the block store, by kind -/
inductive Key
  | height
  | state
  | header (h : Nat)
  | data (h : Nat)
  | signature (h : Nat)
  | index (hash : Bytes)
  | metadata (k : String)
  deriving DecidableEq, Repr

def Key.str : Key → String
  | .height => heightKey
  | .state => stateKey
  | .header h => headerKey h
  | .data h => dataKey h
  | .signature h => signatureKey h
  | .index x => indexKey x
  | .metadata k => metaKey k

/-- only metadata keys are restricted: those `path.Clean` leaves alone -/
def Key.OK : Key → Prop
  | .metadata k => metaKeyOK k = true
  | _ => True

theorem hexUpperDigit_inj {a b : Nat} (ha : a < 16) (hb : b < 16)
    (h : hexUpperDigit a = hexUpperDigit b) : a = b := by
  have key : ∀ a b : Fin 16, hexUpperDigit a.val = hexUpperDigit b.val → a = b := by decide
  have := key ⟨a, ha⟩ ⟨b, hb⟩ h
  exact Fin.mk.inj this

theorem hexUpper_inj : ∀ {a b : Bytes}, hexUpper a = hexUpper b → a = b
  | [], [] => fun _ => rfl
  | [], _ :: _ => by simp [hexUpper]
  | _ :: _, [] => by simp [hexUpper]
  | x :: xs, y :: ys => by
    intro h
    simp only [hexUpper, List.flatMap_cons, List.cons_append, List.nil_append, List.cons.injEq] at h
    obtain ⟨h1, h2, h3⟩ := h
    have hx := x.toNat_lt
    have hy := y.toNat_lt
    have e1 := hexUpperDigit_inj (by omega) (by omega) h1
    have e2 := hexUpperDigit_inj (by omega) (by omega) h2
    have : x = y := UInt8.toNat_inj.mp (by omega)
    rw [this, hexUpper_inj (a := xs) (b := ys) (by simpa [hexUpper] using h3)]

theorem hexUpper_eq_nil {a : Bytes} : hexUpper a = [] ↔ a = [] := by
  cases a <;> simp [hexUpper]

theorem heightKey_toList : heightKey.toList = ['/', 't'] := by decide
theorem stateKey_toList : stateKey.toList = ['/', 's'] := by decide
theorem headerKey_toList (h : Nat) : (headerKey h).toList = '/' :: 'h' :: '/' :: (Nat.repr h).toList := by
  have : "/h/".toList = ['/', 'h', '/'] := by decide
  simp [headerKey, String.toList_append, this]
theorem dataKey_toList (h : Nat) : (dataKey h).toList = '/' :: 'd' :: '/' :: (Nat.repr h).toList := by
  have : "/d/".toList = ['/', 'd', '/'] := by decide
  simp [dataKey, String.toList_append, this]
theorem signatureKey_toList (h : Nat) : (signatureKey h).toList = '/' :: 'c' :: '/' :: (Nat.repr h).toList := by
  have : "/c/".toList = ['/', 'c', '/'] := by decide
  simp [signatureKey, String.toList_append, this]
theorem indexKey_toList (x : Bytes) :
    (indexKey x).toList = if x = [] then ['/', 'i'] else '/' :: 'i' :: '/' :: hexUpper x := by
  have h1 : "/i/".toList = ['/', 'i', '/'] := by decide
  have h2 : "/i".toList = ['/', 'i'] := by decide
  unfold indexKey
  split <;> simp [String.toList_append, h1, h2]
theorem metaKey_of_ok {k : String} (h : metaKeyOK k = true) : metaKey k = "/m/" ++ k := by
  simp [metaKey, h]
theorem metaKey_toList {k : String} (h : metaKeyOK k = true) :
    (metaKey k).toList = '/' :: 'm' :: '/' :: k.toList := by
  have : "/m/".toList = ['/', 'm', '/'] := by decide
  simp [metaKey_of_ok h, String.toList_append, this]

/-- **key injectivity and pairwise disjointness**: two keys of the store (any heights, any hashes,
any metadata keys that `path.Clean` leaves alone) are the same string only if they are the same
kind of record for the same height / hash / metadata key. -/
theorem Key.str_inj {a b : Key} (ha : a.OK) (hb : b.OK) (h : a.str = b.str) : a = b := by
  have hl := congrArg String.toList h
  cases a <;> cases b <;>
    simp only [Key.str, Key.OK, heightKey_toList, stateKey_toList, headerKey_toList, dataKey_toList,
      signatureKey_toList, indexKey_toList] at hl ha hb <;>
    (try rw [metaKey_toList ha] at hl) <;> (try rw [metaKey_toList hb] at hl) <;>
    (try split at hl) <;> (try split at hl) <;>
    (try (simp at hl; done)) <;> (try rfl)
  · simp only [List.cons.injEq, true_and, String.toList_inj] at hl
    rw [Nat.repr_inj.mp hl]
  · simp only [List.cons.injEq, true_and, String.toList_inj] at hl
    rw [Nat.repr_inj.mp hl]
  · simp only [List.cons.injEq, true_and, String.toList_inj] at hl
    rw [Nat.repr_inj.mp hl]
  · simp_all
  · simp only [List.cons.injEq, true_and] at hl
    rw [hexUpper_inj hl]
  · simp only [List.cons.injEq, true_and, String.toList_inj] at hl
    rw [hl]

end Store
